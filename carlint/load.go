package main

import (
	"fmt"
	"go/ast"
	"go/token"
	"go/types"
	"os"
	"path/filepath"
	"sort"
	"strings"

	"golang.org/x/tools/go/callgraph"
	"golang.org/x/tools/go/callgraph/cha"
	"golang.org/x/tools/go/callgraph/vta"
	"golang.org/x/tools/go/packages"
	"golang.org/x/tools/go/ssa"
	"golang.org/x/tools/go/ssa/ssautil"
)

// Module paths of the three modules living in the repository.
const (
	modRoot = "github.com/ipld/go-car"
	modV2   = "github.com/ipld/go-car/v2"
	modCmd  = "github.com/ipld/go-car/cmd"
)

// expected non-test packages of the repository (checked on every load: a static
// tool sees only what was parsed).
var expectedPkgs = []string{
	modRoot,
	modRoot + "/util",
	modCmd + "/car",
	modCmd + "/car/lib",
	modV2,
	modV2 + "/blockstore",
	modV2 + "/index",
	modV2 + "/internal/carv1",
	modV2 + "/internal/carv1/util",
	modV2 + "/internal/errsort",
	modV2 + "/internal/io",
	modV2 + "/internal/loader",
	modV2 + "/internal/store",
	modV2 + "/storage",
	modV2 + "/storage/deferred",
}

// Ctx is one loaded, type-checked, SSA-built view of the repository's current
// working tree.
type Ctx struct {
	Repo    string
	Fset    *token.FileSet
	Pkgs    map[string]*packages.Package // repo packages by import path
	Prog    *ssa.Program
	SSA     map[string]*ssa.Package
	AllPkgs []*packages.Package
	// statistics
	NFuncs int
	// normalisation log: which new helpers were inlined back where (inline.go)
	InlineLog []string

	cg        *callgraph.Graph
	pit       []pitfall
	allObs    map[string][]Obligation
	grd       []guard
	sib       []sibUse
	ord       map[string]map[string]int
	ordCount  map[string]map[string]int
	funcLines map[string][]funcSpan
	reach     map[string]map[string]bool
	deadNew   map[*types.Func]bool
	succ      map[string]*ssa.Function
}

// Callees resolves a call instruction through the VTA call graph built over the
// repository's own functions (seeded with CHA).
func (c *Ctx) ensureCG() {
	if c.cg == nil {
		funcs := map[*ssa.Function]bool{}
		for _, fn := range c.RepoFuncs() {
			funcs[fn] = true
		}
		c.cg = vta.CallGraph(funcs, cha.CallGraph(c.Prog))
	}
}

func (c *Ctx) Callees(ci ssa.CallInstruction) []*ssa.Function {
	c.ensureCG()
	n := c.cg.Nodes[ci.Parent()]
	if n == nil {
		return nil
	}
	var out []*ssa.Function
	for _, e := range n.Out {
		if e.Site == ci && e.Callee != nil && e.Callee.Func != nil {
			out = append(out, e.Callee.Func)
		}
	}
	return out
}

type LoadOpts struct {
	Repo      string
	Overlay   map[string][]byte // absolute path -> content (seeded variants)
	AllSyntax bool              // load dependencies with syntax too (whole-program)
	GOARCH    string
	NoInline  bool // skip the new-helper normalisation (used to generate the baseline table)
}

func isRepoPkg(path string) bool {
	return path == modRoot || strings.HasPrefix(path, modRoot+"/")
}

// resetProgramCaches drops every package-level table keyed by objects of a loaded program. The
// thorough tier loads several hundred variants of the tree in one process; a cache that is never
// emptied keeps every one of those programs alive (64 GB after some five hundred loads).
func resetProgramCaches() {
	liveCache = map[*ssa.Function]map[*ssa.BasicBlock]bool{}
	relMergeCache = map[*ssa.Function][]*ssa.BasicBlock{}
	allLenSums = map[*ssa.Phi]bool{}
	ctorCache.c, ctorCache.m = nil, nil
	lockCache.c, lockCache.la = nil, nil
	setOnce = map[*types.Var][]ssa.Value{}
	globalInit = map[*ssa.Global]ssa.Value{}
	globalFieldInit = map[*ssa.Global]map[*types.Var]ssa.Value{}
	transitiveWritersMemo = nil
	newFuncCallSites = map[*ssa.Function][]ssa.CallInstruction{}
}

// Load loads the working tree; when it contains unexported functions that the
// pinned tree does not have, calls to them are inlined back (inline.go) and the
// tree is loaded again from the rewritten overlay, up to four rounds.
func Load(o LoadOpts) (*Ctx, error) {
	if o.Repo == "" {
		o.Repo = "/repo"
	}
	var log []string
	var prev *Ctx
	unembedded := false
	canonDone := false
	funcRenames = map[string]string{}
	resetProgramCaches()
	for round := 1; ; round++ {
		c, err := loadOnce(o)
		if err != nil {
			if prev != nil {
				// The rewritten sources do not type-check: a limitation of the inliner, not a
				// property of the tree. Fall back to the last program that did load.
				prev.InlineLog = append(log, fmt.Sprintf("normalisation round %d abandoned, analysing the program of round %d: %v", round-1, round-2, err))
				prev.deadNew = nil
				return prev, nil
			}
			return nil, err
		}
		if round == 1 && !o.NoInline {
			// pinned functions under a new name, before anything is taken for a new helper (funcrename.go)
			log = append(log, computeFuncRenames(c.AllPkgs)...)
			c.deadNew = nil
		}
		c.InlineLog = log
		if o.NoInline || round > 8 {
			return c, nil
		}
		if !canonDone {
			// other spellings of the library calls the rules know, first (canonapi.go)
			canonDone = true
			if add0, l0, err := canonicaliseAPIs(c.Fset, c.AllPkgs, o.Overlay); err == nil && len(add0) > 0 {
				log = append(log, l0...)
				c.InlineLog = log
				ov := map[string][]byte{}
				for k, v := range o.Overlay {
					ov[k] = v
				}
				for k, v := range add0 {
					ov[k] = v
				}
				o.Overlay = ov
				prev = c
				continue
			}
		}
		add, l, err := normaliseNewHelpers(c.Fset, c.AllPkgs, o.Overlay, round)
		if err != nil {
			c.InlineLog = append(log, "normalisation failed: "+err.Error())
			return c, nil
		}
		log = append(log, l...)
		c.InlineLog = log
		if len(add) == 0 && !unembedded {
			// no helper left to inline: flatten new grouping structs, once
			unembedded = true
			var ul []string
			add, ul, err = unembedNewStructs(c.Fset, c.AllPkgs, o.Overlay)
			if err != nil {
				c.InlineLog = append(log, "flattening failed: "+err.Error())
				return c, nil
			}
			log = append(log, ul...)
			c.InlineLog = log
		}
		if len(add) == 0 {
			return c, nil
		}
		ov := map[string][]byte{}
		for k, v := range o.Overlay {
			ov[k] = v
		}
		for k, v := range add {
			ov[k] = v
		}
		o.Overlay = ov
		prev = c
	}
}

func loadOnce(o LoadOpts) (*Ctx, error) {
	dir, err := os.MkdirTemp("", "carlint-umbrella")
	if err != nil {
		return nil, err
	}
	defer os.RemoveAll(dir)
	gomod := fmt.Sprintf(`module umbrella

go 1.23.0

require %[2]s v0.0.0
require %[3]s v2.14.2
require %[4]s v0.6.2

replace %[2]s => %[1]s/cmd
replace %[3]s => %[1]s/v2
replace %[4]s => %[1]s
`, o.Repo, modCmd, modV2, modRoot)
	if err := os.WriteFile(filepath.Join(dir, "go.mod"), []byte(gomod), 0o644); err != nil {
		return nil, err
	}
	var sum []byte
	for _, f := range []string{"go.sum", "v2/go.sum", "cmd/go.sum"} {
		b, err := os.ReadFile(filepath.Join(o.Repo, f))
		if err != nil {
			return nil, err
		}
		sum = append(sum, b...)
		if len(b) > 0 && b[len(b)-1] != '\n' {
			sum = append(sum, '\n')
		}
	}
	if err := os.WriteFile(filepath.Join(dir, "go.sum"), sum, 0o644); err != nil {
		return nil, err
	}
	mode := packages.LoadSyntax | packages.NeedModule
	if o.AllSyntax {
		mode = packages.LoadAllSyntax | packages.NeedModule
	}
	env := []string{}
	for _, e := range os.Environ() {
		if strings.HasPrefix(e, "GOWORK=") || strings.HasPrefix(e, "GOFLAGS=") || strings.HasPrefix(e, "GOARCH=") {
			continue
		}
		env = append(env, e)
	}
	env = append(env, "GOFLAGS=-mod=mod", "GOPROXY=off", "GOSUMDB=off", "GOWORK=off", "GOTOOLCHAIN=local")
	if o.GOARCH != "" {
		env = append(env, "GOARCH="+o.GOARCH)
	}
	fset := token.NewFileSet()
	cfg := &packages.Config{
		Mode:    mode,
		Dir:     dir,
		Env:     env,
		Fset:    fset,
		Overlay: o.Overlay,
		Tests:   false,
	}
	pkgs, err := packages.Load(cfg, modRoot+"/...", modV2+"/...", modCmd+"/...")
	if err != nil {
		return nil, fmt.Errorf("packages.Load: %w", err)
	}
	c := &Ctx{Repo: o.Repo, Fset: fset, Pkgs: map[string]*packages.Package{}, SSA: map[string]*ssa.Package{}}
	var errs []string
	packages.Visit(pkgs, nil, func(p *packages.Package) {
		for _, e := range p.Errors {
			errs = append(errs, p.PkgPath+": "+e.Error())
		}
	})
	if len(errs) > 0 {
		sort.Strings(errs)
		if len(errs) > 8 {
			errs = errs[:8]
		}
		return nil, fmt.Errorf("load/type errors:\n  %s", strings.Join(errs, "\n  "))
	}
	for _, p := range pkgs {
		if !isRepoPkg(p.PkgPath) {
			continue
		}
		if len(p.GoFiles) == 0 {
			continue
		}
		if !strings.HasPrefix(p.GoFiles[0], o.Repo+"/") {
			return nil, fmt.Errorf("package %s resolved outside the working tree: %s", p.PkgPath, p.GoFiles[0])
		}
		c.Pkgs[p.PkgPath] = p
	}
	for _, want := range expectedPkgs {
		if c.Pkgs[want] == nil {
			return nil, fmt.Errorf("expected repository package %s was not loaded", want)
		}
	}
	c.AllPkgs = pkgs
	// SSA bodies for repository packages (and, in whole-program mode, for every
	// package that came with syntax and type information); everything else is
	// created from its type information only. (ssautil.AllPackages would hand the
	// builder syntax without TypesInfo for dependencies re-parsed because of an
	// overlay.)
	prog := ssa.NewProgram(fset, ssa.InstantiateGenerics)
	packages.Visit(pkgs, nil, func(p *packages.Package) {
		if p.Types == nil || p.IllTyped {
			return
		}
		if p.TypesInfo != nil && len(p.Syntax) > 0 && (isRepoPkg(p.PkgPath) || o.AllSyntax) {
			prog.CreatePackage(p.Types, p.Syntax, p.TypesInfo, true)
		} else {
			prog.CreatePackage(p.Types, nil, nil, true)
		}
	})
	prog.Build()
	c.Prog = prog
	for path, p := range c.Pkgs {
		sp := prog.Package(p.Types)
		if sp == nil {
			return nil, fmt.Errorf("no SSA package for %s", path)
		}
		c.SSA[path] = sp
	}
	for fn := range ssautil.AllFunctions(prog) {
		if fn.Pkg != nil && isRepoPkg(fn.Pkg.Pkg.Path()) && fn.Blocks != nil {
			c.NFuncs++
		}
	}
	computeTypeRenames(c)
	computeSetOnce(c)
	computeImmutableGlobals(c)
	c.deadNew = nil // computed before the normalisation log is attached: recompute on first use
	return c, nil
}

// typeRenames: an unexported type of the pinned tree that is gone, and the one new type of the same
// package with the same fields that took its place (a rename). Key "pkg\told" -> new name. Set by
// the latest load; the rules name types by their pinned names and resolve through curTypeName.
var typeRenames = map[string]string{}

func computeTypeRenames(c *Ctx) {
	typeRenames = map[string]string{}
	typeMoves = map[string][2]string{}
	for key := range baselineTypes {
		pkg, name, ok := strings.Cut(key, "\t")
		if !ok || strings.HasPrefix(name, "var:") || strings.HasPrefix(name, "field:") || name == "" || ast.IsExported(name) {
			continue
		}
		p := c.Pkgs[pkg]
		if p == nil || p.Types.Scope().Lookup(name) != nil {
			continue
		}
		// the fields the old type had are not recorded; take the new struct type of the package whose
		// methods cover the methods the rules and the baseline know for the old one
		want := map[string]bool{}
		for fk := range baselineFuncs {
			f := strings.Split(fk, "\t")
			if len(f) == 3 && f[0] == pkg && f[1] == name {
				want[f[2]] = true
			}
		}
		var cands []string
		sc := p.Types.Scope()
		for _, n := range sc.Names() {
			tn, ok := sc.Lookup(n).(*types.TypeName)
			if !ok || baselineTypes[pkg+"\t"+n] || tn.IsAlias() {
				continue
			}
			named, ok := tn.Type().(*types.Named)
			if !ok {
				continue
			}
			have := map[string]bool{}
			for i := 0; i < named.NumMethods(); i++ {
				have[named.Method(i).Name()] = true
			}
			all := true
			for m := range want {
				if !have[m] {
					all = false
				}
			}
			if all && (len(want) > 0 || named.NumMethods() == 0) {
				cands = append(cands, n)
			}
		}
		if len(cands) == 1 {
			typeRenames[key] = cands[0]
			continue
		}
		// moved into another package of the repository (and exported there, if it had to be): the one
		// new type anywhere that has all the methods the pinned type had
		if len(cands) == 0 && len(want) > 0 {
			var moved [][2]string
			for pp, q := range c.Pkgs {
				if pp == pkg {
					continue
				}
				sc2 := q.Types.Scope()
				for _, n := range sc2.Names() {
					tn, ok := sc2.Lookup(n).(*types.TypeName)
					if !ok || baselineTypes[pp+"\t"+n] || tn.IsAlias() {
						continue
					}
					named, ok := tn.Type().(*types.Named)
					if !ok {
						continue
					}
					have := map[string]bool{}
					for i := 0; i < named.NumMethods(); i++ {
						have[named.Method(i).Name()] = true
					}
					all := true
					for m := range want {
						if !have[m] {
							all = false
						}
					}
					if all && strings.EqualFold(n, name) {
						moved = append(moved, [2]string{pp, n})
					}
				}
			}
			if len(moved) == 1 {
				typeMoves[key] = moved[0]
			}
		}
	}
}

// typeMoves: an unexported type of the pinned tree that now lives in another package of the
// repository. Key "pkg\told" -> (new package path, new name).
var typeMoves = map[string][2]string{}

// movedTypeTarget reports whether pkg.name is where a pinned type moved to.
func movedTypeTarget(pkg, name string) (string, bool) {
	for k, v := range typeMoves {
		if v[0] == pkg && v[1] == name {
			return k, true
		}
	}
	return "", false
}

// curTypeName: the name the pinned type pkg.name has in the loaded tree.
func curTypeName(pkg, name string) string {
	if n, ok := typeRenames[pkg+"\t"+name]; ok {
		return n
	}
	return name
}

// ---- anchor resolution -----------------------------------------------------

// Func resolves a package-level function or a method by (package path, receiver
// type name, name). recv is "" for functions; for methods it is the bare type
// name (pointer-ness is resolved from the declaration).
func (c *Ctx) Func(pkg, recv, name string) (*ssa.Function, error) {
	fn, err := c.funcExact(pkg, recv, name)
	if err == nil {
		return fn, nil
	}
	// the pinned function under a new name (funcrename.go)
	for nk, ok := range funcRenames {
		if ok == pkg+"\t"+recv+"\t"+name {
			if f := strings.Split(nk, "\t"); len(f) == 3 {
				if fn2, err2 := c.funcExact(f[0], f[1], f[2]); err2 == nil {
					return fn2, nil
				}
			}
		}
	}
	// An unexported anchor of the pinned tree that is gone: renamed, merged with a
	// sibling, or turned into a method. Its successor is the new function of the same
	// package whose set of callees resembles the anchor's most (baseline fingerprint).
	if succ := c.successor(pkg, recv, name); succ != nil {
		return succ, nil
	}
	return nil, err
}

func (c *Ctx) successor(pkg, recv, name string) *ssa.Function {
	key := pkg + "\t" + recv + "\t" + name
	want, ok := baselineFingerprint[key]
	if !ok || len(want) == 0 || ast.IsExported(name) {
		return nil
	}
	if c.succ == nil {
		c.succ = map[string]*ssa.Function{}
	}
	if f, done := c.succ[key]; done {
		return f
	}
	p := c.Pkgs[pkg]
	var best *ssa.Function
	bestScore, second := 0.0, 0.0
	if p != nil {
		for _, f := range p.Syntax {
			for _, d := range f.Decls {
				fd, ok := d.(*ast.FuncDecl)
				if !ok || fd.Body == nil || baselineFuncs[declKey(pkg, fd)] {
					continue
				}
				obj, _ := p.TypesInfo.Defs[fd.Name].(*types.Func)
				if obj == nil {
					continue
				}
				fn := c.Prog.FuncValue(obj)
				if fn == nil {
					continue
				}
				got := calleeFingerprint(fn)
				inter := 0
				for k := range want {
					if got[k] {
						inter++
					}
				}
				union := len(want) + len(got) - inter
				if union == 0 {
					continue
				}
				sc := float64(inter) / float64(union)
				// containment also counts: two merged siblings contain each of them
				if cont := float64(inter) / float64(len(want)); cont > 0.8 && sc < cont*0.75 {
					sc = cont * 0.75
				}
				if sc > bestScore {
					best, second, bestScore = fn, bestScore, sc
				} else if sc > second {
					second = sc
				}
			}
		}
	}
	if best == nil || bestScore < 0.5 || bestScore-second < 0.1 {
		best = nil
	} else {
		c.InlineLog = append(c.InlineLog, fmt.Sprintf("anchor %s.%s.%s is gone; analysing its successor %s (callee-set similarity %.2f)", shortPkg(pkg), recv, name, fnKey(best), bestScore))
	}
	c.succ[key] = best
	return best
}

// calleeFingerprint: the set of functions and methods a function (with its closures) calls.
func calleeFingerprint(fn *ssa.Function) map[string]bool {
	out := map[string]bool{}
	for _, g := range withAnon(fn) {
		eachInstr(g, func(in ssa.Instruction) {
			ci, ok := in.(ssa.CallInstruction)
			if !ok {
				return
			}
			cc := ci.Common()
			if cc.IsInvoke() {
				out["invoke:"+cc.Method.Name()] = true
				return
			}
			if f := calleeFunc(cc); f != nil {
				out[funcKey(f)] = true
			}
		})
	}
	return out
}

func (c *Ctx) funcExact(pkg, recv, name string) (*ssa.Function, error) {
	sp := c.SSA[pkg]
	if sp == nil {
		return nil, fmt.Errorf("anchor: package %s not loaded", pkg)
	}
	if recv == "" {
		fn := sp.Func(name)
		if fn == nil {
			return nil, fmt.Errorf("anchor: func %s.%s not found", pkg, name)
		}
		return fn, nil
	}
	obj := sp.Pkg.Scope().Lookup(curTypeName(pkg, recv))
	if mv, moved := typeMoves[pkg+"\t"+recv]; moved && obj == nil {
		if sp2 := c.SSA[mv[0]]; sp2 != nil {
			obj = sp2.Pkg.Scope().Lookup(mv[1])
		}
	}
	tn, ok := obj.(*types.TypeName)
	if !ok {
		return nil, fmt.Errorf("anchor: type %s.%s not found", pkg, recv)
	}
	named, ok := tn.Type().(*types.Named)
	if !ok {
		return nil, fmt.Errorf("anchor: %s.%s is not a named type", pkg, recv)
	}
	for i := 0; i < named.NumMethods(); i++ {
		m := named.Method(i)
		if m.Name() == name {
			fn := c.Prog.FuncValue(m)
			if fn == nil {
				return nil, fmt.Errorf("anchor: no SSA for method %s.%s.%s", pkg, recv, name)
			}
			return fn, nil
		}
	}
	return nil, fmt.Errorf("anchor: method %s.%s.%s not found", pkg, recv, name)
}

// Named returns the named type pkg.name.
func (c *Ctx) Named(pkg, name string) (*types.Named, error) {
	p := c.Pkgs[pkg]
	if p == nil {
		return nil, fmt.Errorf("anchor: package %s not loaded", pkg)
	}
	tn, ok := p.Types.Scope().Lookup(name).(*types.TypeName)
	if !ok {
		return nil, fmt.Errorf("anchor: type %s.%s not found", pkg, name)
	}
	n, ok := tn.Type().(*types.Named)
	if !ok {
		return nil, fmt.Errorf("anchor: %s.%s not a named type", pkg, name)
	}
	return n, nil
}

// RepoFuncs returns every function with a body defined in repository packages,
// including anonymous functions, sorted by position.
// deadNewHelpers: unexported functions that the pinned tree does not have and that
// nothing in the (normalised) program refers to any more.
func (c *Ctx) deadNewHelpers() map[*types.Func]bool {
	if c.deadNew != nil {
		return c.deadNew
	}
	c.deadNew = map[*types.Func]bool{}
	if len(c.InlineLog) == 0 {
		return c.deadNew
	}
	used := map[types.Object]bool{}
	for _, p := range c.Pkgs {
		for _, o := range p.TypesInfo.Uses {
			used[o] = true
		}
	}
	for path, p := range c.Pkgs {
		for _, f := range p.Syntax {
			for _, d := range f.Decls {
				fd, ok := d.(*ast.FuncDecl)
				if !ok || baselineFuncs[declKey(path, fd)] {
					continue
				}
				if fd.Name.IsExported() && (fd.Recv != nil || !strings.Contains(path+"/", "/internal/")) {
					continue
				}
				if o, ok := p.TypesInfo.Defs[fd.Name].(*types.Func); ok && !used[o] {
					c.deadNew[o] = true
				}
			}
		}
	}
	return c.deadNew
}

func (c *Ctx) RepoFuncs() []*ssa.Function {
	var out []*ssa.Function
	seen := map[*ssa.Function]bool{}
	var add func(fn *ssa.Function)
	dead := c.deadNewHelpers()
	add = func(fn *ssa.Function) {
		if fn == nil || seen[fn] || fn.Blocks == nil {
			return
		}
		if o, ok := fn.Object().(*types.Func); ok && dead[o] {
			return // a new helper whose every call was inlined back: its body now lives in its callers
		}
		seen[fn] = true
		out = append(out, fn)
		for _, a := range fn.AnonFuncs {
			add(a)
		}
	}
	for _, sp := range c.SSA {
		for _, m := range sp.Members {
			switch m := m.(type) {
			case *ssa.Function:
				add(m)
			case *ssa.Type:
				if n, ok := m.Type().(*types.Named); ok {
					for i := 0; i < n.NumMethods(); i++ {
						add(c.Prog.FuncValue(n.Method(i)))
					}
				}
			}
		}
	}
	sort.Slice(out, func(i, j int) bool {
		pi, pj := c.Fset.Position(out[i].Pos()), c.Fset.Position(out[j].Pos())
		if pi.Filename != pj.Filename {
			return pi.Filename < pj.Filename
		}
		if pi.Offset != pj.Offset {
			return pi.Offset < pj.Offset
		}
		return out[i].String() < out[j].String()
	})
	return out
}

// Pos renders a position relative to the repository root.
func (c *Ctx) Pos(p token.Pos) string {
	if !p.IsValid() {
		return "?"
	}
	pp := c.Fset.Position(p)
	f := strings.TrimPrefix(pp.Filename, c.Repo+"/")
	return fmt.Sprintf("%s:%d", f, pp.Line)
}
