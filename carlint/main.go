// carlint decides structural clauses of the go-car properties C01..C20 from the
// type-checked SSA of /repo's current working tree. It never executes the code
// under analysis.
package main

import (
	"flag"
	"fmt"
	"os"
	"runtime/debug"
	"sort"
	"strconv"
	"strings"
	"time"
)

var registry = map[string]PropertyDef{}

// verifDir is the verification directory (evidence, known findings, stored seeded changes).
var verifDir = "/verif"

func register(p PropertyDef) { registry[p.ID] = p }

func runRules(def PropertyDef, c *Ctx) *Report {
	rep := &Report{Property: def.ID}
	for _, rd := range def.Rules {
		rep.cur = rd.ID
		func() {
			defer func() {
				if e := recover(); e != nil {
					rep.InfraFail("analyser panic: %v\n%s", e, debug.Stack())
				}
			}()
			rd.Run(c, rep)
		}()
	}
	return rep
}

func main() {
	prop := flag.String("property", "", "property id (C01..C20) or 'all'")
	tier := flag.String("tier", "quick", "quick|thorough")
	repo := flag.String("repo", "/repo", "repository working tree")
	verif := flag.String("verif", "/verif", "verification directory (evidence, KNOWN_FINDINGS.txt)")
	list := flag.Bool("list", false, "list implemented properties")
	dump := flag.String("dump", "", "debug: print the SSA of pkg:recv:name (recv may be empty) and exit")
	rules := flag.Bool("rules", false, "print the rule inventory (markdown) and exit")
	warm := flag.Bool("warm", false, "load the repository once (fills the build cache) and exit")
	flag.Parse()
	if *rules {
		var ids []string
		for id := range registry {
			ids = append(ids, id)
		}
		sort.Strings(ids)
		fmt.Println("| property | rule | what it requires of the source | confirmed instances |")
		fmt.Println("|---|---|---|---|")
		for _, id := range ids {
			for _, rd := range registry[id].Rules {
				fmt.Printf("| %s | %s | %s | %d |\n", id, rd.ID, rd.Doc, rd.Floor)
			}
		}
		return
	}
	verifDir = *verif
	if *warm {
		if _, err := Load(LoadOpts{Repo: *repo}); err != nil {
			fmt.Fprintln(os.Stderr, "carlint: warm-up load failed:", err)
			os.Exit(2)
		}
		fmt.Println("carlint: warm")
		return
	}
	if *dump != "" {
		dumpFunc(*repo, *dump)
		return
	}
	if *list {
		var ids []string
		for id := range registry {
			ids = append(ids, id)
		}
		sort.Strings(ids)
		for _, id := range ids {
			fmt.Println(id, len(registry[id].Rules), "rules")
		}
		return
	}
	if t := os.Getenv("VERIF_TIER"); t != "" && *tier == "" {
		*tier = t
	}
	seed, _ := strconv.Atoi(os.Getenv("VERIF_SEED"))
	var ids []string
	if *prop == "all" {
		for id := range registry {
			ids = append(ids, id)
		}
		sort.Strings(ids)
	} else {
		if _, ok := registry[*prop]; !ok {
			fmt.Fprintf(os.Stderr, "carlint: unknown property %q\n", *prop)
			os.Exit(2)
		}
		ids = []string{*prop}
	}
	t0 := time.Now()
	c, err := Load(LoadOpts{Repo: *repo, AllSyntax: false})
	if err != nil {
		// A tree that does not load or type-check cannot be decided.
		fmt.Fprintln(os.Stderr, "carlint: cannot load the repository:", err)
		os.Exit(2)
	}
	loadS := time.Since(t0).Seconds()
	exit := 0
	for _, id := range ids {
		def := registry[id]
		t1 := time.Now()
		rep := runRules(def, c)
		extra := map[string]any{"load_s": loadS}
		if *tier == "thorough" {
			thorough(def, rep, *repo, extra)
		}
		wall := time.Since(t1).Seconds() + loadS
		e := finish(def, rep, c, *tier, seed, wall, *verif, extra)
		if e > exit {
			exit = e
		}
	}
	os.Exit(exit)
}

func dumpFunc(repo, spec string) {
	parts := strings.Split(spec, ":")
	if len(parts) != 3 {
		fmt.Fprintln(os.Stderr, "want pkg:recv:name")
		os.Exit(2)
	}
	c, err := Load(LoadOpts{Repo: repo})
	if err != nil {
		fmt.Fprintln(os.Stderr, err)
		os.Exit(2)
	}
	pkg := parts[0]
	switch {
	case pkg == "root":
		pkg = modRoot
	case pkg == "v2":
		pkg = modV2
	case strings.HasPrefix(pkg, "v2/"):
		pkg = modV2 + pkg[2:]
	case strings.HasPrefix(pkg, "cmd/"):
		pkg = modCmd + pkg[3:]
	case strings.HasPrefix(pkg, "root/"):
		pkg = modRoot + pkg[4:]
	}
	fn, err := c.Func(pkg, parts[1], parts[2])
	if err != nil {
		fmt.Fprintln(os.Stderr, err)
		os.Exit(2)
	}
	for _, f := range withAnon(fn) {
		f.WriteTo(os.Stdout)
	}
}
