package main

// Language-level pitfalls (round 9): constructs that Go makes easy to write, that compile, that the
// test suite does not notice, and that change what the surrounding function does — an unlabelled
// `break` that only leaves a `switch`, an `append` that writes into the caller's backing array, an error
// that is tested and then lost on the failure branch, a result stored before its error is looked at,
// a limit compared in signed arithmetic, ...
//
// Each kind is decided from the syntax tree or the SSA form of the function it sits in. Today's tree
// is the reference (baseline_pitfalls.txt, generated on the pinned tree by `-genbaselinepitfalls` and
// read through by hand): a function may hold as many instances of a kind as it holds there, and a
// further one is reported. The rule is registered under every property as R<nn>P and reports, for that
// property, the instances in the functions its anchor files declare or reach through the call graph:
// a pitfall in code the property's behaviour runs through is a necessary-condition violation for it.

import (
	_ "embed"
	"fmt"
	"go/ast"
	"go/constant"
	"go/token"
	"go/types"
	"sort"
	"strings"

	"golang.org/x/tools/go/ssa"
)

//go:embed baseline_pitfalls.txt
var baselinePitfallsTxt string

var baselinePitfalls = func() map[string]int {
	m := map[string]int{}
	for _, l := range strings.Split(baselinePitfallsTxt, "\n") {
		l = strings.TrimSpace(l)
		if l == "" || strings.HasPrefix(l, "#") {
			continue
		}
		f := strings.Split(l, "\t")
		if len(f) != 4 {
			continue
		}
		n := 0
		fmt.Sscanf(f[3], "%d", &n)
		m[f[0]+"\t"+f[1]+"\t"+f[2]] = n
	}
	return m
}()

// propAnchorFiles: the files each property is anchored in (properties.jsonl, which is fixed).
var propAnchorFiles = map[string][]string{
	"C01": {"car.go", "util/util.go", "v2/block_reader.go", "v2/blockstore/readonly.go", "v2/blockstore/readwrite.go", "v2/internal/carv1/car.go", "v2/internal/carv1/util/util.go", "v2/reader.go", "v2/storage/deferred/deferredcarwriter.go", "v2/storage/storage.go"},
	"C02": {"car.go", "util/util.go", "v2/block_reader.go", "v2/internal/carv1/car.go", "v2/internal/carv1/util/util.go", "v2/reader.go"},
	"C03": {"v2/index/index.go", "v2/index/indexsorted.go", "v2/index/insertionindex.go", "v2/index/mhindexsorted.go", "v2/index_gen.go", "v2/internal/io/converter.go"},
	"C04": {"v2/blockstore/readonly.go", "v2/blockstore/readwrite.go", "v2/index/insertionindex.go", "v2/internal/store/identity.go", "v2/internal/store/index.go", "v2/internal/store/indexcheck.go", "v2/storage/storage.go"},
	"C05": {"cmd/car/lib/verify.go", "v2/blockstore/readwrite.go", "v2/car.go", "v2/index/insertionindex.go", "v2/internal/store/index.go", "v2/reader.go", "v2/storage/storage.go"},
	"C06": {"v2/blockstore/readwrite.go", "v2/internal/carv1/util/util.go", "v2/internal/io/offset_write_seeker.go", "v2/internal/store/index.go", "v2/internal/store/resume.go", "v2/storage/storage.go"},
	"C07": {"v2/blockstore/readonly.go", "v2/index/index.go", "v2/internal/store/index.go", "v2/reader.go", "v2/storage/storage.go"},
	"C08": {"v2/blockstore/readonly.go", "v2/blockstore/readwrite.go", "v2/index/insertionindex.go", "v2/storage/deferred/deferredcarwriter.go", "v2/storage/storage.go"},
	"C09": {"util/util.go", "v2/block_reader.go", "v2/car.go", "v2/index/indexsorted.go", "v2/index/mhindexsorted.go", "v2/index_gen.go", "v2/internal/carv1/car.go", "v2/internal/carv1/util/util.go", "v2/internal/io/offset_read_seeker.go", "v2/options.go", "v2/reader.go", "v2/writer.go"},
	"C10": {"v2/car.go", "v2/index_gen.go", "v2/reader.go", "v2/writer.go"},
	"C11": {"v2/index/index.go", "v2/index/indexsorted.go", "v2/index/insertionindex.go", "v2/index/mhindexsorted.go"},
	"C12": {"v2/blockstore/readwrite.go", "v2/internal/carv1/car.go", "v2/internal/store/resume.go", "v2/storage/storage.go"},
	"C13": {"cmd/car/lib/inspect.go", "v2/block_reader.go", "v2/reader.go"},
	"C14": {"v2/block_reader.go"},
	"C15": {"car.go", "selectivecar.go", "v2/internal/loader/counting_loader.go", "v2/internal/loader/writing_loader.go", "v2/selective.go"},
	"C16": {"v2/blockstore/readwrite.go", "v2/internal/carv1/util/util.go", "v2/internal/io/offset_write_seeker.go", "v2/internal/store/index.go", "v2/storage/storage.go"},
	"C17": {"cmd/car/extract.go", "cmd/car/lib/extract.go"},
	"C18": {"cmd/car/create.go", "cmd/car/extract.go", "cmd/car/lib/extract.go", "v2/blockstore/readwrite.go", "v2/writer.go"},
	"C19": {"cmd/car/concat.go", "cmd/car/detach.go", "cmd/car/filter.go", "cmd/car/get.go", "cmd/car/index.go", "cmd/car/lib/filter.go", "cmd/car/lib/inspect.go", "cmd/car/lib/root.go", "cmd/car/lib/verify.go", "cmd/car/list.go"},
	"C20": {"v2/storage/deferred/deferredcarwriter.go", "v2/storage/storage.go"},
}

// propExtraFiles: files beside the anchors of properties.jsonl whose functions the property's
// behaviour runs through although no call from the anchor files reaches them (the other side of an
// agreement the property states), one line of reason each.
var propExtraFiles = map[string][]string{
	"C01": {"selectivecar.go"},                                                                // SelectiveCar Write/Dump is the root module's other writer
	"C02": {"cmd/car/lib/verify.go", "v2/internal/store/resume.go"},                           // `car verify` is the command-line scanning reader; Resume is the scan that decides what a reopened store serves
	"C10": {"cmd/car/index.go"},                                                               // `car index` is the command-line wrap (and its --version 1 the extraction)
	"C03": {"v2/internal/store/resume.go", "v2/writer.go", "v2/internal/store/indexcheck.go"}, // Resume rebuilds the index from the payload: the third index-building walk; ShouldPut decides which sections the index a finalized file carries gets
	"C09": {"v2/blockstore/readonly.go", "v2/storage/storage.go"},                             // the open paths hand the caller's limits to the parsers
	"C14": {"v2/index_gen.go"},                                                                // the offsets BlockReader reports are stated to agree with the ones index generation records
	"C11": {"v2/index_gen.go", "v2/selective.go"},                                             // the regenerated index is held against the serialized one; the selective writer serializes the index it built behind its own padding
	"C13": {"v2/car.go"},                                                                      // Inspect relies on the header validation of Header.ReadFrom
	"C12": {"v2/internal/io/offset_write_seeker.go", "v2/internal/carv1/util/util.go"},        // what a resumed session writes goes through these
	"C16": {"v2/storage/deferred/deferredcarwriter.go"},                                       // the deferred writer is the third writable store: a Put that failed through it must be repeatable
	"C05": {"cmd/car/get.go"},                                                                 // `car get-dag` is the command-line writing session: what it leaves behind is a finalized output of the library
}

type pitfall struct {
	kind   string
	fn     string // key of the enclosing declared function
	sub    string // position-free discriminator within the kind (the callee, the asserted type, ...)
	pos    string
	detail string
}

var pitfallWhy = map[string]string{
	"break-leaves-switch":          "an unlabelled `break` inside a `switch`/`select` that sits in a loop leaves the switch, not the loop: the iteration goes on where the author meant to stop",
	"range-operand-reassigned":     "the slice being ranged over is reassigned inside the loop: `range` fixed its length when the loop started, so the index runs past the shortened slice (a panic) or over stale elements",
	"shadow-never-assigned":        "a variable declared with its zero value is read before anything has been assigned to it, while a variable of the same name is declared with `:=` in an inner scope before that read: the assignment meant for the outer one went to the inner one, and the outer is still zero where it is tested",
	"shadow-dead-store":            "an assignment to a variable that shadows an outer one of the same name is never read: it was meant for the outer variable, which keeps its old value",
	"append-to-parameter":          "`append` on a slice parameter writes into the caller's backing array when it has spare capacity: a value the caller appended to the same base slice (another option) is overwritten",
	"limit-compared-signed":        "an unsigned 64-bit limit is converted to a signed type before it is compared: a limit of 1<<63 or more (\"no limit\") turns negative and every input is refused, or a huge length turns negative and passes",
	"sentinel-wrapped":             "a sentinel error is formatted into a new error: callers that compare by identity, by type assertion, or (with %v) by errors.Is no longer recognise it",
	"adapter-constructs-error":     "a Read/Write/Seek method builds a new error: callers of an io adapter compare the error of the wrapped call by identity (err == io.EOF ends a scan cleanly; anything else is a failure)",
	"struct-compared-whole":        "a struct of the repository is compared as a whole: fields that a failed or partial decode has already filled make the value differ from the zero value although the field that was meant is unset",
	"pure-result-discarded":        "the result of a call without side effects is discarded: a value-receiver method returns the updated copy, and dropping it drops the update",
	"deferred-error-dropped":       "the error of a deferred call is dropped: a deferred Flush/Sync/Close of something that was written reports the write that did not happen, after the function's result has been decided",
	"failure-swallowed":            "on the branch where this call failed a return with a nil error is reachable: the failure is tested and then lost (a shadowed `err`, a `break` to a `return nil`, an outer variable returned in place of the inner one)",
	"parameter-map-mutated":        "a map parameter is modified: the map is the caller's, and what the caller (or a later iteration) reads from it afterwards has changed",
	"stored-before-checked":        "a result is stored into longer-lived state before the error that came with it is tested: on failure the state holds a nil pointer in an interface (which compares non-nil) or a half-made value, and later calls take it for a usable one",
	"shared-struct-copied":         "a struct that holds pointers, maps or slices is copied by value out of shared state: the copy shares the tree, map or backing array with the original, so it is neither a snapshot (later mutations show through) nor independent (its own mutations hit the original)",
	"pooled-object":                "an object is taken from or returned to a sync.Pool: whatever still refers to it when it goes back (a slice handed to a writer, a buffer a second opener is filling) is overwritten by the next user",
	"buffered-writer-unflushed":    "a bufio.Writer is created here and a return that reports success is reachable without Flush: what is still in the buffer (all of a small output) never reaches the destination, while offsets and index entries already count it",
	"context-mismatch":             "a select case that fires on one context's Done() returns another context's Err(): when only the first one is cancelled the function stops and returns nil",
	"flag-presence-for-value":      "cli.Context.IsSet is used where the pinned tree reads the flag's value: `--flag=false` counts as set, and a default that is true counts as unset",
	"big-endian":                   "binary.BigEndian in a repository whose formats (CARv2 header, characteristics, index records and counts) are little-endian throughout: the bytes written or reported are reversed",
	"error-untested-exit":          "the error a call returned is assigned, and a return that reports success can be reached from the call without that error ever being tested on the way (the test stands at the head of the loop's next round, or behind a branch not taken): the last failure of a sequence is lost",
	"once-consumed-by-failure":     "the action guarded by a sync.Once can fail (it assigns an error of the enclosing function), and a Once is used up by the first call whatever its outcome: after a failed attempt every further call skips the action and reports success",
	"factory-closure-shared-state": "a function returns a closure that changes a local variable of the function that made it: every call of the closure — every writer it opens, from every goroutine — works on that one variable, which nothing locks",
	"internal-slice-returned":      "an exported method returns a slice or map kept in a field of its receiver, not a copy and not a freshly decoded value: the caller and the object now share one backing array — whatever the caller does to the result, or did to the slice the field was set from, changes what the next call answers",
	"short-read-tolerated":         "the number of bytes a Read or ReadAt delivered is dropped while io.EOF is treated differently from its other errors: both may deliver fewer bytes than asked together with io.EOF, and whoever lets that io.EOF pass must look at the count — or the rest of the buffer, still zero, goes out as data",
	"error-text-only":              "the error a call returned is put into fmt.Errorf with %v or %s, not %w: what goes up is a new error that only quotes the text — errors.Is and == no longer find the sentinel (the too-large error, io.ErrUnexpectedEOF) that the same input yields through the sibling readers",
	"first-item-memo":              "a callback that is called once per item fills a variable of the enclosing function the first time it runs (`if v == nil { v = f(item) }`) from something that belongs to the item, and uses it for every later item: right as long as all items agree in that respect (one digest width, one codec), wrong for the rest",
	"bit-position-as-mask":         "a constant that numbers a bit (it is a shift count wherever else it is used) stands where a mask belongs: `x &^ pos` clears the low bits that spell the number, not bit number pos, and the test that follows accepts or refuses by the wrong bits",
	"process-state-changed":        "a library function changes a property of the whole process — the working directory, an environment variable, the umask — to serve one call: every relative path another goroutine or a later call resolves (an output directory given relatively, the next archive to open) now resolves somewhere else, and the change outlives the call",
	"map-presence-by-value":        "whether a key is in a map is decided from the value looked up (its length, nil-ness or zero-ness) instead of the comma-ok result: a key that is present with an empty value — the block of an empty file, an empty list of offsets — counts as absent",
	"unverified-scan":              "BlockReader.SkipNext is the scan that does not hash: a caller the pinned tree does not have reads CIDs it never checks against the bytes",
	"dynamic-type-fast-path":       "a type assertion on a parameter selects a different path by dynamic type: the fast path and the general path must agree on ownership of buffers, on position and on errors, and nothing checks that they do",
}

// ---- collection --------------------------------------------------------------------------------

func (c *Ctx) pitfalls() []pitfall {
	if c.pit != nil {
		return c.pit
	}
	out := []pitfall{}
	out = append(out, astPitfalls(c)...)
	out = append(out, ssaPitfalls(c)...)
	sort.Slice(out, func(i, j int) bool {
		a, b := out[i], out[j]
		if a.kind != b.kind {
			return a.kind < b.kind
		}
		if a.fn != b.fn {
			return a.fn < b.fn
		}
		return a.pos < b.pos
	})
	c.pit = out
	return out
}

func astPitfalls(c *Ctx) []pitfall {
	var out []pitfall
	bitPos := bitPositionConsts(c)
	var paths []string
	for p := range c.Pkgs {
		paths = append(paths, p)
	}
	sort.Strings(paths)
	for _, pp := range paths {
		p := c.Pkgs[pp]
		info := p.TypesInfo
		for _, file := range p.Syntax {
			if strings.HasSuffix(c.Fset.Position(file.Pos()).Filename, "_test.go") {
				continue
			}
			for _, d := range file.Decls {
				fd, ok := d.(*ast.FuncDecl)
				if !ok || fd.Body == nil {
					continue
				}
				obj, _ := info.Defs[fd.Name].(*types.Func)
				if obj == nil {
					continue
				}
				key := funcKey(obj)
				add := func(kind string, pos token.Pos, detail string) {
					out = append(out, pitfall{kind, key, "", c.Pos(pos), detail})
				}
				breaksInSwitch(fd.Body, add)
				rangeReassigned(fd.Body, info, add)
				shadowPitfalls(fd, info, c.Fset, add)
				bitPositionAsMask(fd.Body, info, bitPos, add)
			}
		}
	}
	return out
}

// bitPositionConsts: the constants of the repository that number a bit — used as a shift count
// (`1 << fullyIndexedCharPos`), or handed to a parameter that is (`setBit(c.Hi, fullyIndexedCharPos)`).
func bitPositionConsts(c *Ctx) map[*types.Const]bool {
	out := map[*types.Const]bool{}
	shiftParams := map[*types.Var]bool{}
	constOf := func(info *types.Info, e ast.Expr) *types.Const {
		switch x := ast.Unparen(e).(type) {
		case *ast.Ident:
			k, _ := info.Uses[x].(*types.Const)
			return k
		case *ast.SelectorExpr:
			k, _ := info.Uses[x.Sel].(*types.Const)
			return k
		}
		return nil
	}
	each := func(f func(info *types.Info, n ast.Node)) {
		for _, p := range c.Pkgs {
			for _, file := range p.Syntax {
				ast.Inspect(file, func(n ast.Node) bool {
					if n != nil {
						f(p.TypesInfo, n)
					}
					return true
				})
			}
		}
	}
	each(func(info *types.Info, n ast.Node) {
		if b, ok := n.(*ast.BinaryExpr); ok && (b.Op == token.SHL || b.Op == token.SHR) {
			if k := constOf(info, b.Y); k != nil && k.Pkg() != nil && isRepoPkg(k.Pkg().Path()) {
				out[k] = true
			}
			if id, ok := ast.Unparen(b.Y).(*ast.Ident); ok {
				if v, ok := info.Uses[id].(*types.Var); ok && !v.IsField() {
					shiftParams[v] = true
				}
			}
		}
	})
	each(func(info *types.Info, n ast.Node) {
		call, ok := n.(*ast.CallExpr)
		if !ok {
			return
		}
		var fn *types.Func
		switch x := ast.Unparen(call.Fun).(type) {
		case *ast.Ident:
			fn, _ = info.Uses[x].(*types.Func)
		case *ast.SelectorExpr:
			fn, _ = info.Uses[x.Sel].(*types.Func)
		}
		if fn == nil {
			return
		}
		sig, _ := fn.Type().(*types.Signature)
		if sig == nil {
			return
		}
		for i, a := range call.Args {
			if i < sig.Params().Len() && shiftParams[sig.Params().At(i)] {
				if k := constOf(info, a); k != nil && k.Pkg() != nil && isRepoPkg(k.Pkg().Path()) {
					out[k] = true
				}
			}
		}
	})
	return out
}

// bitPositionAsMask: a constant that numbers a bit stands as an operand of &, |, ^ or &^.
func bitPositionAsMask(body *ast.BlockStmt, info *types.Info, bitPos map[*types.Const]bool, add func(string, token.Pos, string)) {
	if len(bitPos) == 0 {
		return
	}
	check := func(e ast.Expr, pos token.Pos, op string) {
		var id *ast.Ident
		switch x := ast.Unparen(e).(type) {
		case *ast.Ident:
			id = x
		case *ast.SelectorExpr:
			id = x.Sel
		}
		if id == nil {
			return
		}
		if k, ok := info.Uses[id].(*types.Const); ok && bitPos[k] {
			add("bit-position-as-mask", pos, k.Name()+" (a bit number: it is a shift count elsewhere) is an operand of "+op)
		}
	}
	ast.Inspect(body, func(n ast.Node) bool {
		switch x := n.(type) {
		case *ast.BinaryExpr:
			switch x.Op {
			case token.AND, token.OR, token.XOR, token.AND_NOT:
				check(x.X, x.Pos(), x.Op.String())
				check(x.Y, x.Pos(), x.Op.String())
			}
		case *ast.AssignStmt:
			switch x.Tok {
			case token.AND_ASSIGN, token.OR_ASSIGN, token.XOR_ASSIGN, token.AND_NOT_ASSIGN:
				for _, r := range x.Rhs {
					check(r, x.Pos(), x.Tok.String())
				}
			}
		}
		return true
	})
}

// breaksInSwitch: unlabelled break whose target is a switch/select nested in a loop of the same function.
func breaksInSwitch(body *ast.BlockStmt, add func(string, token.Pos, string)) {
	var walk func(n ast.Node, inLoop bool, target string)
	walk = func(n ast.Node, inLoop bool, target string) {
		ast.Inspect(n, func(m ast.Node) bool {
			if m == nil || m == n {
				return true
			}
			switch x := m.(type) {
			case *ast.FuncLit:
				walk(x.Body, false, "")
				return false
			case *ast.ForStmt:
				walk(x.Body, true, "loop")
				return false
			case *ast.RangeStmt:
				walk(x.Body, true, "loop")
				return false
			case *ast.SwitchStmt:
				walk(x.Body, inLoop, "switch")
				return false
			case *ast.TypeSwitchStmt:
				walk(x.Body, inLoop, "switch")
				return false
			case *ast.SelectStmt:
				walk(x.Body, inLoop, "select")
				return false
			case *ast.BranchStmt:
				if x.Tok == token.BREAK && x.Label == nil && inLoop && (target == "switch" || target == "select") {
					add("break-leaves-switch", x.Pos(), "break inside a "+target+" inside a loop")
				}
			}
			return true
		})
	}
	walk(body, false, "")
}

func rangeReassigned(body *ast.BlockStmt, info *types.Info, add func(string, token.Pos, string)) {
	ast.Inspect(body, func(n ast.Node) bool {
		rs, ok := n.(*ast.RangeStmt)
		if !ok {
			return true
		}
		id, ok := ast.Unparen(rs.X).(*ast.Ident)
		if !ok {
			return true
		}
		o := info.Uses[id]
		if o == nil {
			return true
		}
		if _, isSlice := o.Type().Underlying().(*types.Slice); !isSlice {
			return true
		}
		ast.Inspect(rs.Body, func(m ast.Node) bool {
			as, ok := m.(*ast.AssignStmt)
			if !ok || as.Tok == token.DEFINE {
				return true
			}
			for _, l := range as.Lhs {
				if li, ok := ast.Unparen(l).(*ast.Ident); ok && info.Uses[li] == o {
					add("range-operand-reassigned", as.Pos(), id.Name+" is ranged over and reassigned in the loop body")
				}
			}
			return true
		})
		return true
	})
}

func shadowPitfalls(fd *ast.FuncDecl, info *types.Info, fset *token.FileSet, add func(string, token.Pos, string)) {
	lineOf := func(p token.Pos) int { return fset.Position(p).Line }
	// every local variable of the function, with its scope
	type varInfo struct {
		obj      *types.Var
		zeroDecl bool // `var x T` without a value
		defined  bool // declared with :=
		assigned bool // assigned, address taken, inc/dec'd, or range-assigned after its declaration
		assigns  []token.Pos
		reads    []token.Pos
	}
	vars := map[*types.Var]*varInfo{}
	get := func(o types.Object) *varInfo {
		v, ok := o.(*types.Var)
		if !ok || v.IsField() || v.Pkg() == nil || v.Parent() == nil || v.Parent() == v.Pkg().Scope() {
			return nil
		}
		if vars[v] == nil {
			vars[v] = &varInfo{obj: v}
		}
		return vars[v]
	}
	lhsIdents := map[*ast.Ident]bool{}
	var funcLits []*ast.FuncLit
	ast.Inspect(fd, func(n ast.Node) bool {
		switch x := n.(type) {
		case *ast.FuncLit:
			funcLits = append(funcLits, x)
		case *ast.ValueSpec:
			for _, nm := range x.Names {
				if vi := get(info.Defs[nm]); vi != nil && len(x.Values) == 0 {
					vi.zeroDecl = true
				}
			}
		case *ast.AssignStmt:
			for _, l := range x.Lhs {
				id, ok := ast.Unparen(l).(*ast.Ident)
				if !ok {
					continue
				}
				lhsIdents[id] = true
				if x.Tok == token.DEFINE {
					if vi := get(info.Defs[id]); vi != nil {
						vi.defined = true
						continue
					}
				}
				if vi := get(info.Uses[id]); vi != nil {
					vi.assigned = true
					vi.assigns = append(vi.assigns, id.Pos())
				}
			}
		case *ast.IncDecStmt:
			if id, ok := ast.Unparen(x.X).(*ast.Ident); ok {
				if vi := get(info.Uses[id]); vi != nil {
					vi.assigned = true
					vi.assigns = append(vi.assigns, token.NoPos)
				}
			}
		case *ast.UnaryExpr:
			if x.Op == token.AND {
				if id, ok := ast.Unparen(x.X).(*ast.Ident); ok {
					if vi := get(info.Uses[id]); vi != nil {
						vi.assigned = true
						vi.assigns = append(vi.assigns, token.NoPos)
					}
				}
			}
		case *ast.RangeStmt:
			if x.Tok == token.ASSIGN {
				for _, e := range []ast.Expr{x.Key, x.Value} {
					if id, ok := e.(*ast.Ident); ok && id != nil {
						lhsIdents[id] = true
						if vi := get(info.Uses[id]); vi != nil {
							vi.assigned = true
							vi.assigns = append(vi.assigns, token.NoPos)
						}
					}
				}
			}
		}
		return true
	})
	ast.Inspect(fd, func(n ast.Node) bool {
		id, ok := n.(*ast.Ident)
		if !ok || lhsIdents[id] {
			return true
		}
		if vi := get(info.Uses[id]); vi != nil {
			vi.reads = append(vi.reads, id.Pos())
		}
		return true
	})
	// a method call on an addressable variable may take its address (pointer receiver): count as assigned
	ast.Inspect(fd, func(n ast.Node) bool {
		sel, ok := n.(*ast.SelectorExpr)
		if !ok {
			return true
		}
		if id, ok := ast.Unparen(sel.X).(*ast.Ident); ok {
			if s := info.Selections[sel]; s != nil && s.Kind() == types.MethodVal {
				if sig, ok := s.Obj().Type().(*types.Signature); ok && sig.Recv() != nil {
					if _, ptr := sig.Recv().Type().(*types.Pointer); ptr {
						if vi := get(info.Uses[id]); vi != nil {
							if _, isPtr := vi.obj.Type().Underlying().(*types.Pointer); !isPtr {
								vi.assigned = true
								vi.assigns = append(vi.assigns, token.NoPos)
							}
						}
					}
				}
			}
		}
		return true
	})
	inFunc := func(p token.Pos) bool { return p >= fd.Pos() && p <= fd.End() }
	// same-named variable declared in a scope nested inside v's scope
	innerNamesake := func(v *types.Var) *types.Var {
		for o, vi := range vars {
			if o == v || o.Name() != v.Name() || !vi.defined {
				continue
			}
			for s := o.Parent(); s != nil; s = s.Parent() {
				if s == v.Parent() && o.Parent() != v.Parent() {
					return o
				}
			}
		}
		return nil
	}
	outerNamesake := func(v *types.Var) *types.Var {
		for s := v.Parent().Parent(); s != nil; s = s.Parent() {
			if o, ok := s.Lookup(v.Name()).(*types.Var); ok && inFunc(o.Pos()) && types.Identical(o.Type(), v.Type()) {
				return o
			}
			if !inFunc(s.Pos()) {
				break
			}
		}
		return nil
	}
	// loops of the function, for "a later assignment can reach an earlier read"
	var loops []ast.Node
	ast.Inspect(fd, func(n ast.Node) bool {
		switch n.(type) {
		case *ast.ForStmt, *ast.RangeStmt:
			loops = append(loops, n)
		}
		return true
	})
	for v, vi := range vars {
		if !vi.zeroDecl || len(vi.reads) == 0 {
			continue
		}
		in := innerNamesake(v)
		if in == nil {
			continue
		}
		first := vi.reads[0]
		for _, rp := range vi.reads {
			if rp < first {
				first = rp
			}
		}
		// no assignment can have happened when the variable is first read: every assignment comes
		// later in the text, none shares a loop with the read, none is through its address
		before := false
		for _, ap := range vi.assigns {
			if ap == token.NoPos || ap < first {
				before = true
				continue
			}
			for _, l := range loops {
				if first >= l.Pos() && first <= l.End() && ap >= l.Pos() && ap <= l.End() && !(v.Pos() >= l.Pos() && v.Pos() <= l.End()) {
					before = true
				}
			}
		}
		// a read inside a closure may run at any time
		for _, fl := range funcLits {
			if first >= fl.Pos() && first <= fl.End() {
				before = true
			}
		}
		if !before && in.Pos() < first {
			add("shadow-never-assigned", v.Pos(), fmt.Sprintf("%s is declared with its zero value and first read at line %d before anything is assigned to it; an inner %s is declared with := at line %d", v.Name(), lineOf(first), v.Name(), lineOf(in.Pos())))
		}
	}
	// dead store to a shadowing variable
	ast.Inspect(fd, func(n ast.Node) bool {
		as, ok := n.(*ast.AssignStmt)
		if !ok || as.Tok != token.ASSIGN {
			return true
		}
		for _, l := range as.Lhs {
			id, ok := ast.Unparen(l).(*ast.Ident)
			if !ok {
				continue
			}
			vi := get(info.Uses[id])
			if vi == nil || !vi.defined {
				continue
			}
			v := vi.obj
			if outerNamesake(v) == nil {
				continue
			}
			dead := true
			for _, rp := range vi.reads {
				if rp > as.End() {
					dead = false
				}
				// a read inside a closure may run later
				for _, fl := range funcLits {
					if rp >= fl.Pos() && rp <= fl.End() && !(as.Pos() >= fl.Pos() && as.Pos() <= fl.End()) {
						dead = false
					}
				}
			}
			// a loop that encloses the assignment but not the declaration: an earlier read runs again
			if dead {
				ast.Inspect(fd, func(m ast.Node) bool {
					var lb *ast.BlockStmt
					switch x := m.(type) {
					case *ast.ForStmt:
						lb = x.Body
					case *ast.RangeStmt:
						lb = x.Body
					}
					if lb != nil && as.Pos() >= m.Pos() && as.End() <= m.End() && !(v.Pos() >= m.Pos() && v.Pos() <= m.End()) {
						for _, rp := range vi.reads {
							if rp >= m.Pos() && rp <= m.End() {
								dead = false
							}
						}
					}
					return true
				})
			}
			if dead {
				add("shadow-dead-store", as.Pos(), fmt.Sprintf("%s assigned here is the variable declared with := at line %d, which shadows an outer %s and is not read again", v.Name(), lineOf(v.Pos()), v.Name()))
			}
		}
		return true
	})
}

func ssaPitfalls(c *Ctx) []pitfall {
	var out []pitfall
	errT := types.Universe.Lookup("error").Type()
	for _, root := range c.RepoFuncs() {
		if root.Parent() != nil {
			continue
		}
		key := fnKey(root)
		addS := func(kind, sub string, pos token.Pos, detail string) {
			out = append(out, pitfall{kind, key, sub, c.Pos(pos), detail})
		}
		add := func(kind string, pos token.Pos, detail string) { addS(kind, "", pos, detail) }
		for _, g := range withAnon(root) {
			if g.Blocks == nil {
				continue
			}
			isAdapterMethod := false
			if g.Parent() == nil && g.Signature.Recv() != nil {
				switch g.Name() {
				case "Read", "ReadAt", "ReadByte", "Write", "WriteAt", "Seek":
					isAdapterMethod = true
				}
			}
			eachInstr(g, func(in ssa.Instruction) {
				for _, op := range in.Operands(nil) {
					if gl, ok := (*op).(*ssa.Global); ok && gl.Pkg != nil && gl.Pkg.Pkg.Path() == "encoding/binary" && gl.Name() == "BigEndian" {
						add("big-endian", in.Pos(), "binary.BigEndian")
					}
				}
				if sel, ok := in.(*ssa.Select); ok {
					for _, pos := range contextMismatch(g, sel) {
						add("context-mismatch", pos, "Err() of a context other than the one whose Done() fired")
					}
				}
				switch x := in.(type) {
				case *ssa.Call:
					cc := x.Common()
					if b, ok := cc.Value.(*ssa.Builtin); ok {
						switch b.Name() {
						case "append":
							if len(cc.Args) > 0 && rootsAtParam(cc.Args[0], 0) != nil {
								add("append-to-parameter", x.Pos(), "append("+rootsAtParam(cc.Args[0], 0).Name()+", ...)")
							}
						case "delete":
							if len(cc.Args) > 0 && rootsAtParam(cc.Args[0], 0) != nil {
								add("parameter-map-mutated", x.Pos(), "delete("+rootsAtParam(cc.Args[0], 0).Name()+", ...)")
							}
						}
						return
					}
					f := calleeFunc(cc)
					if funcIs(f, "sync", "Pool", "Get") || funcIs(f, "sync", "Pool", "Put") {
						addS("pooled-object", f.Name(), x.Pos(), "sync.Pool."+f.Name())
					}
					if f != nil && f.Name() == "IsSet" && f.Pkg() != nil && strings.HasSuffix(f.Pkg().Path(), "urfave/cli/v2") {
						name := ""
						if len(cc.Args) > 1 {
							if k, ok := cc.Args[len(cc.Args)-1].(*ssa.Const); ok && k.Value != nil {
								name = k.Value.ExactString()
							}
						}
						addS("flag-presence-for-value", name, x.Pos(), "IsSet("+name+")")
					}
					if f != nil && f.Pkg() != nil && (f.Pkg().Path() == "os" || f.Pkg().Path() == "syscall") {
						switch f.Name() {
						case "Chdir", "Fchdir", "Setenv", "Unsetenv", "Clearenv", "Umask", "Chroot":
							addS("process-state-changed", f.Pkg().Path()+"."+f.Name(), x.Pos(), f.Pkg().Path()+"."+f.Name())
						}
					}
					if name := readLikeName(cc); name != "" {
						if cnt := extractOf(x, 0); cnt == nil || cnt.Referrers() == nil || len(*cnt.Referrers()) == 0 {
							if e := extractOf(x, 1); e != nil && comparedWithEOF(e) {
								addS("short-read-tolerated", name, x.Pos(), "the count of "+name+" is dropped and io.EOF is told apart from its other errors")
							}
						}
					}
					if funcIs(f, "sync", "Once", "Do") && len(cc.Args) == 2 {
						if mc, ok := cc.Args[1].(*ssa.MakeClosure); ok {
							if lit, ok := mc.Fn.(*ssa.Function); ok && storesCapturedError(lit) {
								add("once-consumed-by-failure", x.Pos(), "the function handed to Once.Do assigns an error variable of the enclosing function")
							}
						}
					}
					if funcIs(f, modV2, "BlockReader", "SkipNext") {
						add("unverified-scan", x.Pos(), "BlockReader.SkipNext")
					}
					if funcIs(f, "bufio", "", "NewWriter") || funcIs(f, "bufio", "", "NewWriterSize") {
						if pos := unflushedReturn(g, x); pos != token.NoPos {
							add("buffered-writer-unflushed", x.Pos(), "the return at "+c.Pos(pos)+" is reachable without Flush")
						}
					}
					if funcIs(f, "fmt", "", "Errorf") {
						if isAdapterMethod {
							addS("adapter-constructs-error", "fmt.Errorf", x.Pos(), "fmt.Errorf in "+g.Name())
						}
						for _, a := range variadicArgs(cc) {
							if s := sentinelName(a); s != "" {
								addS("sentinel-wrapped", s, x.Pos(), s+" passed to fmt.Errorf")
							}
						}
						if k, ok := cc.Args[0].(*ssa.Const); ok && k.Value != nil && k.Value.Kind() == constant.String && !strings.Contains(constant.StringVal(k.Value), "%w") {
							for _, a := range variadicArgs(cc) {
								if e := errorOperand(a); e != nil {
									if name := errorSourceName(c, e); name != "" {
										addS("error-text-only", name, x.Pos(), "the error of "+name+" goes into fmt.Errorf without %w")
									}
								}
							}
						}
					}
					if funcIs(f, "errors", "", "New") && isAdapterMethod {
						addS("adapter-constructs-error", "errors.New", x.Pos(), "errors.New in "+g.Name())
					}
					// pure result discarded
					if tgt := staticTarget(cc); tgt != nil && tgt.Pkg != nil && isRepoPkg(tgt.Pkg.Pkg.Path()) && tgt.Signature.Results().Len() > 0 {
						last := tgt.Signature.Results().At(tgt.Signature.Results().Len() - 1).Type()
						if !types.Identical(last, errT) && !valueUsed(x) && isPureFunc(tgt, 0) {
							add("pure-result-discarded", x.Pos(), "result of "+fnKey(tgt)+" is not used")
						}
					}
					// failure swallowed / stored before checked
					sig := cc.Signature()
					if sig != nil && sig.Results().Len() > 0 && types.Identical(sig.Results().At(sig.Results().Len()-1).Type(), errT) {
						name := calleeName(c, cc)
						if name != "" {
							if pos := failureSwallowed(g, x); pos != token.NoPos {
								addS("failure-swallowed", name, x.Pos(), "after "+name+" failed, the return at "+c.Pos(pos)+" reports success")
							}
							if pos := errorUntestedExit(g, x); pos != token.NoPos {
								addS("error-untested-exit", name, x.Pos(), "the error of "+name+" is kept, but the return at "+c.Pos(pos)+" reports success on a way that never tests it")
							}
						}
						if sig.Results().Len() > 1 {
							if pos := storedBeforeChecked(g, x); pos != token.NoPos {
								addS("stored-before-checked", name, pos, "a result of "+name+" is stored before its error is tested")
							}
						}
					}
				case *ssa.MakeClosure:
					if lit, ok := x.Fn.(*ssa.Function); ok && g.Parent() == nil && closureReturned(x) {
						for i, b := range x.Bindings {
							al, ok := b.(*ssa.Alloc)
							if !ok || i >= len(lit.FreeVars) || holdsOnlyParameter(al) {
								continue
							}
							if pos := mutatesFreeVar(lit, lit.FreeVars[i]); pos != token.NoPos {
								addS("factory-closure-shared-state", lit.FreeVars[i].Name(), lit.Pos(), "the returned closure changes "+lit.FreeVars[i].Name()+", a local of the function that made it, at "+c.Pos(pos))
							}
						}
					}
				case *ssa.Defer:
					sig := x.Common().Signature()
					if sig != nil && sig.Results().Len() > 0 && types.Identical(sig.Results().At(sig.Results().Len()-1).Type(), errT) {
						addS("deferred-error-dropped", calleeName(c, x.Common()), x.Pos(), "defer "+calleeName(c, x.Common()))
					}
				case *ssa.Store:
					if fv, ok := x.Addr.(*ssa.FreeVar); ok && g.Parent() != nil && len(g.Params) > 0 && dependsOnParam(x.Val, g, 0) && underFirstTimeGuard(g, fv, x.Block()) {
						addS("first-item-memo", fv.Name(), x.Pos(), fv.Name()+" is filled on the first call from the callback's own arguments")
					}
				case *ssa.Return:
					if g.Parent() == nil && g.Signature.Recv() != nil && len(g.Params) > 0 && token.IsExported(g.Name()) {
						var cands []ssa.Value
						for _, res := range x.Results {
							cands = append(cands, res)
							// a function with a defer keeps its results in cells until the deferred calls have run
							if l, ok := res.(*ssa.UnOp); ok && l.Op == token.MUL {
								if al, ok := l.X.(*ssa.Alloc); ok && al.Referrers() != nil {
									for _, ref := range *al.Referrers() {
										if st, ok := ref.(*ssa.Store); ok && st.Addr == ssa.Value(al) {
											cands = append(cands, st.Val)
										}
									}
								}
							}
						}
						for _, res := range cands {
							l, ok := res.(*ssa.UnOp)
							if !ok || l.Op != token.MUL {
								continue
							}
							fa, ok := l.X.(*ssa.FieldAddr)
							if !ok {
								continue
							}
							switch l.Type().Underlying().(type) {
							case *types.Slice, *types.Map:
							default:
								continue
							}
							if addrRoot(fa.X) != ssa.Value(g.Params[0]) {
								continue
							}
							if fv := fieldVar(fa.X.Type(), fa.Field); fv != nil {
								addS("internal-slice-returned", fv.Name(), x.Pos(), "the "+fv.Name()+" field of the receiver is returned as it is")
							}
						}
					}
				case *ssa.MapUpdate:
					if p := rootsAtParam(x.Map, 0); p != nil && !scratchMapParam(c, p) {
						add("parameter-map-mutated", x.Pos(), p.Name()+"[...] = ...")
					}
				case *ssa.BinOp:
					switch x.Op {
					case token.EQL, token.NEQ:
						if n, ok := x.X.Type().(*types.Named); ok {
							if _, isStruct := n.Underlying().(*types.Struct); isStruct && n.Obj().Pkg() != nil && isRepoPkg(n.Obj().Pkg().Path()) {
								addS("struct-compared-whole", shortPkg(n.Obj().Pkg().Path())+"."+n.Obj().Name(), x.Pos(), shortPkg(n.Obj().Pkg().Path())+"."+n.Obj().Name()+" compared with "+x.Op.String())
							}
						}
					case token.LSS, token.LEQ, token.GTR, token.GEQ:
						for _, o := range []ssa.Value{x.X, x.Y} {
							if f := signedLimit(o, 0); f != "" {
								add("limit-compared-signed", x.Pos(), f+" compared after conversion to "+o.Type().String())
							}
						}
					}
				case *ssa.UnOp:
					if x.Op == token.MUL {
						if n, ok := x.Type().(*types.Named); ok && n.Obj().Pkg() != nil && isRepoPkg(n.Obj().Pkg().Path()) {
							if st, isStruct := n.Underlying().(*types.Struct); isStruct && holdsReferences(st) {
								if _, elem := x.X.(*ssa.IndexAddr); elem {
									return // an element read (`for _, r := range recs`) is an ordinary copy
								}
								if _, fld := x.X.(*ssa.FieldAddr); fld {
									return // a struct-typed field read as a whole
								}
								if _, captured := addrRoot(x.X).(*ssa.FreeVar); captured {
									return // a local of the enclosing function
								}
								if _, local := addrRoot(x.X).(*ssa.Alloc); !local {
									if _, isG := addrRoot(x.X).(*ssa.Global); !isG {
										addS("shared-struct-copied", shortPkg(n.Obj().Pkg().Path())+"."+n.Obj().Name(), x.Pos(), "*"+shortPkg(n.Obj().Pkg().Path())+"."+n.Obj().Name()+" copied by value")
									}
								}
							}
						}
					}
				case *ssa.Lookup:
					if mt, isMap := x.X.Type().Underlying().(*types.Map); isMap && !x.CommaOk && valueTestedForZero(x) {
						addS("map-presence-by-value", types.TypeString(mt, func(p *types.Package) string { return p.Name() }), x.Pos(), "m[k] tested for emptiness instead of `v, ok := m[k]`")
					}
				case *ssa.TypeAssert:
					if x.CommaOk && !types.Identical(x.AssertedType, x.X.Type()) && liveBlocks(g)[x.Block()] {
						if p := rootsAtParam(x.X, 0); p != nil {
							if _, isErr := p.Type().Underlying().(*types.Interface); isErr && !types.Identical(p.Type(), errT) {
								addS("dynamic-type-fast-path", pinnedTypeNames(assertedTypeKey(x.AssertedType)), x.Pos(), p.Name()+".("+assertedTypeKey(x.AssertedType)+")")
							}
						}
					}
				}
			})
		}
	}
	return out
}

// holdsReferences: the struct has a field through which a copy shares memory with the original.
func holdsReferences(st *types.Struct) bool {
	for i := 0; i < st.NumFields(); i++ {
		switch t := st.Field(i).Type().Underlying().(type) {
		case *types.Pointer, *types.Map, *types.Slice, *types.Chan:
			return true
		case *types.Struct:
			if holdsReferences(t) {
				return true
			}
		}
	}
	return false
}

func calleeName(c *Ctx, cc *ssa.CallCommon) string {
	if cc.IsInvoke() {
		return "invoke:" + cc.Method.Name()
	}
	if f := calleeFunc(cc); f != nil {
		if fnv := c.Prog.FuncValue(f); fnv != nil && f.Pkg() != nil && isRepoPkg(f.Pkg().Path()) && !ast.IsExported(f.Name()) && !baselineFuncs[ssaDeclKey(fnv)] {
			return "dynamic"
		}
		return funcKey(f)
	}
	return "dynamic"
}

func valueUsed(v ssa.Value) bool {
	refs := v.Referrers()
	if refs == nil {
		return true
	}
	for _, r := range *refs {
		if _, isDbg := r.(*ssa.DebugRef); !isDbg {
			return true
		}
	}
	return false
}

// rootsAtParam: v is a parameter of its function (not a free variable), possibly re-sliced, loaded
// from the cell the parameter was spilled to, or merged with values derived from it.
// valueTestedForZero: the value is compared with a constant (nil, 0, ""), or its len/cap is.
func valueTestedForZero(v ssa.Value) bool {
	if v.Referrers() == nil {
		return false
	}
	cmpConst := func(b *ssa.BinOp) bool {
		switch b.Op {
		case token.EQL, token.NEQ, token.GTR, token.LSS, token.GEQ, token.LEQ:
		default:
			return false
		}
		_, cx := b.X.(*ssa.Const)
		_, cy := b.Y.(*ssa.Const)
		return cx || cy
	}
	for _, ref := range *v.Referrers() {
		switch x := ref.(type) {
		case *ssa.BinOp:
			if cmpConst(x) {
				return true
			}
		case *ssa.Call:
			if b, ok := x.Call.Value.(*ssa.Builtin); ok && (b.Name() == "len" || b.Name() == "cap") && x.Referrers() != nil {
				for _, r2 := range *x.Referrers() {
					if b2, ok := r2.(*ssa.BinOp); ok && cmpConst(b2) {
						return true
					}
				}
			}
		}
	}
	return false
}

// scratchMapParam: the parameter of an unexported function to which every caller in the
// repository passes a map it has just made itself — an accumulator handed down, not the caller's data.
func scratchMapParam(c *Ctx, p *ssa.Parameter) bool {
	fn := p.Parent()
	if fn == nil || fn.Object() == nil || fn.Object().Exported() {
		return false
	}
	idx := -1
	for i, q := range fn.Params {
		if q == p {
			idx = i
		}
	}
	if idx < 0 {
		return false
	}
	c.ensureCG()
	n := c.cg.Nodes[fn]
	if n == nil || len(n.In) == 0 {
		return false
	}
	for _, e := range n.In {
		if e.Site == nil {
			return false
		}
		cc := e.Site.Common()
		if cc.IsInvoke() || cc.StaticCallee() != fn || idx >= len(cc.Args) {
			return false
		}
		if !freshMap(cc.Args[idx], 0) {
			return false
		}
	}
	return true
}

func freshMap(v ssa.Value, depth int) bool {
	if depth > 4 {
		return false
	}
	switch x := v.(type) {
	case *ssa.MakeMap:
		return true
	case *ssa.Phi:
		for _, e := range x.Edges {
			if !freshMap(e, depth+1) {
				return false
			}
		}
		return true
	case *ssa.UnOp:
		if al, ok := x.X.(*ssa.Alloc); ok && x.Op == token.MUL {
			sts := storesTo(al)
			if len(sts) == 0 {
				return false
			}
			for _, st := range sts {
				if !freshMap(st.Val, depth+1) {
					return false
				}
			}
			return true
		}
	}
	return false
}

func rootsAtParam(v ssa.Value, depth int) *ssa.Parameter {
	if depth > 6 {
		return nil
	}
	switch x := v.(type) {
	case *ssa.Parameter:
		if x.Parent() != nil && x.Parent().Signature.Recv() != nil && len(x.Parent().Params) > 0 && x.Parent().Params[0] == x {
			return nil // the receiver
		}
		return x
	case *ssa.Slice:
		return rootsAtParam(x.X, depth+1)
	case *ssa.ChangeType:
		return rootsAtParam(x.X, depth+1)
	case *ssa.Phi:
		for _, e := range x.Edges {
			if p := rootsAtParam(e, depth+1); p != nil {
				return p
			}
		}
	case *ssa.UnOp:
		if x.Op == token.MUL {
			if al, ok := x.X.(*ssa.Alloc); ok {
				sts := storesTo(al)
				for _, st := range sts {
					if p, ok := st.Val.(*ssa.Parameter); ok && len(sts) >= 1 {
						// a spilled parameter: every other store must itself derive from it (opts = append(opts, ..))
						return rootsAtParam(p, depth+1)
					}
				}
			}
		}
	}
	return nil
}

func variadicArgs(cc *ssa.CallCommon) []ssa.Value {
	if len(cc.Args) == 0 {
		return nil
	}
	last := cc.Args[len(cc.Args)-1]
	sl, ok := last.(*ssa.Slice)
	if !ok {
		return nil
	}
	al, ok := sl.X.(*ssa.Alloc)
	if !ok {
		return nil
	}
	var out []ssa.Value
	for _, r := range *al.Referrers() {
		ia, ok := r.(*ssa.IndexAddr)
		if !ok {
			continue
		}
		for _, rr := range *ia.Referrers() {
			if st, ok := rr.(*ssa.Store); ok && st.Addr == ssa.Value(ia) {
				out = append(out, st.Val)
			}
		}
	}
	return out
}

// sentinelName: v (an argument of fmt.Errorf) is a package-level error variable, or a value of a
// struct type that is itself an error (traversal.SkipMe{}).
func sentinelName(v ssa.Value) string {
	errT := types.Universe.Lookup("error").Type().Underlying().(*types.Interface)
	for i := 0; i < 4; i++ {
		switch x := v.(type) {
		case *ssa.MakeInterface:
			if n, ok := x.X.Type().(*types.Named); ok {
				if _, isStruct := n.Underlying().(*types.Struct); isStruct && types.Implements(n, errT) {
					if _, isK := x.X.(*ssa.Const); isK {
						return n.Obj().Name() + "{}"
					}
					if u, ok := x.X.(*ssa.UnOp); ok && u.Op == token.MUL {
						if al, ok := u.X.(*ssa.Alloc); ok && al.Comment == "complit" {
							return n.Obj().Name() + "{}"
						}
					}
				}
			}
			v = x.X
			continue
		case *ssa.ChangeInterface:
			v = x.X
			continue
		case *ssa.UnOp:
			if g, ok := x.X.(*ssa.Global); ok && x.Op == token.MUL && types.Implements(x.Type(), errT) && types.IsInterface(x.Type()) {
				return g.Pkg.Pkg.Name() + "." + g.Name()
			}
		}
		break
	}
	return ""
}

// isPureFunc: f stores nothing outside its own frame and calls only functions that are pure.
func isPureFunc(f *ssa.Function, depth int) bool { return isPureFuncOpt(f, depth, true) }

// isPureCallOf: calling f has no effect outside f's frame — what a closure f makes and returns does
// when it is called later is not part of the call (option constructors).
func isPureCallOf(f *ssa.Function) bool { return isPureFuncOpt(f, 0, false) }

func isPureFuncOpt(f *ssa.Function, depth int, withClosures bool) bool {
	if f == nil || f.Blocks == nil || depth > 3 {
		return false
	}
	pure := true
	units := []*ssa.Function{f}
	if withClosures {
		units = withAnon(f)
	}
	for _, g := range units {
		eachInstr(g, func(in ssa.Instruction) {
			if !pure {
				return
			}
			switch x := in.(type) {
			case *ssa.Store:
				if _, local := addrRoot(x.Addr).(*ssa.Alloc); !local {
					pure = false
				} else if al := addrRoot(x.Addr).(*ssa.Alloc); al.Heap {
					// a fresh heap object of this call: still this call's own
					_ = al
				}
			case *ssa.MapUpdate, *ssa.Send, *ssa.Go, *ssa.Defer, *ssa.Panic:
				pure = false
			case *ssa.Call:
				cc := x.Common()
				if b, ok := cc.Value.(*ssa.Builtin); ok {
					switch b.Name() {
					case "len", "cap", "min", "max":
					default:
						pure = false
					}
					return
				}
				t := staticTarget(cc)
				if t == nil || t.Pkg == nil || !isRepoPkg(t.Pkg.Pkg.Path()) || !isPureFuncOpt(t, depth+1, true) {
					pure = false
				}
			}
		})
	}
	return pure
}

// signedLimit: v is a signed integer obtained by converting an unsigned 64-bit option value.
func signedLimit(v ssa.Value, depth int) string {
	if depth > 5 {
		return ""
	}
	b, ok := v.Type().Underlying().(*types.Basic)
	if !ok || b.Info()&types.IsInteger == 0 || b.Info()&types.IsUnsigned != 0 {
		return ""
	}
	switch x := v.(type) {
	case *ssa.Convert:
		xb, ok := x.X.Type().Underlying().(*types.Basic)
		if ok && xb.Kind() == types.Uint64 {
			if f := optionLimitField(x.X, 0); f != "" {
				return f
			}
			return ""
		}
		return signedLimit(x.X, depth+1)
	case *ssa.Phi:
		for _, e := range x.Edges {
			if f := signedLimit(e, depth+1); f != "" {
				return f
			}
		}
	case *ssa.UnOp:
		if x.Op == token.MUL {
			if al, ok := x.X.(*ssa.Alloc); ok {
				for _, st := range storesTo(al) {
					if f := signedLimit(st.Val, depth+1); f != "" {
						return f
					}
				}
			}
		}
	}
	return ""
}

// optionLimitField: v is the value of a Max* field of an options struct of the repository.
func optionLimitField(v ssa.Value, depth int) string {
	if depth > 5 {
		return ""
	}
	switch x := v.(type) {
	case *ssa.UnOp:
		if x.Op == token.MUL {
			if fa, ok := x.X.(*ssa.FieldAddr); ok {
				fv := fieldVar(fa.X.Type(), fa.Field)
				if fv != nil && strings.HasPrefix(fv.Name(), "Max") {
					return fv.Name()
				}
			}
			if al, ok := x.X.(*ssa.Alloc); ok {
				for _, st := range storesTo(al) {
					if f := optionLimitField(st.Val, depth+1); f != "" {
						return f
					}
				}
			}
		}
	case *ssa.Field:
		if st, ok := x.X.Type().Underlying().(*types.Struct); ok && strings.HasPrefix(st.Field(x.Field).Name(), "Max") {
			return st.Field(x.Field).Name()
		}
	case *ssa.Phi:
		for _, e := range x.Edges {
			if f := optionLimitField(e, depth+1); f != "" {
				return f
			}
		}
	case *ssa.Parameter:
		if strings.HasPrefix(strings.ToLower(x.Name()), "max") {
			return x.Name()
		}
	}
	return ""
}

// failureSwallowed: on an edge where the call's error is known non-nil, a return whose error result is
// nil (the constant, or a value known nil there) is reachable, in a function that returns an error.
func failureSwallowed(g *ssa.Function, call *ssa.Call) token.Pos {
	errT := types.Universe.Lookup("error").Type()
	res := g.Signature.Results()
	if res.Len() == 0 || !types.Identical(res.At(res.Len()-1).Type(), errT) {
		return token.NoPos
	}
	isErr := errOfCall(call)
	fail := condEdges(g, errNilCond(isErr, false))
	// once the call has failed, a later test of the same error (directly, or merged into the result
	// of an inlined helper) does not take its "nil" branch
	later := edgeSet(condEdges(g, errNilCond(isErr, true)))
	for _, e := range fail {
		// a test of a merged value: only when an input carrying this call's error is not known nil
		if !mergedTestConcerns(e, isErr) {
			continue
		}
		rs := reachFromEdge(g, e, later)
		for _, ret := range returnsOf(g) {
			if !rs[ret.Block()] || len(ret.Results) == 0 {
				continue
			}
			rv := retResult(ret, len(ret.Results)-1)
			if isErr(rv) {
				continue
			}
			if isNilConst(rv) || nilness(rv, ret.Block()) == 1 {
				// the failing edge's own target must lead here without the error being handed on:
				// a return that is also reachable without the failure and that the failure path
				// reaches only through a loop's next iteration is the loop's ordinary exit
				if loopExitOnly(g, e, ret) {
					continue
				}
				return ret.Pos()
			}
		}
	}
	return token.NoPos
}

// errorUntestedExit: the call's error is used somewhere (it is not discarded), the function
// returns an error, and from the call a return with a nil error can be reached without passing a
// test of a value that carries this call's error.
func errorUntestedExit(g *ssa.Function, call *ssa.Call) token.Pos {
	errT := types.Universe.Lookup("error").Type()
	res := g.Signature.Results()
	if res.Len() == 0 || !types.Identical(res.At(res.Len()-1).Type(), errT) {
		return token.NoPos
	}
	ev := errOfCallValue(call)
	if ev == nil || ev.Referrers() == nil || len(*ev.Referrers()) == 0 {
		return token.NoPos // discarded outright: another table (dropped errors)
	}
	isErr := errOfCall(call)
	// blocks that test the error (either outcome), and returns that hand it on
	tests := map[*ssa.BasicBlock]bool{}
	for _, e := range condEdges(g, errNilCond(isErr, true)) {
		tests[condBlock(e)] = true
		tests[e.From] = true
	}
	for _, e := range condEdges(g, errNilCond(isErr, false)) {
		tests[condBlock(e)] = true
		tests[e.From] = true
	}
	// a comparison with a sentinel (`err == io.EOF`, `switch err { case io.EOF: … }`) or errors.Is /
	// errors.As on it is a test of the error as well
	for _, b := range g.Blocks {
		if len(b.Instrs) == 0 {
			continue
		}
		iff, ok := b.Instrs[len(b.Instrs)-1].(*ssa.If)
		if !ok {
			continue
		}
		base, _ := condNorm(iff.Cond)
		switch x := base.(type) {
		case *ssa.BinOp:
			if (x.Op == token.EQL || x.Op == token.NEQ) && (isErr(x.X) || isErr(x.Y)) {
				tests[b] = true
			}
		case *ssa.Call:
			if f := calleeFunc(x.Common()); funcIs(f, "errors", "", "Is") || funcIs(f, "errors", "", "As") {
				if len(x.Call.Args) > 0 && isErr(x.Call.Args[0]) {
					tests[b] = true
					tests[x.Block()] = true
				}
			}
		}
	}
	if len(tests) == 0 {
		return token.NoPos // never tested anywhere: handed on or stored; not this kind
	}
	if tests[call.Block()] {
		// tested in the block of the call itself (straight-line `if err != nil` right behind it)
		return token.NoPos
	}
	seen := map[*ssa.BasicBlock]bool{}
	work := []*ssa.BasicBlock{}
	for _, s := range call.Block().Succs {
		work = append(work, s)
	}
	for len(work) > 0 {
		b := work[len(work)-1]
		work = work[:len(work)-1]
		if seen[b] || tests[b] {
			continue
		}
		seen[b] = true
		if len(b.Instrs) > 0 {
			if ret, ok := b.Instrs[len(b.Instrs)-1].(*ssa.Return); ok && len(ret.Results) > 0 {
				rv := retResult(ret, len(ret.Results)-1)
				if !isErr(rv) && (isNilConst(rv) || nilness(rv, ret.Block()) == 1) {
					return ret.Pos()
				}
			}
		}
		for _, s := range b.Succs {
			if s == call.Block() {
				continue // round the loop to the same call again: its error is overwritten, judged there
			}
			work = append(work, s)
		}
	}
	return token.NoPos
}

// mergedTestConcerns: the tested value is the call's error itself, or a merge in which an input
// carrying the call's error is not already known to be nil where it enters.
func mergedTestConcerns(e Edge, isErr func(ssa.Value) bool) bool {
	iff, ok := e.From.Instrs[len(e.From.Instrs)-1].(*ssa.If)
	if !ok {
		return true
	}
	base, _ := condNorm(iff.Cond)
	b, ok := base.(*ssa.BinOp)
	if !ok {
		return true
	}
	v := b.X
	if isNilConst(b.X) {
		v = b.Y
	}
	ph, ok := v.(*ssa.Phi)
	if !ok {
		return true
	}
	for i, in := range ph.Edges {
		if isErr(in) && nilness(in, ph.Block().Preds[i]) != 1 {
			return true
		}
	}
	return false
}

// loopExitOnly: every path from the failing edge to ret passes through the head of a loop that
// encloses the test (the failure `continue`s; the return belongs to the loop's normal end).
func loopExitOnly(g *ssa.Function, e Edge, ret *ssa.Return) bool {
	var heads []*ssa.BasicBlock
	for _, b := range g.Blocks {
		if !b.Dominates(e.From) {
			continue
		}
		for _, p := range b.Preds {
			if b.Dominates(p) {
				heads = append(heads, b)
			}
		}
	}
	if len(heads) == 0 {
		return false
	}
	cut := EdgeSet{}
	for _, h := range heads {
		for _, p := range h.Preds {
			for i, s := range p.Succs {
				if s == h {
					cut[Edge{From: p, Succ: i}] = true
				}
			}
		}
	}
	rs := reachFromEdge(g, e, cut)
	return !rs[ret.Block()]
}

// storedBeforeChecked: a non-error result of the call is stored through a pointer (a field of the
// receiver, a global) at a point that the call's "err == nil" outcome does not dominate.
func storedBeforeChecked(g *ssa.Function, call *ssa.Call) token.Pos {
	sig := call.Common().Signature()
	last := sig.Results().Len() - 1
	isErr := errOfCall(call)
	ok := condEdges(g, errNilCond(isErr, true))
	var okTargets []*ssa.BasicBlock
	for _, e := range ok {
		t := e.From.Succs[e.Succ]
		if len(t.Preds) == 1 {
			okTargets = append(okTargets, t)
		}
	}
	for _, r := range *call.Referrers() {
		ex, isEx := r.(*ssa.Extract)
		if !isEx || ex.Index == last {
			continue
		}
		for _, rr := range *ex.Referrers() {
			var st *ssa.Store
			switch y := rr.(type) {
			case *ssa.Store:
				if y.Val == ssa.Value(ex) {
					st = y
				}
			case *ssa.MakeInterface:
				for _, r3 := range *y.Referrers() {
					if s3, ok := r3.(*ssa.Store); ok && s3.Val == ssa.Value(y) {
						st = s3
					}
				}
			}
			if st == nil {
				continue
			}
			if _, local := addrRoot(st.Addr).(*ssa.Alloc); local {
				continue
			}
			if _, isFA := st.Addr.(*ssa.FieldAddr); !isFA {
				if _, isG := st.Addr.(*ssa.Global); !isG {
					continue
				}
			}
			dominated := false
			for _, t := range okTargets {
				if t.Dominates(st.Block()) {
					dominated = true
				}
			}
			if !dominated {
				return st.Pos()
			}
		}
	}
	return token.NoPos
}

// ---- reach of a property -------------------------------------------------------------------------

func (c *Ctx) propReach(prop string) map[string]bool {
	if c.reach == nil {
		c.reach = map[string]map[string]bool{}
	}
	if m, ok := c.reach[prop]; ok {
		return m
	}
	files := map[string]bool{}
	for _, f := range propAnchorFiles[prop] {
		files[f] = true
	}
	for _, f := range propExtraFiles[prop] {
		files[f] = true
	}
	funcs := c.RepoFuncs()
	c.ensureCG()
	seen := map[*ssa.Function]bool{}
	var work []*ssa.Function
	for _, fn := range funcs {
		pp := c.Fset.Position(fn.Pos())
		if files[strings.TrimPrefix(pp.Filename, c.Repo+"/")] {
			seen[fn] = true
			work = append(work, fn)
		}
	}
	for len(work) > 0 {
		fn := work[len(work)-1]
		work = work[:len(work)-1]
		for _, a := range fn.AnonFuncs {
			if !seen[a] {
				seen[a] = true
				work = append(work, a)
			}
		}
		// a repository type that a reached function puts behind an interface: its methods are what
		// the interface calls further on run (the call graph loses adapters handed through several
		// conversions)
		eachInstr(fn, func(in ssa.Instruction) {
			mi, ok := in.(*ssa.MakeInterface)
			if !ok {
				return
			}
			t := mi.X.Type()
			if pt, isPtr := t.Underlying().(*types.Pointer); isPtr {
				t = pt.Elem()
			}
			nt, ok := t.(*types.Named)
			if !ok || nt.Obj().Pkg() == nil || !isRepoPkg(nt.Obj().Pkg().Path()) {
				return
			}
			for i := 0; i < nt.NumMethods(); i++ {
				if m := c.Prog.FuncValue(nt.Method(i)); m != nil && m.Blocks != nil && !seen[m] {
					seen[m] = true
					work = append(work, m)
				}
			}
		})
		n := c.cg.Nodes[fn]
		if n == nil {
			continue
		}
		for _, e := range n.Out {
			t := e.Callee.Func
			if t == nil || t.Pkg == nil || !isRepoPkg(t.Pkg.Pkg.Path()) || seen[t] {
				continue
			}
			seen[t] = true
			work = append(work, t)
		}
	}
	m := map[string]bool{}
	for fn := range seen {
		// C17 is about where the command writes in the file system: what the library does with the
		// archive's bytes cannot move a path out of the output directory
		if prop == "C17" && (fn.Pkg == nil || !strings.HasPrefix(fn.Pkg.Pkg.Path(), modCmd)) {
			continue
		}
		m[fnKey(rootFuncOf(fn))] = true
	}
	c.reach[prop] = m
	return m
}

// ---- the rule ------------------------------------------------------------------------------------

func rulePitfalls(c *Ctx, r *Report) {
	reach := c.propReach(r.Property)
	r.Count("functions declared in or reached from the property's anchor files", len(reach))
	if len(reach) < 5 {
		r.Undec("pitfalls@reach", "-", fmt.Sprintf("only %d functions reached from the anchor files of %s: the anchor files are gone or renamed", len(reach), r.Property))
		return
	}
	type gk struct{ kind, fn, sub string }
	groups := map[gk][]pitfall{}
	for _, p := range c.pitfalls() {
		groups[gk{p.kind, p.fn, p.sub}] = append(groups[gk{p.kind, p.fn, p.sub}], p)
	}
	// instances the pinned tree has that are gone from their function, per (kind, discriminator): code
	// that moved — into a new function, a merged one, another package — takes them along
	type ks struct{ kind, sub string }
	deficit, surplus := map[ks]int{}, map[ks]int{}
	for bk, bn := range baselinePitfalls {
		f := strings.Split(bk, "\t")
		if have := len(groups[gk{f[0], f[1], f[2]}]); have < bn {
			deficit[ks{f[0], f[2]}] += bn - have
		}
	}
	for k, ps := range groups {
		if base := baselinePitfalls[k.kind+"\t"+k.fn+"\t"+k.sub]; len(ps) > base {
			surplus[ks{k.kind, k.sub}] += len(ps) - base
		}
	}
	var keys []gk
	for k := range groups {
		keys = append(keys, k)
	}
	sort.Slice(keys, func(i, j int) bool {
		if keys[i].kind != keys[j].kind {
			return keys[i].kind < keys[j].kind
		}
		if keys[i].fn != keys[j].fn {
			return keys[i].fn < keys[j].fn
		}
		return keys[i].sub < keys[j].sub
	})
	n := 0
	for _, k := range keys {
		if !reach[k.fn] {
			continue
		}
		n++
		ps := groups[k]
		base := baselinePitfalls[k.kind+"\t"+k.fn+"\t"+k.sub]
		key := k.kind + "@" + k.fn
		if k.sub != "" {
			key += "#" + k.sub
		}
		if len(ps) <= base {
			r.Exempt(key, ps[0].pos, fmt.Sprintf("%d instance(s), as in the pinned tree", len(ps)))
			continue
		}
		if s, d := surplus[ks{k.kind, k.sub}], deficit[ks{k.kind, k.sub}]; s <= d {
			r.Exempt(key, ps[0].pos, "instances of the pinned tree that moved here from the function(s) that no longer hold them")
			continue
		}
		var where []string
		for _, p := range ps {
			where = append(where, p.pos+" ("+p.detail+")")
		}
		r.Viol(key, ps[0].pos, fmt.Sprintf("%d instance(s) where the pinned tree has %d: %s: %s", len(ps), base, strings.Join(where, "; "), pitfallWhy[k.kind]))
	}
	r.Count("(kind, function) groups examined", n)
}

func registerPitfallRules() {
	for id, def := range registry {
		rid := "R" + strings.TrimPrefix(id, "C") + "P"
		def.Rules = append(def.Rules, RuleDef{ID: rid, Floor: 1, Doc: "no Go-level pitfall beyond those of the pinned tree in the functions the property's anchor files declare or reach: break that only leaves a switch, append or delete on a parameter, a failure tested and then lost, a result stored before its error is tested, a deferred error dropped, a limit compared after a signed conversion, a sentinel wrapped, a whole-struct comparison, a discarded pure result, a shadowed variable that takes the assignment meant for the outer one, a ranged slice reassigned in its loop, a fast path by dynamic type (baseline_pitfalls.txt)", Run: rulePitfalls})
		gid := "R" + strings.TrimPrefix(id, "C") + "G"
		def.Rules = append(def.Rules, RuleDef{ID: gid, Floor: 3, Doc: "no bound moved and no new rejection in the functions the property's anchor files declare or reach: every integer comparison that decides a branch, in canonical form (affine expression over stable atoms, split point), splits where the pinned tree splits (baseline_guards.txt), and no comparison of a quantity the function did not compare before returns an error of its own", Run: ruleGuards})
		wid := "R" + strings.TrimPrefix(id, "C") + "W"
		def.Rules = append(def.Rules, RuleDef{ID: wid, Floor: 3, Doc: "no field read or call exchanged for a like-typed sibling in the functions the property's anchor files declare or reach: per function, the struct fields read and the functions called are held against the pinned tree (baseline_siblings.txt); a field read more often while another field of the same struct and type is read less often (one side of the exchange complete), or a new call while a call with the same parameter and result types is lost, is reported (siblings.go)", Run: ruleSiblings})
		oid := "R" + strings.TrimPrefix(id, "C") + "O"
		def.Rules = append(def.Rules, RuleDef{ID: oid, Floor: 3, Doc: "no two events stand in the other order than in the pinned tree, in the functions the property's anchor files declare or reach: impure calls, stores into state the function did not make, error tests, tests of boolean results and integer guards; for every pair that the pinned tree orders one way only (dominance; baseline_order.txt) the working tree does not order it the other way only (order.go)", Run: ruleOrder})
		sid := "R" + strings.TrimPrefix(id, "C") + "S"
		def.Rules = append(def.Rules, RuleDef{ID: sid, Floor: 1, Doc: "no necessary condition of another property is violated or undecided in a function this property's anchor files declare or reach: every function-keyed obligation of every other property's rules inside the reach is reported here too, with the rule and property it comes from (shared.go)", Run: ruleShared})
		registry[id] = def
	}
}

// listPitfalls prints the baseline table.
func listPitfalls(c *Ctx) []string {
	counts := map[string]int{}
	for _, p := range c.pitfalls() {
		counts[p.kind+"\t"+p.fn+"\t"+p.sub]++
	}
	var out []string
	for k, n := range counts {
		out = append(out, fmt.Sprintf("%s\t%d", k, n))
	}
	sort.Strings(out)
	return out
}

// unflushedReturn: a return that reports success (a nil error, or any return of a function
// without an error result) is reachable from the creation of the bufio.Writer without passing a
// Flush of it. A deferred Flush counts as passing (its dropped error is another kind); a writer
// that escapes (returned, stored into a field) is somebody else's to flush.
func unflushedReturn(g *ssa.Function, mk *ssa.Call) token.Pos {
	errT := types.Universe.Lookup("error").Type()
	isW := func(v ssa.Value) bool { return canon(v) == ssa.Value(mk) || v == ssa.Value(mk) }
	flushBlocks := map[*ssa.BasicBlock]bool{}
	escapes, deferred := false, false
	for _, h := range withAnon(g) {
		eachInstr(h, func(in ssa.Instruction) {
			switch x := in.(type) {
			case *ssa.Call:
				if funcIs(calleeFunc(x.Common()), "bufio", "Writer", "Flush") && len(x.Call.Args) > 0 && isW(x.Call.Args[0]) && h == g {
					flushBlocks[x.Block()] = true
				}
			case *ssa.Defer:
				if funcIs(calleeFunc(x.Common()), "bufio", "Writer", "Flush") && len(x.Call.Args) > 0 && isW(x.Call.Args[0]) {
					deferred = true
				}
			case *ssa.Store:
				if isW(x.Val) {
					if _, local := addrRoot(x.Addr).(*ssa.Alloc); !local {
						escapes = true
					}
				}
			case *ssa.Return:
				for _, r := range x.Results {
					if isW(r) {
						escapes = true
					}
				}
			}
		})
	}
	if escapes || deferred {
		return token.NoPos
	}
	cut := EdgeSet{}
	for _, b := range g.Blocks {
		for i, s := range b.Succs {
			if flushBlocks[s] {
				cut[Edge{From: b, Succ: i}] = true
			}
		}
	}
	if flushBlocks[mk.Block()] {
		return token.NoPos
	}
	rs := reach(g, mk.Block(), cut)
	res := g.Signature.Results()
	hasErr := res.Len() > 0 && types.Identical(res.At(res.Len()-1).Type(), errT)
	for _, ret := range returnsOf(g) {
		if !rs[ret.Block()] || flushBlocks[ret.Block()] {
			continue
		}
		if !hasErr {
			return ret.Pos()
		}
		rv := retResult(ret, len(ret.Results)-1)
		if isNilConst(rv) || nilness(rv, ret.Block()) == 1 {
			return ret.Pos()
		}
	}
	return token.NoPos
}

// contextMismatch: for every case of the select that receives from A.Done(), the block the case
// leads to calls Err() on a value other than A.
func contextMismatch(g *ssa.Function, sel *ssa.Select) []token.Pos {
	var out []token.Pos
	doneOf := func(ch ssa.Value) ssa.Value {
		cl, ok := canon(ch).(*ssa.Call)
		if !ok || !cl.Call.IsInvoke() || cl.Call.Method.Name() != "Done" {
			return nil
		}
		return canon(cl.Call.Value)
	}
	var idx ssa.Value
	for _, r := range *sel.Referrers() {
		if ex, ok := r.(*ssa.Extract); ok && ex.Index == 0 {
			idx = ex
		}
	}
	if idx == nil {
		return nil
	}
	for i, st := range sel.States {
		a := doneOf(st.Chan)
		if a == nil || st.Dir != types.RecvOnly {
			continue
		}
		for _, b := range g.Blocks {
			if len(b.Instrs) == 0 {
				continue
			}
			iff, ok := b.Instrs[len(b.Instrs)-1].(*ssa.If)
			if !ok {
				continue
			}
			cmp, ok := iff.Cond.(*ssa.BinOp)
			if !ok || cmp.Op != token.EQL || cmp.X != idx {
				continue
			}
			if k, ok := constInt(cmp.Y); !ok || int(k) != i {
				continue
			}
			tgt := b.Succs[0]
			if len(tgt.Preds) != 1 {
				continue
			}
			for _, in := range tgt.Instrs {
				cl, ok := in.(*ssa.Call)
				if !ok || !cl.Call.IsInvoke() || cl.Call.Method.Name() != "Err" {
					continue
				}
				if recv := canon(cl.Call.Value); !sameCell(recv, a) {
					if _, isCtx := recv.Type().Underlying().(*types.Interface); isCtx {
						out = append(out, cl.Pos())
					}
				}
			}
		}
	}
	return out
}

// sameCell: the same value, or two loads of the same variable (a captured context is loaded anew
// at every use).
func sameCell(a, b ssa.Value) bool {
	if a == b {
		return true
	}
	la, ok1 := a.(*ssa.UnOp)
	lb, ok2 := b.(*ssa.UnOp)
	return ok1 && ok2 && la.Op == token.MUL && lb.Op == token.MUL && la.X == lb.X
}

// liveBlocks: the blocks of g reachable from its entry when constant conditions are folded (a flag
// argument of an inlined helper that is a constant at this call site).
var liveCache = map[*ssa.Function]map[*ssa.BasicBlock]bool{}

func liveBlocks(g *ssa.Function) map[*ssa.BasicBlock]bool {
	if m, ok := liveCache[g]; ok {
		return m
	}
	m := reach(g, nil, nil)
	liveCache[g] = m
	return m
}

// storesCapturedError: the function literal (or one nested in it) stores to a captured variable of type error.
func storesCapturedError(lit *ssa.Function) bool {
	found := false
	for _, g := range withAnon(lit) {
		eachInstr(g, func(in ssa.Instruction) {
			st, ok := in.(*ssa.Store)
			if !ok {
				return
			}
			fv, ok := st.Addr.(*ssa.FreeVar)
			if !ok {
				return
			}
			if p, ok := fv.Type().Underlying().(*types.Pointer); ok && types.Identical(p.Elem(), types.Universe.Lookup("error").Type()) {
				found = true
			}
		})
	}
	return found
}

// closureReturned: the closure value is an operand of a return of the function that makes it
// (directly, or converted to a named function type or an interface first).
func closureReturned(mc *ssa.MakeClosure) bool {
	seen := map[ssa.Value]bool{}
	var walk func(v ssa.Value) bool
	walk = func(v ssa.Value) bool {
		if seen[v] || v.Referrers() == nil {
			return false
		}
		seen[v] = true
		for _, ref := range *v.Referrers() {
			switch r := ref.(type) {
			case *ssa.Return:
				return true
			case *ssa.ChangeType:
				if walk(r) {
					return true
				}
			case *ssa.MakeInterface:
				if walk(r) {
					return true
				}
			}
		}
		return false
	}
	return walk(mc)
}

// holdsOnlyParameter: the cell exists because a parameter is captured — its only store is the parameter.
func holdsOnlyParameter(al *ssa.Alloc) bool {
	if al.Referrers() == nil {
		return false
	}
	n := 0
	for _, ref := range *al.Referrers() {
		if st, ok := ref.(*ssa.Store); ok && st.Addr == ssa.Value(al) {
			if _, isP := st.Val.(*ssa.Parameter); !isP {
				return false
			}
			n++
		}
	}
	return n == 1
}

// mutatesFreeVar: where the literal (or a literal nested in it that captures the same cell) stores to the
// captured variable, to a part of it, or calls a pointer-receiver method on it.
func mutatesFreeVar(lit *ssa.Function, fv *ssa.FreeVar) token.Pos {
	pos := token.NoPos
	eachInstr(lit, func(in ssa.Instruction) {
		if pos != token.NoPos {
			return
		}
		switch x := in.(type) {
		case *ssa.Store:
			if addrRootNoLoad(x.Addr) == ssa.Value(fv) {
				pos = x.Pos()
			}
		case *ssa.MapUpdate:
			if l, ok := x.Map.(*ssa.UnOp); ok && l.Op == token.MUL && addrRootNoLoad(l.X) == ssa.Value(fv) {
				pos = x.Pos()
			}
		case ssa.CallInstruction:
			cc := x.Common()
			if cc.IsInvoke() || len(cc.Args) == 0 {
				return
			}
			f := calleeFunc(cc)
			if f == nil {
				return
			}
			sig, _ := f.Type().(*types.Signature)
			if sig == nil || sig.Recv() == nil {
				return
			}
			if _, ptr := sig.Recv().Type().(*types.Pointer); ptr && addrRootNoLoad(cc.Args[0]) == ssa.Value(fv) {
				if n := namedOf(sig.Recv().Type()); n != nil && n.Obj().Pkg() != nil && n.Obj().Pkg().Path() == "sync" {
					return // a lock, a wait group: made to be shared
				}
				pos = x.Pos()
			}
		case *ssa.MakeClosure:
			if inner, ok := x.Fn.(*ssa.Function); ok {
				for i, b := range x.Bindings {
					if b == ssa.Value(fv) && i < len(inner.FreeVars) {
						if p := mutatesFreeVar(inner, inner.FreeVars[i]); p != token.NoPos {
							pos = p
						}
					}
				}
			}
		}
	})
	return pos
}

// addrRootNoLoad follows field and element addressing (not loads) back to the cell addressed.
func addrRootNoLoad(v ssa.Value) ssa.Value {
	for i := 0; i < 16; i++ {
		switch x := v.(type) {
		case *ssa.FieldAddr:
			v = x.X
		case *ssa.IndexAddr:
			v = x.X
		default:
			return v
		}
	}
	return v
}

// readLikeName: the call is a Read or ReadAt in the sense of io.Reader / io.ReaderAt (by shape:
// first parameter []byte, results (int, error)).
func readLikeName(cc *ssa.CallCommon) string {
	name := ""
	var sig *types.Signature
	if cc.IsInvoke() {
		name = cc.Method.Name()
		sig, _ = cc.Method.Type().(*types.Signature)
	} else if f := calleeFunc(cc); f != nil {
		name = f.Name()
		sig, _ = f.Type().(*types.Signature)
		if sig != nil && sig.Recv() == nil {
			return ""
		}
	}
	if (name != "Read" && name != "ReadAt") || sig == nil || sig.Params().Len() == 0 || sig.Results().Len() != 2 {
		return ""
	}
	sl, ok := sig.Params().At(0).Type().Underlying().(*types.Slice)
	if !ok || !types.Identical(sl.Elem(), types.Typ[types.Byte]) {
		return ""
	}
	if b, ok := sig.Results().At(0).Type().Underlying().(*types.Basic); !ok || b.Kind() != types.Int {
		return ""
	}
	return name
}

// comparedWithEOF: the error value (or the variable it is kept in) is compared with io.EOF or
// handed to errors.Is with it.
func comparedWithEOF(e ssa.Value) bool {
	isEOF := func(v ssa.Value) bool { return sentinelName(v) == "io.EOF" }
	seen := map[ssa.Value]bool{}
	var walk func(v ssa.Value, depth int) bool
	walk = func(v ssa.Value, depth int) bool {
		if v == nil || seen[v] || depth > 4 || v.Referrers() == nil {
			return false
		}
		seen[v] = true
		for _, ref := range *v.Referrers() {
			switch r := ref.(type) {
			case *ssa.BinOp:
				if (r.Op == token.EQL || r.Op == token.NEQ) && (isEOF(r.X) || isEOF(r.Y)) {
					return true
				}
			case *ssa.Call:
				if f := calleeFunc(r.Common()); funcIs(f, "errors", "", "Is") && len(r.Common().Args) == 2 && isEOF(r.Common().Args[1]) {
					return true
				}
			case *ssa.Phi:
				if walk(r, depth+1) {
					return true
				}
			case *ssa.Store:
				// kept in a cell: the loads of that cell
				if al, ok := r.Addr.(*ssa.Alloc); ok && r.Val == v && al.Referrers() != nil {
					for _, ld := range *al.Referrers() {
						if u, ok := ld.(*ssa.UnOp); ok && u.Op == token.MUL && walk(u, depth+1) {
							return true
						}
					}
				}
			}
		}
		return false
	}
	return walk(e, 0)
}

// errorOperand: the error-typed value behind an argument boxed for a variadic ...any.
func errorOperand(v ssa.Value) ssa.Value {
	errT := types.Universe.Lookup("error").Type()
	for i := 0; i < 3; i++ {
		if types.Identical(v.Type(), errT) {
			return v
		}
		switch x := v.(type) {
		case *ssa.ChangeInterface:
			v = x.X
		case *ssa.MakeInterface:
			v = x.X
		default:
			return nil
		}
	}
	return nil
}

// errorSourceName: the call whose error result the value is (directly, or through one variable).
func errorSourceName(c *Ctx, e ssa.Value) string {
	seen := map[ssa.Value]bool{}
	var walk func(v ssa.Value, depth int) string
	walk = func(v ssa.Value, depth int) string {
		if v == nil || seen[v] || depth > 4 {
			return ""
		}
		seen[v] = true
		switch x := v.(type) {
		case *ssa.Extract:
			if call, ok := x.Tuple.(*ssa.Call); ok {
				return calleeName(c, call.Common())
			}
		case *ssa.Call:
			return calleeName(c, x.Common())
		case *ssa.Phi:
			for _, ed := range x.Edges {
				if n := walk(ed, depth+1); n != "" {
					return n
				}
			}
		case *ssa.UnOp:
			if al, ok := x.X.(*ssa.Alloc); ok && x.Op == token.MUL && al.Referrers() != nil {
				for _, ref := range *al.Referrers() {
					if st, ok := ref.(*ssa.Store); ok && st.Addr == ssa.Value(al) {
						if n := walk(st.Val, depth+1); n != "" {
							return n
						}
					}
				}
			}
		}
		return ""
	}
	return walk(e, 0)
}

// dependsOnParam: the value is computed from a parameter of g (not from its free variables alone).
func dependsOnParam(v ssa.Value, g *ssa.Function, depth int) bool {
	if depth > 8 || v == nil {
		return false
	}
	switch x := v.(type) {
	case *ssa.Parameter:
		return x.Parent() == g
	case *ssa.Const, *ssa.FreeVar, *ssa.Global, *ssa.Function, *ssa.Builtin:
		return false
	case ssa.Instruction:
		for _, op := range x.Operands(nil) {
			if *op != nil && dependsOnParam(*op, g, depth+1) {
				return true
			}
		}
	}
	return false
}

// underFirstTimeGuard: the block is reached only through the "still nil / still zero" outcome of
// a test of the captured variable itself.
func underFirstTimeGuard(g *ssa.Function, fv *ssa.FreeVar, at *ssa.BasicBlock) bool {
	isLoadOfFv := func(v ssa.Value) bool {
		if c, ok := v.(*ssa.Call); ok {
			if b, ok := c.Common().Value.(*ssa.Builtin); ok && b.Name() == "len" && len(c.Common().Args) == 1 {
				v = c.Common().Args[0]
			}
		}
		u, ok := v.(*ssa.UnOp)
		return ok && u.Op == token.MUL && u.X == ssa.Value(fv)
	}
	isZero := func(v ssa.Value) bool {
		k, ok := v.(*ssa.Const)
		if !ok {
			return false
		}
		if k.Value == nil {
			return true
		}
		switch k.Value.Kind() {
		case constant.Int:
			n, ok := constant.Int64Val(k.Value)
			return ok && n == 0
		case constant.Bool:
			return !constant.BoolVal(k.Value)
		case constant.String:
			return constant.StringVal(k.Value) == ""
		}
		return false
	}
	for _, b := range g.Blocks {
		if len(b.Instrs) == 0 {
			continue
		}
		iff, ok := b.Instrs[len(b.Instrs)-1].(*ssa.If)
		if !ok {
			continue
		}
		cmp, ok := iff.Cond.(*ssa.BinOp)
		if !ok || (cmp.Op != token.EQL && cmp.Op != token.NEQ) {
			continue
		}
		if !(isLoadOfFv(cmp.X) && isZero(cmp.Y) || isLoadOfFv(cmp.Y) && isZero(cmp.X)) {
			continue
		}
		first := b.Succs[0]
		if cmp.Op == token.NEQ {
			first = b.Succs[1]
		}
		if len(first.Preds) == 1 && (first == at || first.Dominates(at)) {
			return true
		}
	}
	return false
}
