package main

// Rules written after round 8 of unseen seeded changes (subtractive and substituting edits inside
// existing functions); each a structural necessary condition, stated on its own terms.

import (
	"fmt"
	"go/token"
	"go/types"
	"sort"
	"strings"

	"golang.org/x/tools/go/ssa"
)

// ---- R02r: the clean end of an archive is the bare io.EOF --------------------------------------

func ruleR02r(c *Ctx, r *Report) {
	n := 0
	var bad []string
	for _, fn := range c.RepoFuncs() {
		if !inLib(fn) {
			continue
		}
		n++
		eachInstr(fn, func(in ssa.Instruction) {
			ci, ok := in.(*ssa.Call)
			if !ok || !funcIs(calleeFunc(ci.Common()), "errors", "", "Is") || len(ci.Call.Args) != 2 {
				return
			}
			if isGlobalLoad(ci.Call.Args[1], "io", "EOF") {
				bad = append(bad, fmt.Sprintf("%s tests errors.Is(err, io.EOF) at %s", fnKey(rootFuncOf(fn)), c.Pos(ci.Pos())))
			}
		})
	}
	sort.Strings(bad)
	r.Count("library functions examined for errors.Is(_, io.EOF)", n)
	if n < 200 {
		r.Undec("bare-eof-only@library", "-", fmt.Sprintf("only %d functions examined", n))
		return
	}
	r.Check(len(bad) == 0, "bare-eof-only@library", "-", "the library compares with io.EOF by identity only", strings.Join(bad, "; ")+": the clean end of an archive is the bare io.EOF of a length-prefix read; the CID decoders wrap io.EOF when a CID is cut short, and errors.Is takes that wrapped failure — a truncation — for the end of the archive")
}

// ---- R04u: a block that need not be put does not end the batch -------------------------------------

func ruleR04u(c *Ctx, r *Report) {
	fn, err := c.Func(pkgBS, "ReadWrite", "PutMany")
	if err != nil {
		r.InfraFail("%v", err)
		return
	}
	key := "skip-continues-batch@" + fnKey(fn)
	sp := callsToFunc(fn, pkgStore, "", "ShouldPut")
	if len(sp) != 1 {
		r.Undec(key, c.Pos(fn.Pos()), fmt.Sprintf("expected one store.ShouldPut call, found %d", len(sp)))
		return
	}
	call, _ := sp[0].(*ssa.Call)
	should := extractOf(call, 0)
	no := condEdges(fn, func(base ssa.Value) (bool, bool) {
		if base == should || strip(base) == should {
			return true, false
		}
		return false, false
	})
	if len(no) == 0 {
		r.Undec(key, c.Pos(fn.Pos()), "no test of ShouldPut's answer found")
		return
	}
	// the loop head: the innermost block with a back edge that dominates the ShouldPut call
	var head *ssa.BasicBlock
	for _, b := range fn.Blocks {
		if !b.Dominates(call.Block()) {
			continue
		}
		for _, p := range b.Preds {
			if b.Dominates(p) {
				if head == nil || head.Dominates(b) {
					head = b
				}
			}
		}
	}
	if head == nil {
		r.Undec(key, c.Pos(fn.Pos()), "no loop around the ShouldPut call")
		return
	}
	cut := EdgeSet{}
	for i := range head.Succs {
		cut[Edge{From: head, Succ: i}] = true
	}
	bad := ""
	for _, e := range no {
		rs := reachFromEdge(fn, e, cut)
		for _, ret := range returnsOf(fn) {
			if rs[ret.Block()] {
				bad = fmt.Sprintf("when ShouldPut answers no (and no error), PutMany returns at %s instead of going on with the next block", c.Pos(ret.Pos()))
			}
		}
	}
	r.Check(bad == "", key, c.Pos(fn.Pos()), "the no-put outcome continues the loop", bad+": a duplicate (or an identity block that is not stored) in the middle of a batch silently drops every block after it, and the put reports success")
}

// ---- R09t: the CLI allocates nothing sized by a decoded length -----------------------------------

func ruleR09t(c *Ctx, r *Report) {
	n := 0
	var bad []string
	for _, fn := range c.RepoFuncs() {
		if fn.Pkg == nil || (fn.Pkg.Pkg.Path() != pkgCmdCar && fn.Pkg.Pkg.Path() != pkgCmdLib) {
			continue
		}
		eachInstr(fn, func(in ssa.Instruction) {
			mk, ok := in.(*ssa.MakeSlice)
			if !ok {
				return
			}
			n++
			for _, o := range origins(mk.Len, originOpts{binops: true}) {
				if o.Kind == "call" && o.Fn != nil && o.Res == 0 && (funcIs(o.Fn, pkgVarint, "", "ReadUvarint") || funcIs(o.Fn, "encoding/binary", "", "ReadUvarint")) {
					bad = append(bad, fmt.Sprintf("%s allocates a slice sized by a length prefix read from the input at %s", fnKey(rootFuncOf(fn)), c.Pos(mk.Pos())))
				}
			}
		})
	}
	sort.Strings(bad)
	r.Count("slice allocations in the CLI", n)
	r.Check(len(bad) == 0, "cli-allocations-bounded@cmd/car", "-", "no slice of the CLI is sized by a decoded length prefix", strings.Join(bad, "; ")+": the CLI's own section walks (car index) have no size limit because they stream; a length that becomes an allocation size panics (negative) or allocates what a crafted prefix asks for")
}

// ---- R13n: a root is present when a section has that CID ------------------------------------------

func ruleR13n(c *Ctx, r *Report) {
	fn, err := c.Func(modV2, "Reader", "Inspect")
	if err != nil {
		r.InfraFail("%v", err)
		return
	}
	key := "roots-by-whole-cid@" + fnKey(fn)
	bad := ""
	nEq := 0
	for _, g := range withNewCallees(fn) {
		eachInstr(g, func(in ssa.Instruction) {
			switch x := in.(type) {
			case *ssa.BinOp:
				if (x.Op == token.EQL || x.Op == token.NEQ) && isNamed(x.X.Type(), pkgCid, "Cid") {
					nEq++
				}
			case *ssa.Call:
				f := calleeFunc(x.Common())
				if funcIs(f, pkgCid, "Cid", "Equals") {
					nEq++
				}
				if funcIs(f, "bytes", "", "Equal") {
					for _, a := range x.Call.Args {
						if cl, _ := callOf(canon(a)); cl != nil && funcIs(calleeFunc(cl.Common()), pkgCid, "Cid", "Hash") {
							bad = fmt.Sprintf("Inspect compares CIDs by multihash (bytes.Equal over Cid.Hash()) at %s", c.Pos(x.Pos()))
						}
					}
				}
			}
		})
	}
	if nEq == 0 && bad == "" {
		bad = "no whole-CID comparison found in Inspect"
	}
	r.Check(bad == "", key, c.Pos(fn.Pos()), fmt.Sprintf("%d whole-CID comparison(s), none by multihash", nEq), bad+": RootsPresent says the roots are among the sections' CIDs; a section that only shares a root's digest under another codec or version is not that root")
}

// ---- R13o: the printed report lists every code that was counted ----------------------------------

func ruleR13o(c *Ctx, r *Report) {
	fn, err := c.Func(pkgCmdLib, "Counts", "String")
	if err != nil {
		r.InfraFail("%v", err)
		return
	}
	key := "report-lists-every-count@" + fnKey(fn)
	ok := false
	for _, g := range withAnon(fn) {
		eachInstr(g, func(in ssa.Instruction) {
			rg, isR := in.(*ssa.Range)
			if !isR {
				return
			}
			if _, isMap := rg.X.Type().Underlying().(*types.Map); isMap && len(fn.Params) > 0 && canon(rg.X) == ssa.Value(fn.Params[0]) {
				ok = true
			}
		})
	}
	r.Check(ok, key, c.Pos(fn.Pos()), "the keys printed are the keys of the counted map", "Counts.String no longer ranges over the map it prints: codes outside some other table are counted by Inspect and missing from the report, whose lines then neither match nor sum to what the scan found")
}

// ---- R15q / R15r: the traversal writer's destination and header -----------------------------------

func ruleR15q(c *Ctx, r *Report) {
	fn, err := c.Func(modV2, "", "TraverseToFile")
	if err != nil {
		r.InfraFail("%v", err)
		return
	}
	key := "destination-truncated@" + fnKey(fn)
	creates := callsToFunc(fn, "os", "", "Create")
	opens := callsToFunc(fn, "os", "", "OpenFile")
	bad := ""
	switch {
	case len(creates) > 0:
	case len(opens) > 0:
		for _, o := range opens {
			fl, isK := constInt(o.Common().Args[1])
			if !isK || fl&oTRUNC == 0 {
				bad = fmt.Sprintf("the destination is opened at %s without O_TRUNC: what a longer file already there held stays behind the CAR of this traversal", c.Pos(o.Pos()))
			}
		}
	default:
		bad = "no os.Create / os.OpenFile of the destination found"
	}
	r.Check(bad == "", key, c.Pos(fn.Pos()), "destination created truncating", bad)
}

func ruleR15r(c *Ctx, r *Report) {
	fn, err := c.Func(modV2, "traversalCar", "WriteV2Header")
	if err != nil {
		r.InfraFail("%v", err)
		return
	}
	key := "no-index-means-offset-zero@" + fnKey(fn)
	var zero []*ssa.Store
	eachInstr(fn, func(in ssa.Instruction) {
		if st, ok := in.(*ssa.Store); ok {
			if fa, ok := st.Addr.(*ssa.FieldAddr); ok && fieldAddrIs(fa, modV2, "Header", "IndexOffset") {
				if k, isK := constInt(st.Val); isK && k == 0 {
					zero = append(zero, st)
				}
			}
		}
	})
	if len(zero) == 0 {
		r.Undec(key, c.Pos(fn.Pos()), "no `IndexOffset = 0` for the index-less case found")
		return
	}
	bad := ""
	for _, z := range zero {
		for _, nm := range []string{"WithDataPadding", "WithIndexPadding", "WithDataSize"} {
			for _, ci := range callsToFunc(fn, modV2, "Header", nm) {
				if instrReaches(z, ci) {
					bad = fmt.Sprintf("after IndexOffset was zeroed at %s the header still goes through %s at %s, which moves IndexOffset again", c.Pos(z.Pos()), nm, c.Pos(ci.Pos()))
				}
			}
		}
	}
	r.Check(bad == "", key, c.Pos(fn.Pos()), "zeroing IndexOffset is the last change made to the header", bad+": Header.With*Padding shift IndexOffset by the padding; applied after the zeroing, an index-less CARv2 announces an index inside its own padding")
}

// ---- R02s: the CID rebuilt for the hash comparison has the version of the section's CID ----------

func ruleR02s(c *Ctx, r *Report) {
	fn, err := c.Func(modV2, "Reader", "Inspect")
	if err != nil {
		r.InfraFail("%v", err)
		return
	}
	key := "rebuilt-cid-version@" + fnKey(fn)
	v0 := len(callsToFunc(fn, pkgCid, "", "NewCidV0"))
	v1 := len(callsToFunc(fn, pkgCid, "", "NewCidV1"))
	// or the prefix's own Sum, which builds the right version itself
	sum := len(callsToFunc(fn, pkgCid, "Prefix", "Sum"))
	ok := (v0 > 0 && v1 > 0) || (v0 == 0 && v1 == 0 && sum > 0)
	r.Check(ok, key, c.Pos(fn.Pos()), "a CIDv0 section is compared with a rebuilt CIDv0, a CIDv1 section with a CIDv1", fmt.Sprintf("Inspect rebuilds the CID for comparison with NewCidV0 ×%d / NewCidV1 ×%d: a valid CIDv0 block never equals a rebuilt CIDv1, so a full inspection rejects archives every other reader accepts", v0, v1))
}

// ---- R19z: the CLI sizes files through links ------------------------------------------------------

func ruleR19z(c *Ctx, r *Report) {
	n := 0
	var bad []string
	for _, fn := range c.RepoFuncs() {
		if fn.Pkg == nil || fn.Pkg.Pkg.Path() != pkgCmdCar {
			continue
		}
		n++
		for _, ci := range callsToFunc(fn, "os", "", "Lstat") {
			bad = append(bad, fmt.Sprintf("%s calls os.Lstat at %s", fnKey(rootFuncOf(fn)), c.Pos(ci.Pos())))
		}
	}
	sort.Strings(bad)
	r.Count("functions of cmd/car examined for os.Lstat", n)
	r.Check(len(bad) == 0, "sizes-follow-links@cmd/car", "-", "the commands size their inputs with os.Stat", strings.Join(bad, "; ")+": the bytes of an input named through a symbolic link are read through the link; its size must be taken the same way, or the header announces the length of the link's target path as the payload size")
}

// ---- R20n / R20o: the stream constructor's default, and every put notifies ------------------------

func ruleR20n(c *Ctx, r *Report) {
	fn, err := c.Func(pkgDeferred, "", "NewDeferredCarWriterForStream")
	if err != nil {
		r.InfraFail("%v", err)
		return
	}
	key := "stream-default-is-carv1@" + fnKey(fn)
	bad := ""
	eachInstr(fn, func(in ssa.Instruction) {
		if ta, ok := in.(*ssa.TypeAssert); ok {
			bad = fmt.Sprintf("the constructor inspects the dynamic type of its stream at %s", c.Pos(ta.Pos()))
		}
	})
	w := callsToFunc(fn, modV2, "", "WriteAsCarV1")
	if len(w) == 0 {
		bad = "the constructor no longer prepends WriteAsCarV1(true)"
	} else if k, ok := constBool(w[0].Common().Args[0]); !ok || !k {
		bad = "the default prepended is not WriteAsCarV1(true)"
	}
	var op *ssa.Parameter
	for _, p := range fn.Params {
		if p.Name() == "opts" {
			op = p
		}
	}
	eachInstr(fn, func(in ssa.Instruction) {
		if st, ok := in.(*ssa.Store); ok {
			if fa, ok := st.Addr.(*ssa.FieldAddr); ok && fieldAddrIs(fa, pkgDeferred, "DeferredCarWriter", "opts") {
				for _, leaf := range phiLeaves(st.Val) {
					if op != nil && leaf == ssa.Value(op) {
						bad = fmt.Sprintf("on some path the options stored at %s are the caller's alone, without the CARv1 default", c.Pos(st.Pos()))
					}
				}
			}
		}
	})
	r.Check(bad == "", key, c.Pos(fn.Pos()), "every stream writer starts from WriteAsCarV1(true), whatever the stream is", bad+": the documented output of a stream writer is a CARv1 unless the caller says otherwise; a default that depends on whether the stream happens to implement io.WriterAt gives the same calls different bytes on a buffer and on a file")
}

func ruleR20o(c *Ctx, r *Report) {
	fn, err := c.Func(pkgDeferred, "DeferredCarWriter", "Put")
	if err != nil {
		r.InfraFail("%v", err)
		return
	}
	key := "every-put-notifies@" + fnKey(fn)
	var content *ssa.Parameter
	for _, p := range fn.Params {
		if sl, ok := p.Type().Underlying().(*types.Slice); ok && types.Identical(sl.Elem(), types.Typ[types.Byte]) {
			content = p
		}
	}
	bad := ""
	if content == nil {
		bad = "no content parameter found"
	} else {
		for _, g := range withAnon(fn) {
			eachInstr(g, func(in ssa.Instruction) {
				b, ok := in.(*ssa.BinOp)
				if !ok {
					return
				}
				switch b.Op {
				case token.LSS, token.LEQ, token.GTR, token.GEQ, token.EQL, token.NEQ:
				default:
					return
				}
				for _, opnd := range []ssa.Value{b.X, b.Y} {
					if cl, ok := canon(opnd).(*ssa.Call); ok {
						if bi, ok := cl.Call.Value.(*ssa.Builtin); ok && bi.Name() == "len" && canon(cl.Call.Args[0]) == ssa.Value(content) {
							bad = fmt.Sprintf("Put branches on the length of the content at %s", c.Pos(b.Pos()))
						}
					}
				}
			})
		}
	}
	r.Check(bad == "", key, c.Pos(fn.Pos()), "what Put does does not depend on the length of the content", bad+": an empty block is a put like any other (the empty file of a UnixFS tree): the listeners fire once per put, and a once-only listener fires before the first byte goes out")
}

// withNewCallees: fn, its closures, and (transitively) the functions it calls that the pinned tree does
// not have — a helper that could not be inlined (it stands in the right operand of && / ||, say) is
// still part of what fn does.
func withNewCallees(fn *ssa.Function) []*ssa.Function {
	var out []*ssa.Function
	seen := map[*ssa.Function]bool{}
	var visit func(f *ssa.Function, d int)
	visit = func(f *ssa.Function, d int) {
		if f == nil || seen[f] || d > 3 {
			return
		}
		seen[f] = true
		for _, g := range withAnon(f) {
			out = append(out, g)
			eachInstr(g, func(in ssa.Instruction) {
				// a method value or a named function handed on as a callback (`idx.ForEachCid(s.add)`)
				for _, op := range in.Operands(nil) {
					if *op == nil {
						continue
					}
					switch (*op).(type) {
					case *ssa.MakeClosure, *ssa.Function:
						if t := funcValueTarget(*op); t != nil && t.Blocks != nil && t.Parent() == nil && t.Pkg != nil && isRepoPkg(t.Pkg.Pkg.Path()) {
							if k := ssaDeclKey(t); k != "" && !baselineFuncs[k] {
								visit(t, d+1)
							}
						}
					}
				}
				ci, ok := in.(ssa.CallInstruction)
				if !ok {
					return
				}
				callee := staticTarget(ci.Common())
				if callee == nil || callee.Blocks == nil || callee.Pkg == nil || !isRepoPkg(callee.Pkg.Pkg.Path()) {
					return
				}
				if k := ssaDeclKey(callee); k != "" && !baselineFuncs[k] {
					visit(callee, d+1)
				}
			})
		}
	}
	visit(fn, 0)
	return out
}

// ---- R12s: two headers match only when they list the same number of roots -------------------------

func ruleR12s(c *Ctx, r *Report) {
	fn, err := c.Func(pkgV1, "CarHeader", "Matches")
	if err != nil {
		r.InfraFail("%v", err)
		return
	}
	key := "root-counts-equal@" + fnKey(fn)
	isLenRoots := func(v ssa.Value) bool {
		cl, ok := canon(v).(*ssa.Call)
		if !ok {
			return false
		}
		bi, ok := cl.Call.Value.(*ssa.Builtin)
		if !ok || bi.Name() != "len" {
			return false
		}
		fv, _ := fieldOfLoad(canon(cl.Call.Args[0]))
		return fv != nil && fv.Name() == "Roots"
	}
	eq := cmpEdges(fn, isLenRoots, isLenRoots, "eq")
	if len(eq) == 0 {
		r.Viol(key, c.Pos(fn.Pos()), "Matches does not compare len(h.Roots) with len(other.Roots) for equality: a header listing [A] then matches a caller's [A, B], the resume is accepted, and the finalized file carries roots other than the ones the session was given")
		return
	}
	rs := reach(fn, nil, edgeSet(eq))
	bad := ""
	for _, ret := range returnsOf(fn) {
		if !rs[ret.Block()] {
			continue
		}
		if k, isK := constBool(ret.Results[0]); isK && !k {
			continue
		}
		bad = fmt.Sprintf("Matches can answer true at %s without the two root lists having the same length", c.Pos(ret.Pos()))
	}
	r.Check(bad == "", key, c.Pos(fn.Pos()), "every non-false answer is behind len(h.Roots) == len(other.Roots)", bad)
}

// ---- R04w: an identity CID is one whose multihash code is IDENTITY, whatever its length ----------

func ruleR04w(c *Ctx, r *Report) {
	fn, err := c.Func(pkgStore, "", "IsIdentity")
	if err != nil {
		r.InfraFail("%v", err)
		return
	}
	key := "identity-by-code-alone@" + fnKey(fn)
	n, bad := 0, ""
	for _, ret := range returnsOf(fn) {
		if len(ret.Results) < 2 {
			continue
		}
		for _, leaf := range phiLeaves(retResult(ret, 1)) {
			n++
			if _, isK := constBool(leaf); isK {
				continue
			}
			b, ok := leaf.(*ssa.BinOp)
			okShape := false
			if ok && b.Op == token.EQL {
				for _, xy := range [][2]ssa.Value{{b.X, b.Y}, {b.Y, b.X}} { // == is symmetric
					fv, _ := fieldOfLoad(canon(xy[0]))
					k, isK := constInt(xy[1])
					if fv != nil && fv.Name() == "Code" && isK && k == 0 {
						okShape = true
					}
				}
			}
			if !okShape {
				bad = fmt.Sprintf("the answer returned at %s is not `decoded.Code == multihash.IDENTITY` alone", c.Pos(ret.Pos()))
			}
		}
	}
	if n == 0 {
		bad = "no answer found"
	}
	r.Check(bad == "", key, c.Pos(fn.Pos()), "ok = (Code == IDENTITY), nothing else", bad+": ShouldPut, Has and Get all ask this function whether the IdStore rule applies; an identity CID it does not recognise (the empty one) is written and indexed although StoreIdentityCIDs is off")
}
