package main

// thorough runs the deeper tier: see seeds.go. Filled in below.
func thorough(def PropertyDef, rep *Report, repo string, extra map[string]any) {
	// the replayed variants run the property's own rules; shared obligations (shared.go) are part of
	// the base run only
	sharedEnabled = false
	defer func() { sharedEnabled = true }()
	runThorough(def, rep, repo, extra)
}
