package main

// thorough runs the deeper tier: see seeds.go. Filled in below.
func thorough(def PropertyDef, rep *Report, repo string, extra map[string]any) {
	runThorough(def, rep, repo, extra)
}
