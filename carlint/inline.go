package main

// Source-level normalisation: calls to NEW unexported helpers are inlined back.
//
// The rules of this checker are written against the shapes of the pinned tree.
// A behaviour-preserving clean-up that extracts a helper ("checkFinalizedHeader",
// "shouldPut", "readOneByte") moves a condition or an effect out of the function
// a rule is anchored in; a breaking change that hides its edit in a new helper
// does the same. Rather than teaching every recogniser to look into helpers, the
// loader rewrites the program first: every static call to a same-package,
// unexported function that does NOT exist in the pinned tree (baseline_funcs.txt)
// is replaced by the helper's body, statement-wise, with `return` turned into an
// assignment to result temporaries and a labelled break. The rewritten files are
// handed to go/packages as an overlay and type-checked like any other source, so
// a mistake in this pass can only produce a load failure (exit 2), never a silent
// verdict. `//line` directives keep reported positions on the original lines.
//
// On the pinned tree there is no new function, so nothing is rewritten.
//
// Supported call positions (anything else is left alone and simply stays a call):
//   return h(a)                      (tail call; returns are kept)
//   h(a)                             (expression statement)
//   x, err := h(a)   x = h(a)        (sole right-hand side)
//   if [init;] cond {                 where the call is init's sole RHS / the
//   switch [init;] tag {               first thing cond/tag evaluates
//   return x, h(a)                   (other results free of side effects)
// Helpers with recover, labels or type parameters, and recursive helpers, are not inlined; a
// variadic helper is inlined where its extra arguments are written out (f(a, b), not f(s...)).

import (
	"bytes"
	_ "embed"
	"fmt"
	"go/ast"
	"go/token"
	"go/types"
	"os"
	"sort"
	"strings"

	"golang.org/x/tools/go/packages"
)

//go:embed baseline_funcs.txt
var baselineFuncsTxt string

// baselineFuncs: declarations of the pinned tree; baselineFingerprint: what each of them calls.
var baselineFuncs, baselineFingerprint = func() (map[string]bool, map[string]map[string]bool) {
	m := map[string]bool{}
	fp := map[string]map[string]bool{}
	for _, l := range strings.Split(baselineFuncsTxt, "\n") {
		l = strings.TrimRight(l, " \r")
		if l == "" || strings.HasPrefix(l, "#") {
			continue
		}
		f := strings.Split(l, "\t")
		if len(f) < 3 {
			continue
		}
		key := f[0] + "\t" + f[1] + "\t" + f[2]
		m[key] = true
		set := map[string]bool{}
		if len(f) > 3 && f[3] != "" {
			for _, c := range strings.Split(f[3], ",") {
				set[c] = true
			}
		}
		fp[key] = set
	}
	return m, fp
}()

func declKey(pkgPath string, fd *ast.FuncDecl) string {
	return pinnedDeclKey(rawDeclKey(pkgPath, fd))
}

// listFuncDecls prints the baseline table for the loaded tree.
func listFuncDecls(c *Ctx) []string {
	var out []string
	for path, p := range c.Pkgs {
		for _, f := range p.Syntax {
			for _, d := range f.Decls {
				if fd, ok := d.(*ast.FuncDecl); ok {
					line := declKey(path, fd)
					if obj, _ := p.TypesInfo.Defs[fd.Name].(*types.Func); obj != nil {
						if fn := c.Prog.FuncValue(obj); fn != nil && fn.Blocks != nil {
							var cs []string
							for k := range calleeFingerprint(fn) {
								cs = append(cs, k)
							}
							sort.Strings(cs)
							line += "\t" + strings.Join(cs, ",")
						}
					}
					out = append(out, line)
				}
			}
		}
	}
	sort.Strings(out)
	return out
}

type textEdit struct {
	start, end int // byte offsets in the file
	text       string
}

type inliner struct {
	fset     *token.FileSet
	pkg      *packages.Package
	round    int
	counter  int
	callees  map[*types.Func]*calleeInfo
	src      map[string][]byte // file -> current content
	edits    map[string][]textEdit
	sites    int
	log      []string
	next     ast.Stmt   // the statement that follows the one being examined, in the same list
	rest     []ast.Stmt // at the top level of a function: all statements after the one being examined
	deferOK  bool       // the current statement is in a position where a deferring helper may be inlined
	overlay  map[string][]byte
	imported map[string]bool // file NUL name: imports added to a caller's file
}

type calleeInfo struct {
	decl *ast.FuncDecl
	file *ast.File
	name string
	pkg  *packages.Package // the package the helper is declared in
	// hasDefer: the body defers plain calls (`defer mu.Unlock()`); such a helper can only
	// be inlined where the caller returns right after the call, so that "at the helper's
	// exit" and "at the caller's exit" are the same moment.
	hasDefer bool
}

// normaliseNewHelpers returns additional overlay entries (nil if there is nothing to do).
func normaliseNewHelpers(fset *token.FileSet, pkgs []*packages.Package, overlay map[string][]byte, round int) (map[string][]byte, []string, error) {
	out := map[string][]byte{}
	var log []string
	// exported functions of internal packages that the pinned tree does not have (a helper shared by
	// two packages in place of duplicated code): not API, inlined back wherever they are called
	xcallees := map[*types.Func]*calleeInfo{}
	for _, p := range pkgs {
		if !isRepoPkg(p.PkgPath) || p.TypesInfo == nil || !strings.Contains(p.PkgPath+"/", "/internal/") {
			continue
		}
		tmp := &inliner{fset: fset, pkg: p}
		for _, f := range p.Syntax {
			for _, d := range f.Decls {
				fd, ok := d.(*ast.FuncDecl)
				if !ok || fd.Body == nil || !fd.Name.IsExported() || fd.Recv != nil || baselineFuncs[declKey(p.PkgPath, fd)] {
					continue
				}
				obj, _ := p.TypesInfo.Defs[fd.Name].(*types.Func)
				if obj == nil {
					continue
				}
				if ok, hasDefer := tmp.eligible(fd, obj); ok && !hasDefer {
					xcallees[obj] = &calleeInfo{decl: fd, file: f, name: fd.Name.Name, pkg: p}
				}
			}
		}
	}
	for _, p := range pkgs {
		if !isRepoPkg(p.PkgPath) || p.TypesInfo == nil {
			continue
		}
		in := &inliner{fset: fset, pkg: p, round: round, callees: map[*types.Func]*calleeInfo{}, src: map[string][]byte{}, edits: map[string][]textEdit{}, overlay: overlay}
		for o, ci := range xcallees {
			in.callees[o] = ci
		}
		for _, f := range p.Syntax {
			for _, d := range f.Decls {
				fd, ok := d.(*ast.FuncDecl)
				if !ok || fd.Body == nil || fd.Name.IsExported() || fd.Name.Name == "init" || fd.Name.Name == "main" || fd.Name.Name == "_" {
					continue
				}
				if baselineFuncs[declKey(p.PkgPath, fd)] {
					continue
				}
				obj, _ := p.TypesInfo.Defs[fd.Name].(*types.Func)
				if obj == nil {
					continue
				}
				ok, hasDefer := in.eligible(fd, obj)
				if !ok {
					continue
				}
				in.callees[obj] = &calleeInfo{decl: fd, file: f, name: fd.Name.Name, hasDefer: hasDefer, pkg: p}
			}
		}
		if len(in.callees) == 0 {
			continue
		}
		for _, f := range p.Syntax {
			fn := fset.Position(f.Pos()).Filename
			tf := fset.File(f.Pos())
			if tf == nil {
				continue
			}
			fn = tf.Name()
			if strings.HasSuffix(fn, "_test.go") {
				continue
			}
			b, ok := overlay[fn]
			if !ok {
				var err error
				b, err = os.ReadFile(fn)
				if err != nil {
					return nil, nil, err
				}
			}
			in.src[fn] = b
			for _, d := range f.Decls {
				fd, ok := d.(*ast.FuncDecl)
				if !ok || fd.Body == nil {
					continue
				}
				in.walkList(f, fd, fd.Body.List)
			}
		}
		for fn, eds := range in.edits {
			if len(eds) == 0 {
				continue
			}
			nb, err := applyEdits(in.src[fn], eds)
			if err != nil {
				return nil, nil, fmt.Errorf("%s: %v", fn, err)
			}
			out[fn] = nb
		}
		log = append(log, in.log...)
	}
	if len(out) == 0 {
		return nil, log, nil
	}
	return out, log, nil
}

func applyEdits(src []byte, eds []textEdit) ([]byte, error) {
	sort.SliceStable(eds, func(i, j int) bool {
		if eds[i].start != eds[j].start {
			return eds[i].start < eds[j].start
		}
		return eds[i].end < eds[j].end
	})
	var out bytes.Buffer
	pos := 0
	for _, e := range eds {
		if e.start < pos {
			return nil, fmt.Errorf("overlapping edits at offset %d", e.start)
		}
		out.Write(src[pos:e.start])
		out.WriteString(e.text)
		pos = e.end
	}
	out.Write(src[pos:])
	return out.Bytes(), nil
}

// eligible: can this helper's body be spliced into a caller?
func (in *inliner) eligible(fd *ast.FuncDecl, obj *types.Func) (bool, bool) {
	sig := obj.Type().(*types.Signature)
	if sig.TypeParams() != nil || sig.RecvTypeParams() != nil {
		return false, false
	}
	if fd.Recv != nil {
		if len(fd.Recv.List) != 1 || len(fd.Recv.List[0].Names) > 1 {
			return false, false
		}
	}
	hasDefer := false
	inLoop := 0
	ok := true
	ast.Inspect(fd.Body, func(n ast.Node) bool {
		switch x := n.(type) {
		case *ast.FuncLit:
			return false
		case *ast.ForStmt, *ast.RangeStmt:
			// a defer inside a loop registers once per iteration; not handled
			ast.Inspect(x, func(m ast.Node) bool {
				if _, isDefer := m.(*ast.DeferStmt); isDefer {
					inLoop++
				}
				return true
			})
		case *ast.DeferStmt:
			if _, isLit := x.Call.Fun.(*ast.FuncLit); isLit {
				ok = false // a deferred closure may touch the helper's named results
			}
			hasDefer = true
		case *ast.LabeledStmt:
			// a label the inliner itself put there (another helper was spliced into this one in an
			// earlier round) is renamed when this body is spliced; any other label is not handled
			if !strings.HasPrefix(x.Label.Name, "_i") {
				ok = false
			}
		case *ast.GoStmt:
			ok = false
		case *ast.BranchStmt:
			if x.Tok == token.GOTO {
				ok = false
			}
		case *ast.CallExpr:
			if id, isId := x.Fun.(*ast.Ident); isId {
				if id.Name == "recover" {
					ok = false
				}
				if in.pkg.TypesInfo.Uses[id] == types.Object(obj) {
					ok = false // direct recursion
				}
			}
			if sel, isSel := x.Fun.(*ast.SelectorExpr); isSel && in.pkg.TypesInfo.Uses[sel.Sel] == types.Object(obj) {
				ok = false
			}
		}
		return ok
	})
	return ok && inLoop == 0, hasDefer
}

// ---- walking caller bodies ------------------------------------------------------------------

func (in *inliner) walkList(file *ast.File, encl *ast.FuncDecl, list []ast.Stmt) {
	top := encl != nil && encl.Body != nil && len(list) > 0 && len(list) == len(encl.Body.List) && list[0] == encl.Body.List[0]
	for i, s := range list {
		in.next = nil
		in.rest = nil
		if i+1 < len(list) {
			in.next = list[i+1]
			if top {
				in.rest = list[i+1:]
			}
		}
		in.walkStmt(file, encl, s)
	}
	in.next = nil
	in.rest = nil
}

// restIsPureTail: the statement being examined is at the top level of its function and everything
// after it only tests values and returns them — `if err != nil { return false, err }; return size >
// -1, nil`. What a helper defers then runs, for every purpose of the analysis, at the same moment
// whether it runs at the helper's exit or at the caller's.
func (in *inliner) restIsPureTail() bool {
	if len(in.rest) == 0 {
		return false
	}
	var pureTail func(s ast.Stmt) bool
	pureTail = func(s ast.Stmt) bool {
		switch x := s.(type) {
		case *ast.ReturnStmt:
			for _, r := range x.Results {
				if !in.pure(r) {
					return false
				}
			}
			return true
		case *ast.IfStmt:
			if x.Init != nil || !in.pure(x.Cond) {
				return false
			}
			for _, b := range x.Body.List {
				if !pureTail(b) {
					return false
				}
			}
			if x.Else != nil {
				return pureTail(x.Else)
			}
			return true
		case *ast.BlockStmt:
			for _, b := range x.List {
				if !pureTail(b) {
					return false
				}
			}
			return true
		}
		return false
	}
	for _, s := range in.rest {
		if !pureTail(s) {
			return false
		}
	}
	_, endsInReturn := in.rest[len(in.rest)-1].(*ast.ReturnStmt)
	return endsInReturn
}

// returnsNext: the statement after the current one is a return of side-effect-free results.
func (in *inliner) returnsNext() bool {
	rs, ok := in.next.(*ast.ReturnStmt)
	if !ok {
		return false
	}
	for _, r := range rs.Results {
		if !in.pure(r) {
			return false
		}
	}
	return true
}

func (in *inliner) funcLitsIn(file *ast.File, encl *ast.FuncDecl, n ast.Node) {
	if n == nil {
		return
	}
	ast.Inspect(n, func(x ast.Node) bool {
		if fl, ok := x.(*ast.FuncLit); ok {
			in.walkList(file, encl, fl.Body.List)
			return false
		}
		return true
	})
}

func (in *inliner) walkStmt(file *ast.File, encl *ast.FuncDecl, s ast.Stmt) {
	if s == nil {
		return
	}
	if in.tryStmt(file, encl, s) {
		// header-only rewrites leave the bodies untouched: keep walking them
		switch x := s.(type) {
		case *ast.IfStmt:
			in.walkList(file, encl, x.Body.List)
			in.walkStmt(file, encl, x.Else)
		case *ast.SwitchStmt:
			in.walkList(file, encl, x.Body.List)
		case *ast.RangeStmt:
			in.walkList(file, encl, x.Body.List)
		}
		return
	}
	switch x := s.(type) {
	case *ast.BlockStmt:
		in.walkList(file, encl, x.List)
	case *ast.IfStmt:
		in.funcLitsIn(file, encl, x.Init)
		in.funcLitsIn(file, encl, x.Cond)
		in.walkList(file, encl, x.Body.List)
		in.walkStmt(file, encl, x.Else)
	case *ast.ForStmt:
		in.funcLitsIn(file, encl, x.Init)
		in.funcLitsIn(file, encl, x.Cond)
		in.funcLitsIn(file, encl, x.Post)
		in.walkList(file, encl, x.Body.List)
	case *ast.RangeStmt:
		in.funcLitsIn(file, encl, x.X)
		in.walkList(file, encl, x.Body.List)
	case *ast.SwitchStmt:
		in.funcLitsIn(file, encl, x.Init)
		in.funcLitsIn(file, encl, x.Tag)
		in.walkList(file, encl, x.Body.List)
	case *ast.TypeSwitchStmt:
		in.walkList(file, encl, x.Body.List)
	case *ast.SelectStmt:
		in.walkList(file, encl, x.Body.List)
	case *ast.CaseClause:
		in.walkList(file, encl, x.Body)
	case *ast.CommClause:
		in.walkList(file, encl, x.Body)
	case *ast.LabeledStmt:
		in.walkStmt(file, encl, x.Stmt)
	default:
		in.funcLitsIn(file, encl, s)
	}
}

// site describes one call to be inlined.
type site struct {
	call   *ast.CallExpr
	callee *calleeInfo
	obj    *types.Func
	recv   ast.Expr // receiver expression for method calls
	// a promoted method (declared on an embedded struct): the implicit field path
	// from recv to the receiver proper (".writeCursor"), and that field's type
	recvPath string
	recvType types.Type
}

func (in *inliner) siteOf(e ast.Expr) *site {
	call, ok := ast.Unparen(e).(*ast.CallExpr)
	if !ok {
		return nil
	}
	info := in.pkg.TypesInfo
	switch f := ast.Unparen(call.Fun).(type) {
	case *ast.Ident:
		obj, _ := info.Uses[f].(*types.Func)
		if ci := in.callees[obj]; ci != nil && obj.Type().(*types.Signature).Recv() == nil && (!ci.hasDefer || in.deferOK) {
			return &site{call: call, callee: ci, obj: obj}
		}
	case *ast.SelectorExpr:
		sel := info.Selections[f]
		if sel == nil {
			// pkg.Helper(...): a new exported helper of an internal package
			obj, _ := info.Uses[f.Sel].(*types.Func)
			if ci := in.callees[obj]; ci != nil && obj.Type().(*types.Signature).Recv() == nil && (!ci.hasDefer || in.deferOK) {
				return &site{call: call, callee: ci, obj: obj}
			}
			return nil
		}
		if sel.Kind() != types.MethodVal {
			return nil
		}
		obj, _ := sel.Obj().(*types.Func)
		ci := in.callees[obj]
		if ci == nil || (ci.hasDefer && !in.deferOK) {
			return nil
		}
		st := &site{call: call, callee: ci, obj: obj, recv: f.X}
		if idx := sel.Index(); len(idx) > 1 {
			t := info.TypeOf(f.X)
			for _, k := range idx[:len(idx)-1] {
				if pt, ok := t.Underlying().(*types.Pointer); ok {
					t = pt.Elem()
				}
				stt, ok := t.Underlying().(*types.Struct)
				if !ok || k >= stt.NumFields() {
					return nil
				}
				st.recvPath += "." + stt.Field(k).Name()
				t = stt.Field(k).Type()
			}
			st.recvType = t
		}
		return st
	}
	return nil
}

func (in *inliner) off(p token.Pos) int { return in.fset.PositionFor(p, false).Offset }
func (in *inliner) text(file string, a, b token.Pos) string {
	return string(in.src[file][in.off(a):in.off(b)])
}
func (in *inliner) fileOf(p token.Pos) string { return in.fset.File(p).Name() }

// pure: evaluating e has no side effect and cannot observe one.
func pureExpr(e ast.Expr) bool { return pureExprInfo(e, nil) }

func (in *inliner) pure(e ast.Expr) bool { return pureExprInfo(e, in.pkg.TypesInfo) }

func pureExprInfo(e ast.Expr, info *types.Info) bool {
	ok := true
	ast.Inspect(e, func(n ast.Node) bool {
		switch x := n.(type) {
		case *ast.CallExpr:
			// conversions and len/cap evaluate nothing but their operand
			if info != nil {
				if tv, has := info.Types[x.Fun]; has && tv.IsType() {
					return ok
				}
				if id, isId := ast.Unparen(x.Fun).(*ast.Ident); isId {
					if _, isB := info.Uses[id].(*types.Builtin); isB && (id.Name == "len" || id.Name == "cap") {
						return ok
					}
				}
			}
			ok = false
		case *ast.FuncLit:
			ok = false
		case *ast.UnaryExpr:
			if x.Op == token.ARROW {
				ok = false
			}
		}
		return ok
	})
	return ok
}

// leftmostCall: the call that the expression evaluates first, unconditionally.
func leftmost(e ast.Expr) ast.Expr {
	for {
		switch x := e.(type) {
		case *ast.ParenExpr:
			e = x.X
		case *ast.UnaryExpr:
			if x.Op == token.ARROW {
				return e
			}
			e = x.X
		case *ast.BinaryExpr:
			e = x.X
		default:
			return e
		}
	}
}

// firstCall finds, in evaluation order, the first inlinable call of e such that
// everything evaluated before it is free of side effects and it is evaluated
// unconditionally (not under the right operand of && / ||, not inside a function
// literal). Hoisting such a call in front of the statement is within the freedom
// the language leaves for operand evaluation order.
func (in *inliner) firstCall(e ast.Expr) *site {
	var found *site
	pure := true
	var visit func(e ast.Expr) bool // returns false to stop
	visit = func(e ast.Expr) bool {
		if e == nil || found != nil || !pure {
			return false
		}
		switch x := e.(type) {
		case *ast.ParenExpr:
			return visit(x.X)
		case *ast.FuncLit:
			return true // creating a closure evaluates nothing
		case *ast.CallExpr:
			if st := in.siteOf(x); st != nil {
				found = st
				return false
			}
			if !visit(x.Fun) {
				return false
			}
			for _, a := range x.Args {
				if !visit(a) {
					return false
				}
			}
			// a type conversion or a builtin without effects keeps purity
			if tv, ok := in.pkg.TypesInfo.Types[x.Fun]; ok && tv.IsType() {
				return true
			}
			if id, ok := ast.Unparen(x.Fun).(*ast.Ident); ok {
				if _, isB := in.pkg.TypesInfo.Uses[id].(*types.Builtin); isB && (id.Name == "len" || id.Name == "cap" || id.Name == "min" || id.Name == "max") {
					return true
				}
			}
			pure = false
			return false
		case *ast.BinaryExpr:
			if !visit(x.X) {
				return false
			}
			if x.Op == token.LAND || x.Op == token.LOR {
				// the right operand is conditional: nothing in it may be hoisted, and it may have effects
				if !in.pure(x.Y) {
					pure = false
					return false
				}
				return true
			}
			return visit(x.Y)
		case *ast.UnaryExpr:
			if x.Op == token.ARROW {
				pure = false
				return false
			}
			return visit(x.X)
		case *ast.SelectorExpr:
			return visit(x.X)
		case *ast.IndexExpr:
			return visit(x.X) && visit(x.Index)
		case *ast.SliceExpr:
			return visit(x.X) && visit(x.Low) || (x.Low == nil && visit(x.X)) && visit(x.High) && visit(x.Max)
		case *ast.StarExpr:
			return visit(x.X)
		case *ast.TypeAssertExpr:
			return visit(x.X)
		case *ast.CompositeLit:
			for _, el := range x.Elts {
				if kv, ok := el.(*ast.KeyValueExpr); ok {
					if !visit(kv.Value) {
						return false
					}
					continue
				}
				if !visit(el) {
					return false
				}
			}
			return true
		case *ast.KeyValueExpr:
			return visit(x.Value)
		default:
			return true // identifiers, literals
		}
	}
	visit(e)
	if found != nil && found.obj.Type().(*types.Signature).Results().Len() != 1 {
		return nil // only single-valued calls can stand inside a larger expression
	}
	return found
}

// tryStmt rewrites s if it contains an inlinable call in a supported position.
func (in *inliner) tryStmt(file *ast.File, encl *ast.FuncDecl, s ast.Stmt) bool {
	fname := in.fileOf(s.Pos())
	if _, ok := in.src[fname]; !ok {
		return false
	}
	// where may a helper that defers be inlined: in tail position, or right before a return
	in.deferOK = false
	switch x := s.(type) {
	case *ast.ReturnStmt:
		in.deferOK = len(x.Results) == 1
	case *ast.ExprStmt, *ast.AssignStmt:
		in.deferOK = in.returnsNext() || in.restIsPureTail()
	}
	switch x := s.(type) {
	case *ast.ReturnStmt:
		if len(x.Results) == 1 {
			if st := in.siteOf(x.Results[0]); st != nil && ast.Unparen(x.Results[0]) == ast.Expr(st.call) {
				if exp, ok := in.expand(file, st, s.Pos(), "tail", nil); ok {
					in.replace(fname, s.Pos(), s.End(), exp, s)
					return true
				}
				return false
			}
		}
		for i, r := range x.Results {
			st := in.siteOf(r)
			if st == nil || ast.Unparen(r) != ast.Expr(st.call) {
				continue
			}
			others := true
			for j, o := range x.Results {
				if j != i && !in.pure(o) {
					others = false
				}
			}
			if !others || st.obj.Type().(*types.Signature).Results().Len() != 1 {
				return false
			}
			return in.hoist(file, st, s, fname, s.Pos(), s.End(), nil)
		}
		for i, rh := range x.Results {
			prevPure := true
			for _, q := range x.Results[:i] {
				if !in.pure(q) {
					prevPure = false
				}
			}
			if !prevPure {
				break
			}
			if st := in.firstCall(rh); st != nil {
				return in.hoist(file, st, s, fname, s.Pos(), s.End(), nil)
			}
			if !in.pure(rh) {
				break
			}
		}
	case *ast.ExprStmt:
		if st := in.siteOf(x.X); st != nil && ast.Unparen(x.X) == ast.Expr(st.call) {
			if exp, ok := in.expand(file, st, s.Pos(), "discard", nil); ok {
				in.replace(fname, s.Pos(), s.End(), exp, s)
				return true
			}
			return false
		}
		if st := in.firstCall(x.X); st != nil {
			return in.hoist(file, st, s, fname, s.Pos(), s.End(), nil)
		}
	case *ast.DeferStmt:
		return in.litCall(file, x.Call, s, fname)
	case *ast.GoStmt:
		return in.litCall(file, x.Call, s, fname)
	case *ast.AssignStmt:
		if len(x.Rhs) == 1 {
			if st := in.siteOf(x.Rhs[0]); st != nil && ast.Unparen(x.Rhs[0]) == ast.Expr(st.call) {
				for _, l := range x.Lhs {
					if !in.pure(l) {
						return false
					}
				}
				return in.hoist(file, st, s, fname, s.Pos(), s.End(), nil)
			}
		}
		// a call nested in the right-hand side(s)
		lhsPure := true
		for _, l := range x.Lhs {
			if !in.pure(l) {
				lhsPure = false
			}
		}
		if lhsPure {
			for i, rh := range x.Rhs {
				prevPure := true
				for _, q := range x.Rhs[:i] {
					if !in.pure(q) {
						prevPure = false
					}
				}
				if !prevPure {
					break
				}
				if st := in.firstCall(rh); st != nil {
					return in.hoist(file, st, s, fname, s.Pos(), s.End(), nil)
				}
				if !in.pure(rh) {
					break
				}
			}
		}
	case *ast.IfStmt:
		// init: sole-RHS assignment or expression statement
		if x.Init != nil {
			if st := in.initSite(x.Init); st != nil {
				return in.hoistHeader(file, st, s, fname, x.Pos(), x.Body.Lbrace, x.End(), x.Init, "if")
			}
			return false
		}
		if st := in.firstCall(x.Cond); st != nil {
			return in.hoistHeader(file, st, s, fname, x.Pos(), x.Body.Lbrace, x.End(), nil, "if")
		}
	case *ast.RangeStmt:
		if st := in.firstCall(x.X); st != nil {
			return in.hoistHeader(file, st, s, fname, x.Pos(), x.Body.Lbrace, x.End(), nil, "for")
		}
	case *ast.SwitchStmt:
		if x.Init != nil {
			if st := in.initSite(x.Init); st != nil {
				return in.hoistHeader(file, st, s, fname, x.Pos(), x.Body.Lbrace, x.End(), x.Init, "switch")
			}
			return false
		}
		if x.Tag != nil {
			if st := in.firstCall(x.Tag); st != nil {
				return in.hoistHeader(file, st, s, fname, x.Pos(), x.Body.Lbrace, x.End(), nil, "switch")
			}
		} else if in.switchToIfChain(fname, x) {
			return true
		}
	}
	return false
}

// switchToIfChain rewrites a tagless switch one of whose case expressions calls a new helper into the
// if / else-if chain it abbreviates (the next round then inlines the helper in the conditions). Only when
// the chain means the same: default last or absent, no fallthrough, no unlabelled break that would leave
// the switch. Keywords are edited in place, so every line stays where it was.
func (in *inliner) switchToIfChain(fname string, x *ast.SwitchStmt) bool {
	if x.Init != nil || x.Tag != nil || len(x.Body.List) == 0 {
		return false
	}
	hasSite := false
	for i, st := range x.Body.List {
		cc := st.(*ast.CaseClause)
		if cc.List == nil && i != len(x.Body.List)-1 {
			return false // default in the middle
		}
		for _, e := range cc.List {
			if in.firstCall(e) != nil {
				hasSite = true
			}
		}
		bad := false
		for _, b := range cc.Body {
			ast.Inspect(b, func(n ast.Node) bool {
				switch y := n.(type) {
				case *ast.FuncLit, *ast.ForStmt, *ast.RangeStmt, *ast.SwitchStmt, *ast.TypeSwitchStmt, *ast.SelectStmt:
					// a break inside these belongs to them
					if _, isFor := n.(*ast.ForStmt); isFor {
						return false
					}
					return false
				case *ast.BranchStmt:
					if y.Tok == token.FALLTHROUGH || (y.Tok == token.BREAK && y.Label == nil) {
						bad = true
					}
				}
				return true
			})
		}
		if bad {
			return false
		}
	}
	if !hasSite {
		return false
	}
	// `switch {` -> `{`
	in.edits[fname] = append(in.edits[fname], textEdit{in.off(x.Pos()), in.off(x.Body.Lbrace), ""})
	for i, st := range x.Body.List {
		cc := st.(*ast.CaseClause)
		prefix := "} else "
		if i == 0 {
			prefix = ""
		}
		if cc.List == nil {
			// default:
			if i == 0 {
				in.edits[fname] = append(in.edits[fname], textEdit{in.off(cc.Pos()), in.off(cc.Colon) + 1, "{"})
			} else {
				in.edits[fname] = append(in.edits[fname], textEdit{in.off(cc.Pos()), in.off(cc.Colon) + 1, "} else {"})
			}
			continue
		}
		var conds []string
		for _, e := range cc.List {
			conds = append(conds, "("+in.text(fname, e.Pos(), e.End())+")")
		}
		cond := strings.Join(conds, " || ")
		if len(conds) == 1 {
			cond = in.text(fname, cc.List[0].Pos(), cc.List[0].End())
		}
		// multi-line case lists keep their newlines inside the parentheses
		in.edits[fname] = append(in.edits[fname], textEdit{in.off(cc.Pos()), in.off(cc.Colon) + 1, prefix + "if " + cond + " {"})
	}
	// the switch's closing brace closes the last arm; one more closes the block
	in.edits[fname] = append(in.edits[fname], textEdit{in.off(x.Body.Rbrace), in.off(x.Body.Rbrace) + 1, "}}"})
	in.sites++
	in.log = append(in.log, fmt.Sprintf("tagless switch rewritten as an if chain at %s", in.fset.Position(x.Pos())))
	return true
}

func (in *inliner) initSite(init ast.Stmt) *site {
	switch x := init.(type) {
	case *ast.AssignStmt:
		if len(x.Rhs) == 1 {
			// the call itself, or the first call evaluated inside it (`err := idx.Load(w.records())`)
			st := in.siteOf(x.Rhs[0])
			if st == nil || ast.Unparen(x.Rhs[0]) != ast.Expr(st.call) {
				st = in.firstCall(x.Rhs[0])
			}
			if st != nil {
				for _, l := range x.Lhs {
					if !in.pure(l) {
						return nil
					}
				}
				return st
			}
		}
	case *ast.ExprStmt:
		if st := in.siteOf(x.X); st != nil && ast.Unparen(x.X) == ast.Expr(st.call) {
			return st
		}
		if st := in.firstCall(x.X); st != nil {
			return st
		}
	}
	return nil
}

func (in *inliner) replace(fname string, a, b token.Pos, text string, orig ast.Node) {
	// re-synchronise line numbers for whatever follows the rewritten statement
	text += in.resync(b)
	in.edits[fname] = append(in.edits[fname], textEdit{in.off(a), in.off(b), text})
	in.sites++
}

func (in *inliner) lineDirective(p token.Pos) string {
	pos := in.fset.PositionFor(p, true) // follow earlier //line directives back to the original
	return fmt.Sprintf("\n//line %s:%d\n", pos.Filename, pos.Line)
}

// resync: a directive that ends on the original line of p; the rest of that line
// closes the directive's comment, so the line after it is line(p)+1.
func (in *inliner) resync(p token.Pos) string {
	// only when nothing but blanks or a line comment follows on that line: the directive
	// swallows the rest of the line
	src := in.src[in.fileOf(p)]
	rest := src[in.off(p):]
	if i := bytes.IndexByte(rest, '\n'); i >= 0 {
		rest = rest[:i]
	}
	if t := strings.TrimSpace(string(rest)); t != "" && !strings.HasPrefix(t, "//") {
		return ""
	}
	pos := in.fset.PositionFor(p, true)
	return fmt.Sprintf("\n//line %s:%d", pos.Filename, pos.Line+1)
}

// hoist: statement-level rewrite `S[h(a)]` -> `var r..; { expansion }; S[r]`.
func (in *inliner) hoist(file *ast.File, st *site, s ast.Stmt, fname string, from, to token.Pos, _ ast.Stmt) bool {
	res := st.obj.Type().(*types.Signature).Results()
	if res.Len() == 0 {
		return false
	}
	var temps []string
	exp, ok := in.expand(file, st, s.Pos(), "assign", &temps)
	if !ok {
		return false
	}
	residual := in.text(fname, from, st.call.Pos()) + strings.Join(temps, ", ") + in.text(fname, st.call.End(), to)
	in.replace(fname, from, to, exp+in.lineDirective(s.Pos())+residual, s)
	return true
}

// hoistHeader: `if [init;] cond {` / `switch [init;] tag {` -> `{ [init'] expansion; if cond' {` ... `}`.
func (in *inliner) hoistHeader(file *ast.File, st *site, s ast.Stmt, fname string, from, lbrace, end token.Pos, init ast.Stmt, kw string) bool {
	res := st.obj.Type().(*types.Signature).Results()
	var temps []string
	var exp string
	var ok bool
	var initResidual string
	callInInit := init != nil
	if callInInit {
		if es, isExpr := init.(*ast.ExprStmt); isExpr && ast.Unparen(es.X) == ast.Expr(st.call) {
			exp, ok = in.expand(file, st, s.Pos(), "discard", nil)
		} else {
			if res.Len() == 0 {
				return false
			}
			exp, ok = in.expand(file, st, s.Pos(), "assign", &temps)
			initResidual = in.text(fname, init.Pos(), st.call.Pos()) + strings.Join(temps, ", ") + in.text(fname, st.call.End(), init.End())
		}
	} else {
		exp, ok = in.expand(file, st, s.Pos(), "assign", &temps)
	}
	if !ok {
		return false
	}
	var hdr strings.Builder
	hdr.WriteString("{\n")
	hdr.WriteString(exp)
	hdr.WriteString(in.lineDirective(s.Pos()))
	if callInInit {
		if initResidual != "" {
			hdr.WriteString(initResidual + "; ")
		}
		// the rest of the header after the init statement's semicolon
		rest := in.text(fname, init.End(), lbrace)
		rest = strings.TrimLeft(rest, " \t")
		rest = strings.TrimPrefix(rest, ";")
		hdr.WriteString(kw + " " + rest)
	} else {
		hdr.WriteString(in.text(fname, from, st.call.Pos()) + strings.Join(temps, ", ") + in.text(fname, st.call.End(), lbrace))
	}
	in.edits[fname] = append(in.edits[fname], textEdit{in.off(from), in.off(lbrace), hdr.String()})
	in.edits[fname] = append(in.edits[fname], textEdit{in.off(end), in.off(end), "\n}" + in.resync(end)})
	in.sites++
	return true
}

// expand produces the statement text that evaluates the call. mode: tail | discard | assign.
func (in *inliner) expand(file *ast.File, st *site, at token.Pos, mode string, temps *[]string) (string, bool) {
	info := in.pkg.TypesInfo
	sig := st.obj.Type().(*types.Signature)
	fd := st.callee.decl
	cfile := in.fileOf(fd.Pos())
	if _, ok := in.src[cfile]; !ok {
		// a file of this package that the walk has not come to yet: what was parsed is the overlay
		// (a replayed patch, an earlier round), not what is on disk
		if b, ok := in.overlay[cfile]; ok {
			in.src[cfile] = b
		} else {
			b, err := os.ReadFile(cfile)
			if err != nil {
				return "", false
			}
			in.src[cfile] = b
		}
	}
	cinfo := info // the helper's own package
	var cpkg *types.Package = in.pkg.Types
	if st.callee.pkg != nil && st.callee.pkg != in.pkg {
		cinfo = st.callee.pkg.TypesInfo
		cpkg = st.callee.pkg.Types
		if b, ok := in.overlay[cfile]; ok {
			in.src[cfile] = b
		}
	}
	xpkg := cpkg != in.pkg.Types
	var identEdits []textEdit // qualification of the helper's package-level names (file offsets)
	callerFile := in.fileOf(at)
	// qualifier for type text in the caller's file
	imports := map[string]string{} // path -> local name
	for _, is := range file.Imports {
		path := strings.Trim(is.Path.Value, `"`)
		name := ""
		if is.Name != nil {
			name = is.Name.Name
		} else if pn, ok := info.Implicits[is].(*types.PkgName); ok {
			name = pn.Name()
		}
		if name != "" && name != "_" && name != "." {
			imports[path] = name
		}
	}
	scope := in.pkg.Types.Scope().Innermost(at)
	if scope == nil {
		return "", false
	}
	qualOK := true
	qual := func(p *types.Package) string {
		if p == in.pkg.Types {
			return ""
		}
		if n, ok := imports[p.Path()]; ok {
			// the import name must not be shadowed where the text will be placed
			if _, o := scope.LookupParent(n, at); o != nil {
				if pn, isPkg := o.(*types.PkgName); isPkg && pn.Imported().Path() == p.Path() {
					return n
				}
			}
		}
		qualOK = false
		return p.Name()
	}
	// free identifiers of the body must mean the same thing at the call site
	captureOK := true
	wantImports := map[string]string{} // package name -> path, to be imported by the caller's file
	declared := map[types.Object]bool{}
	ast.Inspect(fd, func(n ast.Node) bool {
		if id, ok := n.(*ast.Ident); ok {
			if o := cinfo.Defs[id]; o != nil {
				declared[o] = true
			}
		}
		// the per-clause variable of `switch x := v.(type)` is an implicit object of its clause
		if cc, ok := n.(*ast.CaseClause); ok {
			if o := cinfo.Implicits[cc]; o != nil {
				declared[o] = true
			}
		}
		return true
	})
	var visit func(n ast.Node) bool
	visit = func(n ast.Node) bool {
		switch x := n.(type) {
		case *ast.SelectorExpr:
			ast.Inspect(x.X, visit) // the selected name is resolved through X, not through the scope
			return false
		case *ast.KeyValueExpr:
			if _, isId := x.Key.(*ast.Ident); isId {
				if _, isField := cinfo.Uses[x.Key.(*ast.Ident)].(*types.Var); isField && cinfo.Uses[x.Key.(*ast.Ident)].(*types.Var).IsField() {
					ast.Inspect(x.Value, visit)
					return false
				}
			}
			return true
		}
		id, ok := n.(*ast.Ident)
		if !ok {
			return true
		}
		o := cinfo.Uses[id]
		if o == nil || declared[o] {
			return true
		}
		if xpkg && o.Pkg() == cpkg && o.Parent() == cpkg.Scope() {
			// a package-level name of the helper's package: spelled pkg.Name at the call site
			if !o.Exported() {
				captureOK = false
				in.log = append(in.log, "  unexported name of another package: "+id.Name)
				return true
			}
			q := qual(cpkg)
			identEdits = append(identEdits, textEdit{in.off(id.Pos()), in.off(id.Pos()), q + "."})
			return true
		}
		_, at2 := scope.LookupParent(id.Name, at)
		switch oo := o.(type) {
		case *types.PkgName:
			pn, ok := at2.(*types.PkgName)
			if at2 == nil && file != nil && oo.Name() == id.Name {
				// the caller's file does not import the package (and the name is free there): import it
				wantImports[id.Name] = oo.Imported().Path()
			} else if !ok || pn.Imported().Path() != oo.Imported().Path() {
				captureOK = false
				in.log = append(in.log, "  capture: "+id.Name)
			}
		default:
			if at2 != o {
				captureOK = false
				in.log = append(in.log, "  capture: "+id.Name)
			}
		}
		return true
	}
	ast.Inspect(fd.Body, visit)
	if !captureOK {
		in.log = append(in.log, fmt.Sprintf("not inlined (identifier capture): %s at %s", st.callee.name, in.fset.Position(at)))
		return "", false
	}
	in.counter++
	pfx := fmt.Sprintf("_i%d_%d_", in.round, in.counter)
	// labels of earlier splices inside the helper's body get a fresh name per site
	ast.Inspect(fd.Body, func(n ast.Node) bool {
		var id *ast.Ident
		switch x := n.(type) {
		case *ast.LabeledStmt:
			id = x.Label
		case *ast.BranchStmt:
			id = x.Label
		}
		if id != nil && strings.HasPrefix(id.Name, "_i") {
			identEdits = append(identEdits, textEdit{in.off(id.Pos()), in.off(id.End()), pfx + strings.TrimPrefix(id.Name, "_")})
		}
		return true
	})
	var b strings.Builder
	b.WriteString("{\n")
	// argument temporaries, in call order
	type pdecl struct{ name, typ, from string }
	var params []pdecl
	recvExpr := ""
	if sig.Recv() != nil {
		rt := sig.Recv().Type()
		rtxt := types.TypeString(rt, qual)
		argT := info.TypeOf(st.recv)
		expr := in.text(callerFile, st.recv.Pos(), st.recv.End())
		if st.recvPath != "" {
			argT = st.recvType
			expr += st.recvPath
		}
		_, wantPtr := rt.(*types.Pointer)
		_, havePtr := argT.Underlying().(*types.Pointer)
		if _, isNamedPtr := argT.(*types.Pointer); isNamedPtr {
			havePtr = true
		}
		switch {
		case wantPtr && !havePtr:
			expr = "&(" + expr + ")"
		case !wantPtr && havePtr:
			expr = "*(" + expr + ")"
		}
		name := "_"
		if len(fd.Recv.List[0].Names) == 1 {
			name = fd.Recv.List[0].Names[0].Name
		}
		t := pfx + "recv"
		recvExpr = expr
		fmt.Fprintf(&b, "var %s %s = %s\n", t, rtxt, expr)
		params = append(params, pdecl{name, rtxt, t})
	}
	spread := st.call.Ellipsis.IsValid() // f(a, s...): the variadic parameter is s itself
	if spread && (!sig.Variadic() || len(st.call.Args) != sig.Params().Len()) {
		return "", false
	}
	if sig.Variadic() && !spread {
		// f(a, b, c) with f(x T, rest ...E): the explicit arguments of the variadic parameter
		// become a slice literal (nil when there are none)
		if mode == "literal" || len(st.call.Args) < sig.Params().Len()-1 {
			return "", false
		}
		if len(st.call.Args) == 1 && sig.Params().Len() > 1 {
			if _, isTuple := info.TypeOf(st.call.Args[0]).(*types.Tuple); isTuple {
				return "", false
			}
		}
	} else if len(st.call.Args) != sig.Params().Len() {
		return "", false // f(g()) with a tuple-valued g
	}
	for i := 0; i < sig.Params().Len(); i++ {
		p := sig.Params().At(i)
		ttxt := types.TypeString(p.Type(), qual)
		t := fmt.Sprintf("%sa%d", pfx, i)
		if sig.Variadic() && !spread && i == sig.Params().Len()-1 {
			val := "nil"
			if len(st.call.Args) > i {
				if _, isTuple := info.TypeOf(st.call.Args[i]).(*types.Tuple); isTuple {
					return "", false
				}
				val = ttxt + "{" + in.text(callerFile, st.call.Args[i].Pos(), st.call.Args[len(st.call.Args)-1].End()) + "}"
			}
			fmt.Fprintf(&b, "var %s %s = %s\n", t, ttxt, val)
		} else {
			fmt.Fprintf(&b, "var %s %s = %s\n", t, ttxt, in.text(callerFile, st.call.Args[i].Pos(), st.call.Args[i].End()))
		}
		name := p.Name()
		if name == "" {
			name = "_"
		}
		params = append(params, pdecl{name, ttxt, t})
	}
	if mode == "literal" {
		if !qualOK {
			return "", false
		}
		var ps, as []string
		k := 0
		if sig.Recv() != nil {
			name := params[0].name
			ps = append(ps, name+" "+params[0].typ)
			// the receiver expression was rendered into the first `var` line: recompute it
			k = 1
		}
		for i := 0; i < sig.Params().Len(); i++ {
			ps = append(ps, params[k+i].name+" "+params[k+i].typ)
			as = append(as, in.text(callerFile, st.call.Args[i].Pos(), st.call.Args[i].End()))
		}
		if sig.Recv() != nil {
			as = append([]string{recvExpr}, as...)
		}
		var rs []string
		for i := 0; i < sig.Results().Len(); i++ {
			r := sig.Results().At(i)
			if r.Name() != "" {
				rs = append(rs, r.Name()+" "+types.TypeString(r.Type(), qual))
			} else {
				rs = append(rs, types.TypeString(r.Type(), qual))
			}
		}
		if !qualOK {
			return "", false
		}
		lit := "func(" + strings.Join(ps, ", ") + ") (" + strings.Join(rs, ", ") + ") {" + in.lineDirective(fd.Body.Lbrace+1) + in.text(cfile, fd.Body.Lbrace+1, fd.Body.Rbrace) + "\n}"
		*temps = []string{strings.Join(as, ", ")}
		in.log = append(in.log, fmt.Sprintf("inlined %s (as a function literal) at %s", st.callee.name, in.fset.Position(at)))
		return lit, true
	}
	// result temporaries live outside the block (assign mode)
	var pre strings.Builder
	var rnames []string
	nres := sig.Results().Len()
	if mode == "assign" {
		for i := 0; i < nres; i++ {
			rn := fmt.Sprintf("%sr%d", pfx, i)
			rnames = append(rnames, rn)
			fmt.Fprintf(&pre, "var %s %s\n", rn, types.TypeString(sig.Results().At(i).Type(), qual))
		}
		*temps = rnames
	}
	if !qualOK {
		in.log = append(in.log, fmt.Sprintf("not inlined (type needs an import the caller's file lacks): %s at %s", st.callee.name, in.fset.Position(at)))
		return "", false
	}
	label := pfx + "L"
	// text of a range of the helper's file with its package-level names qualified
	qtext := func(a, b token.Pos) string {
		lo, hi := in.off(a), in.off(b)
		var eds []textEdit
		for _, e := range identEdits {
			if e.start >= lo && e.start < hi {
				eds = append(eds, textEdit{e.start - lo, e.end - lo, e.text})
			}
		}
		if len(eds) == 0 {
			return in.text(cfile, a, b)
		}
		out, err := applyEdits([]byte(in.text(cfile, a, b)), eds)
		if err != nil {
			return in.text(cfile, a, b)
		}
		return string(out)
	}
	// body with returns rewritten
	bodyStart, bodyEnd := fd.Body.Lbrace+1, fd.Body.Rbrace
	var redits []textEdit
	usesLabel := false
	named := nres > 0 && sig.Results().At(0).Name() != ""
	base := in.off(bodyStart)
	if mode != "tail" || named {
		ast.Inspect(fd.Body, func(n ast.Node) bool {
			if _, ok := n.(*ast.FuncLit); ok {
				return false
			}
			rs, ok := n.(*ast.ReturnStmt)
			if !ok {
				return true
			}
			var exprs string
			if len(rs.Results) > 0 {
				exprs = qtext(rs.Results[0].Pos(), rs.Results[len(rs.Results)-1].End())
			} else if named {
				var ns []string
				for i := 0; i < nres; i++ {
					ns = append(ns, sig.Results().At(i).Name())
				}
				exprs = strings.Join(ns, ", ")
			}
			var repl string
			switch mode {
			case "tail":
				if len(rs.Results) > 0 {
					return true
				}
				repl = "return " + exprs
			case "discard":
				usesLabel = true
				if exprs != "" {
					blanks := strings.TrimSuffix(strings.Repeat("_, ", nres), ", ")
					repl = "{ " + blanks + " = " + exprs + "; break " + label + " }"
				} else {
					repl = "{ break " + label + " }"
				}
			case "assign":
				usesLabel = true
				repl = "{ " + strings.Join(rnames, ", ") + " = " + exprs + "; break " + label + " }"
			}
			redits = append(redits, textEdit{in.off(rs.Pos()) - base, in.off(rs.End()) - base, repl})
			return true
		})
	}
	for _, e := range identEdits {
		inReturn := false
		for _, re := range redits {
			if e.start-base >= re.start && e.start-base < re.end {
				inReturn = true
			}
		}
		if !inReturn && e.start >= base && e.start < in.off(bodyEnd) {
			redits = append(redits, textEdit{e.start - base, e.end - base, e.text})
		}
	}
	body, err := applyEdits([]byte(in.text(cfile, bodyStart, bodyEnd)), redits)
	if err != nil {
		return "", false
	}
	// inner block: parameters, named results, body
	if mode != "tail" && usesLabel {
		fmt.Fprintf(&b, "%s:\nswitch {\ndefault:\n", label)
	} else {
		b.WriteString("{\n")
	}
	for _, p := range params {
		if p.name == "_" {
			fmt.Fprintf(&b, "_ = %s\n", p.from)
			continue
		}
		fmt.Fprintf(&b, "var %s %s = %s; _ = %s\n", p.name, p.typ, p.from, p.name)
	}
	if named {
		for i := 0; i < nres; i++ {
			r := sig.Results().At(i)
			if r.Name() == "_" {
				continue
			}
			fmt.Fprintf(&b, "var %s %s; _ = %s\n", r.Name(), types.TypeString(r.Type(), qual), r.Name())
		}
	}
	if !qualOK {
		return "", false
	}
	b.WriteString(in.lineDirective(bodyStart))
	// keep the body's first line aligned with the directive: the text starts right after `{`
	b.Write(body)
	b.WriteString("\n}\n}\n")
	in.log = append(in.log, fmt.Sprintf("inlined %s (%s) at %s", st.callee.name, mode, in.fset.Position(at)))
	for name, path := range wantImports {
		if in.imported == nil {
			in.imported = map[string]bool{}
		}
		if k := callerFile + "\x00" + name; !in.imported[k] {
			in.imported[k] = true
			o := in.off(file.Name.End())
			in.edits[callerFile] = append(in.edits[callerFile], textEdit{o, o, fmt.Sprintf("; import %s %q", name, path)})
		}
	}
	return pre.String() + b.String(), true
}

// litCall: `defer h(a)` / `go h(a)` -> `defer func(p T) { body }(a)`: the helper's body
// becomes a function literal called with the same arguments, which keeps the moment of
// argument evaluation and of execution exactly as they were.
func (in *inliner) litCall(file *ast.File, call *ast.CallExpr, s ast.Stmt, fname string) bool {
	st := in.siteOf(call)
	if st == nil {
		return false
	}
	var temps []string
	hdr, ok := in.expand(file, st, s.Pos(), "literal", &temps)
	if !ok {
		return false
	}
	// hdr is the literal; temps[0] the argument list
	kw := in.text(fname, s.Pos(), call.Pos())
	in.replace(fname, s.Pos(), s.End(), kw+hdr+"("+temps[0]+")", s)
	return true
}
