package main

// Rules written after round 6 of unseen seeded changes. Each is a structural necessary condition of
// the properties it is registered under (see the Doc strings in the registries) and is stated
// without reference to the change that motivated it.

import (
	"fmt"
	"go/token"
	"go/types"
	"sort"
	"strings"

	"golang.org/x/tools/go/ssa"
)

// ---- R01r: a section as long as its CID is an empty block, not a malformed one -----------------

func isSectionLenValue(v ssa.Value) bool {
	for _, o := range origins(v, originOpts{}) {
		if o.Kind == "call" && o.Fn != nil && o.Res == 0 {
			switch {
			case funcIs(o.Fn, pkgVarint, "", "ReadUvarint"), funcIs(o.Fn, "encoding/binary", "", "ReadUvarint"), funcIs(o.Fn, pkgV1Util, "", "LdReadSize"):
				return true
			}
		}
	}
	return false
}

func isCidLenValue(v ssa.Value) bool {
	for _, o := range origins(v, originOpts{}) {
		if o.Kind == "call" && o.Fn != nil {
			switch {
			case funcIs(o.Fn, pkgCid, "", "CidFromReader") && o.Res == 0, funcIs(o.Fn, pkgCid, "", "CidFromBytes") && o.Res == 0, funcIs(o.Fn, pkgCid, "Cid", "ByteLen"):
				return true
			}
		}
	}
	return false
}

func ruleR01r(c *Ctx, r *Report) {
	n := 0
	var bad []string
	for _, fn := range c.RepoFuncs() {
		if !inLib(fn) {
			continue
		}
		eachInstr(fn, func(in ssa.Instruction) {
			b, ok := in.(*ssa.BinOp)
			if !ok {
				return
			}
			switch b.Op {
			case token.LSS, token.LEQ, token.GTR, token.GEQ:
			default:
				return
			}
			var lenLeft bool
			switch {
			case isSectionLenValue(b.X) && isCidLenValue(b.Y) && !isCidLenValue(b.X):
				lenLeft = true
			case isCidLenValue(b.X) && isSectionLenValue(b.Y) && !isCidLenValue(b.Y):
				lenLeft = false
			default:
				return
			}
			n++
			// `len <= cid` / `cid >= len` puts the equal case on the "too short" side
			if (lenLeft && b.Op == token.LEQ) || (!lenLeft && b.Op == token.GEQ) {
				bad = append(bad, fmt.Sprintf("%s compares a section length with the length of its CID by %s at %s", fnKey(fn), b.Op, c.Pos(b.Pos())))
			}
		})
	}
	sort.Strings(bad)
	r.Count("comparisons of a section length with the length of its CID", n)
	r.Check(len(bad) == 0, "empty-block-is-valid@library", "-", fmt.Sprintf("%d comparisons, all strict: a section exactly as long as its CID is accepted", n),
		strings.Join(bad, "; ")+": a section exactly as long as its CID is the framing of a block with no data (every empty file in a UnixFS tree), which every writer emits; treating it as too short makes readers disagree about such blocks")
}

// ---- R15m: every dag the caller listed is in the header and is walked ---------------------------

func ruleR15m(c *Ctx, r *Report) {
	ctor, err := c.Func(modRoot, "", "NewSelectiveCar")
	if err != nil {
		r.InfraFail("%v", err)
		return
	}
	{
		key := "dags-kept@" + fnKey(ctor)
		var dp *ssa.Parameter
		for _, p := range ctor.Params {
			if p.Name() == "dags" {
				dp = p
			}
		}
		n, bad := 0, ""
		eachInstr(ctor, func(in ssa.Instruction) {
			st, ok := in.(*ssa.Store)
			if !ok {
				return
			}
			fa, ok := st.Addr.(*ssa.FieldAddr)
			if !ok || !fieldAddrIs(fa, modRoot, "SelectiveCar", "dags") {
				return
			}
			n++
			if dp == nil || canon(st.Val) != ssa.Value(dp) {
				bad = fmt.Sprintf("the dag list stored at %s is not the caller's list itself (filtered, de-duplicated or rebuilt)", c.Pos(st.Pos()))
			}
		})
		if n == 0 {
			bad = "NewSelectiveCar no longer stores a dag list"
		}
		r.Check(bad == "", key, c.Pos(ctor.Pos()), "the constructor keeps the caller's dag list as given", bad+": the header lists one root per dag and every dag is walked; a list that drops entries writes a header (and a CAR) other than the one asked for")
	}
	for _, name := range []string{"traverseHeader", "traverseBlocks"} {
		fn, err := c.Func(modRoot, "selectiveCarTraverser", name)
		if err != nil {
			r.InfraFail("%v", err)
			continue
		}
		key := "dags-ranged@" + fnKey(fn)
		n, bad := 0, ""
		for _, g := range withAnon(fn) {
			eachInstr(g, func(in ssa.Instruction) {
				ia, ok := in.(*ssa.IndexAddr)
				if !ok {
					return
				}
				pt, ok := ia.Type().Underlying().(*types.Pointer)
				if !ok || !isNamed(pt.Elem(), modRoot, "Dag") {
					return
				}
				n++
				if !loadsField(canon(ia.X), modRoot, "SelectiveCar", "dags") {
					bad = fmt.Sprintf("the dags iterated at %s are not the SelectiveCar's list itself", c.Pos(ia.Pos()))
				}
			})
		}
		if n == 0 {
			bad = name + " no longer iterates the dag list"
		}
		r.Check(bad == "", key, c.Pos(fn.Pos()), "ranges over SelectiveCar.dags itself", bad+": a dag left out of the walk (or of the header) changes which blocks and roots the CAR has")
	}
}

// ---- R02l: the stdin loader of `car extract` ends cleanly only at io.EOF ------------------------

func ruleR02l(c *Ctx, r *Report) {
	fn, err := c.Func(pkgCmdCar, "", "NewStdinReadStorage")
	if err != nil {
		r.InfraFail("%v", err)
		return
	}
	key := "stdin-clean-end-only-at-eof@" + fnKey(fn)
	n, bad := 0, ""
	for _, g := range withAnon(fn) {
		nexts := callsToFunc(g, modV2, "BlockReader", "Next")
		if len(nexts) == 0 {
			continue
		}
		for _, nx := range nexts {
			call, ok := nx.(*ssa.Call)
			if !ok {
				continue
			}
			errv := extractOf(call, 1)
			if errv == nil {
				continue
			}
			closure := flowClosure(errv)
			// edges on which the error of Next is io.EOF
			eof := condEdges(g, func(base ssa.Value) (bool, bool) {
				b, ok := base.(*ssa.BinOp)
				if !ok || (b.Op != token.EQL && b.Op != token.NEQ) {
					return false, false
				}
				if (closure[b.X] || closure[strip(b.X)]) && isGlobalLoad(b.Y, "io", "EOF") || (closure[b.Y] || closure[strip(b.Y)]) && isGlobalLoad(b.X, "io", "EOF") {
					return true, b.Op == token.EQL
				}
				return false, false
			})
			nonNil := condEdges(g, errNilCond(func(v ssa.Value) bool { return v == errv || strip(v) == errv }, false))
			if len(nonNil) == 0 {
				bad = "the error of Next is not tested"
				continue
			}
			// from "err != nil", without the io.EOF outcome: the done flag must not be set
			cut := edgeSet(eof)
			for _, e := range nonNil {
				rs := reachFromEdge(g, e, cut)
				eachInstr(g, func(in ssa.Instruction) {
					st, ok := in.(*ssa.Store)
					if !ok || !rs[st.Block()] {
						return
					}
					if fa, ok := st.Addr.(*ssa.FieldAddr); ok && fieldAddrIs(fa, pkgCmdCar, "stdinReadStorage", "done") {
						if k, isK := constBool(st.Val); !isK || k {
							bad = fmt.Sprintf("the input is marked as cleanly consumed at %s also when Next failed with something other than io.EOF", c.Pos(st.Pos()))
						}
					}
				})
			}
			n++
		}
	}
	if n == 0 && bad == "" {
		r.Undec(key, c.Pos(fn.Pos()), "no loader loop over BlockReader.Next found in NewStdinReadStorage")
		return
	}
	r.Check(bad == "", key, c.Pos(fn.Pos()), "done is set only on the io.EOF outcome of Next", bad+": a hash mismatch or a truncated stream then looks like the end of the archive, waiting reads answer 'not found', the extractor tolerates that as a partial DAG and the command reports success on a damaged input")
}

// ---- R04n: views of the file are positioned at 0, at the pragma size, or where the header says ---

func ruleR04n(c *Ctx, r *Report) {
	n := 0
	var bad []string
	for _, fn := range c.RepoFuncs() {
		if !inLib(fn) {
			continue
		}
		eachInstr(fn, func(in ssa.Instruction) {
			ci, ok := in.(*ssa.Call)
			if !ok {
				return
			}
			f := calleeFunc(ci.Common())
			var off ssa.Value
			switch {
			case funcIs(f, pkgIntIO, "", "NewOffsetReadSeeker"), funcIs(f, pkgIntIO, "", "NewOffsetWriter"):
				off = ci.Call.Args[1]
			case funcIs(f, "io", "", "NewSectionReader"):
				off = ci.Call.Args[1]
			default:
				return
			}
			n++
			if k, isK := constInt(canon(off)); isK && k != 0 && k != 11 {
				bad = append(bad, fmt.Sprintf("%s positions a view at the constant offset %d at %s", fnKey(fn), k, c.Pos(ci.Pos())))
			}
		})
	}
	sort.Strings(bad)
	r.Count("offset views constructed in the library", n)
	if n < 10 {
		r.Undec("view-offsets@library", "-", fmt.Sprintf("only %d offset views found (20 confirmed by hand): the recogniser no longer sees them", n))
		return
	}
	r.Check(len(bad) == 0, "view-offsets@library", "-", fmt.Sprintf("%d views: constant offsets are 0 or the pragma size only", n),
		strings.Join(bad, "; ")+": the payload of a CARv2 starts at Header.DataOffset (which includes the data padding), never at a fixed position; index offsets are relative to that start, so a view at a constant reads other bytes than the writer wrote whenever padding is in use")
}

// ---- R05p: the pragma is the first thing an initialiser writes ----------------------------------

func ruleR05p(c *Ctx, r *Report) {
	for _, s := range []fnSpec{{pkgBS, "ReadWrite", "initWithRoots"}, {pkgStorage, "StorageCar", "init"}} {
		fn, err := c.Func(s.pkg, s.recv, s.name)
		if err != nil {
			r.InfraFail("%v", err)
			continue
		}
		key := "pragma-first@" + fnKey(fn)
		var pw []ssa.Instruction
		eachInstr(fn, func(in ssa.Instruction) {
			if _, ok := pragmaWriteTarget(in); ok {
				pw = append(pw, in)
			}
		})
		hw := callsToFunc(fn, pkgV1, "", "WriteHeader")
		if len(pw) == 0 || len(hw) == 0 {
			r.Undec(key, c.Pos(fn.Pos()), fmt.Sprintf("pragma write (%d) or payload header write (%d) not found", len(pw), len(hw)))
			continue
		}
		bad := ""
		for _, h := range hw {
			for _, p := range pw {
				if instrReaches(h, p) {
					bad = fmt.Sprintf("the payload header written at %s can precede the pragma written at %s", c.Pos(h.Pos()), c.Pos(p.Pos()))
				}
			}
		}
		r.Check(bad == "", key, c.Pos(fn.Pos()), "no payload header write precedes the pragma write", bad+": the pragma goes out through the caller's sequential writer, so on a destination that appends it lands behind what was written before it and the file does not start with the CARv2 pragma")
	}
}

// ---- R06o: Resume cuts the old index off before it blanks the header ----------------------------

func ruleR06o(c *Ctx, r *Report) {
	fn, err := c.Func(pkgStore, "", "Resume")
	if err != nil {
		r.InfraFail("%v", err)
		return
	}
	key := "truncate-before-blank@" + fnKey(fn)
	truncs := callsIn(fn, func(f *types.Func, cc *ssa.CallCommon) bool {
		return (f != nil && f.Name() == "Truncate") || (cc.IsInvoke() && cc.Method.Name() == "Truncate")
	})
	hw := callsToFunc(fn, modV2, "Header", "WriteTo")
	if len(truncs) == 0 || len(hw) == 0 {
		r.Undec(key, c.Pos(fn.Pos()), fmt.Sprintf("Truncate (%d) or the header write (%d) not found in Resume", len(truncs), len(hw)))
		return
	}
	bad := ""
	for _, h := range hw {
		for _, t := range truncs {
			if instrReaches(h, t) {
				bad = fmt.Sprintf("the header is blanked at %s before the index is cut off at %s", c.Pos(h.Pos()), c.Pos(t.Pos()))
			}
		}
	}
	r.Check(bad == "", key, c.Pos(fn.Pos()), "the truncation to the end of the payload comes before the all-zero header write", bad+": a crash between the two leaves a blank header in front of payload plus old index, and the next resume scans the index bytes as sections")
}

// ---- R06p: `car filter --append` reports a destination it cannot open ---------------------------

func ruleR06p(c *Ctx, r *Report) {
	fn, err := c.Func(pkgCmdLib, "", "FilterCar")
	if err != nil {
		r.InfraFail("%v", err)
		return
	}
	key := "append-never-starts-over@" + fnKey(fn)
	bad := ""
	for _, ci := range callsToFunc(fn, pkgCmdLib, "", "FilterCar") {
		bad = fmt.Sprintf("FilterCar calls itself at %s (a fall-back from appending to writing a new file truncates the destination)", c.Pos(ci.Pos()))
	}
	opens := callsToFunc(fn, modV2, "", "OpenReader")
	if len(opens) == 0 {
		r.Undec(key, c.Pos(fn.Pos()), "FilterCar no longer opens its destination with OpenReader in append mode")
		return
	}
	for _, o := range opens {
		call, ok := o.(*ssa.Call)
		if !ok {
			continue
		}
		errv := extractOf(call, 1)
		for _, e := range condEdges(fn, errNilCond(func(v ssa.Value) bool { return v == errv || strip(v) == errv }, false)) {
			rs := reachFromEdge(fn, e, nil)
			for _, ret := range returnsOf(fn) {
				if rs[ret.Block()] && len(ret.Results) == 1 && resultIsNilConst(ret, 0) {
					bad = fmt.Sprintf("after OpenReader failed on the destination the command can still report success (return at %s)", c.Pos(ret.Pos()))
				}
			}
			eachInstr(fn, func(in ssa.Instruction) {
				ci, ok := in.(*ssa.Call)
				if ok && rs[ci.Block()] && funcIs(calleeFunc(ci.Common()), "os", "", "Truncate") {
					bad = fmt.Sprintf("after OpenReader failed on the destination, the destination can be truncated (%s)", c.Pos(ci.Pos()))
				}
			})
		}
	}
	r.Check(bad == "", key, c.Pos(fn.Pos()), "a destination that cannot be opened for appending is an error; nothing is truncated", bad+": an output left by an interrupted session has a blank header and fails to open; starting over destroys every block it holds while reporting success")
}

// ---- R07p: a re-wrapped offset view is based on the wrapped view's base, not on its cursor -------

func ruleR07p(c *Ctx, r *Report) {
	fn, err := c.Func(pkgIntIO, "", "NewOffsetReadSeeker")
	if err != nil {
		r.InfraFail("%v", err)
		return
	}
	key := "view-base@" + fnKey(fn)
	n, bad := 0, ""
	eachInstr(fn, func(in ssa.Instruction) {
		st, ok := in.(*ssa.Store)
		if !ok {
			return
		}
		fa, ok := st.Addr.(*ssa.FieldAddr)
		if !ok || !(fieldAddrIs(fa, pkgIntIO, "offsetReadSeeker", "base") || fieldAddrIs(fa, pkgIntIO, "offsetReadSeeker", "off")) {
			return
		}
		n++
		for _, o := range origins(st.Val, originOpts{binops: true}) {
			if o.Kind == "field" && o.Field != nil && o.Field.Name() == "off" {
				bad = fmt.Sprintf("the new view's position stored at %s is computed from the wrapped view's cursor (field off)", c.Pos(st.Pos()))
			}
		}
	})
	if n == 0 {
		r.Undec(key, c.Pos(fn.Pos()), "no store to base/off of a new offsetReadSeeker found")
		return
	}
	r.Check(bad == "", key, c.Pos(fn.Pos()), "new views are positioned from the argument offset and the wrapped view's base only", bad+": the cursor of the wrapped reader moves with every read made through it, so lookups through the new view are shifted by however much had been consumed")
}

// ---- R07q: the listing and the roots of the read-only store read through a cursor of their own ---

func ruleR07q(c *Ctx, r *Report) {
	for _, name := range []string{"AllKeysChan", "Roots"} {
		fn, err := c.Func(pkgBS, "ReadOnly", name)
		if err != nil {
			r.InfraFail("%v", err)
			continue
		}
		key := "own-cursor@" + fnKey(fn)
		n, bad := 0, ""
		for _, ci := range callsToFunc(fn, pkgV1, "", "ReadHeader") {
			n++
			for _, leaf := range phiLeaves(stripIface(ci.Common().Args[0])) {
				leaf = stripIface(leaf)
				cl, idx := callOf(leaf)
				if cl == nil || idx != 0 || !funcIs(calleeFunc(cl.Common()), pkgIntIO, "", "NewOffsetReadSeeker") {
					bad = fmt.Sprintf("the payload header is read at %s through something other than a fresh NewOffsetReadSeeker over the backing", c.Pos(ci.Pos()))
				}
			}
		}
		if n == 0 {
			r.Undec(key, c.Pos(fn.Pos()), "no carv1.ReadHeader call found")
			continue
		}
		r.Check(bad == "", key, c.Pos(fn.Pos()), "reads through its own NewOffsetReadSeeker", bad+": the backing is shared by every operation of the store; two listings, or Roots during a listing, reading through one cursor skip and repeat sections")
	}
}

// ---- R10n: the transforms accept every valid CARv1 (no legacy 'empty roots' rejection) ----------

func ruleR10n(c *Ctx, r *Report) {
	n := 0
	var bad []string
	for _, fn := range c.RepoFuncs() {
		if fn.Pkg == nil {
			continue
		}
		pp := fn.Pkg.Pkg.Path()
		if pp != modV2 && pp != pkgBS && pp != pkgStorage && pp != pkgIndex && pp != pkgStore {
			continue
		}
		n++
		// direct calls, and calls through functions the pinned tree does not have (a new helper in
		// any package, exported or not)
		seen := map[*ssa.Function]bool{}
		var visit func(f *ssa.Function, via string)
		visit = func(f *ssa.Function, via string) {
			if seen[f] {
				return
			}
			seen[f] = true
			for _, g := range withAnon(f) {
				eachInstr(g, func(in ssa.Instruction) {
					ci, ok := in.(ssa.CallInstruction)
					if !ok {
						return
					}
					callee, _ := ci.Common().Value.(*ssa.Function)
					if callee == nil || callee.Pkg == nil || !isRepoPkg(callee.Pkg.Pkg.Path()) {
						return
					}
					if callee.Pkg.Pkg.Path() == pkgV1 && strings.HasPrefix(callee.Name(), "NewCarReader") {
						bad = append(bad, fmt.Sprintf("%s reaches carv1.%s at %s%s", fnKey(fn), callee.Name(), c.Pos(ci.Pos()), via))
						return
					}
					if k := ssaDeclKey(callee); k != "" && !baselineFuncs[k] && callee.Blocks != nil {
						visit(callee, " (through the new function "+fnKey(callee)+")")
					}
				})
			}
		}
		visit(fn, "")
	}
	sort.Strings(bad)
	r.Count("functions of the v2 library examined for calls of the legacy CARv1 reader", n)
	if n < 50 {
		r.Undec("no-legacy-v1-reader@v2", "-", fmt.Sprintf("only %d functions examined", n))
		return
	}
	r.Check(len(bad) == 0, "no-legacy-v1-reader@v2", "-", "no v2 reader, store or transform goes through carv1.NewCarReader*", strings.Join(bad, "; ")+": that constructor rejects a header without roots ('empty car, no roots'), which every other reader and writer of the library accepts, so a transform built on it refuses valid archives")
}

// ---- R10o: the fully-indexed bit says what the StoreIdentityCIDs option says ---------------------

func ruleR10o(c *Ctx, r *Report) {
	n := 0
	var bad []string
	for _, fn := range c.RepoFuncs() {
		if !inLib(fn) {
			continue
		}
		for _, ci := range callsToFunc(fn, modV2, "Characteristics", "SetFullyIndexed") {
			n++
			arg := canon(ci.Common().Args[len(ci.Common().Args)-1])
			ok := loadsField(arg, modV2, "Options", "StoreIdentityCIDs")
			if p, isP := arg.(*ssa.Parameter); isP {
				for i, q := range fn.Params {
					if q == p && optionFieldOfParam(fn, i) == "StoreIdentityCIDs" {
						ok = true
					}
				}
			}
			if !ok {
				bad = append(bad, fmt.Sprintf("%s sets the fully-indexed characteristic at %s from something other than the StoreIdentityCIDs option", fnKey(fn), c.Pos(ci.Pos())))
			}
		}
	}
	sort.Strings(bad)
	if n == 0 {
		r.Undec("fully-indexed-bit@library", "-", "no call of Characteristics.SetFullyIndexed found")
		return
	}
	r.Check(len(bad) == 0, "fully-indexed-bit@library", "-", fmt.Sprintf("%d call(s), each given the StoreIdentityCIDs option", n), strings.Join(bad, "; ")+": with the option off, identity-CID sections are left out of the index, and a header that claims a complete catalogue contradicts the index it announces")
}

// ---- R10p: ReplaceRootsInFile succeeds only by writing the new header ---------------------------

func ruleR10p(c *Ctx, r *Report) {
	fn, err := c.Func(modV2, "", "ReplaceRootsInFile")
	if err != nil {
		r.InfraFail("%v", err)
		return
	}
	key := "success-means-written@" + fnKey(fn)
	bad := ""
	for _, ret := range returnsOf(fn) {
		if len(ret.Results) == 1 && resultIsNilConst(ret, 0) {
			bad = fmt.Sprintf("ReplaceRootsInFile returns nil at %s without the outcome of the header write", c.Pos(ret.Pos()))
		}
	}
	nw := 0
	eachInstr(fn, func(in ssa.Instruction) {
		if ci, ok := in.(*ssa.Call); ok {
			if f := calleeFunc(ci.Common()); f != nil && (f.Name() == "Write" || f.Name() == "WriteAt") {
				nw++
			}
		}
	})
	if nw == 0 {
		bad = "ReplaceRootsInFile no longer writes"
	}
	r.Check(bad == "", key, c.Pos(fn.Pos()), "the only success is the result of the final Write", bad+": a shortcut that reports success without rewriting the header leaves the old roots in place (two different CIDs can share a multihash, and a header of another size must be refused, not skipped)")
}

// ---- R13k: no new mutable package-level state in the library -----------------------------------

func ruleR13k(c *Ctx, r *Report) {
	n := 0
	var bad []string
	for _, pp := range libPkgs {
		p := c.Pkgs[pp]
		if p == nil {
			continue
		}
		sp := c.Prog.Package(p.Types)
		if sp == nil {
			continue
		}
		for name, m := range sp.Members {
			g, ok := m.(*ssa.Global)
			if !ok || strings.HasPrefix(name, "init$") || name == "_" {
				continue
			}
			n++
			if baselineTypes[pp+"\tvar:"+name] {
				continue
			}
			// error sentinels and interface-satisfaction checks are not state
			if types.Identical(g.Type().(*types.Pointer).Elem(), types.Universe.Lookup("error").Type()) {
				continue
			}
			// is it written outside the package initialiser?
			written := ""
			// fields its address is kept in (`&T{…, &g}`, `t.f = &g`): a store through a load of such a
			// field writes the variable
			kept := map[*types.Var]bool{}
			for _, fn := range c.RepoFuncs() {
				for _, gfn := range withAnon(fn) {
					eachInstr(gfn, func(in ssa.Instruction) {
						if st, ok := in.(*ssa.Store); ok && st.Val == ssa.Value(g) {
							if fa, ok := st.Addr.(*ssa.FieldAddr); ok {
								if fv := fieldVar(fa.X.Type(), fa.Field); fv != nil {
									kept[fv] = true
								}
							}
						}
					})
				}
			}
			throughKept := func(addr ssa.Value) bool {
				v := addr
				for i := 0; i < 16 && len(kept) > 0; i++ {
					switch x := v.(type) {
					case *ssa.FieldAddr:
						v = x.X
					case *ssa.IndexAddr:
						v = x.X
					case *ssa.UnOp:
						if x.Op != token.MUL {
							return false
						}
						if fa, ok := x.X.(*ssa.FieldAddr); ok {
							if fv := fieldVar(fa.X.Type(), fa.Field); fv != nil && kept[fv] {
								return true
							}
						}
						v = x.X
					default:
						return false
					}
				}
				return false
			}
			for _, fn := range c.RepoFuncs() {
				if fn.Name() == "init" || strings.HasPrefix(fn.Name(), "init#") {
					continue
				}
				for _, gfn := range withAnon(fn) {
					eachInstr(gfn, func(in ssa.Instruction) {
						switch x := in.(type) {
						case *ssa.Store:
							if addrRoot(x.Addr) == ssa.Value(g) {
								written = c.Pos(x.Pos())
							} else if _, direct := x.Addr.(*ssa.FieldAddr); direct && throughKept(x.Addr) {
								written = c.Pos(x.Pos())
							}
						case *ssa.MapUpdate:
							if addrRoot(x.Map) == ssa.Value(g) {
								written = c.Pos(x.Pos())
							}
						case ssa.CallInstruction:
							// &global (or a field of it) handed to a repository function that stores through that parameter
							cc := x.Common()
							// handed, whole or as a slice, to something that fills what it is given: copy(dst, …),
							// binary.*.PutUint64(b, …), varint.PutUvarint(b, …), io.ReadFull(r, b), r.Read(b)
							fills := false
							if b, isB := cc.Value.(*ssa.Builtin); isB {
								fills = b.Name() == "copy" && len(cc.Args) > 0 && addrRoot(sliceBase(cc.Args[0])) == ssa.Value(g)
							} else if cf := calleeFunc(cc); cf != nil && (cf.Pkg() == nil || !isRepoPkg(cf.Pkg().Path())) || cc.IsInvoke() {
								name := ""
								if cc.IsInvoke() {
									name = cc.Method.Name()
								} else if cf := calleeFunc(cc); cf != nil {
									name = cf.Name()
								}
								if strings.HasPrefix(name, "Put") || strings.HasPrefix(name, "Read") || strings.HasPrefix(name, "Fill") || strings.HasPrefix(name, "Encode") || strings.HasPrefix(name, "Append") {
									for _, a := range cc.Args {
										if _, isSlice := a.Type().Underlying().(*types.Slice); isSlice && addrRoot(sliceBase(a)) == ssa.Value(g) {
											fills = true
										}
									}
								}
							}
							if fills {
								written = c.Pos(x.Pos())
								return
							}
							f, _ := cc.Value.(*ssa.Function)
							if f == nil || f.Blocks == nil || f.Pkg == nil || !isRepoPkg(f.Pkg.Pkg.Path()) {
								return
							}
							for i, a := range cc.Args {
								if addrRoot(a) != ssa.Value(g) || i >= len(f.Params) {
									continue
								}
								if storesThrough(f, f.Params[i]) {
									written = c.Pos(x.Pos())
								}
							}
						}
					})
				}
			}
			if written != "" {
				bad = append(bad, fmt.Sprintf("package-level variable %s.%s, which the pinned tree does not have, is written at %s", shortPkg(pp), name, written))
			}
		}
	}
	sort.Strings(bad)
	r.Count("package-level variables of the library", n)
	if n < 10 {
		r.Undec("no-new-global-state@library", "-", fmt.Sprintf("only %d package-level variables seen", n))
		return
	}
	r.Check(len(bad) == 0, "no-new-global-state@library", "-", "no package-level variable beyond the pinned tree's is written after initialisation", strings.Join(bad, "; ")+": what one reader, store or call leaves there is seen by every other (a memo hands two readers one header whose roots either can edit; an answer depends on the calls made before it)")
}

// sliceBase: the value a slice expression was taken of (`g[:]`, `g[a:b]`), else v itself.
func sliceBase(v ssa.Value) ssa.Value {
	for i := 0; i < 4; i++ {
		sl, ok := v.(*ssa.Slice)
		if !ok {
			return v
		}
		v = sl.X
	}
	return v
}

// addrRoot follows field/index addressing and loads of pointers back to the value they start from.
func addrRoot(v ssa.Value) ssa.Value {
	for i := 0; i < 16; i++ {
		switch x := v.(type) {
		case *ssa.FieldAddr:
			v = x.X
		case *ssa.IndexAddr:
			v = x.X
		case *ssa.UnOp:
			if x.Op != token.MUL {
				return v
			}
			v = x.X
		case *ssa.ChangeType:
			v = x.X
		case *ssa.MakeInterface:
			v = x.X
		default:
			return v
		}
	}
	return v
}

// storesThrough: f stores through its pointer parameter p (directly, to a field or element; in f
// itself or in a closure of f that captured p).
func storesThrough(f *ssa.Function, p *ssa.Parameter) bool {
	found := false
	for _, g := range withAnon(f) {
		eachInstr(g, func(in ssa.Instruction) {
			switch x := in.(type) {
			case *ssa.Store:
				if rootedAt(f, g, x.Addr, p) {
					found = true
				}
			case *ssa.MapUpdate:
				if rootedAt(f, g, x.Map, p) {
					found = true
				}
			}
		})
	}
	return found
}

// rootedAt: the address v (in g, which is fn or one of its closures) leads back to fn's parameter p.
func rootedAt(fn, g *ssa.Function, v ssa.Value, p *ssa.Parameter) bool {
	root := addrRoot(v)
	if root == ssa.Value(p) {
		return true
	}
	if fv, ok := root.(*ssa.FreeVar); ok && g != fn {
		for i, f := range g.FreeVars {
			if f == fv {
				if mc := makeClosureOf(g); mc != nil && i < len(mc.Bindings) {
					b := addrRoot(mc.Bindings[i])
					if b == ssa.Value(p) {
						return true
					}
					// the parameter spilled to a cell that the closure captured
					if al, ok := b.(*ssa.Alloc); ok {
						for _, st := range storesTo(al) {
							if st.Val == ssa.Value(p) {
								return true
							}
						}
					}
				}
			}
		}
	}
	return false
}

// ---- R13l: what Inspect accepts does not depend on index or writer options -----------------------

func ruleR13l(c *Ctx, r *Report) {
	fn, err := c.Func(modV2, "Reader", "Inspect")
	if err != nil {
		r.InfraFail("%v", err)
		return
	}
	key := "scan-options-only@" + fnKey(fn)
	foreign := map[string]bool{"MaxIndexCidSize": true, "StoreIdentityCIDs": true, "IndexCodec": true, "BlockstoreAllowDuplicatePuts": true,
		"BlockstoreUseWholeCIDs": true, "DataPadding": true, "IndexPadding": true, "WriteAsCarV1": true, "TraversalPrototypeChooser": true, "MaxTraversalLinks": true}
	n, bad := 0, ""
	for _, g := range withAnon(fn) {
		eachInstr(g, func(in ssa.Instruction) {
			fa, ok := in.(*ssa.FieldAddr)
			var fv *types.Var
			if ok {
				if isNamed(derefType(fa.X.Type()), modV2, "Options") {
					fv = fieldVar(fa.X.Type(), fa.Field)
				}
			} else if f, ok := in.(*ssa.Field); ok && isNamed(f.X.Type(), modV2, "Options") {
				fv = fieldVar(f.X.Type(), f.Field)
			}
			if fv == nil {
				return
			}
			n++
			if foreign[fv.Name()] {
				bad = fmt.Sprintf("Inspect reads Options.%s at %s", fv.Name(), c.Pos(in.Pos()))
			}
		})
	}
	r.Count("option fields read by Inspect", n)
	if n < 3 {
		r.Undec(key, "-", fmt.Sprintf("only %d option reads found in Inspect", n))
		return
	}
	r.Check(bad == "", key, c.Pos(fn.Pos()), "Inspect reads parser options only", bad+": that option configures index generation or writing; an inspection that depends on it fails (or passes) on archives that a plain scan with the same reader options accepts (or rejects)")
}

// ---- R14l: no state update is made on a by-value copy of the object it belongs to ----------------

func ruleR14l(c *Ctx, r *Report) {
	n := 0
	var bad []string
	for _, fn := range c.RepoFuncs() {
		if !inLib(fn) || len(fn.Params) == 0 {
			continue
		}
		// pointer parameters (the receiver first of all) to named structs of the library
		for _, p := range fn.Params {
			pt, ok := p.Type().Underlying().(*types.Pointer)
			if !ok {
				continue
			}
			nt, ok := pt.Elem().(*types.Named)
			if !ok || nt.Obj().Pkg() == nil || !isRepoPkg(nt.Obj().Pkg().Path()) {
				continue
			}
			if _, isStruct := nt.Underlying().(*types.Struct); !isStruct {
				continue
			}
			n++
			// local copies `var x T = *p`
			eachInstr(fn, func(in ssa.Instruction) {
				al, ok := in.(*ssa.Alloc)
				if !ok || al.Heap || al.Referrers() == nil {
					return
				}
				if !types.Identical(al.Type().(*types.Pointer).Elem(), pt.Elem()) {
					return
				}
				copied, escapes := false, false
				var fieldStores []*ssa.Store
				for _, ref := range *al.Referrers() {
					switch x := ref.(type) {
					case *ssa.Store:
						if x.Addr == ssa.Value(al) {
							if l, ok := x.Val.(*ssa.UnOp); ok && l.Op == token.MUL && l.X == ssa.Value(p) {
								copied = true
							}
						} else {
							escapes = true
						}
					case *ssa.FieldAddr:
						if x.Referrers() == nil {
							continue
						}
						for _, r2 := range *x.Referrers() {
							if st, ok := r2.(*ssa.Store); ok && st.Addr == ssa.Value(x) {
								fieldStores = append(fieldStores, st)
							}
						}
					case *ssa.UnOp:
						// the whole copy read back: written back to *p, returned or passed on — then the update is not lost
						if x.Referrers() != nil {
							for _, r3 := range *x.Referrers() {
								if _, isDbg := r3.(*ssa.DebugRef); !isDbg {
									escapes = true
								}
							}
						}
					case *ssa.DebugRef:
					default:
						escapes = true
					}
				}
				if copied && !escapes && len(fieldStores) > 0 {
					bad = append(bad, fmt.Sprintf("%s updates field(s) of a by-value copy of *%s at %s; the copy is then dropped", fnKey(fn), p.Name(), c.Pos(fieldStores[0].Pos())))
				}
			})
		}
	}
	sort.Strings(bad)
	r.Count("pointer parameters to library structs examined for updates on a copy", n)
	if n < 30 {
		r.Undec("no-update-on-copy@library", "-", fmt.Sprintf("only %d pointer parameters examined", n))
		return
	}
	r.Check(len(bad) == 0, "no-update-on-copy@library", "-", "no field of a dropped by-value copy of a receiver/parameter is assigned", strings.Join(bad, "; ")+": the update (a position, a counter, a flag) never reaches the object the callers keep using — the arithmetic is right and has no effect")
}

// ---- R15n: the block callback of SelectiveCar.Write writes every block it is handed --------------

func ruleR15n(c *Ctx, r *Report) {
	fn, err := c.Func(modRoot, "SelectiveCar", "Write")
	if err != nil {
		r.InfraFail("%v", err)
		return
	}
	key := "callback-writes-every-block@" + fnKey(fn)
	n, bad := 0, ""
	for _, g := range withAnon(fn) {
		if g == fn || len(g.Params) != 1 || !isNamed(g.Params[0].Type(), modRoot, "Block") {
			continue
		}
		ws := callsToFunc(g, pkgRootUtil, "", "LdWrite")
		n++
		if len(ws) == 0 {
			bad = "the block callback does not write the section"
			continue
		}
		cut := EdgeSet{}
		for _, w := range ws {
			for i := range w.Block().Succs {
				cut[Edge{From: w.Block(), Succ: i}] = true
			}
		}
		rs := reach(g, nil, cut)
		for _, ret := range returnsOf(g) {
			if rs[ret.Block()] && len(ret.Results) == 1 && resultIsNilConst(ret, 0) {
				// the LdWrite block itself may hold the return only if the write precedes it
				wrote := false
				for _, w := range ws {
					if w.Block() == ret.Block() {
						wrote = true
					}
				}
				if !wrote {
					bad = fmt.Sprintf("the block callback can return nil at %s without having written the section", c.Pos(ret.Pos()))
				}
			}
		}
	}
	if n == 0 {
		r.Undec(key, c.Pos(fn.Pos()), "no func(Block) error callback found in SelectiveCar.Write")
		return
	}
	r.Check(bad == "", key, c.Pos(fn.Pos()), "every nil return of the callback is behind LdWrite", bad+": the traversal has already counted the block and advanced the offset, so the prepared size, the offsets reported to callbacks and Dump no longer agree with what Write produced")
}

// ---- R16n: no I/O adapter type beside the audited ones in internal/io ---------------------------

func ruleR16n(c *Ctx, r *Report) {
	n := 0
	var bad []string
	for _, pp := range libPkgs {
		p := c.Pkgs[pp]
		if p == nil {
			continue
		}
		scope := p.Types.Scope()
		for _, name := range scope.Names() {
			tn, ok := scope.Lookup(name).(*types.TypeName)
			if !ok {
				continue
			}
			if _, isIface := tn.Type().Underlying().(*types.Interface); isIface {
				continue
			}
			n++
			if baselineTypes[pp+"\t"+name] {
				continue
			}
			if _, moved := movedTypeTarget(pp, name); moved {
				continue // an audited type of the pinned tree in a new place
			}
			ms := types.NewMethodSet(types.NewPointer(tn.Type()))
			for i := 0; i < ms.Len(); i++ {
				switch ms.At(i).Obj().Name() {
				case "Write", "WriteAt", "Read", "ReadAt", "ReadByte", "Seek":
					// only methods declared on the type itself (not promoted from an audited one)
					if len(ms.At(i).Index()) == 1 {
						bad = append(bad, fmt.Sprintf("type %s.%s (not in the pinned tree) implements %s", shortPkg(pp), name, ms.At(i).Obj().Name()))
					}
				}
			}
		}
	}
	sort.Strings(bad)
	r.Count("concrete types of the library packages", n)
	if n < 5 {
		r.Undec("audited-adapters-only@v2/internal/io", "-", fmt.Sprintf("only %d types seen", n))
		return
	}
	r.Check(len(bad) == 0, "audited-adapters-only@v2/internal/io", "-", "every type of the library that reads, writes or seeks is one of the pinned tree's (whose byte accounting R03d/R03j/R16d check)", strings.Join(bad, "; ")+": bytes that go through an adapter nothing audits are bytes nothing counts, bounds or positions — a writer that changes where or how a failed write is retried is exactly how an archive gets overwritten or a failure swallowed")
}

// ---- R17f/R17g: a refused path is not handed out, and the refusal is what gets tested ------------

func ruleR17f(c *Ctx, r *Report) {
	fn, err := c.Func(pkgCmdLib, "", "resolvePath")
	if err != nil {
		r.InfraFail("%v", err)
		return
	}
	key := "refusal-carries-no-path@" + fnKey(fn)
	n, bad := 0, ""
	for _, ret := range returnsOf(fn) {
		if len(ret.Results) != 2 || resultIsNilConst(ret, 1) {
			continue
		}
		n++
		v := retResult(ret, 0)
		if k, ok := v.(*ssa.Const); !ok || k.Value == nil || k.Value.ExactString() != `""` {
			bad = fmt.Sprintf("resolvePath returns a usable path together with an error at %s", c.Pos(ret.Pos()))
		}
	}
	r.Count("error returns of resolvePath", n)
	r.Check(bad == "", key, c.Pos(fn.Pos()), "every error return carries the empty path", bad+": a caller that loses the error (overwrites it, logs first) then creates or opens the very path that was refused")
	// the callers test the error of resolvePath itself, before anything else can replace it
	n2 := 0
	var bad2 []string
	for _, f2 := range c.RepoFuncs() {
		if f2.Pkg == nil || f2.Pkg.Pkg.Path() != pkgCmdLib {
			continue
		}
		for _, g := range withAnon(f2) {
			for _, ci := range callsToFunc(g, pkgCmdLib, "", "resolvePath") {
				call, ok := ci.(*ssa.Call)
				if !ok {
					continue
				}
				n2++
				errv := extractOf(call, 1)
				if errv == nil {
					bad2 = append(bad2, fmt.Sprintf("the error of resolvePath is dropped at %s", c.Pos(ci.Pos())))
					continue
				}
				direct := condEdges(g, errNilCond(func(v ssa.Value) bool { return v == errv }, false))
				returned := false
				if refs := errv.Referrers(); refs != nil {
					for _, ref := range *refs {
						if _, ok := ref.(*ssa.Return); ok {
							returned = true
						}
					}
				}
				if len(direct) == 0 && !returned {
					bad2 = append(bad2, fmt.Sprintf("the error of resolvePath at %s is not tested itself (it is merged with or replaced by another value first)", c.Pos(ci.Pos())))
				}
			}
		}
	}
	sort.Strings(bad2)
	r.Count("calls of resolvePath", n2)
	r.Check(len(bad2) == 0, "refusal-is-tested@cmd/car/lib", "-", fmt.Sprintf("%d calls: the error of each is tested (or returned) as it is", n2), strings.Join(bad2, "; ")+": whatever is assigned to the variable in between (the result of a log write) makes the refusal disappear")
}

// ---- R19s: a command that can emit its product on standard output prints nothing else there -----

func ruleR19s(c *Ctx, r *Report) {
	n := 0
	var bad []string
	for _, fn := range c.RepoFuncs() {
		if fn.Pkg == nil || fn.Pkg.Pkg.Path() != pkgCmdCar {
			continue
		}
		usesStdout := false
		var prints []string
		for _, g := range withAnon(fn) {
			eachInstr(g, func(in ssa.Instruction) {
				if u, ok := in.(*ssa.UnOp); ok && isGlobalLoad(u, "os", "Stdout") {
					usesStdout = true
				}
				if ci, ok := in.(*ssa.Call); ok {
					f := calleeFunc(ci.Common())
					if funcIs(f, "fmt", "", "Printf") || funcIs(f, "fmt", "", "Println") || funcIs(f, "fmt", "", "Print") {
						prints = append(prints, c.Pos(ci.Pos()))
					}
				}
			})
		}
		if usesStdout {
			n++
			if len(prints) > 0 {
				bad = append(bad, fmt.Sprintf("%s streams its product to os.Stdout and also prints to standard output at %s", fnKey(fn), prints[0]))
			}
		}
	}
	sort.Strings(bad)
	r.Count("commands that hold os.Stdout as an output stream", n)
	if n < 5 {
		r.Undec("stdout-carries-the-product-only@cmd/car", "-", fmt.Sprintf("only %d commands found that stream to os.Stdout (8 confirmed by hand)", n))
		return
	}
	r.Check(len(bad) == 0, "stdout-carries-the-product-only@cmd/car", "-", fmt.Sprintf("%d commands stream to os.Stdout; none of them prints there", n), strings.Join(bad, "; ")+": with no output file the product (an index, a block, a CAR) and the message share one stream, and what the user redirects is not the product")
}

// ---- R19t: get-dag reads matched large-bytes nodes to the end ----------------------------------

func ruleR19t(c *Ctx, r *Report) {
	fn, err := c.Func(pkgCmdCar, "", "writeCarV2")
	if err != nil {
		r.InfraFail("%v", err)
		return
	}
	key := "matched-bytes-are-read@" + fnKey(fn)
	drained := false
	for _, g := range withNewCallees(fn) {
		var lb ssa.Value
		eachInstr(g, func(in ssa.Instruction) {
			if ci, ok := in.(*ssa.Call); ok && ci.Common().IsInvoke() && ci.Common().Method.Name() == "AsLargeBytes" {
				lb = ci
			}
		})
		if lb == nil {
			continue
		}
		for _, ci := range callsToFunc(g, "io", "", "Copy") {
			for v := range flowSources(ci.Common().Args[1]) {
				if v == lb {
					drained = true
				}
			}
		}
	}
	r.Check(drained, key, c.Pos(fn.Pos()), "the WalkMatching visitor copies AsLargeBytes() of a matched node to the end", "writeCarV2 no longer reads a matched LargeBytesNode: the leaf blocks of a reified (UnixFS) file are loaded only when its bytes are read, so the output holds the head block alone, passes inspect and verify, and cannot be read back")
}

// ---- R20i: the path constructor treats every path as a file name --------------------------------

func ruleR20i(c *Ctx, r *Report) {
	fn, err := c.Func(pkgDeferred, "", "NewDeferredCarWriterForPath")
	if err != nil {
		r.InfraFail("%v", err)
		return
	}
	key := "path-is-a-file-name@" + fnKey(fn)
	var pp *ssa.Parameter
	for _, p := range fn.Params {
		if b, ok := p.Type().Underlying().(*types.Basic); ok && b.Kind() == types.String {
			pp = p
		}
	}
	bad := ""
	if pp == nil {
		bad = "no string parameter (the path) found"
	} else {
		eachInstr(fn, func(in ssa.Instruction) {
			if b, ok := in.(*ssa.BinOp); ok && (b.Op == token.EQL || b.Op == token.NEQ) && (canon(b.X) == ssa.Value(pp) || canon(b.Y) == ssa.Value(pp)) {
				bad = fmt.Sprintf("the path is compared with a special value at %s", c.Pos(b.Pos()))
			}
		})
		for _, ci := range callsToFunc(fn, pkgDeferred, "", "NewDeferredCarWriterForStream") {
			bad = fmt.Sprintf("the path constructor hands over to the stream constructor at %s", c.Pos(ci.Pos()))
		}
		stored := false
		eachInstr(fn, func(in ssa.Instruction) {
			if st, ok := in.(*ssa.Store); ok {
				if fa, ok := st.Addr.(*ssa.FieldAddr); ok && fieldAddrIs(fa, pkgDeferred, "DeferredCarWriter", "outPath") && canon(st.Val) == ssa.Value(pp) {
					stored = true
				}
			}
		})
		if bad == "" && !stored {
			bad = "the path parameter is not stored as outPath"
		}
	}
	r.Check(bad == "", key, c.Pos(fn.Pos()), "stores its path as given, for every path", bad+": a direct writer given the same name creates that file; a deferred writer that sends some names elsewhere (and switches to CARv1 on the way) is not identical to it")
}

// ---- R02m: Inspect keeps nothing between calls ---------------------------------------------------

func ruleR02m(c *Ctx, r *Report) {
	fn, err := c.Func(modV2, "Reader", "Inspect")
	if err != nil {
		r.InfraFail("%v", err)
		return
	}
	key := "inspect-keeps-no-result@" + fnKey(fn)
	bad := ""
	if len(fn.Params) > 0 {
		recv := fn.Params[0]
		for _, g := range withAnon(fn) {
			eachInstr(g, func(in ssa.Instruction) {
				if st, ok := in.(*ssa.Store); ok && addrRoot(st.Addr) == ssa.Value(recv) {
					bad = fmt.Sprintf("Inspect stores into its Reader at %s", c.Pos(st.Pos()))
				}
			})
		}
		// nor does it answer from a field it did not just compute: every success return is behind the scan
		scans := callsIn(fn, func(f *types.Func, cc *ssa.CallCommon) bool {
			return funcIs(f, pkgVarint, "", "ReadUvarint") || funcIs(f, pkgV1Util, "", "LdReadSize")
		})
		if len(scans) == 0 {
			bad = "Inspect no longer reads section lengths"
		}
	}
	r.Check(bad == "", key, c.Pos(fn.Pos()), "Inspect assigns no field of its receiver", bad+": a result remembered from one call answers the next one, whatever that one was asked to validate (a full inspection after a quick one hashes nothing)")
}

// ---- R12o: Resume judges sections by their framing only -----------------------------------------

func ruleR12o(c *Ctx, r *Report) {
	fn, err := c.Func(pkgStore, "", "Resume")
	if err != nil {
		r.InfraFail("%v", err)
		return
	}
	key := "resume-does-not-hash@" + fnKey(fn)
	bad := ""
	seen := map[*ssa.Function]bool{}
	var visit func(f *ssa.Function, via string)
	visit = func(f *ssa.Function, via string) {
		if seen[f] {
			return
		}
		seen[f] = true
		for _, g := range withAnon(f) {
			eachInstr(g, func(in ssa.Instruction) {
				ci, ok := in.(ssa.CallInstruction)
				if !ok {
					return
				}
				tf := calleeFunc(ci.Common())
				if funcIs(tf, pkgCid, "Prefix", "Sum") || funcIs(tf, pkgMh, "", "Sum") || funcIs(tf, pkgMh, "", "SumStream") {
					bad = fmt.Sprintf("Resume hashes block contents at %s%s", c.Pos(ci.Pos()), via)
					return
				}
				callee, _ := ci.Common().Value.(*ssa.Function)
				if callee == nil || callee.Pkg == nil || !isRepoPkg(callee.Pkg.Pkg.Path()) || callee.Blocks == nil {
					return
				}
				if k := ssaDeclKey(callee); k != "" && !baselineFuncs[k] {
					visit(callee, " (through the new function "+fnKey(callee)+")")
				}
			})
		}
	}
	visit(fn, "")
	r.Check(bad == "", key, c.Pos(fn.Pos()), "no hashing of block contents is reachable from Resume", bad+": Put stores whatever bytes it is given under whatever CID it is given (unregistered hash functions included), so a resume that verifies contents refuses files the writer itself produced — after it has already cut the index off")
}

// ---- R09p: the header the read-only store dereferences was decoded, and checked, by the same call -

func ruleR09p(c *Ctx, r *Report) {
	for _, name := range []string{"AllKeysChan", "Roots"} {
		fn, err := c.Func(pkgBS, "ReadOnly", name)
		if err != nil {
			r.InfraFail("%v", err)
			continue
		}
		key := "header-from-this-call@" + fnKey(fn)
		rh := callsToFunc(fn, pkgV1, "", "ReadHeader")
		if len(rh) != 1 {
			r.Viol(key, c.Pos(fn.Pos()), fmt.Sprintf("expected one carv1.ReadHeader call in %s, found %d: a header taken from elsewhere (a cache filled by another call) can be nil when this call dereferences it", name, len(rh)))
			continue
		}
		call, _ := rh[0].(*ssa.Call)
		hdr := extractOf(call, 0)
		errv := extractOf(call, 1)
		ok := hdr != nil && errv != nil && len(condEdges(fn, errNilCond(func(v ssa.Value) bool { return v == errv || strip(v) == errv }, false))) > 0
		r.Check(ok, key, c.Pos(fn.Pos()), "decodes the header itself and tests the error before using it", "the error of carv1.ReadHeader is not tested before the header is used")
	}
}

// ---- R08o: methods the pinned tree keeps free of writes to their receiver stay so ---------------

// receiverWrites: the first store (or map update) of fn, its closures, or a function the pinned tree
// does not have that is handed the receiver, into memory reached from the receiver.
func receiverWrites(c *Ctx, fn *ssa.Function) string {
	if fn.Signature.Recv() == nil || len(fn.Params) == 0 {
		return ""
	}
	recv := fn.Params[0]
	_, recvIsPtr := recv.Type().Underlying().(*types.Pointer)
	found := ""
	for _, g := range withAnon(fn) {
		eachInstr(g, func(in ssa.Instruction) {
			if found != "" {
				return
			}
			rooted := func(v ssa.Value) bool { return recvIsPtr && rootedAt(fn, g, v, recv) }
			// a slice read from the receiver shares its backing array with the caller's, also when
			// the receiver itself was passed by value
			sliceOfRecv := func(v ssa.Value) bool {
				if _, isSlice := v.Type().Underlying().(*types.Slice); !isSlice {
					return false
				}
				isRecv := func(b ssa.Value) bool {
					if b == ssa.Value(recv) {
						return true
					}
					if al, ok := b.(*ssa.Alloc); ok {
						for _, st := range storesTo(al) {
							if st.Val == ssa.Value(recv) {
								return true
							}
						}
					}
					return false
				}
				for src := range flowSources(canon(v)) {
					if fa, ok := src.(*ssa.FieldAddr); ok && isRecv(fa.X) {
						if fv := fieldVar(fa.X.Type(), fa.Field); fv != nil {
							if _, isSl := fv.Type().Underlying().(*types.Slice); isSl {
								return true
							}
						}
					}
				}
				return false
			}
			switch x := in.(type) {
			case *ssa.Store:
				if rooted(x.Addr) {
					found = c.Pos(x.Pos())
				}
			case *ssa.MapUpdate:
				if rooted(x.Map) {
					found = c.Pos(x.Pos())
				}
			case ssa.CallInstruction:
				cc := x.Common()
				// library routines that reorder or overwrite the slice they are given
				if tf := calleeFunc(cc); tf != nil && tf.Pkg() != nil && len(cc.Args) > 0 {
					mut := false
					switch tf.Pkg().Path() {
					case "sort":
						mut = tf.Name() == "Slice" || tf.Name() == "SliceStable" || tf.Name() == "Sort" || tf.Name() == "Stable" || tf.Name() == "Strings" || tf.Name() == "Ints"
					case "slices":
						mut = strings.HasPrefix(tf.Name(), "Sort") || tf.Name() == "Reverse"
					}
					if mut && (rooted(stripIface(cc.Args[0])) || sliceOfRecv(stripIface(cc.Args[0]))) {
						found = c.Pos(x.Pos())
						return
					}
				}
				f, _ := cc.Value.(*ssa.Function)
				if f == nil || f.Blocks == nil || f.Pkg == nil || !isRepoPkg(f.Pkg.Pkg.Path()) {
					return
				}
				if k := ssaDeclKey(f); k == "" || baselineFuncs[k] {
					return
				}
				for i, a := range cc.Args {
					if rooted(a) && i < len(f.Params) {
						if _, isPtr := f.Params[i].Type().Underlying().(*types.Pointer); isPtr && storesThrough(f, f.Params[i]) {
							found = c.Pos(x.Pos())
						}
					}
				}
			}
		})
	}
	return found
}

func makeClosureOf(g *ssa.Function) *ssa.MakeClosure {
	if g.Parent() == nil {
		return nil
	}
	var out *ssa.MakeClosure
	for _, p := range withAnon(g.Parent()) {
		eachInstr(p, func(in ssa.Instruction) {
			if mc, ok := in.(*ssa.MakeClosure); ok && mc.Fn == ssa.Value(g) {
				out = mc
			}
		})
	}
	return out
}

func listReceiverWriters(c *Ctx) []string {
	var out []string
	for _, fn := range c.RepoFuncs() {
		if !inLib(fn) || fn.Parent() != nil {
			continue
		}
		if receiverWrites(c, fn) != "" {
			if k := ssaDeclKey(fn); k != "" {
				out = append(out, k)
			}
		}
	}
	sort.Strings(out)
	return out
}

var transitiveWritersMemo map[string]bool

// fieldTypesOf: "pkg\ttype" of the named struct types held (by value or pointer) in the fields of
// the struct type typ = "pkg\ttype" of the working tree: a write through such a field's method is a
// write to memory reached from the holder.
func fieldTypesOf(c *Ctx, typ string) map[string]bool {
	out := map[string]bool{}
	f := strings.Split(typ, "\t")
	if len(f) != 2 {
		return out
	}
	p := c.Pkgs[f[0]]
	if p == nil || p.Types == nil {
		return out
	}
	tn, _ := p.Types.Scope().Lookup(f[1]).(*types.TypeName)
	if tn == nil {
		return out
	}
	st, _ := tn.Type().Underlying().(*types.Struct)
	if st == nil {
		return out
	}
	for i := 0; i < st.NumFields(); i++ {
		if n := namedOf(st.Field(i).Type()); n != nil && n.Obj().Pkg() != nil {
			out[n.Obj().Pkg().Path()+"\t"+n.Obj().Name()] = true
		}
	}
	return out
}

// transitiveWriters: the methods of the pinned tree that write to their receiver themselves or call,
// on the same receiver type, a method that does (Load calls put, Close calls closeWithoutMutex, Has
// calls the lazy writer()). Such a method is not a pure reader in the pinned tree either; when the
// helper it called is folded into it, the write it always caused is merely seen in its own body.
func transitiveWriters(c *Ctx) map[string]bool {
	if transitiveWritersMemo != nil {
		return transitiveWritersMemo
	}
	m := map[string]bool{}
	for k := range baselineWriters {
		m[k] = true
	}
	callee := func(k string) (string, string) { // declKey -> (callee spelling, "pkg\trecv")
		f := strings.Split(k, "\t")
		if len(f) != 3 || f[1] == "" {
			return "", ""
		}
		return shortPkg(f[0]) + "." + f[1] + "." + f[2], f[0] + "\t" + f[1]
	}
	for changed := true; changed; {
		changed = false
		for k, callees := range baselineFingerprint {
			if m[k] {
				continue
			}
			_, typ := callee(k)
			if typ == "" {
				continue
			}
			for w := range m {
				sp, wt := callee(w)
				if (wt == typ || fieldTypesOf(c, typ)[wt]) && callees[sp] {
					m[k] = true
					changed = true
					break
				}
			}
		}
	}
	transitiveWritersMemo = m
	return m
}

func ruleR08o(c *Ctx, r *Report) {
	n := 0
	var bad []string
	for _, fn := range c.RepoFuncs() {
		if !inLib(fn) || fn.Parent() != nil || fn.Signature.Recv() == nil {
			continue
		}
		k := ssaDeclKey(fn)
		if k == "" || !baselineFuncs[k] {
			continue // a method the pinned tree does not have: judged where it is called from
		}
		n++
		if transitiveWriters(c)[k] {
			continue
		}
		if w := receiverWrites(c, fn); w != "" {
			bad = append(bad, fmt.Sprintf("%s, which does not write to its receiver in the pinned tree, stores into it at %s", fnKey(fn), w))
		}
	}
	sort.Strings(bad)
	r.Count("methods of the pinned library examined", n)
	if n < 100 {
		r.Undec("read-methods-stay-pure@library", "-", fmt.Sprintf("only %d methods examined", n))
		return
	}
	r.Check(len(bad) == 0, "read-methods-stay-pure@library", "-", fmt.Sprintf("%d methods; those that do not write to their receiver in the pinned tree (%d) still do not", n, n-len(baselineWriters)),
		strings.Join(bad, "; ")+": lookups, listings and inspections run concurrently under a shared lock and are expected to answer from the archive alone; a field written on such a path is a data race, and an answer that depends on what an earlier call left there")
}

// ---- the index registry as a lookup table ---------------------------------------------------------

// tableRegistry: when index.New looks its codec up in a package-level map that is filled once in the
// package initialiser with constant keys, the entries of that map: codec -> concrete type constructed.
func tableRegistry(c *Ctx, nw *ssa.Function) (map[int64]types.Type, bool) {
	var g *ssa.Global
	eachInstr(nw, func(in ssa.Instruction) {
		lk, ok := in.(*ssa.Lookup)
		if !ok || canon(lk.Index) != ssa.Value(nw.Params[0]) {
			return
		}
		if u, ok := lk.X.(*ssa.UnOp); ok && u.Op == token.MUL {
			if gg, ok := u.X.(*ssa.Global); ok {
				g = gg
			}
		}
	})
	if g == nil || nw.Pkg == nil {
		return nil, false
	}
	// the map must not be written outside the package initialiser
	for _, fn := range c.RepoFuncs() {
		if fn.Name() == "init" {
			continue
		}
		written := false
		for _, gf := range withAnon(fn) {
			eachInstr(gf, func(in ssa.Instruction) {
				switch x := in.(type) {
				case *ssa.MapUpdate:
					if addrRoot(x.Map) == ssa.Value(g) {
						written = true
					}
				case *ssa.Store:
					if addrRoot(x.Addr) == ssa.Value(g) {
						written = true
					}
				}
			})
		}
		if written {
			return nil, false
		}
	}
	initFn := nw.Pkg.Func("init")
	if initFn == nil {
		return nil, false
	}
	// the map value stored into the global, and its updates
	var mv ssa.Value
	eachInstr(initFn, func(in ssa.Instruction) {
		if st, ok := in.(*ssa.Store); ok && st.Addr == ssa.Value(g) {
			mv = st.Val
		}
	})
	if mv == nil {
		return nil, false
	}
	out := map[int64]types.Type{}
	okAll := true
	eachInstr(initFn, func(in ssa.Instruction) {
		mu, ok := in.(*ssa.MapUpdate)
		if !ok || mu.Map != mv {
			return
		}
		k, isK := constInt(mu.Key)
		if !isK {
			okAll = false
			return
		}
		var ctor *ssa.Function
		switch f := mu.Value.(type) {
		case *ssa.Function:
			ctor = f
		case *ssa.MakeClosure:
			ctor, _ = f.Fn.(*ssa.Function)
		}
		if ctor == nil || ctor.Blocks == nil {
			okAll = false
			return
		}
		out[k] = constructedType(c, ctor, 0)
	})
	return out, okAll && len(out) > 0
}

// constructedType: the concrete type behind the interface value a constructor returns.
func constructedType(c *Ctx, f *ssa.Function, depth int) types.Type {
	var conc types.Type
	for _, rr := range returnsOf(f) {
		if len(rr.Results) == 0 {
			continue
		}
		v := rr.Results[0]
		if mi, ok := v.(*ssa.MakeInterface); ok {
			conc = mi.X.Type()
			continue
		}
		if cl, _ := callOf(v); cl != nil && depth < 3 {
			if callee := staticTarget(cl.Common()); callee != nil && callee.Blocks != nil {
				if t := constructedType(c, callee, depth+1); t != nil {
					conc = t
					continue
				}
			}
		}
		if _, isIface := v.Type().Underlying().(*types.Interface); !isIface {
			conc = v.Type()
		}
	}
	return conc
}

// codecOfType: the constant Codec() of the type returns, or -1.
func codecOfType(c *Ctx, conc types.Type) int64 {
	if conc == nil {
		return -1
	}
	ms := c.Prog.MethodSets.MethodSet(conc)
	sel := ms.Lookup(c.Pkgs[pkgIndex].Types, "Codec")
	if sel == nil {
		sel = ms.Lookup(nil, "Codec")
	}
	if sel == nil {
		return -1
	}
	cf := c.Prog.MethodValue(sel)
	got := int64(-1)
	if cf != nil {
		for _, rr := range returnsOf(cf) {
			if k, ok := constInt(rr.Results[0]); ok {
				got = k
			}
		}
	}
	return got
}

// ---- R13t: Inspect reads the index codec and builds no index -------------------------------------

func ruleR13t(c *Ctx, r *Report) {
	fn, err := c.Func(modV2, "Reader", "Inspect")
	if err != nil {
		r.InfraFail("%v", err)
		return
	}
	key := "index-codec-only@" + fnKey(fn)
	n, codec, bad := 0, 0, ""
	for _, g := range withAnon(fn) {
		eachInstr(g, func(in ssa.Instruction) {
			ci, ok := in.(ssa.CallInstruction)
			if !ok {
				return
			}
			cc := ci.Common()
			n++
			if cc.IsInvoke() {
				if m := cc.Method.Name(); (m == "Unmarshal" || m == "UnmarshalLazyRead") && cc.Method.Pkg() != nil && cc.Method.Pkg().Path() == pkgIndex {
					bad = fmt.Sprintf("Inspect calls Index.%s at %s", m, c.Pos(in.Pos()))
				}
				return
			}
			f := calleeFunc(cc)
			switch {
			case funcIs(f, pkgIndex, "", "ReadCodec"):
				codec++
			case funcIs(f, pkgIndex, "", "New"), funcIs(f, pkgIndex, "", "ReadFrom"), funcIs(f, pkgIndex, "", "ReadFromWithSize"):
				bad = fmt.Sprintf("Inspect calls index.%s at %s", f.Name(), c.Pos(in.Pos()))
			}
		})
	}
	r.Count("calls in Inspect", n)
	r.Count("index.ReadCodec calls in Inspect", codec)
	r.Check(bad == "", key, c.Pos(fn.Pos()), "Inspect reads the index codec with index.ReadCodec and constructs no index", bad+": constructing or loading the index refuses what a scan accepts — a codec this build does not know, an index whose body is damaged — while the statement asks only that the codec be readable")
}

// ---- R05A: get-dag writes into a fresh file ---------------------------------------------------------

func ruleR05A(c *Ctx, r *Report) {
	fn, err := c.Func(pkgCmdCar, "", "writeCarV2")
	if err != nil {
		r.InfraFail("%v", err)
		return
	}
	key := "fresh-output@" + fnKey(fn)
	var open ssa.CallInstruction
	var clears []ssa.CallInstruction
	eachInstr(fn, func(in ssa.Instruction) {
		ci, ok := in.(ssa.CallInstruction)
		if !ok {
			return
		}
		f := calleeFunc(ci.Common())
		switch {
		case funcIs(f, pkgBS, "", "OpenReadWrite"):
			open = ci
		case funcIs(f, "os", "", "Remove"), funcIs(f, "os", "", "RemoveAll"), funcIs(f, "os", "", "Truncate"), funcIs(f, "os", "", "Create"):
			clears = append(clears, ci)
		}
	})
	r.Count("calls that remove or empty a path in writeCarV2", len(clears))
	if open == nil || len(open.Common().Args) == 0 {
		r.Hold(key, c.Pos(fn.Pos()), "writeCarV2 does not open its output with blockstore.OpenReadWrite: nothing is resumed")
		return
	}
	path := canon(open.Common().Args[0])
	ok := false
	for _, cl := range clears {
		if len(cl.Common().Args) == 0 || canon(cl.Common().Args[0]) != path {
			continue
		}
		if cl.Block() == open.Block() && instrBefore(cl, open) || cl.Block() != open.Block() && cl.Block().Dominates(open.Block()) {
			ok = true
		}
	}
	r.Check(ok, key, c.Pos(open.Pos()), "the output path is removed or emptied before blockstore.OpenReadWrite opens it", "nothing removes or empties the output path on the way to blockstore.OpenReadWrite at "+c.Pos(open.Pos())+": when the file exists OpenReadWrite resumes on it — with other roots it refuses, with the same roots the output holds the earlier run's sections too, and what `car get-dag` wrote is not the DAG that was asked for")
}
