package main

// Rules written after round 7 of unseen seeded changes; each a structural necessary condition of the
// properties it is registered under, stated without reference to the change that motivated it.

import (
	"fmt"
	"go/token"
	"go/types"
	"sort"
	"strings"

	"golang.org/x/tools/go/ssa"
)

// ---- R11v: the index package consults no registry of hash functions ------------------------------

func ruleR11v(c *Ctx, r *Report) {
	n := 0
	var bad []string
	for _, fn := range c.RepoFuncs() {
		if fn.Pkg == nil || fn.Pkg.Pkg.Path() != pkgIndex {
			continue
		}
		n++
		for _, g := range withAnon(fn) {
			eachInstr(g, func(in ssa.Instruction) {
				switch x := in.(type) {
				case *ssa.UnOp:
					if gl, ok := x.X.(*ssa.Global); ok && gl.Pkg != nil && gl.Pkg.Pkg.Path() == pkgMh {
						switch gl.Name() {
						case "Codes", "Names", "DefaultLengths":
							bad = append(bad, fmt.Sprintf("%s reads multihash.%s at %s", fnKey(fn), gl.Name(), c.Pos(x.Pos())))
						}
					}
				case *ssa.Call:
					f := calleeFunc(x.Common())
					if funcIs(f, pkgMh, "", "GetHasher") || funcIs(f, pkgMh, "", "ValidCode") {
						bad = append(bad, fmt.Sprintf("%s calls multihash.%s at %s", fnKey(fn), f.Name(), c.Pos(x.Pos())))
					}
				}
			})
		}
	}
	sort.Strings(bad)
	r.Count("functions of package index examined", n)
	if n < 40 {
		r.Undec("index-knows-no-hash-registry@v2/index", "-", fmt.Sprintf("only %d functions examined", n))
		return
	}
	r.Check(len(bad) == 0, "index-knows-no-hash-registry@v2/index", "-", "the index codecs treat the multihash code as a number", strings.Join(bad, "; ")+": the writers index blocks of any hash function (the code is just a bucket key); a decoder that accepts only codes it finds in a name table refuses indexes the encoder wrote")
}

// ---- R01w: the storage constructors keep the caller's root list itself ---------------------------

func ruleR01w(c *Ctx, r *Report) {
	for _, s := range []fnSpec{{pkgStorage, "", "newWritable"}} {
		fn, err := c.Func(s.pkg, s.recv, s.name)
		if err != nil {
			r.InfraFail("%v", err)
			continue
		}
		key := "roots-kept@" + fnKey(fn)
		var rp *ssa.Parameter
		for _, p := range fn.Params {
			if p.Name() == "roots" {
				rp = p
			}
		}
		n, bad := 0, ""
		eachInstr(fn, func(in ssa.Instruction) {
			st, ok := in.(*ssa.Store)
			if !ok {
				return
			}
			fa, ok := st.Addr.(*ssa.FieldAddr)
			if !ok || !fieldAddrIs(fa, pkgStorage, "StorageCar", "roots") {
				return
			}
			n++
			if rp == nil || canon(st.Val) != ssa.Value(rp) {
				bad = fmt.Sprintf("the root list stored at %s is not the caller's slice itself (a copy turns nil into empty, which the header encodes differently)", c.Pos(st.Pos()))
			}
		})
		if n == 0 {
			bad = "no store to StorageCar.roots found"
		}
		r.Check(bad == "", key, c.Pos(fn.Pos()), "stores its roots parameter itself", bad+": a CAR without roots written through the storage API then has other header bytes than the same CAR written through the blockstore or the root module")
	}
}

// ---- R02o: the reader the root-module CarReader owns is a pooled one -----------------------------

func ruleR02o(c *Ctx, r *Report) {
	n := 0
	var bad []string
	for _, fn := range c.RepoFuncs() {
		if fn.Pkg == nil || fn.Pkg.Pkg.Path() != modRoot {
			continue
		}
		eachInstr(fn, func(in ssa.Instruction) {
			st, ok := in.(*ssa.Store)
			if !ok {
				return
			}
			fa, ok := st.Addr.(*ssa.FieldAddr)
			if !ok || !fieldAddrIs(fa, modRoot, "CarReader", "br") {
				return
			}
			n++
			for _, leaf := range phiLeaves(st.Val) {
				if isNilConst(leaf) {
					continue
				}
				fromPool := false
				if ta, ok := leaf.(*ssa.TypeAssert); ok {
					if cl, _ := callOf(ta.X); cl != nil && funcIs(calleeFunc(cl.Common()), "sync", "Pool", "Get") {
						fromPool = true
					}
				}
				if ex, ok := leaf.(*ssa.Extract); ok {
					if ta, ok := ex.Tuple.(*ssa.TypeAssert); ok {
						if cl, _ := callOf(ta.X); cl != nil && funcIs(calleeFunc(cl.Common()), "sync", "Pool", "Get") {
							fromPool = true
						}
					}
				}
				if !fromPool {
					bad = append(bad, fmt.Sprintf("%s stores into CarReader.br at %s a reader that did not come out of the pool", fnKey(fn), c.Pos(st.Pos())))
				}
			}
		})
	}
	sort.Strings(bad)
	if n == 0 {
		r.Undec("pooled-reader-only@car.CarReader", "-", "no store to CarReader.br found")
		return
	}
	r.Check(len(bad) == 0, "pooled-reader-only@car.CarReader", "-", fmt.Sprintf("%d store(s) to CarReader.br: nil or a reader taken from the pool", n), strings.Join(bad, "; ")+": Next hands cr.br back to the pool at the end of the stream; a reader the caller still owns would then be given to, and reset by, the next CarReader while the caller goes on using it")
}

// ---- R03t: the insertion index orders (and equates) records by digest alone ---------------------

func ruleR03t(c *Ctx, r *Report) {
	fn, err := c.Func(pkgIndex, "recordDigest", "Less")
	if err != nil {
		r.InfraFail("%v", err)
		return
	}
	key := "digest-order-only@" + fnKey(fn)
	n, bad := 0, ""
	for _, ret := range returnsOf(fn) {
		for _, leaf := range phiLeaves(ret.Results[0]) {
			n++
			if k, isK := constBool(leaf); isK && !k {
				continue // the `other is not a recordDigest` outcome
			}
			b, ok := leaf.(*ssa.BinOp)
			if !ok || b.Op != token.LSS {
				bad = fmt.Sprintf("Less returns something other than `bytes.Compare(digest, other.digest) < 0` at %s", c.Pos(ret.Pos()))
				continue
			}
			cl, _ := callOf(b.X)
			k, isK := constInt(b.Y)
			if cl == nil || !funcIs(calleeFunc(cl.Common()), "bytes", "", "Compare") || !isK || k != 0 {
				bad = fmt.Sprintf("Less orders by something other than the digest bytes at %s", c.Pos(ret.Pos()))
			}
		}
	}
	if n == 0 {
		bad = "no return found"
	}
	r.Check(bad == "", key, c.Pos(fn.Pos()), "Less is the digest comparison on every return", bad+": the llrb tree takes !Less(a,b) && !Less(b,a) for equality, and lookups probe with a record that carries the digest only; any tie-break makes the probe unequal to every stored record")
}

// ---- R03u: index generation never seeks backwards -----------------------------------------------

func ruleR03u(c *Ctx, r *Report) {
	n := 0
	var bad []string
	for _, s := range []fnSpec{{modV2, "", "LoadIndex"}, {modV2, "Reader", "Inspect"}, {modV2, "BlockReader", "SkipNext"}, {modV2, "BlockReader", "Next"}, {modV2, "", "NewBlockReader"}} {
		fn, err := c.Func(s.pkg, s.recv, s.name)
		if err != nil {
			r.InfraFail("%v", err)
			continue
		}
		eachInstr(fn, func(in ssa.Instruction) {
			ci, ok := in.(*ssa.Call)
			if !ok || !isSeekCall(ci) {
				return
			}
			n++
			o, w := seekArgs(ci)
			if k, ok := constInt(w); !ok || k != 1 {
				return
			}
			if k, ok := constInt(canon(o)); ok && k < 0 {
				bad = append(bad, fmt.Sprintf("%s seeks backwards (%d, io.SeekCurrent) at %s", fnKey(fn), k, c.Pos(ci.Pos())))
			}
		})
	}
	sort.Strings(bad)
	r.Count("Seek calls of the sequential readers", n)
	r.Check(len(bad) == 0, "forward-seeks-only@v2", "-", "the sequential readers seek forward (or ask for the position) only", strings.Join(bad, "; ")+": these functions also run over the forward-only adapter for plain streams, which drops a backward seek without an error — the read that follows then consumes a byte of the next section")
}

// ---- R04r: an option is compared where it is compared today --------------------------------------

// optionComparisons: (function, Options field) pairs where the field's value (loaded from an Options
// struct, or received in a parameter named after it) is an operand of a relational comparison.
func optionComparisons(c *Ctx) map[string]string {
	out := map[string]string{}
	fields := optionsFieldNames()
	for _, fn := range c.RepoFuncs() {
		if !inLib(fn) {
			continue
		}
		root := rootFuncOf(fn)
		eachInstr(fn, func(in ssa.Instruction) {
			b, ok := in.(*ssa.BinOp)
			if !ok {
				return
			}
			switch b.Op {
			case token.LSS, token.LEQ, token.GTR, token.GEQ:
			default:
				return
			}
			for _, op := range []ssa.Value{b.X, b.Y} {
				v := canon(op)
				if cv, ok := v.(*ssa.Convert); ok {
					v = canon(cv.X)
				}
				name := ""
				if fv, base := fieldOfLoad(v); fv != nil && base != nil && isNamed(derefType(base.Type()), modV2, "Options") {
					name = fv.Name()
				}
				if p, ok := v.(*ssa.Parameter); ok && p.Parent() != nil {
					for i, q := range p.Parent().Params {
						if q == p {
							if f := optionFieldOfParam(p.Parent(), i); f != "" && fields[f] {
								name = f
							}
						}
					}
				}
				if name != "" {
					out[fnKey(root)+" ~ "+name] = c.Pos(b.Pos())
				}
			}
		})
	}
	return out
}

// optionComparisonBaseline: the comparison sites of the pinned tree (enumerated by R04r there and
// read through: each is the one place where that limit or padding belongs).
var optionComparisonBaseline = map[string]bool{
	"v2.LoadIndex ~ MaxIndexCidSize":                 true,
	"v2.Reader.Inspect ~ MaxAllowedSectionSize":      true,
	"v2.traversalCar.WriteTo ~ IndexPadding":         true,
	"v2.traversalCar.WriteV2Header ~ DataPadding":    true,
	"v2.traversalCar.WriteV2Header ~ IndexPadding":   true,
	"v2.traverse ~ MaxTraversalLinks":                true,
	"v2/blockstore.OpenReadWriteFile ~ DataPadding":  true,
	"v2/blockstore.OpenReadWriteFile ~ IndexPadding": true,
	"v2/internal/store.ShouldPut ~ MaxIndexCidSize":  true,
	"v2/storage.newWritable ~ DataPadding":           true,
	"v2/storage.newWritable ~ IndexPadding":          true,
}

func ruleR04r(c *Ctx, r *Report) {
	got := optionComparisons(c)
	var keys []string
	for k := range got {
		keys = append(keys, k)
	}
	sort.Strings(keys)
	newFns := newFuncKeys(c)
	for _, k := range keys {
		key := "option-compared-here@" + k
		if optionComparisonBaseline[k] {
			r.Exempt(key, got[k], "comparison site of the pinned tree")
			continue
		}
		fnPart, field, _ := strings.Cut(k, " ~ ")
		// the same comparison, moved with its function into a new one of the same package
		moved := false
		if newFns[fnPart] {
			for bk := range optionComparisonBaseline {
				bf, bfield, _ := strings.Cut(bk, " ~ ")
				if bfield == field && pkgOfKey(bf) == pkgOfKey(fnPart) {
					moved = true
				}
			}
		}
		if moved {
			r.Exempt(key, got[k], "comparison site of the pinned tree, moved into a new function")
			continue
		}
		r.Viol(key, got[k], "Options."+field+" is compared here, where the pinned tree does not compare it: a limit applied at one more place is applied to inputs the place it belongs to exempts (the index CID-size limit does not apply to identity CIDs that are not stored) or accepts")
	}
	r.Count("sites where an option value is compared", len(keys))
	if len(keys) < 3 {
		r.Undec("option-comparison-sites@library", "-", fmt.Sprintf("only %d comparison sites found", len(keys)))
	}
}

// ---- R12p: OpenReadableWritable never starts a file over ----------------------------------------

func ruleR12p(c *Ctx, r *Report) {
	fn, err := c.Func(pkgStorage, "", "OpenReadableWritable")
	if err != nil {
		r.InfraFail("%v", err)
		return
	}
	key := "open-always-resumes@" + fnKey(fn)
	bad := ""
	for _, ci := range callsToFunc(fn, pkgStorage, "StorageCar", "init") {
		bad = fmt.Sprintf("OpenReadableWritable initialises the file at %s", c.Pos(ci.Pos()))
	}
	res := callsToFunc(fn, pkgStore, "", "Resume")
	if len(res) != 1 {
		bad = fmt.Sprintf("expected one store.Resume call, found %d", len(res))
	} else if bad == "" {
		call, _ := res[0].(*ssa.Call)
		okE := condEdges(fn, errNilCond(func(v ssa.Value) bool { return v == ssa.Value(call) || strip(v) == ssa.Value(call) }, true))
		if len(okE) == 0 {
			bad = "the error of store.Resume is not tested"
		} else {
			rs := reach(fn, nil, edgeSet(okE))
			for _, ret := range returnsOf(fn) {
				if rs[ret.Block()] && len(ret.Results) == 2 && resultIsNilConst(ret, 1) {
					bad = fmt.Sprintf("OpenReadableWritable can succeed at %s without store.Resume having accepted the file", c.Pos(ret.Pos()))
				}
			}
		}
	}
	r.Check(bad == "", key, c.Pos(fn.Pos()), "every success is behind store.Resume; the file is never initialised here", bad+": a file that holds a CAR — however short — is checked against the roots, version and padding the caller passes, and refused untouched when they differ; writing a fresh pragma and header over it is the opposite")
}

// ---- R13m: Inspect stops reading at the zero-length section it treats as the end ------------------

func ruleR13m(c *Ctx, r *Report) {
	fn, err := c.Func(modV2, "Reader", "Inspect")
	if err != nil {
		r.InfraFail("%v", err)
		return
	}
	key := "zero-length-end-is-the-end@" + fnKey(fn)
	edges := condEdges(fn, matchFieldCond(modV2, "Options", "ZeroLengthSectionAsEOF", true))
	if len(edges) == 0 {
		r.Undec(key, c.Pos(fn.Pos()), "no test of Options.ZeroLengthSectionAsEOF found in Inspect")
		return
	}
	drs := callsToFunc(fn, modV2, "Reader", "DataReader")
	if len(drs) != 1 {
		r.Undec(key, c.Pos(fn.Pos()), "data reader not found")
		return
	}
	dcall, _ := drs[0].(*ssa.Call)
	dr := extractOf(dcall, 0)
	bad := ""
	for _, e := range edges {
		rs := reachFromEdge(fn, e, nil)
		// the loop itself must not be re-entered: cut at the length read
		eachInstr(fn, func(in ssa.Instruction) {
			ci, ok := in.(*ssa.Call)
			if !ok || !rs[ci.Block()] {
				return
			}
			for _, a := range callArgs(ci.Common()) {
				if canon(stripIface(a)) == dr || canon(a) == dr {
					bad = fmt.Sprintf("after the zero-length section that ends the scan, Inspect still reads from the payload at %s", c.Pos(ci.Pos()))
				}
			}
		})
	}
	r.Check(bad == "", key, c.Pos(fn.Pos()), "nothing is read from the payload once the zero-length end was seen", bad+": with ZeroLengthSectionAsEOF the scan ends there and succeeds, whatever follows; an inspection that reads on fails (or succeeds) where the scan does not")
}

// ---- R14m: the block reader passes the caller's ZeroLengthSectionAsEOF as it is -------------------

func ruleR14m(c *Ctx, r *Report) {
	n := 0
	var bad []string
	for _, name := range []string{"Next", "SkipNext"} {
		fn, err := c.Func(modV2, "BlockReader", name)
		if err != nil {
			r.InfraFail("%v", err)
			continue
		}
		for _, nm := range []string{"ReadNode", "LdReadSize", "LdRead"} {
			for _, ci := range callsToFunc(fn, pkgV1Util, "", nm) {
				n++
				if !loadsField(canon(ci.Common().Args[1]), modV2, "Options", "ZeroLengthSectionAsEOF") {
					bad = append(bad, fmt.Sprintf("%s passes to %s at %s something other than Options.ZeroLengthSectionAsEOF", fnKey(fn), nm, c.Pos(ci.Pos())))
				}
			}
		}
	}
	sort.Strings(bad)
	if n < 2 {
		r.Undec("zero-length-option-as-given@v2.BlockReader", "-", fmt.Sprintf("only %d framing calls found", n))
		return
	}
	r.Check(len(bad) == 0, "zero-length-option-as-given@v2.BlockReader", "-", "Next and SkipNext hand the option to the framing routines unchanged", strings.Join(bad, "; ")+": the option means the same for a CARv1 and for the payload of a CARv2 (a wrapped, null-padded CARv1 keeps its padding inside DataSize); both calls must end such an archive with io.EOF")
}

// ---- R15o: every traversal of the root-module selective writer has its own visited set -----------

func ruleR15o(c *Ctx, r *Report) {
	fn, err := c.Func(modRoot, "SelectiveCar", "traverse")
	if err != nil {
		r.InfraFail("%v", err)
		return
	}
	key := "own-visited-set@" + fnKey(fn)
	n, bad := 0, ""
	eachInstr(fn, func(in ssa.Instruction) {
		st, ok := in.(*ssa.Store)
		if !ok {
			return
		}
		fa, ok := st.Addr.(*ssa.FieldAddr)
		if !ok || !isNamed(derefType(fa.X.Type()), modRoot, "selectiveCarTraverser") {
			return
		}
		fv := fieldVar(fa.X.Type(), fa.Field)
		if fv == nil || !isNamed(derefType(fv.Type()), pkgCid, "Set") {
			return
		}
		n++
		cl, _ := callOf(canon(st.Val))
		if cl == nil || !funcIs(calleeFunc(cl.Common()), pkgCid, "", "NewSet") {
			bad = fmt.Sprintf("the visited set given to the traverser at %s is not a fresh cid.NewSet()", c.Pos(st.Pos()))
		}
	})
	if n == 0 {
		r.Undec(key, c.Pos(fn.Pos()), "no visited set handed to the traverser")
		return
	}
	r.Check(bad == "", key, c.Pos(fn.Pos()), "the traverser gets a set allocated in this call", bad+": Prepare, Write and Dump each walk the DAG; a set that outlives one walk makes the next one emit nothing")
}

// ---- R15p: the teeing opener serves a repeated CID again -----------------------------------------

func ruleR15p(c *Ctx, r *Report) {
	fn, err := c.Func(pkgLoader, "", "TeeingLinkSystem")
	if err != nil {
		r.InfraFail("%v", err)
		return
	}
	key := "repeat-is-served@" + fnKey(fn)
	n, bad := 0, ""
	cands := withAnon(fn)
	if op := readOpenerOf(fn); op != nil && op.Parent() == nil {
		cands = append(cands, op)
	}
	for _, g := range cands {
		if g == fn {
			continue
		}
		// the "already written" test: comma-ok lookup in the record map
		seen := condEdges(g, func(base ssa.Value) (bool, bool) {
			if ex, ok := base.(*ssa.Extract); ok && ex.Index == 1 {
				if lk, ok := ex.Tuple.(*ssa.Lookup); ok && lk.CommaOk {
					return true, true
				}
			}
			return false, false
		})
		if len(seen) == 0 {
			continue
		}
		n++
		for _, e := range seen {
			tgt := e.From.Succs[e.Succ]
			for _, ret := range returnsOf(g) {
				if ret.Block() != tgt || len(ret.Results) != 2 {
					continue
				}
				// the reader returned is the result of a call (the underlying opener)
				if cl, _ := callOf(canon(ret.Results[0])); cl == nil {
					bad = fmt.Sprintf("for a CID already written the opener returns at %s something other than the underlying opener's answer", c.Pos(ret.Pos()))
				}
			}
		}
	}
	if n == 0 {
		r.Undec(key, c.Pos(fn.Pos()), "no already-written test found in the teeing opener")
		return
	}
	r.Check(bad == "", key, c.Pos(fn.Pos()), "a CID already written is answered by the underlying opener", bad+": 'already written' is not 'already walked' — the traversal still has to read the block to follow its links, and an error (or SkipMe) here drops everything below a shared subtree")
}

// ---- R16o: a failed store.Finalize is what Finalize returns -------------------------------------

func ruleR16o(c *Ctx, r *Report) {
	n := 0
	for _, s := range []fnSpec{{pkgStorage, "StorageCar", "Finalize"}, {pkgBS, "ReadWrite", "finalizeReadOnlyWithoutMutex"}} {
		fn, err := c.Func(s.pkg, s.recv, s.name)
		if err != nil {
			r.InfraFail("%v", err)
			continue
		}
		key := "finalize-error-kept@" + fnKey(fn)
		calls := callsToFunc(fn, pkgStore, "", "Finalize")
		if len(calls) != 1 {
			r.Undec(key, c.Pos(fn.Pos()), fmt.Sprintf("expected one store.Finalize call, found %d", len(calls)))
			continue
		}
		n++
		call, _ := calls[0].(*ssa.Call)
		errv := ssa.Value(call)
		bad := ""
		// returned directly?
		direct := false
		if refs := call.Referrers(); refs != nil {
			for _, ref := range *refs {
				if _, ok := ref.(*ssa.Return); ok {
					direct = true
				}
			}
		}
		nonNil := condEdges(fn, errNilCond(func(v ssa.Value) bool { return v == errv || strip(v) == errv }, false))
		if !direct && len(nonNil) == 0 {
			// the value may flow to the return through a named result or a phi: follow it
			for _, ret := range returnsOf(fn) {
				last := len(ret.Results) - 1
				if last >= 0 && flowSources(retResult(ret, last))[errv] {
					direct = true
				}
			}
			if !direct {
				bad = "the error of store.Finalize is neither tested nor returned"
			}
		}
		for _, e := range nonNil {
			rs := reachFromEdge(fn, e, nil)
			for _, ret := range returnsOf(fn) {
				if !rs[ret.Block()] || len(ret.Results) == 0 {
					continue
				}
				last := len(ret.Results) - 1
				v := retResult(ret, last)
				// what the result is on THIS path: of a merge, only the inputs that arrive from
				// blocks reachable after the failure
				carries := false
				if ph, ok := v.(*ssa.Phi); ok {
					for i, ev := range ph.Edges {
						if rs[ph.Block().Preds[i]] && flowSources(ev)[errv] {
							carries = true
						}
					}
					any := false
					for i := range ph.Edges {
						if rs[ph.Block().Preds[i]] {
							any = true
						}
					}
					if !any {
						carries = flowSources(v)[errv]
					}
				} else {
					carries = flowSources(v)[errv]
				}
				if !carries {
					bad = fmt.Sprintf("after store.Finalize failed, the return at %s reports something else than that failure", c.Pos(ret.Pos()))
				}
			}
		}
		r.Check(bad == "", key, c.Pos(fn.Pos()), "the error of store.Finalize reaches the caller (as it is, or wrapped)", bad+": the outcome of a clean-up step (nil when it succeeds) replaces the failure, and the caller is told a half-written archive was finalized")
	}
	r.Count("finalizers examined", n)
}

// ---- R18s: the extractor takes entry names as they are -------------------------------------------

func ruleR18s(c *Ctx, r *Report) {
	n := 0
	var bad []string
	for _, fn := range c.RepoFuncs() {
		if fn.Pkg == nil || fn.Pkg.Pkg.Path() != pkgCmdLib {
			continue
		}
		n++
		for _, g := range withAnon(fn) {
			eachInstr(g, func(in ssa.Instruction) {
				ci, ok := in.(*ssa.Call)
				if !ok {
					return
				}
				f := calleeFunc(ci.Common())
				for _, nm := range []string{"ToLower", "ToUpper", "EqualFold", "ToTitle"} {
					if funcIs(f, "strings", "", nm) || funcIs(f, "bytes", "", nm) {
						bad = append(bad, fmt.Sprintf("%s folds the case of a name with strings.%s at %s", fnKey(fn), nm, c.Pos(ci.Pos())))
					}
				}
			})
		}
	}
	sort.Strings(bad)
	r.Count("functions of cmd/car/lib examined", n)
	r.Check(len(bad) == 0, "names-as-they-are@cmd/car/lib", "-", "no case folding of entry names", strings.Join(bad, "; ")+": `car create` packs siblings that differ only in case; an extractor that treats them as one name refuses (or merges) a tree it was given")
}

// ---- R18t: car create writes under the parser defaults -------------------------------------------

func ruleR18t(c *Ctx, r *Report) {
	fn, err := c.Func(pkgCmdCar, "", "CreateCar")
	if err != nil {
		r.InfraFail("%v", err)
		return
	}
	key := "create-options@" + fnKey(fn)
	bad := ""
	for _, g := range withAnon(fn) {
		eachInstr(g, func(in ssa.Instruction) {
			ci, ok := in.(*ssa.Call)
			if !ok {
				return
			}
			f := calleeFunc(ci.Common())
			if f == nil || f.Pkg() == nil || (f.Pkg().Path() != modV2 && f.Pkg().Path() != pkgBS) {
				return
			}
			sig := f.Type().(*types.Signature)
			if sig.Results().Len() != 1 || !isNamed(sig.Results().At(0).Type(), modV2, "Option") {
				return
			}
			if f.Name() != "WriteAsCarV1" {
				bad = fmt.Sprintf("car create passes the option %s at %s", f.Name(), c.Pos(ci.Pos()))
			}
		})
	}
	r.Check(bad == "", key, c.Pos(fn.Pos()), "the destination is opened with the version option only", bad+": resuming a destination under other parser settings than it was written with (zero-length sections as the end, other limits) accepts a torn file as complete, and the blocks of the rerun are de-duplicated against garbage")
}

// ---- R18u: an empty block is a block that was found ----------------------------------------------

func ruleR18u(c *Ctx, r *Report) {
	n := 0
	var bad []string
	for _, fn := range c.RepoFuncs() {
		if fn.Pkg == nil || (fn.Pkg.Pkg.Path() != pkgStorage && fn.Pkg.Pkg.Path() != pkgBS) {
			continue
		}
		for _, ci := range callsToFunc(fn, pkgStore, "", "FindCid") {
			call, ok := ci.(*ssa.Call)
			if !ok {
				continue
			}
			size := extractOf(call, 2)
			if size == nil {
				continue
			}
			closure := flowClosure(size)
			eachInstr(fn, func(in ssa.Instruction) {
				b, ok := in.(*ssa.BinOp)
				if !ok {
					return
				}
				var k int64
				var sizeLeft bool
				if kk, isK := constInt(b.Y); isK && (closure[b.X] || closure[strip(b.X)]) {
					k, sizeLeft = kk, true
				} else if kk, isK := constInt(b.X); isK && (closure[b.Y] || closure[strip(b.Y)]) {
					k, sizeLeft = kk, false
				} else {
					return
				}
				ev := func(s int64) (bool, bool) {
					x, y := s, k
					if !sizeLeft {
						x, y = k, s
					}
					switch b.Op {
					case token.LSS:
						return x < y, true
					case token.LEQ:
						return x <= y, true
					case token.GTR:
						return x > y, true
					case token.GEQ:
						return x >= y, true
					case token.EQL:
						return x == y, true
					case token.NEQ:
						return x != y, true
					}
					return false, false
				}
				a0, ok0 := ev(0)
				am, ok1 := ev(-1)
				if !ok0 || !ok1 {
					return
				}
				n++
				if a0 == am {
					a1, _ := ev(1)
					if a1 != a0 {
						bad = append(bad, fmt.Sprintf("%s treats a size of 0 like the not-found marker -1 (`size %s %d`) at %s", fnKey(fn), b.Op, k, c.Pos(b.Pos())))
					}
				}
			})
		}
	}
	sort.Strings(bad)
	r.Count("comparisons of the size FindCid reports with a constant", n)
	if n < 2 {
		r.Undec("empty-block-is-found@stores", "-", fmt.Sprintf("only %d comparisons found", n))
		return
	}
	r.Check(len(bad) == 0, "empty-block-is-found@stores", "-", "a size of 0 is on the found side of every comparison", strings.Join(bad, "; ")+": every empty file of a UnixFS tree is a block of size 0; reported as not found, the extractor skips it with a log line and exits 0")
}

// ---- R19v: car inspect reports what the library's inspection reports -----------------------------

func ruleR19v(c *Ctx, r *Report) {
	fn, err := c.Func(pkgCmdCar, "", "InspectCar")
	if err != nil {
		r.InfraFail("%v", err)
		return
	}
	key := "inspect-is-inspect@" + fnKey(fn)
	bad := ""
	n := 0
	for _, g := range withAnon(fn) {
		eachInstr(g, func(in ssa.Instruction) {
			ci, ok := in.(*ssa.Call)
			if !ok {
				return
			}
			f := calleeFunc(ci.Common())
			if f == nil || f.Pkg() == nil || f.Pkg().Path() != pkgCmdLib || f.Type().(*types.Signature).Recv() != nil {
				return
			}
			n++
			if f.Name() != "InspectCar" {
				bad = fmt.Sprintf("car inspect also runs lib.%s at %s", f.Name(), c.Pos(ci.Pos()))
			}
		})
	}
	if n == 0 {
		r.Undec(key, c.Pos(fn.Pos()), "no call of lib.InspectCar found")
		return
	}
	r.Check(bad == "", key, c.Pos(fn.Pos()), "the command calls lib.InspectCar and no other checker", bad+": `verify` asks for more than a well-formed archive (roots present among the blocks, at least one root); folded into `inspect --full` it makes inspect reject outputs the tool itself produces (a filter that removed the root block)")
}

// ---- R20j / R20k: the deferred writer adds no state and no checks of its own to a put ------------

func ruleR20j(c *Ctx, r *Report) {
	n := 0
	var bad []string
	for _, fn := range c.RepoFuncs() {
		if fn.Pkg == nil || fn.Pkg.Pkg.Path() != pkgDeferred {
			continue
		}
		n++
		for _, g := range withAnon(fn) {
			eachInstr(g, func(in ssa.Instruction) {
				st, ok := in.(*ssa.Store)
				if !ok {
					return
				}
				fa, ok := st.Addr.(*ssa.FieldAddr)
				if !ok || !isNamed(derefType(fa.X.Type()), pkgDeferred, "DeferredCarWriter") {
					return
				}
				fv := fieldVar(fa.X.Type(), fa.Field)
				if fv != nil && types.Identical(fv.Type(), types.Universe.Lookup("error").Type()) {
					bad = append(bad, fmt.Sprintf("%s keeps an error in DeferredCarWriter.%s at %s", fnKey(fn), fv.Name(), c.Pos(st.Pos())))
				}
			})
		}
	}
	sort.Strings(bad)
	r.Count("functions of the deferred writer examined", n)
	r.Check(len(bad) == 0, "no-sticky-error@v2/storage/deferred", "-", "the deferred writer remembers no error", strings.Join(bad, "; ")+": a direct writer that refuses one put (a key that is no CID, a CID over the index limit) takes the next one; a deferred writer that remembers the refusal does not, and is not identical to it")
	// Put and Has hand their context on and consult it for nothing
	for _, name := range []string{"Put", "Has"} {
		fn, err := c.Func(pkgDeferred, "DeferredCarWriter", name)
		if err != nil {
			r.InfraFail("%v", err)
			continue
		}
		key := "context-passed-on-only@" + fnKey(fn)
		bad2 := ""
		for _, p := range fn.Params {
			if !isNamed(p.Type(), "context", "Context") || p.Referrers() == nil {
				continue
			}
			for _, ref := range *p.Referrers() {
				ci, ok := ref.(ssa.CallInstruction)
				if !ok {
					if _, isDbg := ref.(*ssa.DebugRef); !isDbg {
						bad2 = fmt.Sprintf("the context is used at %s other than as an argument", c.Pos(ref.Pos()))
					}
					continue
				}
				if ci.Common().IsInvoke() && ci.Common().Value == ssa.Value(p) {
					bad2 = fmt.Sprintf("%s consults its context (%s) at %s", name, ci.Common().Method.Name(), c.Pos(ci.Pos()))
				}
			}
		}
		r.Check(bad2 == "", key, c.Pos(fn.Pos()), "the context goes to the underlying writer and nowhere else", bad2+": the direct writer does not look at the context; a deferred writer that refuses on a cancelled context answers ErrClosed-situations with another error and drops puts the direct writer stores")
	}
}

// ---- R08p: nothing waits for other goroutines while it holds a store's lock ----------------------

func ruleR08p(c *Ctx, r *Report) {
	la := getLockAnalysis(c)
	n := 0
	var bad []string
	for _, fn := range la.funcs {
		lf := la.flow[fn]
		if lf == nil {
			continue
		}
		eachInstr(fn, func(in ssa.Instruction) {
			ci, ok := in.(*ssa.Call)
			if !ok {
				return
			}
			f := calleeFunc(ci.Common())
			if !funcIs(f, "sync", "WaitGroup", "Wait") {
				return
			}
			n++
			st := lf.before[in]
			if st.top {
				return
			}
			for cl := range st.held {
				bad = append(bad, fmt.Sprintf("%s waits on a sync.WaitGroup at %s while holding %s", fnKey(fn), c.Pos(ci.Pos()), cl))
			}
		})
	}
	sort.Strings(bad)
	r.Count("WaitGroup waits in the lock-guarded packages", n)
	r.Check(len(bad) == 0, "no-wait-under-lock@stores", "-", "no sync.WaitGroup.Wait is reached with a store lock held", strings.Join(bad, "; ")+": the goroutines waited for need that lock themselves (a key listing is consumed by callers that call Get between receives): Finalize, Get and the lister then wait for each other for ever")
}

// ---- R06s: the library removes, renames or truncates no file by name ----------------------------

func ruleR06s(c *Ctx, r *Report) {
	n := 0
	var bad []string
	for _, fn := range c.RepoFuncs() {
		if !inLib(fn) {
			continue
		}
		n++
		eachInstr(fn, func(in ssa.Instruction) {
			ci, ok := in.(ssa.CallInstruction)
			if !ok {
				return
			}
			f := calleeFunc(ci.Common())
			for _, nm := range []string{"Remove", "RemoveAll", "Rename", "Truncate"} {
				if funcIs(f, "os", "", nm) {
					bad = append(bad, fmt.Sprintf("%s calls os.%s at %s", fnKey(rootFuncOf(fn)), nm, c.Pos(ci.Pos())))
				}
			}
		})
	}
	sort.Strings(bad)
	r.Count("library functions examined for os.Remove/Rename/Truncate", n)
	if n < 200 {
		r.Undec("no-file-removal@library", "-", fmt.Sprintf("only %d functions examined", n))
		return
	}
	r.Check(len(bad) == 0, "no-file-removal@library", "-", "no library function removes, renames or truncates a file by name", strings.Join(bad, "; ")+": a file that cannot be resumed is refused and left as it is — it still holds every block whose Put had returned; deleting it on an error that also means 'torn last section' destroys them")
}

// ---- R09s: the stores allocate nothing sized by what an index entry claims ------------------------

func ruleR09s(c *Ctx, r *Report) {
	n := 0
	var bad []string
	for _, s := range []fnSpec{{pkgStorage, "StorageCar", "Get"}, {pkgStorage, "StorageCar", "GetStream"}, {pkgBS, "ReadOnly", "Get"}, {pkgBS, "ReadOnly", "GetSize"}, {pkgBS, "ReadOnly", "Has"}, {pkgStorage, "StorageCar", "Has"}} {
		fn, err := c.Func(s.pkg, s.recv, s.name)
		if err != nil {
			r.InfraFail("%v", err)
			continue
		}
		n++
		for _, g := range withAnon(fn) {
			eachInstr(g, func(in ssa.Instruction) {
				mk, ok := in.(*ssa.MakeSlice)
				if !ok {
					return
				}
				if _, isK := constInt(mk.Len); isK {
					return
				}
				bad = append(bad, fmt.Sprintf("%s allocates a slice of a computed length at %s", fnKey(fn), c.Pos(mk.Pos())))
			})
		}
	}
	sort.Strings(bad)
	r.Count("store read methods examined", n)
	r.Check(len(bad) == 0, "no-index-sized-allocation@stores", "-", "the read methods of the stores allocate no slice of a computed length themselves (block bytes come from the framing routines, which bound the length first)", strings.Join(bad, "; ")+": the size store.FindCid reports without reading is the section's announced length minus the CID — unchecked against MaxAllowedSectionSize and possibly negative; `make` of it panics or allocates what a crafted length prefix asks for")
}

// ---- R11x: the payload size a finalizer hands to store.Finalize is read under the lock -----------

func ruleR11x(c *Ctx, r *Report) {
	fn, err := c.Func(pkgStorage, "StorageCar", "Finalize")
	if err != nil {
		r.InfraFail("%v", err)
		return
	}
	key := "size-read-under-lock@" + fnKey(fn)
	var locks []ssa.Instruction
	eachInstr(fn, func(in ssa.Instruction) {
		if ci, ok := in.(ssa.CallInstruction); ok {
			if _, _, isLock := lockOp(ci.Common()); isLock {
				locks = append(locks, in)
			}
		}
	})
	calls := callsToFunc(fn, pkgStore, "", "Finalize")
	if len(locks) == 0 || len(calls) != 1 {
		r.Undec(key, c.Pos(fn.Pos()), fmt.Sprintf("lock (%d) or store.Finalize call (%d) not found", len(locks), len(calls)))
		return
	}
	bad := ""
	for v := range flowSources(calls[0].Common().Args[3]) {
		ci, ok := v.(*ssa.Call)
		if !ok {
			continue
		}
		f := calleeFunc(ci.Common())
		if f == nil || f.Name() != "Position" {
			continue
		}
		after := false
		for _, l := range locks {
			if instrReaches(l, ci) && !instrReaches(ci, l) {
				after = true
			}
		}
		if !after {
			bad = fmt.Sprintf("the writer position used as the payload size is read at %s before the lock is taken", c.Pos(ci.Pos()))
		}
	}
	r.Check(bad == "", key, c.Pos(fn.Pos()), "dataWriter.Position() is read after the lock was acquired", bad+": a Put in flight moves the position and adds its record after the stale value was read; the index is then written over the block it describes")
}

// ---- R11y: the sorted index groups records by digest width and nothing else ----------------------

func ruleR11y(c *Ctx, r *Report) {
	fn, err := c.Func(pkgIndex, "multiWidthIndex", "Load")
	if err != nil {
		r.InfraFail("%v", err)
		return
	}
	key := "grouped-by-width@" + fnKey(fn)
	n, bad := 0, ""
	for _, g := range withAnon(fn) {
		eachInstr(g, func(in ssa.Instruction) {
			rg, ok := in.(*ssa.Range)
			if !ok {
				return
			}
			mt, ok := rg.X.Type().Underlying().(*types.Map)
			if !ok {
				return
			}
			n++
			if b, ok := mt.Key().Underlying().(*types.Basic); !ok || b.Info()&types.IsInteger == 0 {
				bad = fmt.Sprintf("the buckets are built from groups keyed by %s at %s", mt.Key(), c.Pos(rg.Pos()))
			}
		})
	}
	if n == 0 {
		r.Undec(key, c.Pos(fn.Pos()), "no grouping map is ranged over in multiWidthIndex.Load")
		return
	}
	r.Check(bad == "", key, c.Pos(fn.Pos()), "one group, and one bucket, per digest width", bad+": a bucket of the result is addressed by the record width alone; groups that share a width (two hash functions with digests of one length) overwrite each other's bucket, and records vanish depending on map order")
}

// ---- R08s: a struct of the pinned library gets no new field that is written ----------------------

func ruleR08s(c *Ctx, r *Report) {
	n := 0
	var bad []string
	for _, pp := range libPkgs {
		p := c.Pkgs[pp]
		if p == nil {
			continue
		}
		sc := p.Types.Scope()
		for _, name := range sc.Names() {
			tn, ok := sc.Lookup(name).(*types.TypeName)
			if !ok || tn.IsAlias() {
				continue
			}
			st, ok := tn.Type().Underlying().(*types.Struct)
			if !ok {
				continue
			}
			pinned := name
			if !baselineTypes[pp+"\t"+name] {
				// a renamed pinned type keeps its pinned field list
				pinned = ""
				for k, v := range typeRenames {
					if v == name && strings.HasPrefix(k, pp+"\t") {
						pinned = strings.TrimPrefix(k, pp+"\t")
					}
				}
				if pinned == "" {
					continue // a type the pinned tree does not have
				}
			}
			n++
			for i := 0; i < st.NumFields(); i++ {
				fv := st.Field(i)
				if baselineTypes[pp+"\tfield:"+pinned+"."+fv.Name()] || fv.Name() == "_" {
					continue
				}
				// written anywhere?
				where := ""
				for _, fn := range c.RepoFuncs() {
					for _, g := range withAnon(fn) {
						eachInstr(g, func(in ssa.Instruction) {
							if where != "" {
								return
							}
							switch x := in.(type) {
							case *ssa.Store:
								if addrThroughField(x.Addr, fv) {
									if k, isK := x.Val.(*ssa.Const); isK && (k.Value == nil) {
										return // zeroing
									}
									if freshStructCell(x.Addr) {
										// set where the value is constructed (composite literal, or an
										// assignment to the new object in the function that allocates it):
										// a set-once field is a named local, not state carried between calls
										return
									}
									where = c.Pos(x.Pos())
								}
							case *ssa.MapUpdate:
								if f2, _ := fieldOfLoad(canon(x.Map)); f2 == fv {
									where = c.Pos(x.Pos())
								}
							case ssa.CallInstruction:
								// a method called on the field's address (a mutex, a WaitGroup, a set)
								cc := x.Common()
								if len(cc.Args) > 0 {
									if fa, ok := cc.Args[0].(*ssa.FieldAddr); ok && fieldVar(fa.X.Type(), fa.Field) == fv {
										where = c.Pos(x.Pos())
									}
								}
							}
						})
					}
				}
				if where != "" {
					bad = append(bad, fmt.Sprintf("%s.%s has a field %s that the pinned tree does not have, written at %s", shortPkg(pp), name, fv.Name(), where))
				}
			}
		}
	}
	sort.Strings(bad)
	r.Count("struct types of the pinned library examined for new fields", n)
	if n < 30 {
		r.Undec("no-new-written-field@library", "-", fmt.Sprintf("only %d struct types examined", n))
		return
	}
	r.Check(len(bad) == 0, "no-new-written-field@library", "-", "no struct of the pinned library has a new field that is written", strings.Join(bad, "; ")+": state a store, reader or writer carries from one call to the next beyond what the pinned tree carries (a remembered result, a sticky error, a cache, a flag set in one session and lost in the next) is what makes an answer depend on history")
}

// addrThroughField: the address is field fv of some struct, or an element / sub-field reached through it.
// freshStructCell: the address is a field (of a field ...) of an object allocated in this very
// function, reached without going through any pointer.
func freshStructCell(a ssa.Value) bool {
	for i := 0; i < 8; i++ {
		switch x := a.(type) {
		case *ssa.FieldAddr:
			a = x.X
		case *ssa.Alloc:
			_, isStruct := derefType(x.Type()).Underlying().(*types.Struct)
			return isStruct
		default:
			return false
		}
	}
	return false
}

func addrThroughField(a ssa.Value, fv *types.Var) bool {
	for i := 0; i < 8; i++ {
		switch x := a.(type) {
		case *ssa.FieldAddr:
			if fieldVar(x.X.Type(), x.Field) == fv {
				return true
			}
			a = x.X
		case *ssa.IndexAddr:
			a = x.X
		case *ssa.UnOp:
			if x.Op != token.MUL {
				return false
			}
			a = x.X
		default:
			return false
		}
	}
	return false
}

// ---- R02q: who may issue a single Read -----------------------------------------------------------

// bareReadCallers: functions of the pinned library that call a Read([]byte) (int, error) themselves —
// the reader adapters, whose Read forwards one Read, and the two places that loop over Read. Every
// other function fills its buffers through io.ReadFull / io.Copy / binary.Read.
var bareReadCallers = map[string]bool{
	"v2/internal/io.discardingReadSeekerPlusByte.Read": true, // forwards one Read and counts what it delivered
	"v2/internal/io.offsetReadSeeker.ReadByte":         true, // one byte through its own ReadAt-backed Read
	"v2/internal/io.readSeekerAt.ReadAt":               true, // seek + one Read, returns the count
	"v2/internal/loader.countingReader.Read":           true, // forwards one Read and counts
	"v2/internal/loader.writingReader.Read":            true, // forwards the buffered block
}

func bareReadSites(c *Ctx) map[string]string {
	out := map[string]string{}
	for _, fn := range c.RepoFuncs() {
		if !inLib(fn) {
			continue
		}
		eachInstr(fn, func(in ssa.Instruction) {
			ci, ok := in.(*ssa.Call)
			if !ok {
				return
			}
			name := ""
			if ci.Common().IsInvoke() {
				name = ci.Common().Method.Name()
			} else if f := calleeFunc(ci.Common()); f != nil {
				name = f.Name()
			}
			sig := ci.Common().Signature()
			if name != "Read" || sig == nil || sig.Params().Len() != 1 || sig.Results().Len() != 2 {
				return
			}
			if sl, ok := sig.Params().At(0).Type().Underlying().(*types.Slice); !ok || !types.Identical(sl.Elem(), types.Typ[types.Byte]) {
				return
			}
			out[fnKey(rootFuncOf(fn))] = c.Pos(ci.Pos())
		})
	}
	return out
}

func ruleR02q(c *Ctx, r *Report) {
	got := bareReadSites(c)
	var keys []string
	for k := range got {
		keys = append(keys, k)
	}
	sort.Strings(keys)
	newFns := newFuncKeys(c)
	for _, k := range keys {
		key := "single-read@" + k
		if bareReadCallers[k] {
			r.Exempt(key, got[k], "forwards or loops over Read in the pinned tree")
			continue
		}
		if newFns[k] {
			// a method of a type the pinned tree does not have is judged by R16n (new reader types)
			r.Exempt(key, got[k], "function the pinned tree does not have (its type is judged by the rule on new reader types)")
			continue
		}
		r.Viol(key, got[k], "a buffer is filled with one Read: an io.Reader may deliver fewer bytes than asked for without an error (a pipe, a socket, any reader that hands out pieces), and the rest of the buffer is then decoded as zeros or the short read mistaken for the end — fixed-size fields and section bodies are read with io.ReadFull")
	}
	r.Count("functions that call Read themselves", len(keys))
	if len(keys) < 3 {
		r.Undec("single-read-sites@library", "-", fmt.Sprintf("only %d functions calling Read found", len(keys)))
	}
}
