package main

import (
	"bufio"
	"encoding/json"
	"fmt"
	"os"
	"path/filepath"
	"sort"
	"strings"
)

// Verdicts of an obligation.
const (
	Holds     = "holds"
	Violated  = "violated"
	Undecided = "undecided"
	Exempt    = "exempt"
)

// Obligation is one rule instance at one construct.
type Obligation struct {
	Rule    string `json:"rule"`
	Key     string `json:"construct"` // rule-independent construct key: survives line shifts
	Pos     string `json:"pos"`
	Verdict string `json:"verdict"`
	Detail  string `json:"detail,omitempty"`
}

type RuleDef struct {
	ID    string
	Doc   string // the rule applied, one sentence
	Floor int    // minimum number of instances confirmed by hand on the pinned tree
	Run   func(c *Ctx, r *Report)
}

type PropertyDef struct {
	ID          string
	Explanation string // what structural clause is decided, what is not
	Assumptions []string
	Rules       []RuleDef
}

type Report struct {
	Property string
	cur      string
	Obs      []Obligation
	Infra    []string // infrastructure failures (anchor unresolved, panic): exit 2
	Analysed map[string]int
}

func (r *Report) add(verdict, key, pos, detail string) {
	r.Obs = append(r.Obs, Obligation{Rule: r.cur, Key: key, Pos: pos, Verdict: verdict, Detail: detail})
}
func (r *Report) Hold(key, pos, detail string)   { r.add(Holds, key, pos, detail) }
func (r *Report) Viol(key, pos, detail string)   { r.add(Violated, key, pos, detail) }
func (r *Report) Undec(key, pos, detail string)  { r.add(Undecided, key, pos, detail) }
func (r *Report) Exempt(key, pos, detail string) { r.add(Exempt, key, pos, detail) }
func (r *Report) Check(ok bool, key, pos, okDetail, badDetail string) {
	if ok {
		r.Hold(key, pos, okDetail)
	} else {
		r.Viol(key, pos, badDetail)
	}
}
func (r *Report) InfraFail(format string, a ...any) {
	msg := fmt.Sprintf(format, a...)
	// an anchor (a function, method or type a rule is written about) that is gone from the tree is a
	// statement about the tree, not a failure of the machinery: the obligation is undecided, and the
	// check fails with a VIOLATION line that names it
	if strings.HasPrefix(msg, "anchor:") {
		r.Undec("anchor@"+strings.TrimPrefix(msg, "anchor: "), "-", msg+": the construct this rule is about is no longer in the tree (renamed beyond recognition, removed or merged); the rule cannot be decided")
		return
	}
	r.Infra = append(r.Infra, r.cur+": "+msg)
}
func (r *Report) Count(what string, n int) {
	if r.Analysed == nil {
		r.Analysed = map[string]int{}
	}
	r.Analysed[what] += n
}

// ---- known findings -----------------------------------------------------------------

type knownFinding struct {
	Property, Rule, Construct, Text string
}

func loadKnown(path string) ([]knownFinding, []string, error) {
	f, err := os.Open(path)
	if err != nil {
		if os.IsNotExist(err) {
			return nil, nil, nil
		}
		return nil, nil, err
	}
	defer f.Close()
	var out []knownFinding
	var fixed []string
	sc := bufio.NewScanner(f)
	for sc.Scan() {
		line := strings.TrimSpace(sc.Text())
		if line == "" || strings.HasPrefix(line, "#") {
			continue
		}
		if strings.HasPrefix(line, "fixed:") {
			fixed = append(fixed, line)
			continue
		}
		if !strings.HasPrefix(line, "known:") {
			return nil, nil, fmt.Errorf("KNOWN_FINDINGS: unrecognised line %q", line)
		}
		rest := strings.TrimSpace(strings.TrimPrefix(line, "known:"))
		head, text, _ := strings.Cut(rest, "::")
		kf := knownFinding{Text: strings.TrimSpace(text)}
		for _, f := range strings.Fields(head) {
			k, v, ok := strings.Cut(f, "=")
			if !ok {
				return nil, nil, fmt.Errorf("KNOWN_FINDINGS: bad field %q", f)
			}
			switch k {
			case "property":
				kf.Property = v
			case "rule":
				kf.Rule = v
			case "construct":
				kf.Construct = v
			default:
				return nil, nil, fmt.Errorf("KNOWN_FINDINGS: unknown key %q", k)
			}
		}
		if kf.Property == "" || kf.Rule == "" || kf.Construct == "" {
			return nil, nil, fmt.Errorf("KNOWN_FINDINGS: incomplete line %q", line)
		}
		out = append(out, kf)
	}
	return out, fixed, sc.Err()
}

// ---- evidence --------------------------------------------------------------------------

type evidence struct {
	PropertyID  string         `json:"property_id"`
	Tier        string         `json:"tier"`
	Seed        int            `json:"seed"`
	Level       string         `json:"level"`
	Coverage    map[string]any `json:"coverage"`
	Assumptions []string       `json:"assumptions"`
	WallS       float64        `json:"wall_s"`
	Violations  int            `json:"violations"`
}

type outcome struct {
	exit       int
	violations []Obligation
	known      []Obligation
}

// finish evaluates floors and known findings, writes the evidence and the
// violations file, prints the interface lines and returns the exit code.
func finish(def PropertyDef, rep *Report, c *Ctx, tier string, seed int, wall float64, verifDir string, extra map[string]any) int {
	known, _, err := loadKnown(filepath.Join(verifDir, "KNOWN_FINDINGS.txt"))
	if err != nil {
		fmt.Fprintln(os.Stderr, "carlint:", err)
		return 2
	}
	perRule := map[string]int{}
	nontrivial := map[string]bool{}
	for _, o := range rep.Obs {
		perRule[o.Rule]++
		if o.Verdict != Exempt {
			nontrivial[o.Rule+"@"+o.Key] = true
		}
	}
	// floors: a rule that matched fewer instances than confirmed by hand would
	// pass vacuously, so it fails instead.
	floors := map[string]any{}
	for _, rd := range def.Rules {
		// The floor guards against a rule that silently matches (almost) nothing. It is
		// set to half of what was confirmed by hand: extracting a shared helper or
		// merging duplicated call sites legitimately lowers the count.
		eff := (rd.Floor + 1) / 2
		if eff < 1 {
			eff = 1
		}
		floors[rd.ID] = map[string]int{"confirmed_by_hand": rd.Floor, "floor": eff, "instances": perRule[rd.ID]}
		if perRule[rd.ID] < eff {
			rep.Obs = append(rep.Obs, Obligation{Rule: rd.ID, Key: "floor", Pos: "-", Verdict: Undecided,
				Detail: fmt.Sprintf("rule matched %d instances, fewer than the floor %d (half of the %d confirmed by hand): the anchors moved or the recogniser no longer sees them", perRule[rd.ID], eff, rd.Floor)})
		}
	}
	sort.SliceStable(rep.Obs, func(i, j int) bool {
		if rep.Obs[i].Rule != rep.Obs[j].Rule {
			return rep.Obs[i].Rule < rep.Obs[j].Rule
		}
		return rep.Obs[i].Key < rep.Obs[j].Key
	})
	var viol, kn []Obligation
	discharged := 0
	for _, o := range rep.Obs {
		switch o.Verdict {
		case Holds, Exempt:
			discharged++
		default:
			isKnown := false
			for _, k := range known {
				if k.Property == def.ID && k.Rule == o.Rule && k.Construct == o.Key {
					isKnown = true
					o.Detail = o.Detail + " [known finding: " + k.Text + "]"
					break
				}
			}
			if isKnown {
				kn = append(kn, o)
			} else {
				viol = append(viol, o)
			}
		}
	}
	rules := []map[string]string{}
	for _, rd := range def.Rules {
		rules = append(rules, map[string]string{"rule": rd.ID, "applies": rd.Doc})
	}
	samples := []any{}
	for _, o := range rep.Obs {
		samples = append(samples, o)
	}
	analysed := map[string]any{}
	if c != nil {
		analysed["repo_packages"] = len(c.Pkgs)
		analysed["repo_functions_with_bodies"] = c.NFuncs
		if len(c.InlineLog) > 0 {
			analysed["normalisation"] = c.InlineLog
		} else {
			analysed["normalisation"] = "no unexported function beyond the pinned tree's (baseline_funcs.txt): nothing inlined"
		}
	}
	for k, v := range rep.Analysed {
		analysed[k] = v
	}
	cov := map[string]any{
		"explanation":         fullExplanation(def),
		"obligations":         len(rep.Obs),
		"discharged":          discharged,
		"evaluations":         len(rep.Obs),
		"distinct_nontrivial": len(nontrivial),
		"rule":                "one obligation per (rule, construct) found in the type-checked SSA of /repo's working tree; distinct = distinct (rule, construct) keys; non-trivial = the construct was actually examined by the rule (exemptions are not counted)",
		"samples":             samples,
		"rules":               rules,
		"floors":              floors,
		"analysed":            analysed,
		"known_findings":      kn,
		"infrastructure":      rep.Infra,
		"checker_cmd":         "bin/carlint -property " + def.ID + " -tier " + tier,
		"trusted_base":        []string{"go/types type checker", "golang.org/x/tools v0.29.0 go/packages + go/ssa", "rule tables in /verif/carlint (echoed under rules)"},
		"exhaustive":          false,
	}
	for k, v := range extra {
		cov[k] = v
	}
	ev := evidence{PropertyID: def.ID, Tier: tier, Seed: seed, Level: "other", Coverage: cov,
		Assumptions: def.Assumptions, WallS: wall, Violations: len(viol)}
	evDir := filepath.Join(verifDir, "evidence")
	os.MkdirAll(evDir, 0o755)
	b, _ := json.MarshalIndent(ev, "", " ")
	if err := os.WriteFile(filepath.Join(evDir, def.ID+".json"), append(b, '\n'), 0o644); err != nil {
		fmt.Fprintln(os.Stderr, "carlint: writing evidence:", err)
		return 2
	}
	vpath := filepath.Join(evDir, def.ID+".violations.txt")
	os.Remove(vpath)
	for _, o := range kn {
		fmt.Printf("KNOWN-FINDING: property=%s rule=%s construct=%s %s: %s\n", def.ID, o.Rule, o.Key, o.Pos, o.Detail)
	}
	if len(rep.Infra) > 0 {
		for _, s := range rep.Infra {
			fmt.Fprintln(os.Stderr, "carlint: infrastructure failure:", s)
		}
		return 2
	}
	if len(viol) > 0 {
		var sb strings.Builder
		for _, o := range viol {
			fmt.Fprintf(&sb, "%s %s rule=%s construct=%s %s: %s\n", def.ID, strings.ToUpper(o.Verdict), o.Rule, o.Key, o.Pos, o.Detail)
		}
		os.WriteFile(vpath, []byte(sb.String()), 0o644)
		fmt.Print(sb.String())
		fmt.Printf("VIOLATION property=%s replay=%s\n", def.ID, vpath)
		return 1
	}
	fmt.Printf("OK property=%s tier=%s obligations=%d discharged=%d known=%d wall=%.1fs\n", def.ID, tier, len(rep.Obs), discharged, len(kn), wall)
	return 0
}

// fullExplanation: the property's prose, followed by the rules it does not mention by name (the later
// rounds added many; each is described under coverage.rules).
func fullExplanation(def PropertyDef) string {
	var more []string
	for _, rd := range def.Rules {
		if !strings.Contains(def.Explanation, rd.ID) {
			more = append(more, rd.ID)
		}
	}
	if len(more) == 0 {
		return def.Explanation
	}
	return def.Explanation + " Further necessary conditions decided, each stated under coverage.rules: " + strings.Join(more, ", ") + "."
}
