package main

import (
	"go/constant"
	"go/token"
	"go/types"
	"strings"

	"golang.org/x/tools/go/ssa"
)

// ---- callee identity ---------------------------------------------------------

// calleeFunc returns the *types.Func a call resolves to: the static callee, or
// the interface method for an invoke. nil for calls of function values and
// builtins.
func calleeFunc(cc *ssa.CallCommon) *types.Func {
	if cc.IsInvoke() {
		return cc.Method
	}
	if sc := cc.StaticCallee(); sc != nil {
		if f, ok := sc.Object().(*types.Func); ok {
			return f
		}
		// instantiated generic / wrapper: fall back to origin
		if sc.Origin() != nil {
			if f, ok := sc.Origin().Object().(*types.Func); ok {
				return f
			}
		}
	}
	return nil
}

// recvTypeName returns the bare name of the receiver's named type ("" if none),
// and the package path where that type is declared.
func recvTypeName(f *types.Func) (pkg, name string) {
	sig, ok := f.Type().(*types.Signature)
	if !ok || sig.Recv() == nil {
		return "", ""
	}
	t := sig.Recv().Type()
	if p, ok := t.(*types.Pointer); ok {
		t = p.Elem()
	}
	switch n := t.(type) {
	case *types.Named:
		if n.Obj().Pkg() != nil {
			return n.Obj().Pkg().Path(), n.Obj().Name()
		}
		return "", n.Obj().Name()
	case *types.Alias:
		if n.Obj().Pkg() != nil {
			return n.Obj().Pkg().Path(), n.Obj().Name()
		}
	}
	return "", ""
}

// funcIs reports whether f is pkg.[recv.]name. For interface methods recv is the
// interface's type name (e.g. io, "Seeker", "Seek"); when the interface embeds
// another, the method belongs to the embedded one (its declaring type name is
// not recorded by go/types for interface methods, so recv "" matches by package
// and name only).
func funcIs(f *types.Func, pkg, recv, name string) bool {
	if f != nil && f.Pkg() != nil && len(funcRenames) > 0 {
		_, rn := recvTypeName(f)
		if o, ok := funcRenames[f.Pkg().Path()+"\t"+rn+"\t"+f.Name()]; ok {
			return o == pkg+"\t"+recv+"\t"+name || recv == "*" && strings.HasPrefix(o, pkg+"\t") && strings.HasSuffix(o, "\t"+name)
		}
	}
	if f == nil || f.Name() != name {
		return false
	}
	if f.Pkg() == nil {
		return pkg == ""
	}
	if f.Pkg().Path() != pkg {
		return false
	}
	_, rn := recvTypeName(f)
	if recv == "*" {
		return true
	}
	return rn == recv || (recv != "" && rn == curTypeName(pkg, recv))
}

func funcKey(f *types.Func) string {
	if f == nil {
		return "<dynamic>"
	}
	p := ""
	if f.Pkg() != nil {
		p = f.Pkg().Path()
	}
	_, rn := recvTypeName(f)
	name := f.Name()
	if o, ok := funcRenames[p+"\t"+rn+"\t"+name]; ok {
		if pf := strings.Split(o, "\t"); len(pf) == 3 {
			p, rn, name = pf[0], pf[1], pf[2]
		}
	}
	if rn != "" {
		return shortPkg(p) + "." + rn + "." + name
	}
	return shortPkg(p) + "." + name
}

func shortPkg(p string) string {
	switch {
	case p == modRoot:
		return "car"
	case strings.HasPrefix(p, modV2+"/"):
		return "v2/" + strings.TrimPrefix(p, modV2+"/")
	case p == modV2:
		return "v2"
	case strings.HasPrefix(p, modCmd+"/"):
		return "cmd/" + strings.TrimPrefix(p, modCmd+"/")
	case strings.HasPrefix(p, modRoot+"/"):
		return "car/" + strings.TrimPrefix(p, modRoot+"/")
	}
	if i := strings.LastIndex(p, "/"); i >= 0 {
		return p[i+1:]
	}
	return p
}

// fnKey names an ssa.Function in a way that survives line shifts.
func fnKey(fn *ssa.Function) string {
	if fn == nil {
		return "<nil>"
	}
	if fn.Parent() != nil {
		// anonymous: parent$ordinal
		idx := 0
		for i, a := range fn.Parent().AnonFuncs {
			if a == fn {
				idx = i + 1
			}
		}
		return fnKey(fn.Parent()) + "$" + itoa(idx)
	}
	if f, ok := fn.Object().(*types.Func); ok {
		return funcKey(f)
	}
	return fn.String()
}

func itoa(i int) string {
	if i == 0 {
		return "0"
	}
	neg := i < 0
	if neg {
		i = -i
	}
	var b []byte
	for i > 0 {
		b = append([]byte{byte('0' + i%10)}, b...)
		i /= 10
	}
	if neg {
		return "-" + string(b)
	}
	return string(b)
}

// ---- instruction walking -------------------------------------------------------

func eachInstr(fn *ssa.Function, f func(ssa.Instruction)) {
	for _, b := range fn.Blocks {
		for _, in := range b.Instrs {
			f(in)
		}
	}
}

// withAnon returns fn and all functions nested in it.
func withAnon(fn *ssa.Function) []*ssa.Function {
	return withAnonSeen(fn, map[*ssa.Function]bool{})
}

// withAnonSeen: fn, its closures, and — as if they were closures of fn — the functions and methods
// the pinned tree does not have that fn (or one of those) calls or hands on as a function value and
// that the normalisation pass could not splice back (a closure turned into a named function or into
// a method of a new type, a recursive helper). What they do is part of what fn does.
func withAnonSeen(fn *ssa.Function, seen map[*ssa.Function]bool) []*ssa.Function {
	if seen[fn] {
		return nil
	}
	seen[fn] = true
	out := []*ssa.Function{fn}
	for _, a := range fn.AnonFuncs {
		out = append(out, withAnonSeen(a, seen)...)
	}
	if adoptNewFuncs {
		for _, t := range newFuncsUsedBy(fn) {
			out = append(out, withAnonSeen(t, seen)...)
		}
	}
	return out
}

// adoptNewFuncs switches the adoption of unspliced new functions on. Off: the rules that need it ask
// closuresOf; switched on for every rule it moved pitfall and framing instances between functions
// on ninety of the stored refactorings.
var adoptNewFuncs = false

// newFuncsUsedBy: repository functions with a body that the pinned tree does not declare and that
// fn calls statically or mentions as a function value (a callback, a method value).
func newFuncsUsedBy(fn *ssa.Function) []*ssa.Function {
	var out []*ssa.Function
	dup := map[*ssa.Function]bool{}
	add := func(t *ssa.Function) {
		if t == nil || t == fn || dup[t] || t.Blocks == nil || t.Parent() != nil || t.Pkg == nil || !isRepoPkg(t.Pkg.Pkg.Path()) {
			return
		}
		if k := ssaDeclKey(t); k == "" || baselineFuncs[k] {
			return
		}
		dup[t] = true
		out = append(out, t)
	}
	for _, b := range fn.Blocks {
		for _, in := range b.Instrs {
			if ci, ok := in.(ssa.CallInstruction); ok {
				add(ci.Common().StaticCallee())
			}
			for _, op := range in.Operands(nil) {
				if *op == nil {
					continue
				}
				switch x := (*op).(type) {
				case *ssa.Function:
					add(x)
				case *ssa.MakeClosure:
					if f, ok := x.Fn.(*ssa.Function); ok && f.Parent() == nil && f.Synthetic == "" {
						add(f)
					} else if ok && f.Synthetic != "" {
						// the wrapper go/ssa makes for `x.method` used as a value: the method behind it
						for _, b2 := range f.Blocks {
							for _, in2 := range b2.Instrs {
								if c2, ok := in2.(ssa.CallInstruction); ok {
									add(c2.Common().StaticCallee())
								}
							}
						}
					}
				}
			}
		}
	}
	return out
}

// callsTo returns the call instructions in fn (not nested closures) whose callee
// satisfies pred, in block/instruction order.
func callsIn(fn *ssa.Function, pred func(*types.Func, *ssa.CallCommon) bool) []ssa.CallInstruction {
	var out []ssa.CallInstruction
	eachInstr(fn, func(in ssa.Instruction) {
		if ci, ok := in.(ssa.CallInstruction); ok {
			if pred(calleeFunc(ci.Common()), ci.Common()) {
				out = append(out, ci)
			}
		}
	})
	return out
}

func callsToFunc(fn *ssa.Function, pkg, recv, name string) []ssa.CallInstruction {
	return callsIn(fn, func(f *types.Func, _ *ssa.CallCommon) bool { return funcIs(f, pkg, recv, name) })
}

// callArgs returns the arguments of a call with the receiver (if any) first, for
// both static method calls and interface invokes.
func callArgs(cc *ssa.CallCommon) []ssa.Value {
	if cc.IsInvoke() {
		return append([]ssa.Value{cc.Value}, cc.Args...)
	}
	return cc.Args
}

// ---- value helpers ---------------------------------------------------------------

// strip removes value-preserving wrappers: ChangeType, MakeInterface,
// ChangeInterface, widening/same-size integer Convert.
func strip(v ssa.Value) ssa.Value {
	for {
		switch x := v.(type) {
		case *ssa.ChangeType:
			v = x.X
		case *ssa.MakeInterface:
			v = x.X
		case *ssa.ChangeInterface:
			v = x.X
		case *ssa.Convert:
			if isIntegral(x.Type()) && isIntegral(x.X.Type()) {
				v = x.X
			} else {
				return v
			}
		case *ssa.UnOp:
			// an immutable package-level variable initialised with a constant is that constant
			if k, ok := immutableInit(x).(*ssa.Const); ok {
				v = k
			} else {
				return v
			}
		default:
			return v
		}
	}
}

func isIntegral(t types.Type) bool {
	b, ok := t.Underlying().(*types.Basic)
	return ok && b.Info()&types.IsInteger != 0
}

func isNilConst(v ssa.Value) bool {
	c, ok := v.(*ssa.Const)
	return ok && c.Value == nil
}

func constInt(v ssa.Value) (int64, bool) {
	c, ok := strip(v).(*ssa.Const)
	if !ok || c.Value == nil {
		return 0, false
	}
	if c.Value.Kind() != constant.Int {
		return 0, false
	}
	i, ok := constant.Int64Val(c.Value)
	return i, ok
}

func constBool(v ssa.Value) (bool, bool) {
	c, ok := v.(*ssa.Const)
	if !ok || c.Value == nil || c.Value.Kind() != constant.Bool {
		return false, false
	}
	return constant.BoolVal(c.Value), true
}

// callOf returns the call that produced v: v itself if it is a Call, or the
// tuple call if v is an Extract; idx is the result index (0 for single results).
func callOf(v ssa.Value) (*ssa.Call, int) {
	switch x := strip(v).(type) {
	case *ssa.Call:
		return x, 0
	case *ssa.Extract:
		if c, ok := x.Tuple.(*ssa.Call); ok {
			return c, x.Index
		}
	}
	return nil, -1
}

// fieldOfLoad: if v is a load `*(&x.f)` or a value-struct field `x.f` returns the
// field and the base value.
func fieldOfLoad(v ssa.Value) (*types.Var, ssa.Value) {
	for i := 0; i < 3; i++ {
		src := setOnceSource(v)
		if src == nil {
			break
		}
		v = src
	}
	fv, base := fieldOfLoadRaw(v)
	// a by-value copy of a struct (the parameter of an inlined helper) reads as the struct it copies
	for i := 0; i < 3 && fv != nil; i++ {
		src := wholeCopySource(base, fv)
		if src == nil {
			break
		}
		base = src
	}
	return fv, base
}

// wholeCopySource: base is a local struct that is only ever assigned, as a whole, the value loaded
// from one other struct, and whose field f is never assigned: the address of that other struct.
func wholeCopySource(base ssa.Value, f *types.Var) ssa.Value {
	al, ok := base.(*ssa.Alloc)
	if !ok || al.Referrers() == nil {
		return nil
	}
	var src ssa.Value
	for _, ref := range *al.Referrers() {
		switch x := ref.(type) {
		case *ssa.Store:
			if x.Addr != ssa.Value(al) {
				return nil
			}
			l, ok := x.Val.(*ssa.UnOp)
			if !ok || l.Op != token.MUL {
				return nil
			}
			if src != nil && src != l.X {
				return nil
			}
			src = l.X
		case *ssa.FieldAddr:
			if fieldVar(x.X.Type(), x.Field) == f && len(storesTo(x)) > 0 {
				return nil
			}
		case *ssa.UnOp, *ssa.DebugRef:
		default:
			return nil
		}
	}
	return src
}

func fieldOfLoadRaw(v ssa.Value) (*types.Var, ssa.Value) {
	switch x := v.(type) {
	case *ssa.UnOp:
		if x.Op == token.MUL {
			if fa, ok := x.X.(*ssa.FieldAddr); ok {
				return fieldVar(fa.X.Type(), fa.Field), fa.X
			}
		}
	case *ssa.Field:
		return fieldVar(x.X.Type(), x.Field), x.X
	}
	return nil, nil
}

func fieldVar(t types.Type, idx int) *types.Var {
	if p, ok := t.Underlying().(*types.Pointer); ok {
		t = p.Elem()
	}
	st, ok := t.Underlying().(*types.Struct)
	if !ok || idx >= st.NumFields() {
		return nil
	}
	return st.Field(idx)
}

// structOf returns the named struct type a FieldAddr/Field base belongs to.
func namedOf(t types.Type) *types.Named {
	for {
		switch x := t.(type) {
		case *types.Pointer:
			t = x.Elem()
		case *types.Named:
			return x
		case *types.Alias:
			t = types.Unalias(x)
		default:
			return nil
		}
	}
}

// fieldIs reports whether fv is field `name` of named struct pkg.typ.
func fieldAddrIs(fa *ssa.FieldAddr, pkg, typ, name string) bool {
	if !typeIs(namedOf(fa.X.Type()), pkg, typ) {
		return false
	}
	fv := fieldVar(fa.X.Type(), fa.Field)
	return fv != nil && fv.Name() == name
}

// loadsField reports whether v (after strip) is a load of field pkg.typ.name.
func loadsField(v ssa.Value, pkg, typ, name string) bool {
	v = strip(v)
	for i := 0; i < 3; i++ {
		src := setOnceSource(v)
		if src == nil {
			break
		}
		v = strip(src)
	}
	switch x := v.(type) {
	case *ssa.UnOp:
		if x.Op == token.MUL {
			if fa, ok := x.X.(*ssa.FieldAddr); ok {
				return fieldAddrIs(fa, pkg, typ, name)
			}
		}
	case *ssa.Field:
		if !typeIs(namedOf(x.X.Type()), pkg, typ) {
			return false
		}
		fv := fieldVar(x.X.Type(), x.Field)
		return fv != nil && fv.Name() == name
	}
	return false
}

// ---- CFG: edge cuts ----------------------------------------------------------------

type Edge struct {
	From *ssa.BasicBlock
	Succ int // index into From.Succs
	// Via, when set, restricts the edge to paths that entered From through this
	// predecessor: the condition of From's If is a phi, and it is the value carried
	// in from Via that was recognised (condEdges). Nil = however From was entered.
	Via *ssa.BasicBlock
}

// condBlock: the block in which the condition recognised for e is computed.
func condBlock(e Edge) *ssa.BasicBlock {
	if e.Via != nil {
		return e.Via
	}
	return e.From
}

type EdgeSet map[Edge]bool

// reach computes the set of blocks reachable from `from` (entry if nil) when the
// edges in cut are removed.
func reach(fn *ssa.Function, from *ssa.BasicBlock, cut EdgeSet) map[*ssa.BasicBlock]bool {
	if from == nil {
		from = fn.Blocks[0]
	}
	return reachVia(fn, nil, from, cut)
}

// reachVia is reach with one refinement: when a block is entered from a
// predecessor for which the phi deciding the block's If is a boolean constant
// (the shape go/ssa gives to `a && b` / `a || b` used as a value), only the
// successor that constant selects is followed.
func reachVia(fn *ssa.Function, pred, from *ssa.BasicBlock, cut EdgeSet) map[*ssa.BasicBlock]bool {
	type state struct {
		b    *ssa.BasicBlock
		pred *ssa.BasicBlock
		h    mergeHist
	}
	hasViaAt := map[*ssa.BasicBlock]bool{}
	for e := range cut {
		if e.Via != nil {
			hasViaAt[e.From] = true
		}
	}
	rel := relevantMerges(fn)
	h0 := mergeHist{-1, -1, -1, -1}
	if pred != nil {
		h0 = h0.enter(rel, from, pred)
	}
	seen := map[*ssa.BasicBlock]bool{from: true}
	done := map[state]bool{}
	work := []state{{from, pred, h0}}
	for len(work) > 0 {
		st := work[len(work)-1]
		work = work[:len(work)-1]
		only := decidedSuccH(st.pred, st.b, rel, st.h)
		key := state{st.b, nil, st.h}
		if only >= 0 || hasViaAt[st.b] {
			key.pred = st.pred // the way in matters
		}
		if done[key] {
			continue
		}
		done[key] = true
		for i, s := range st.b.Succs {
			if cut[Edge{From: st.b, Succ: i}] || (st.pred != nil && cut[Edge{From: st.b, Succ: i, Via: st.pred}]) {
				continue
			}
			if only >= 0 && i != only {
				continue
			}
			seen[s] = true
			work = append(work, state{s, st.b, st.h.enter(rel, s, st.b)})
		}
	}
	return seen
}

// mergeHist remembers, for up to four merge blocks whose phis feed a later test (the result
// merges an inlined helper leaves behind, possibly nested: the inner helper's result merges into
// the outer helper's, which merges into the caller's `if err != nil`), from which predecessor
// each was entered last. A phi of such a block then stands for one definite input.
type mergeHist [4]int8

var relMergeCache = map[*ssa.Function][]*ssa.BasicBlock{}

func (h mergeHist) enter(rel []*ssa.BasicBlock, s, from *ssa.BasicBlock) mergeHist {
	for k, m := range rel {
		if m == s {
			h[k] = -1
			for i, p := range s.Preds {
				if p == from {
					h[k] = int8(i)
					break
				}
			}
		}
	}
	return h
}

// relevantMerges: blocks holding a phi that decides an If (a boolean phi, or a phi compared with
// nil), or a phi nested in such a phi's inputs. At most four, in block order.
func relevantMerges(fn *ssa.Function) []*ssa.BasicBlock {
	if r, ok := relMergeCache[fn]; ok {
		return r
	}
	set := map[*ssa.BasicBlock]bool{}
	var testBlock *ssa.BasicBlock
	var add func(v ssa.Value, d int)
	add = func(v ssa.Value, d int) {
		ph, ok := v.(*ssa.Phi)
		if !ok || d > 3 {
			return
		}
		nested := false
		for _, e := range ph.Edges {
			if _, ok := e.(*ssa.Phi); ok {
				nested = true
				add(e, d+1)
			}
		}
		// the phi of the testing block itself is resolved by the way in; nesting, and a test made
		// in a later block than the merge (`keep, err := helper(); if err != nil {..}; if keep {..}`),
		// need history
		if d > 0 || nested || ph.Block() != testBlock {
			set[ph.Block()] = true
		}
	}
	for _, b := range fn.Blocks {
		if len(b.Instrs) == 0 {
			continue
		}
		iff, ok := b.Instrs[len(b.Instrs)-1].(*ssa.If)
		if !ok {
			continue
		}
		base, _ := condNorm(iff.Cond)
		testBlock = b
		switch x := base.(type) {
		case *ssa.Phi:
			add(x, 0)
		case *ssa.BinOp:
			if x.Op == token.EQL || x.Op == token.NEQ {
				if isNilConst(x.Y) {
					add(blockLocalValue(x.X), 0)
				} else if isNilConst(x.X) {
					add(blockLocalValue(x.Y), 0)
				}
			}
		}
	}
	var out []*ssa.BasicBlock
	for _, b := range fn.Blocks {
		if set[b] && len(out) < 4 {
			out = append(out, b)
		}
	}
	relMergeCache[fn] = out
	return out
}

// decidedSucc: when block b is entered from predecessor p, is the outcome of b's
// If already decided by the value a phi of b takes on that edge? Two shapes:
// a boolean phi (what go/ssa makes of `a && b` used as a value), and a phi that is
// compared with nil (what the inlining of a helper makes of its returned error:
// `r = phi [nil, err, ...]; if r != nil`). Returns the successor index, or -1.
func decidedSucc(p, b *ssa.BasicBlock) int {
	return decidedSuccH(p, b, nil, mergeHist{-1, -1, -1, -1})
}

func decidedSuccH(p, b *ssa.BasicBlock, rel []*ssa.BasicBlock, h mergeHist) int {
	if len(b.Instrs) == 0 {
		return -1
	}
	iff, ok := b.Instrs[len(b.Instrs)-1].(*ssa.If)
	if !ok {
		return -1
	}
	base, neg := condNorm(iff.Cond)
	// a constant condition (what inlining a helper with a constant flag argument leaves behind)
	if k, ok := constBoolDeep(base, b.Parent()); ok {
		if neg {
			k = !k
		}
		if k {
			return 0
		}
		return 1
	}
	if p == nil {
		return -1
	}
	// the input a phi stands for on this path, and the block that input arrived from
	var from *ssa.BasicBlock
	var edgeOf func(phi *ssa.Phi) ssa.Value
	visiting := map[*ssa.Phi]bool{}
	edgeOf = func(phi *ssa.Phi) ssa.Value {
		if visiting[phi] {
			return nil // phis that feed each other around a loop
		}
		visiting[phi] = true
		defer delete(visiting, phi)
		var v ssa.Value
		if phi.Block() == b {
			for i, pp := range b.Preds {
				if pp == p {
					v, from = phi.Edges[i], pp
					break
				}
			}
		} else {
			for k, m := range rel {
				if m == phi.Block() && h[k] >= 0 && int(h[k]) < len(phi.Edges) {
					v, from = phi.Edges[h[k]], m.Preds[h[k]]
				}
			}
		}
		if v == nil {
			return nil
		}
		if inner, ok := v.(*ssa.Phi); ok && inner != phi {
			f0 := from
			if w := edgeOf(inner); w != nil {
				return w
			}
			from = f0
		}
		return v
	}
	outcome := func(k bool) int {
		if neg {
			k = !k
		}
		if k {
			return 0
		}
		return 1
	}
	switch x := base.(type) {
	case *ssa.Phi:
		if v := edgeOf(x); v != nil {
			if k, ok := constBool(v); ok {
				return outcome(k)
			}
		}
	case *ssa.BinOp:
		if x.Op != token.EQL && x.Op != token.NEQ {
			return -1
		}
		var phi *ssa.Phi
		if ph, ok := blockLocalValue(x.X).(*ssa.Phi); ok && isNilConst(x.Y) {
			phi = ph
		} else if ph, ok := blockLocalValue(x.Y).(*ssa.Phi); ok && isNilConst(x.X) {
			phi = ph
		}
		if phi == nil {
			return -1
		}
		v := edgeOf(phi)
		if v == nil {
			return -1
		}
		if from == nil {
			from = p
		}
		switch nilness(v, from) {
		case 1: // nil
			return outcome(x.Op == token.EQL)
		case 2: // non-nil
			return outcome(x.Op == token.NEQ)
		}
	}
	return -1
}

// blockLocalValue resolves `*cell = v; ...; t = *cell` inside one block (a named
// result that lives in a cell because a deferred closure captures it) to v.
func blockLocalValue(v ssa.Value) ssa.Value {
	u, ok := v.(*ssa.UnOp)
	if !ok || u.Op != token.MUL || u.Block() == nil {
		return v
	}
	instrs := u.Block().Instrs
	i := instrIndex(u)
	for k := i - 1; k >= 0; k-- {
		switch x := instrs[k].(type) {
		case *ssa.Store:
			if x.Addr == u.X {
				return x.Val
			}
		case ssa.CallInstruction:
			return v
		}
	}
	return v
}

// phiLive returns the inputs of phi that matter on the success path when the phi
// is one half of a result merge: a block that merges (value, error) pairs — what
// inlining a helper makes of its return statements — and tests the merged error
// before anything branches. Inputs that are a zero constant travelling together
// with a definitely non-nil error (`return 0, err`, `return nil, ErrX`) are
// dropped: the error test that ends the block sends them down the error branch. Otherwise all inputs.
func phiLive(phi *ssa.Phi) []ssa.Value {
	M := phi.Block()
	if M == nil || len(M.Instrs) == 0 {
		return phi.Edges
	}
	ephi := errorCompanion(M, 0)
	if ephi == nil || ephi == phi || ephi.Block() != M {
		return phi.Edges
	}
	var live []ssa.Value
	dropped := 0
	for i, e := range phi.Edges {
		if nilness(ephi.Edges[i], M.Preds[i]) == 2 {
			// travels with a non-nil error: the error test that follows sends it to the
			// error branch, so it is not an input of the value the success branch sees
			dropped++
			continue
		}
		live = append(live, e)
	}
	if dropped == 0 || len(live) == 0 {
		return phi.Edges
	}
	return live
}

// errorCompanion finds the error phi of merge block M: M ends with `if e != nil`
// (e a phi of M), or M only jumps on to a block whose own error companion takes a
// phi of M as its input from M (an inlined helper whose last return was itself an
// inlined call).
func errorCompanion(M *ssa.BasicBlock, depth int) *ssa.Phi {
	if depth > 3 || len(M.Instrs) == 0 {
		return nil
	}
	switch t := M.Instrs[len(M.Instrs)-1].(type) {
	case *ssa.If:
		base, _ := condNorm(t.Cond)
		bin, ok := base.(*ssa.BinOp)
		if !ok || (bin.Op != token.EQL && bin.Op != token.NEQ) {
			return nil
		}
		if p, ok := blockLocalValue(bin.X).(*ssa.Phi); ok && isNilConst(bin.Y) && p.Block() == M {
			return p
		}
		if p, ok := blockLocalValue(bin.Y).(*ssa.Phi); ok && isNilConst(bin.X) && p.Block() == M {
			return p
		}
	case *ssa.Jump:
		S := M.Succs[0]
		outer := errorCompanion(S, depth+1)
		if outer == nil {
			return nil
		}
		for i, p := range S.Preds {
			if p == M {
				if inner, ok := outer.Edges[i].(*ssa.Phi); ok && inner.Block() == M {
					return inner
				}
			}
		}
	}
	return nil
}

func isZeroConst(c *ssa.Const) bool {
	if c.Value == nil {
		return true // nil, or the zero value of an aggregate
	}
	switch c.Value.Kind() {
	case constant.Bool:
		return !constant.BoolVal(c.Value)
	case constant.String:
		return constant.StringVal(c.Value) == ""
	case constant.Int, constant.Float, constant.Complex:
		return constant.Sign(c.Value) == 0
	}
	return false
}

// nilness of v when control is in block at: 1 = nil, 2 = non-nil, 0 = unknown.
func nilness(v ssa.Value, at *ssa.BasicBlock) int { return nilnessD(v, at, 0) }

func nilnessD(v ssa.Value, at *ssa.BasicBlock, depth int) int {
	// a merge all of whose inputs are known the same way (an error variable that is mapped on
	// one branch: `if err == io.EOF { err = io.ErrUnexpectedEOF }`)
	if ph, ok := v.(*ssa.Phi); ok && depth < 3 && len(ph.Edges) > 0 {
		all := 0
		for i, e := range ph.Edges {
			k := nilnessD(e, ph.Block().Preds[i], depth+1)
			if k == 0 || (all != 0 && k != all) {
				all = 0
				break
			}
			all = k
		}
		if all != 0 {
			return all
		}
	}
	switch x := v.(type) {
	case *ssa.Const:
		if x.IsNil() {
			return 1
		}
	case *ssa.MakeInterface, *ssa.Alloc, *ssa.MakeSlice, *ssa.MakeMap, *ssa.MakeChan, *ssa.MakeClosure, *ssa.Function:
		return 2
	case *ssa.Call:
		if f := calleeFunc(x.Common()); f != nil && (funcIs(f, "errors", "", "New") || funcIs(f, "fmt", "", "Errorf")) {
			return 2
		}
	case *ssa.UnOp:
		// package-level error sentinels (io.EOF, ErrNotFound, ...) are never nil
		if g, ok := x.X.(*ssa.Global); ok && x.Op == token.MUL && types.Identical(x.Type(), types.Universe.Lookup("error").Type()) && (strings.HasPrefix(g.Name(), "Err") || strings.HasPrefix(g.Name(), "err")) || ok && g.Name() == "EOF" {
			return 2
		}
	}
	// a dominating test of the same value
	fn := at.Parent()
	for _, q := range fn.Blocks {
		if len(q.Instrs) == 0 {
			continue
		}
		iff, ok := q.Instrs[len(q.Instrs)-1].(*ssa.If)
		if !ok {
			continue
		}
		base, neg := condNorm(iff.Cond)
		b, ok := base.(*ssa.BinOp)
		if !ok || (b.Op != token.EQL && b.Op != token.NEQ) {
			continue
		}
		var other ssa.Value
		if b.X == v && isNilConst(b.Y) {
			other = b.Y
		} else if b.Y == v && isNilConst(b.X) {
			other = b.X
		}
		if other == nil {
			continue
		}
		for i, sc := range q.Succs {
			// the edge q->sc must be the only way into sc for the fact to hold in sc's dominated region
			if len(sc.Preds) != 1 || !(sc == at || sc.Dominates(at)) {
				continue
			}
			isEq := b.Op == token.EQL
			if neg {
				isEq = !isEq
			}
			taken := i == 0 // true branch
			if isEq == taken {
				return 1
			}
			return 2
		}
	}
	return 0
}

// reachFromEdge: blocks reachable starting from taking edge e.
func reachFromEdge(fn *ssa.Function, e Edge, cut EdgeSet) map[*ssa.BasicBlock]bool {
	return reachVia(fn, e.From, e.From.Succs[e.Succ], cut)
}

// condNorm strips boolean negations; returns base condition and whether it was
// negated an odd number of times.
func condNorm(v ssa.Value) (ssa.Value, bool) {
	neg := false
	for {
		u, ok := v.(*ssa.UnOp)
		if !ok || u.Op != token.NOT {
			return v, neg
		}
		v = u.X
		neg = !neg
	}
}

// CondMatch: given the (negation-stripped) condition of an If, says whether it
// matches, and if so which outcome of the base condition (true/false) is the
// one of interest.
type CondMatch func(base ssa.Value) (ok bool, outcome bool)

// condEdges returns, for every If in fn whose condition matches m, the edge taken
// when the base condition has the outcome reported by m.
func condEdges(fn *ssa.Function, m CondMatch) []Edge {
	var out []Edge
	for _, b := range fn.Blocks {
		if len(b.Instrs) == 0 {
			continue
		}
		iff, ok := b.Instrs[len(b.Instrs)-1].(*ssa.If)
		if !ok {
			continue
		}
		base, neg := condNorm(iff.Cond)
		if phi, isPhi := base.(*ssa.Phi); isPhi && phi.Block() == b {
			// The condition is a value merged from several predecessors: the value
			// form of && / || (constant inputs, decided path-sensitively by reachVia),
			// or the result of an inlined predicate helper. Every non-constant input
			// that matches yields an edge qualified by the predecessor it comes from.
			for i, ev := range phi.Edges {
				if _, isConst := constBool(ev); isConst {
					continue
				}
				b2, neg2 := condNorm(ev)
				ok, outcome := m(b2)
				if !ok {
					continue
				}
				// phi true <=> ev true <=> b2 == !neg2
				phiVal := outcome == !neg2
				if neg {
					phiVal = !phiVal
				}
				succ := 1
				if phiVal {
					succ = 0
				}
				out = append(out, Edge{From: b, Succ: succ, Via: b.Preds[i]})
			}
			continue
		}
		ok, outcome := m(base)
		if !ok {
			continue
		}
		// If's Succs[0] is taken when Cond is true.
		condVal := outcome
		if neg {
			condVal = !outcome
		}
		if condVal {
			out = append(out, Edge{From: b, Succ: 0})
		} else {
			out = append(out, Edge{From: b, Succ: 1})
		}
	}
	return out
}

func edgeSet(es ...[]Edge) EdgeSet {
	s := EdgeSet{}
	for _, l := range es {
		for _, e := range l {
			s[e] = true
		}
	}
	return s
}

// opposite returns the other outcome edge of the same If.
func opposite(e Edge) Edge { return Edge{From: e.From, Succ: 1 - e.Succ, Via: e.Via} }

// ---- common condition recognisers ---------------------------------------------------

// matchCall: condition is (the bool result of) a call to pkg.recv.name; outcome
// is the call's result value wanted.
func matchCallCond(pkg, recv, name string, want bool, extra func(*ssa.Call) bool) CondMatch {
	return func(base ssa.Value) (bool, bool) {
		call, _ := callOf(base)
		if call == nil {
			return false, false
		}
		if !funcIs(calleeFunc(call.Common()), pkg, recv, name) {
			return false, false
		}
		if extra != nil && !extra(call) {
			return false, false
		}
		return true, want
	}
}

// matchFieldLoad: condition is a load of bool field pkg.typ.name; outcome wanted.
func matchFieldCond(pkg, typ, name string, want bool) CondMatch {
	return func(base ssa.Value) (bool, bool) {
		if loadsField(base, pkg, typ, name) {
			return true, want
		}
		return false, false
	}
}

// errNilCond matches `err != nil` / `err == nil` where err satisfies isErr; the
// outcome of interest is "err is nil" when wantNil, else "err is non-nil".
func errNilCond(isErr func(ssa.Value) bool, wantNil bool) CondMatch {
	return func(base ssa.Value) (bool, bool) {
		b, ok := base.(*ssa.BinOp)
		if !ok || (b.Op != token.NEQ && b.Op != token.EQL) {
			return false, false
		}
		var e ssa.Value
		switch {
		case isNilConst(b.Y):
			e = b.X
		case isNilConst(b.X):
			e = b.Y
		default:
			return false, false
		}
		if !isErr(e) {
			return false, false
		}
		// b true means (NEQ: non-nil) (EQL: nil)
		if b.Op == token.NEQ {
			return true, !wantNil
		}
		return true, wantNil
	}
}

// errOfCall returns a predicate: the value is the error result of the given call
// (possibly through phi/alloc cells: direct Extract or the call value itself).
func errOfCall(call ssa.CallInstruction) func(ssa.Value) bool {
	cv := call.Value()
	return func(v ssa.Value) bool {
		return valueDerivesFromCall(v, cv, map[ssa.Value]bool{})
	}
}

func valueDerivesFromCall(v ssa.Value, cv *ssa.Call, seen map[ssa.Value]bool) bool {
	if v == nil || cv == nil || seen[v] {
		return false
	}
	seen[v] = true
	switch x := v.(type) {
	case *ssa.Call:
		return x == cv
	case *ssa.Extract:
		return x.Tuple == ssa.Value(cv)
	case *ssa.Phi:
		for _, e := range x.Edges {
			if valueDerivesFromCall(e, cv, seen) {
				return true
			}
		}
	case *ssa.UnOp:
		if x.Op == token.MUL {
			// load from a cell: any store of a deriving value
			for _, st := range storesTo(x.X) {
				if valueDerivesFromCall(st.Val, cv, seen) {
					return true
				}
			}
		}
	case *ssa.ChangeInterface:
		return valueDerivesFromCall(x.X, cv, seen)
	case *ssa.MakeInterface:
		return valueDerivesFromCall(x.X, cv, seen)
	}
	return false
}

// storesTo returns all Store instructions whose address is addr (same SSA value)
// in the function defining addr and in its nested closures when addr is captured.
func storesTo(addr ssa.Value) []*ssa.Store {
	var out []*ssa.Store
	refs := addr.Referrers()
	if refs == nil {
		return nil
	}
	for _, r := range *refs {
		if st, ok := r.(*ssa.Store); ok && st.Addr == addr {
			out = append(out, st)
		}
		// captured by closure: look at free var stores in the closure
		if mc, ok := r.(*ssa.MakeClosure); ok {
			fn := mc.Fn.(*ssa.Function)
			for i, b := range mc.Bindings {
				if b == addr && i < len(fn.FreeVars) {
					out = append(out, storesTo(fn.FreeVars[i])...)
				}
			}
		}
	}
	return out
}

// returnsOf lists the Return instructions of fn.
func returnsOf(fn *ssa.Function) []*ssa.Return {
	var out []*ssa.Return
	for _, b := range fn.Blocks {
		if len(b.Instrs) == 0 {
			continue
		}
		if r, ok := b.Instrs[len(b.Instrs)-1].(*ssa.Return); ok {
			out = append(out, r)
		}
	}
	return out
}

// blockOf returns the block of an instruction.
func blockOf(in ssa.Instruction) *ssa.BasicBlock { return in.Block() }

// instrIndex returns the index of in within its block.
func instrIndex(in ssa.Instruction) int {
	for i, x := range in.Block().Instrs {
		if x == in {
			return i
		}
	}
	return -1
}

// resultIsNil reports whether the i-th result of ret is definitely the nil
// constant (or zero value constant) on this return.
func resultIsNilConst(ret *ssa.Return, i int) bool {
	if i >= len(ret.Results) {
		return false
	}
	return isNilConst(retResult(ret, i))
}

// retResult resolves the spill go/ssa uses for results of functions with defers
// (`*cell = v; rundefers; t = *cell; return t`): it returns v for such a return,
// and the plain result otherwise.
func retResult(ret *ssa.Return, i int) ssa.Value {
	v := ret.Results[i]
	u, ok := v.(*ssa.UnOp)
	if !ok || u.Op != token.MUL {
		return v
	}
	al, ok := u.X.(*ssa.Alloc)
	if !ok || u.Block() != ret.Block() {
		return v
	}
	instrs := ret.Block().Instrs
	for k := len(instrs) - 1; k >= 0; k-- {
		if st, ok := instrs[k].(*ssa.Store); ok && st.Addr == ssa.Value(al) {
			if l, isLoad := st.Val.(*ssa.UnOp); isLoad && l.Op == token.MUL && l.X == ssa.Value(al) {
				continue
			}
			return st.Val
		}
	}
	return v
}

// staticTarget is StaticCallee that looks through the synthetic wrapper of a bound method value
// (`fn := b.m; fn()` or `helper(b.m)` after the helper was inlined): it returns the method itself.
func staticTarget(cc *ssa.CallCommon) *ssa.Function {
	sc := cc.StaticCallee()
	if sc == nil || sc.Synthetic == "" || sc.Blocks == nil || !strings.Contains(sc.Synthetic, "bound method") {
		return sc
	}
	var out *ssa.Function
	n := 0
	eachInstr(sc, func(in ssa.Instruction) {
		if c2, ok := in.(ssa.CallInstruction); ok {
			if t := c2.Common().StaticCallee(); t != nil {
				out = t
				n++
			}
		}
	})
	if n == 1 {
		return out
	}
	return sc
}

// constBoolDeep: v is a boolean constant, or a load of a local cell that holds one constant for
// its whole life — also when the cell was captured by the closure g the load sits in (the flag
// argument of an inlined helper that returns a closure).
func constBoolDeep(v ssa.Value, g *ssa.Function) (bool, bool) {
	if k, ok := constBool(v); ok {
		return k, true
	}
	u, ok := v.(*ssa.UnOp)
	if !ok || u.Op != token.MUL {
		return false, false
	}
	var cell *ssa.Alloc
	switch x := u.X.(type) {
	case *ssa.Alloc:
		cell = x
	case *ssa.FreeVar:
		if g == nil {
			return false, false
		}
		// the closure itself must not write the variable
		if len(storesTo(x)) > 0 {
			return false, false
		}
		for i, f := range g.FreeVars {
			if f == x {
				if mc := makeClosureOf(g); mc != nil && i < len(mc.Bindings) {
					cell, _ = mc.Bindings[i].(*ssa.Alloc)
				}
			}
		}
	}
	if cell == nil || cell.Referrers() == nil {
		return false, false
	}
	// every referrer is a load, a capture, or the one store of a constant
	var st *ssa.Store
	for _, ref := range *cell.Referrers() {
		switch y := ref.(type) {
		case *ssa.Store:
			if y.Addr != ssa.Value(cell) || st != nil {
				return false, false
			}
			st = y
		case *ssa.UnOp, *ssa.DebugRef:
		case *ssa.MakeClosure:
			// captured: the closure must not store to it either
			fn, _ := y.Fn.(*ssa.Function)
			for i, bnd := range y.Bindings {
				if bnd == ssa.Value(cell) && fn != nil && i < len(fn.FreeVars) && len(storesTo(fn.FreeVars[i])) > 0 {
					return false, false
				}
			}
		default:
			return false, false
		}
	}
	if st == nil {
		return false, false
	}
	return constBool(st.Val)
}

// closuresOf: the function literals of fn; when it has none, the functions and methods the pinned
// tree does not have that fn starts, calls or hands on instead (a closure written as a named function
// or as a method of a small new type).
func closuresOf(fn *ssa.Function) []*ssa.Function {
	if fn == nil {
		return nil
	}
	if len(fn.AnonFuncs) > 0 {
		return fn.AnonFuncs
	}
	return newFuncsUsedBy(fn)
}
