package main

import (
	"go/constant"
	"go/token"
	"go/types"
	"strings"

	"golang.org/x/tools/go/ssa"
)

// ---- callee identity ---------------------------------------------------------

// calleeFunc returns the *types.Func a call resolves to: the static callee, or
// the interface method for an invoke. nil for calls of function values and
// builtins.
func calleeFunc(cc *ssa.CallCommon) *types.Func {
	if cc.IsInvoke() {
		return cc.Method
	}
	if sc := cc.StaticCallee(); sc != nil {
		if f, ok := sc.Object().(*types.Func); ok {
			return f
		}
		// instantiated generic / wrapper: fall back to origin
		if sc.Origin() != nil {
			if f, ok := sc.Origin().Object().(*types.Func); ok {
				return f
			}
		}
	}
	return nil
}

// recvTypeName returns the bare name of the receiver's named type ("" if none),
// and the package path where that type is declared.
func recvTypeName(f *types.Func) (pkg, name string) {
	sig, ok := f.Type().(*types.Signature)
	if !ok || sig.Recv() == nil {
		return "", ""
	}
	t := sig.Recv().Type()
	if p, ok := t.(*types.Pointer); ok {
		t = p.Elem()
	}
	switch n := t.(type) {
	case *types.Named:
		if n.Obj().Pkg() != nil {
			return n.Obj().Pkg().Path(), n.Obj().Name()
		}
		return "", n.Obj().Name()
	case *types.Alias:
		if n.Obj().Pkg() != nil {
			return n.Obj().Pkg().Path(), n.Obj().Name()
		}
	}
	return "", ""
}

// funcIs reports whether f is pkg.[recv.]name. For interface methods recv is the
// interface's type name (e.g. io, "Seeker", "Seek"); when the interface embeds
// another, the method belongs to the embedded one (its declaring type name is
// not recorded by go/types for interface methods, so recv "" matches by package
// and name only).
func funcIs(f *types.Func, pkg, recv, name string) bool {
	if f == nil || f.Name() != name {
		return false
	}
	if f.Pkg() == nil {
		return pkg == ""
	}
	if f.Pkg().Path() != pkg {
		return false
	}
	_, rn := recvTypeName(f)
	if recv == "*" {
		return true
	}
	return rn == recv
}

func funcKey(f *types.Func) string {
	if f == nil {
		return "<dynamic>"
	}
	p := ""
	if f.Pkg() != nil {
		p = f.Pkg().Path()
	}
	_, rn := recvTypeName(f)
	if rn != "" {
		return shortPkg(p) + "." + rn + "." + f.Name()
	}
	return shortPkg(p) + "." + f.Name()
}

func shortPkg(p string) string {
	switch {
	case p == modRoot:
		return "car"
	case strings.HasPrefix(p, modV2+"/"):
		return "v2/" + strings.TrimPrefix(p, modV2+"/")
	case p == modV2:
		return "v2"
	case strings.HasPrefix(p, modCmd+"/"):
		return "cmd/" + strings.TrimPrefix(p, modCmd+"/")
	case strings.HasPrefix(p, modRoot+"/"):
		return "car/" + strings.TrimPrefix(p, modRoot+"/")
	}
	if i := strings.LastIndex(p, "/"); i >= 0 {
		return p[i+1:]
	}
	return p
}

// fnKey names an ssa.Function in a way that survives line shifts.
func fnKey(fn *ssa.Function) string {
	if fn == nil {
		return "<nil>"
	}
	if fn.Parent() != nil {
		// anonymous: parent$ordinal
		idx := 0
		for i, a := range fn.Parent().AnonFuncs {
			if a == fn {
				idx = i + 1
			}
		}
		return fnKey(fn.Parent()) + "$" + itoa(idx)
	}
	if f, ok := fn.Object().(*types.Func); ok {
		return funcKey(f)
	}
	return fn.String()
}

func itoa(i int) string {
	if i == 0 {
		return "0"
	}
	neg := i < 0
	if neg {
		i = -i
	}
	var b []byte
	for i > 0 {
		b = append([]byte{byte('0' + i%10)}, b...)
		i /= 10
	}
	if neg {
		return "-" + string(b)
	}
	return string(b)
}

// ---- instruction walking -------------------------------------------------------

func eachInstr(fn *ssa.Function, f func(ssa.Instruction)) {
	for _, b := range fn.Blocks {
		for _, in := range b.Instrs {
			f(in)
		}
	}
}

// withAnon returns fn and all functions nested in it.
func withAnon(fn *ssa.Function) []*ssa.Function {
	out := []*ssa.Function{fn}
	for _, a := range fn.AnonFuncs {
		out = append(out, withAnon(a)...)
	}
	return out
}

// callsTo returns the call instructions in fn (not nested closures) whose callee
// satisfies pred, in block/instruction order.
func callsIn(fn *ssa.Function, pred func(*types.Func, *ssa.CallCommon) bool) []ssa.CallInstruction {
	var out []ssa.CallInstruction
	eachInstr(fn, func(in ssa.Instruction) {
		if ci, ok := in.(ssa.CallInstruction); ok {
			if pred(calleeFunc(ci.Common()), ci.Common()) {
				out = append(out, ci)
			}
		}
	})
	return out
}

func callsToFunc(fn *ssa.Function, pkg, recv, name string) []ssa.CallInstruction {
	return callsIn(fn, func(f *types.Func, _ *ssa.CallCommon) bool { return funcIs(f, pkg, recv, name) })
}

// callArgs returns the arguments of a call with the receiver (if any) first, for
// both static method calls and interface invokes.
func callArgs(cc *ssa.CallCommon) []ssa.Value {
	if cc.IsInvoke() {
		return append([]ssa.Value{cc.Value}, cc.Args...)
	}
	return cc.Args
}

// ---- value helpers ---------------------------------------------------------------

// strip removes value-preserving wrappers: ChangeType, MakeInterface,
// ChangeInterface, widening/same-size integer Convert.
func strip(v ssa.Value) ssa.Value {
	for {
		switch x := v.(type) {
		case *ssa.ChangeType:
			v = x.X
		case *ssa.MakeInterface:
			v = x.X
		case *ssa.ChangeInterface:
			v = x.X
		case *ssa.Convert:
			if isIntegral(x.Type()) && isIntegral(x.X.Type()) {
				v = x.X
			} else {
				return v
			}
		default:
			return v
		}
	}
}

func isIntegral(t types.Type) bool {
	b, ok := t.Underlying().(*types.Basic)
	return ok && b.Info()&types.IsInteger != 0
}

func isNilConst(v ssa.Value) bool {
	c, ok := v.(*ssa.Const)
	return ok && c.Value == nil
}

func constInt(v ssa.Value) (int64, bool) {
	c, ok := strip(v).(*ssa.Const)
	if !ok || c.Value == nil {
		return 0, false
	}
	if c.Value.Kind() != constant.Int {
		return 0, false
	}
	i, ok := constant.Int64Val(c.Value)
	return i, ok
}

func constBool(v ssa.Value) (bool, bool) {
	c, ok := v.(*ssa.Const)
	if !ok || c.Value == nil || c.Value.Kind() != constant.Bool {
		return false, false
	}
	return constant.BoolVal(c.Value), true
}

// callOf returns the call that produced v: v itself if it is a Call, or the
// tuple call if v is an Extract; idx is the result index (0 for single results).
func callOf(v ssa.Value) (*ssa.Call, int) {
	switch x := strip(v).(type) {
	case *ssa.Call:
		return x, 0
	case *ssa.Extract:
		if c, ok := x.Tuple.(*ssa.Call); ok {
			return c, x.Index
		}
	}
	return nil, -1
}

// fieldOfLoad: if v is a load `*(&x.f)` or a value-struct field `x.f` returns the
// field and the base value.
func fieldOfLoad(v ssa.Value) (*types.Var, ssa.Value) {
	switch x := v.(type) {
	case *ssa.UnOp:
		if x.Op == token.MUL {
			if fa, ok := x.X.(*ssa.FieldAddr); ok {
				return fieldVar(fa.X.Type(), fa.Field), fa.X
			}
		}
	case *ssa.Field:
		return fieldVar(x.X.Type(), x.Field), x.X
	}
	return nil, nil
}

func fieldVar(t types.Type, idx int) *types.Var {
	if p, ok := t.Underlying().(*types.Pointer); ok {
		t = p.Elem()
	}
	st, ok := t.Underlying().(*types.Struct)
	if !ok || idx >= st.NumFields() {
		return nil
	}
	return st.Field(idx)
}

// structOf returns the named struct type a FieldAddr/Field base belongs to.
func namedOf(t types.Type) *types.Named {
	for {
		switch x := t.(type) {
		case *types.Pointer:
			t = x.Elem()
		case *types.Named:
			return x
		case *types.Alias:
			t = types.Unalias(x)
		default:
			return nil
		}
	}
}

// fieldIs reports whether fv is field `name` of named struct pkg.typ.
func fieldAddrIs(fa *ssa.FieldAddr, pkg, typ, name string) bool {
	n := namedOf(fa.X.Type())
	if n == nil || n.Obj().Pkg() == nil || n.Obj().Pkg().Path() != pkg || n.Obj().Name() != typ {
		return false
	}
	fv := fieldVar(fa.X.Type(), fa.Field)
	return fv != nil && fv.Name() == name
}

// loadsField reports whether v (after strip) is a load of field pkg.typ.name.
func loadsField(v ssa.Value, pkg, typ, name string) bool {
	v = strip(v)
	switch x := v.(type) {
	case *ssa.UnOp:
		if x.Op == token.MUL {
			if fa, ok := x.X.(*ssa.FieldAddr); ok {
				return fieldAddrIs(fa, pkg, typ, name)
			}
		}
	case *ssa.Field:
		n := namedOf(x.X.Type())
		if n == nil || n.Obj().Pkg() == nil || n.Obj().Pkg().Path() != pkg || n.Obj().Name() != typ {
			return false
		}
		fv := fieldVar(x.X.Type(), x.Field)
		return fv != nil && fv.Name() == name
	}
	return false
}

// ---- CFG: edge cuts ----------------------------------------------------------------

type Edge struct {
	From *ssa.BasicBlock
	Succ int // index into From.Succs
}

type EdgeSet map[Edge]bool

// reach computes the set of blocks reachable from `from` (entry if nil) when the
// edges in cut are removed.
func reach(fn *ssa.Function, from *ssa.BasicBlock, cut EdgeSet) map[*ssa.BasicBlock]bool {
	if from == nil {
		from = fn.Blocks[0]
	}
	return reachVia(fn, nil, from, cut)
}

// reachVia is reach with one refinement: when a block is entered from a
// predecessor for which the phi deciding the block's If is a boolean constant
// (the shape go/ssa gives to `a && b` / `a || b` used as a value), only the
// successor that constant selects is followed.
func reachVia(fn *ssa.Function, pred, from *ssa.BasicBlock, cut EdgeSet) map[*ssa.BasicBlock]bool {
	type state struct {
		b    *ssa.BasicBlock
		only int // -1: all successors, 0/1: only that successor
	}
	seen := map[*ssa.BasicBlock]bool{from: true}
	done := map[state]bool{}
	only := func(p, b *ssa.BasicBlock) int {
		if p == nil || len(b.Instrs) == 0 {
			return -1
		}
		iff, ok := b.Instrs[len(b.Instrs)-1].(*ssa.If)
		if !ok {
			return -1
		}
		base, neg := condNorm(iff.Cond)
		phi, ok := base.(*ssa.Phi)
		if !ok || phi.Block() != b {
			return -1
		}
		for i, pp := range b.Preds {
			if pp == p {
				if k, ok := constBool(phi.Edges[i]); ok {
					if neg {
						k = !k
					}
					if k {
						return 0
					}
					return 1
				}
			}
		}
		return -1
	}
	work := []state{{from, only(pred, from)}}
	for len(work) > 0 {
		st := work[len(work)-1]
		work = work[:len(work)-1]
		if done[st] || done[state{st.b, -1}] {
			continue
		}
		done[st] = true
		for i, s := range st.b.Succs {
			if cut[Edge{st.b, i}] {
				continue
			}
			if st.only >= 0 && i != st.only {
				continue
			}
			seen[s] = true
			work = append(work, state{s, only(st.b, s)})
		}
	}
	return seen
}

// reachFromEdge: blocks reachable starting from taking edge e.
func reachFromEdge(fn *ssa.Function, e Edge, cut EdgeSet) map[*ssa.BasicBlock]bool {
	return reachVia(fn, e.From, e.From.Succs[e.Succ], cut)
}

// condNorm strips boolean negations; returns base condition and whether it was
// negated an odd number of times.
func condNorm(v ssa.Value) (ssa.Value, bool) {
	neg := false
	for {
		u, ok := v.(*ssa.UnOp)
		if !ok || u.Op != token.NOT {
			return v, neg
		}
		v = u.X
		neg = !neg
	}
}

// CondMatch: given the (negation-stripped) condition of an If, says whether it
// matches, and if so which outcome of the base condition (true/false) is the
// one of interest.
type CondMatch func(base ssa.Value) (ok bool, outcome bool)

// condEdges returns, for every If in fn whose condition matches m, the edge taken
// when the base condition has the outcome reported by m.
func condEdges(fn *ssa.Function, m CondMatch) []Edge {
	var out []Edge
	for _, b := range fn.Blocks {
		if len(b.Instrs) == 0 {
			continue
		}
		iff, ok := b.Instrs[len(b.Instrs)-1].(*ssa.If)
		if !ok {
			continue
		}
		base, neg := condNorm(iff.Cond)
		if phi, isPhi := base.(*ssa.Phi); isPhi {
			// value form of && (all other inputs false) / || (all other inputs true)
			var v ssa.Value
			nTrue, nFalse, nOther := 0, 0, 0
			for _, e := range phi.Edges {
				if k, ok := constBool(e); ok {
					if k {
						nTrue++
					} else {
						nFalse++
					}
				} else {
					nOther++
					v = e
				}
			}
			if nOther == 1 && (nTrue == 0 || nFalse == 0) && nTrue+nFalse > 0 {
				b2, neg2 := condNorm(v)
				ok, outcome := m(b2)
				if !ok {
					continue
				}
				if nTrue == 0 {
					// phi true  =>  v true  =>  b2 == !neg2
					if outcome == !neg2 {
						if !neg {
							out = append(out, Edge{b, 0})
						} else {
							out = append(out, Edge{b, 1})
						}
					}
				} else {
					// phi false  =>  v false  =>  b2 == neg2
					if outcome == neg2 {
						if !neg {
							out = append(out, Edge{b, 1})
						} else {
							out = append(out, Edge{b, 0})
						}
					}
				}
				continue
			}
		}
		ok, outcome := m(base)
		if !ok {
			continue
		}
		// If's Succs[0] is taken when Cond is true.
		condVal := outcome
		if neg {
			condVal = !outcome
		}
		if condVal {
			out = append(out, Edge{b, 0})
		} else {
			out = append(out, Edge{b, 1})
		}
	}
	return out
}

func edgeSet(es ...[]Edge) EdgeSet {
	s := EdgeSet{}
	for _, l := range es {
		for _, e := range l {
			s[e] = true
		}
	}
	return s
}

// opposite returns the other outcome edge of the same If.
func opposite(e Edge) Edge { return Edge{e.From, 1 - e.Succ} }

// ---- common condition recognisers ---------------------------------------------------

// matchCall: condition is (the bool result of) a call to pkg.recv.name; outcome
// is the call's result value wanted.
func matchCallCond(pkg, recv, name string, want bool, extra func(*ssa.Call) bool) CondMatch {
	return func(base ssa.Value) (bool, bool) {
		call, _ := callOf(base)
		if call == nil {
			return false, false
		}
		if !funcIs(calleeFunc(call.Common()), pkg, recv, name) {
			return false, false
		}
		if extra != nil && !extra(call) {
			return false, false
		}
		return true, want
	}
}

// matchFieldLoad: condition is a load of bool field pkg.typ.name; outcome wanted.
func matchFieldCond(pkg, typ, name string, want bool) CondMatch {
	return func(base ssa.Value) (bool, bool) {
		if loadsField(base, pkg, typ, name) {
			return true, want
		}
		return false, false
	}
}

// errNilCond matches `err != nil` / `err == nil` where err satisfies isErr; the
// outcome of interest is "err is nil" when wantNil, else "err is non-nil".
func errNilCond(isErr func(ssa.Value) bool, wantNil bool) CondMatch {
	return func(base ssa.Value) (bool, bool) {
		b, ok := base.(*ssa.BinOp)
		if !ok || (b.Op != token.NEQ && b.Op != token.EQL) {
			return false, false
		}
		var e ssa.Value
		switch {
		case isNilConst(b.Y):
			e = b.X
		case isNilConst(b.X):
			e = b.Y
		default:
			return false, false
		}
		if !isErr(e) {
			return false, false
		}
		// b true means (NEQ: non-nil) (EQL: nil)
		if b.Op == token.NEQ {
			return true, !wantNil
		}
		return true, wantNil
	}
}

// errOfCall returns a predicate: the value is the error result of the given call
// (possibly through phi/alloc cells: direct Extract or the call value itself).
func errOfCall(call ssa.CallInstruction) func(ssa.Value) bool {
	cv := call.Value()
	return func(v ssa.Value) bool {
		return valueDerivesFromCall(v, cv, map[ssa.Value]bool{})
	}
}

func valueDerivesFromCall(v ssa.Value, cv *ssa.Call, seen map[ssa.Value]bool) bool {
	if v == nil || cv == nil || seen[v] {
		return false
	}
	seen[v] = true
	switch x := v.(type) {
	case *ssa.Call:
		return x == cv
	case *ssa.Extract:
		return x.Tuple == ssa.Value(cv)
	case *ssa.Phi:
		for _, e := range x.Edges {
			if valueDerivesFromCall(e, cv, seen) {
				return true
			}
		}
	case *ssa.UnOp:
		if x.Op == token.MUL {
			// load from a cell: any store of a deriving value
			for _, st := range storesTo(x.X) {
				if valueDerivesFromCall(st.Val, cv, seen) {
					return true
				}
			}
		}
	case *ssa.ChangeInterface:
		return valueDerivesFromCall(x.X, cv, seen)
	case *ssa.MakeInterface:
		return valueDerivesFromCall(x.X, cv, seen)
	}
	return false
}

// storesTo returns all Store instructions whose address is addr (same SSA value)
// in the function defining addr and in its nested closures when addr is captured.
func storesTo(addr ssa.Value) []*ssa.Store {
	var out []*ssa.Store
	refs := addr.Referrers()
	if refs == nil {
		return nil
	}
	for _, r := range *refs {
		if st, ok := r.(*ssa.Store); ok && st.Addr == addr {
			out = append(out, st)
		}
		// captured by closure: look at free var stores in the closure
		if mc, ok := r.(*ssa.MakeClosure); ok {
			fn := mc.Fn.(*ssa.Function)
			for i, b := range mc.Bindings {
				if b == addr && i < len(fn.FreeVars) {
					out = append(out, storesTo(fn.FreeVars[i])...)
				}
			}
		}
	}
	return out
}

// returnsOf lists the Return instructions of fn.
func returnsOf(fn *ssa.Function) []*ssa.Return {
	var out []*ssa.Return
	for _, b := range fn.Blocks {
		if len(b.Instrs) == 0 {
			continue
		}
		if r, ok := b.Instrs[len(b.Instrs)-1].(*ssa.Return); ok {
			out = append(out, r)
		}
	}
	return out
}

// blockOf returns the block of an instruction.
func blockOf(in ssa.Instruction) *ssa.BasicBlock { return in.Block() }

// instrIndex returns the index of in within its block.
func instrIndex(in ssa.Instruction) int {
	for i, x := range in.Block().Instrs {
		if x == in {
			return i
		}
	}
	return -1
}

// resultIsNil reports whether the i-th result of ret is definitely the nil
// constant (or zero value constant) on this return.
func resultIsNilConst(ret *ssa.Return, i int) bool {
	if i >= len(ret.Results) {
		return false
	}
	return isNilConst(ret.Results[i])
}
