package main

import (
	"fmt"
	"go/ast"
	"go/constant"
	"go/token"
	"go/types"
	"sort"
	"strings"

	"golang.org/x/tools/go/ssa"
)

func init() {
	register(PropertyDef{
		ID: "C05",
		Explanation: "Decided statically: (R05a) the header arithmetic — symbolic (affine) evaluation of NewHeader/WithDataPadding/WithIndexPadding/WithDataSize equals the table " +
			"taken from the property statement (DataOffset = 51 [+ padding], DataSize = size, IndexOffset accumulates size and both paddings), PragmaSize = len(Pragma) = 11, " +
			"HeaderSize = 40, and writer and reader of the 40-byte header agree on field order and byte ranges; (R05b) the wiring of finalisation — store.Finalize sets the data " +
			"size from its parameter, writes the index at the resulting IndexOffset, sets the fully-indexed flag from the store-identity parameter and flattens with the " +
			"codec parameter; both callers pass (writer, the header field built in the constructor, the index, Position() of the data writer, Options.StoreIdentityCIDs, " +
			"Options.IndexCodec) and the constructors build that header from NewHeader(0) with DataPadding/IndexPadding applied by the matching methods; (R05c) in CARv1 mode no " +
			"pragma is written, store.Finalize is not called and the data writer starts at 0. Order of index and header writes: R06b (listed here as R05d). NOT decided: that the " +
			"index resolves exactly the stored sections and that inspect/verify accept the bytes.",
		Assumptions: []string{"binary.LittleEndian.PutUint64/Uint64 encode/decode 8 bytes at the given slice"},
		Rules: []RuleDef{
			{ID: "R05a", Floor: 4 + 3, Doc: "header arithmetic table (affine evaluation), constants, codec field/byte-range agreement", Run: ruleR05a},
			{ID: "R05b", Floor: 1 + 2 + 2, Doc: "finalize wiring: parameters used in their roles, call-site arguments, constructor header", Run: ruleR05b},
			{ID: "R05c", Floor: 4, Doc: "CARv1 mode gates: no pragma, no Finalize, writer base 0", Run: ruleR05c},
			{ID: "R05d", Floor: 1, Doc: "header (at PragmaSize) on disk before the index goes out (= R06b)", Run: ruleR06b},
			{ID: "R05e", Floor: 2, Doc: "the index records for each section the writer position taken before its write, after the write succeeded (= R06a)", Run: ruleR06a},
			{ID: "R05g", Floor: 4, Doc: "the deferred writer creates its file truncating and builds the writer from the caller's inputs (= R20b): in CARv1 mode the file is exactly the payload", Run: ruleR20b},
			{ID: "R05f", Floor: 1, Doc: "a resumed session's index holds every section already in the file (= R12c)", Run: ruleR12c},
			{ID: "R05h", Floor: 8, Doc: "sections are framed as uvarint(len) | cid | data, each part by its own checked write (= R01b)", Run: ruleR01b},
			{ID: "R05i", Floor: 10, Doc: "no new dropped error on the way to a finalized file (= R16h)", Run: ruleR16h},
			{ID: "R05j", Floor: 8, Doc: "format constants are the specified ones: the 11-byte CARv2 pragma, PragmaSize 11, HeaderSize 40, CharacteristicsSize 16, the no-index codec 0x300000, and the default parser limits (32 MiB header, 8 MiB section, 2 KiB index CID); layout arithmetic everywhere is written in terms of them", Run: ruleR05j},
			{ID: "R05k", Floor: 1, Doc: "the CLI verifier accepts the index padding the writers produce (= R19k)", Run: ruleR19k},
			{ID: "R05l", Floor: 2, Doc: "in CARv2 mode a finalize call reports success only as the result of store.Finalize: past the WriteAsCarV1 test there is no `return nil` of its own (a finalize that is skipped leaves the zeroed header and no index that Resume left behind)", Run: ruleR05l},
			{ID: "R05m", Floor: 2 + 2 + 4, Doc: "put de-duplication decides by CID/multihash, so no block that was put is left out of the finalized file (= R04a)", Run: ruleR04a},
			{ID: "R05n", Floor: 1, Doc: "what a finalized header announces as index is one of the two real index formats (= R11o)", Run: ruleR11o},
			{ID: "R05o", Floor: 1, Doc: "a failed Finalize is reported by Close, not replaced by the outcome of closing the file (= R16l)", Run: ruleR16l},
			{ID: "R05p", Floor: 2, Doc: "the pragma is the first thing written: in ReadWrite.initWithRoots and StorageCar.init no payload-header write can precede the pragma write (the pragma goes through the caller's sequential writer)", Run: ruleR05p},
			{ID: "R05q", Floor: 1, Doc: "the fully-indexed characteristic is set from the StoreIdentityCIDs option, wherever it is set (= R10o)", Run: ruleR10o},
			{ID: "R05r", Floor: 2, Doc: "the position-tracking writers advance by what the underlying writer reported written, so DataSize and IndexOffset describe the bytes that are there (= R16d)", Run: ruleR16d},
			{ID: "R05s", Floor: 1, Doc: "the deferred writer hands every put to the underlying writer, whose de-duplication options decide (= R20f)", Run: ruleR20f},
			{ID: "R05t", Floor: 1, Doc: "the library's own inspection accepts a finalized archive of any put history, none included: no division by a block count that can be zero (= R09k)", Run: ruleR09k},
			{ID: "R05u", Floor: 1, Doc: "a resumed session appends right behind the last section (= R06c)", Run: ruleR06c},
			{ID: "R05v", Floor: 1, Doc: "a resumed session finalizes under the roots it was given: Resume's header comparison demands equal root counts (= R12s)", Run: ruleR12s},
			{ID: "R05w", Floor: 1, Doc: "no identity-CID section is written with StoreIdentityCIDs off: identity is decided by the multihash code alone (= R04w)", Run: ruleR04w},
			{ID: "R05x", Floor: 1, Doc: "the roots handed to a writer constructor are a list: a root list built locally starts from make or a literal, never from the nil slice (which the header encoder writes as CBOR null)", Run: ruleR05x},
			{ID: "R05y", Floor: 3 + 4 + 1 + 1, Doc: "what the library finalized is accepted by the library's verifying readers: the hash gate compares under the CID's own prefix, digest length included (= R02a)", Run: ruleR02a},
			{ID: "R05z", Floor: 1, Doc: "a full inspection re-hashes to the digest length the CID carries (= R02h)", Run: ruleR02h},
			{ID: "R05A", Floor: 1, Doc: "car get-dag writes its output into a fresh file: in writeCarV2 the path handed to blockstore.OpenReadWrite has been removed (os.Remove/RemoveAll) or emptied (os.Truncate/os.Create) on every way there — OpenReadWrite resumes on a file that exists, and a resumed output carries the sections of the earlier run in front of this one's", Run: ruleR05A},
		},
	})
}

// symbolic evaluation of the fields of a local struct cell in a single-path function.
// Returns final Aff per field name.
func evalHeaderFields(fn *ssa.Function) (map[string]Aff, string) {
	return evalHeaderFieldsD(fn, 0)
}

func evalHeaderFieldsD(fn *ssa.Function, depth int) (map[string]Aff, string) {
	if len(fn.Blocks) != 1 {
		return nil, "function is no longer straight-line code"
	}
	// the struct cell: the Alloc of type *Header
	var cell *ssa.Alloc
	for _, in := range fn.Blocks[0].Instrs {
		if al, ok := in.(*ssa.Alloc); ok && isNamed(al.Type(), modV2, "Header") {
			if cell == nil {
				cell = al
			}
		}
	}
	if cell == nil {
		return nil, "no local Header value"
	}
	cur := map[string]Aff{}
	loads := map[ssa.Value]Aff{}
	var env *AffEnv
	env = &AffEnv{name: func(v ssa.Value) string { return "" }}
	evalv := func(v ssa.Value) Aff {
		e2 := &AffEnv{name: func(x ssa.Value) string {
			if a, ok := loads[x]; ok && len(a.T) == 1 && a.K == 0 {
				for k, c := range a.T {
					if c == 1 {
						return k
					}
				}
			}
			return ""
		}}
		// substitute loads that are full affine forms
		return substAff(e2, v, loads)
	}
	_ = env
	initFromParam := func(p ssa.Value) {
		st, ok := p.Type().Underlying().(*types.Struct)
		if !ok {
			return
		}
		for i := 0; i < st.NumFields(); i++ {
			cur[st.Field(i).Name()] = affAtom("h." + st.Field(i).Name())
		}
	}
	snaps := map[ssa.Value]map[string]Aff{}
	for _, in := range fn.Blocks[0].Instrs {
		switch x := in.(type) {
		case *ssa.Return:
			// the function ends by delegating to a sibling on its own copy:
			// `return h.WithIndexPadding(p)`; compose the two field maps.
			if len(x.Results) != 1 || depth > 2 {
				break
			}
			call, ok := x.Results[0].(*ssa.Call)
			if !ok {
				break
			}
			callee := staticTarget(call.Common())
			if callee == nil || callee.Signature.Recv() == nil || len(call.Call.Args) != 2 || len(callee.Params) != 2 ||
				!isNamed(callee.Params[0].Type(), modV2, "Header") || !isIntegral(callee.Params[1].Type()) {
				return nil, "the result is produced by a call this rule cannot follow"
			}
			snap, ok := snaps[call.Call.Args[0]]
			if !ok {
				return nil, "the result is produced by a call on something other than the local Header value"
			}
			inner, why := evalHeaderFieldsD(callee, depth+1)
			if why != "" {
				return nil, "delegate " + callee.Name() + ": " + why
			}
			arg := evalv(call.Call.Args[1])
			out := map[string]Aff{}
			for f, a := range inner {
				res := Aff{K: a.K}
				for k, c := range a.T {
					switch {
					case strings.HasPrefix(k, "h."):
						if v, ok := snap[strings.TrimPrefix(k, "h.")]; ok {
							res = res.add(v.scale(c), 1)
						}
					case k == "param:"+callee.Params[1].Name():
						res = res.add(arg.scale(c), 1)
					default:
						res = res.add(affAtom(k).scale(c), 1)
					}
				}
				out[f] = res
			}
			return out, ""
		case *ssa.Store:
			if x.Addr == ssa.Value(cell) {
				// whole-struct store: from the receiver parameter, or a composite (zero) value
				if _, isParam := x.Val.(*ssa.Parameter); isParam {
					initFromParam(x.Val)
				}
				continue
			}
			if fa, ok := x.Addr.(*ssa.FieldAddr); ok && fa.X == ssa.Value(cell) {
				fv := fieldVar(fa.X.Type(), fa.Field)
				cur[fv.Name()] = evalv(x.Val)
			}
		case *ssa.UnOp:
			if x.Op == token.MUL && x.X == ssa.Value(cell) {
				snap := map[string]Aff{}
				for k, v := range cur {
					snap[k] = v
				}
				snaps[x] = snap
			}
			if x.Op == token.MUL {
				if fa, ok := x.X.(*ssa.FieldAddr); ok && fa.X == ssa.Value(cell) {
					fv := fieldVar(fa.X.Type(), fa.Field)
					if a, ok := cur[fv.Name()]; ok {
						loads[x] = a
					} else {
						loads[x] = Aff{} // zero value
					}
				}
			}
		}
	}
	return cur, ""
}

// substAff evaluates v with some values replaced by given affine forms.
func substAff(e *AffEnv, v ssa.Value, sub map[ssa.Value]Aff) Aff {
	if a, ok := sub[v]; ok {
		return a
	}
	switch x := v.(type) {
	case *ssa.Convert:
		if isIntegral(x.Type()) && isIntegral(x.X.Type()) {
			return substAff(e, x.X, sub)
		}
	case *ssa.BinOp:
		switch x.Op {
		case token.ADD:
			return substAff(e, x.X, sub).add(substAff(e, x.Y, sub), 1)
		case token.SUB:
			return substAff(e, x.X, sub).add(substAff(e, x.Y, sub), -1)
		}
	}
	return e.of(v)
}

func ruleR05a(c *Ctx, r *Report) {
	type want map[string]string
	cases := []struct {
		recv, name string
		want       want
	}{
		{"", "NewHeader", want{"DataOffset": "51", "DataSize": "0 +1*param:dataSize", "IndexOffset": "51 +1*param:dataSize"}},
		{"Header", "WithIndexPadding", want{"DataOffset": "0 +1*h.DataOffset", "DataSize": "0 +1*h.DataSize", "IndexOffset": "0 +1*h.IndexOffset +1*param:padding"}},
		{"Header", "WithDataPadding", want{"DataOffset": "51 +1*param:padding", "DataSize": "0 +1*h.DataSize", "IndexOffset": "0 +1*h.IndexOffset +1*param:padding"}},
		{"Header", "WithDataSize", want{"DataOffset": "0 +1*h.DataOffset", "DataSize": "0 +1*param:size", "IndexOffset": "0 +1*h.IndexOffset +1*param:size"}},
	}
	for _, cs := range cases {
		fn, err := c.Func(modV2, cs.recv, cs.name)
		if err != nil {
			r.InfraFail("%v", err)
			continue
		}
		key := "header-arith@" + fnKey(fn)
		got, why := evalHeaderFields(fn)
		if why != "" {
			r.Undec(key, c.Pos(fn.Pos()), why)
			continue
		}
		// parameter names are not part of the rule: normalise the single integer parameter's name
		pname := ""
		for _, p := range fn.Params {
			if isIntegral(p.Type()) {
				pname = p.Name()
			}
		}
		bad := ""
		var fields []string
		for f := range cs.want {
			fields = append(fields, f)
		}
		sort.Strings(fields)
		for _, f := range fields {
			w := cs.want[f]
			for _, generic := range []string{"param:dataSize", "param:padding", "param:size"} {
				w = strings.ReplaceAll(w, generic, "param:"+pname)
			}
			g, ok := got[f]
			gs := "0"
			if ok {
				gs = g.String()
			}
			if cs.name == "NewHeader" && !ok {
				gs = "0"
			}
			if gs != w {
				bad = fmt.Sprintf("%s = %s, the format requires %s", f, gs, w)
			}
		}
		r.Check(bad == "", key, c.Pos(fn.Pos()), "field values equal the table", bad)
	}
	// constants
	{
		p := c.Pkgs[modV2]
		bad := ""
		for name, want := range map[string]int64{"PragmaSize": 11, "HeaderSize": 40, "CharacteristicsSize": 16} {
			k, ok := p.Types.Scope().Lookup(name).(*types.Const)
			if !ok {
				bad = name + " is no longer a constant"
				continue
			}
			if v, ok := constant.Int64Val(k.Val()); !ok || v != want {
				bad = fmt.Sprintf("%s = %v, expected %d", name, k.Val(), want)
			}
		}
		// len(Pragma)
		n := -1
		for _, f := range p.Syntax {
			ast.Inspect(f, func(nd ast.Node) bool {
				vs, ok := nd.(*ast.ValueSpec)
				if !ok {
					return true
				}
				for i, nm := range vs.Names {
					if nm.Name == "Pragma" && i < len(vs.Values) {
						if cl, ok := vs.Values[i].(*ast.CompositeLit); ok {
							n = len(cl.Elts)
						}
					}
				}
				return true
			})
		}
		if n != 11 {
			bad = fmt.Sprintf("len(Pragma) = %d, PragmaSize must equal it (11)", n)
		}
		r.Check(bad == "", "constants@v2", "-", "PragmaSize = len(Pragma) = 11, HeaderSize = 40 = 16 + 3*8", bad)
	}
	// codec agreement
	for _, tn := range []string{"Header", "Characteristics"} {
		wf, err1 := c.Func(modV2, tn, "WriteTo")
		rf, err2 := c.Func(modV2, tn, "ReadFrom")
		if err1 != nil || err2 != nil {
			r.InfraFail("%v %v", err1, err2)
			continue
		}
		key := "codec-layout@v2." + tn
		wm := map[string]int64{}
		eachInstr(wf, func(in ssa.Instruction) {
			ci, ok := in.(*ssa.Call)
			if !ok {
				return
			}
			f := calleeFunc(ci.Common())
			if f != nil && f.Name() == "AppendUint64" {
				// buf = AppendUint64(buf, v): v lands at len(buf) — in a straight chain from an empty
				// buffer, or in a loop over a literal list of the fields
				args := ci.Call.Args
				bufArg, val := args[len(args)-2], canon(args[len(args)-1])
				if base, isLoop := appendLoopBase(ci, bufArg); isLoop {
					if off0, ok := appendedLen(base, 0); ok {
						for k, el := range literalElemsOfRange(val) {
							if fv, _ := fieldOfLoad(canon(el)); fv != nil {
								wm[fv.Name()] = off0 + 8*int64(k)
							}
						}
					}
					return
				}
				if off, ok := appendedLen(bufArg, 0); ok {
					if fv, _ := fieldOfLoad(val); fv != nil {
						wm[fv.Name()] = off
					}
				}
				return
			}
			if f == nil || f.Name() != "PutUint64" {
				return
			}
			args := ci.Call.Args
			sl, ok := args[len(args)-2].(*ssa.Slice)
			if !ok {
				return
			}
			lo := int64(0)
			if sl.Low != nil {
				lo, _ = constInt(sl.Low)
			}
			if fv, _ := fieldOfLoad(canon(args[len(args)-1])); fv != nil {
				wm[fv.Name()] = lo
			}
		})
		rm := map[string]int64{}
		eachInstr(rf, func(in ssa.Instruction) {
			st, ok := in.(*ssa.Store)
			if !ok {
				return
			}
			fa, ok := st.Addr.(*ssa.FieldAddr)
			if !ok || !isNamed(fa.X.Type(), modV2, tn) {
				return
			}
			cl, _ := callOf(canon(st.Val))
			if cl == nil {
				return
			}
			f := calleeFunc(cl.Common())
			if f == nil || f.Name() != "Uint64" {
				return
			}
			sl, ok := cl.Call.Args[len(cl.Call.Args)-1].(*ssa.Slice)
			if !ok {
				return
			}
			lo := int64(0)
			if sl.Low != nil {
				lo, _ = constInt(sl.Low)
			}
			rm[fieldVar(fa.X.Type(), fa.Field).Name()] = lo
		})
		want := map[string]int64{"DataOffset": 0, "DataSize": 8, "IndexOffset": 16}
		if tn == "Characteristics" {
			want = map[string]int64{"Hi": 0, "Lo": 8}
		}
		bad := ""
		for f, lo := range want {
			if w, ok := wm[f]; !ok || w != lo {
				bad = fmt.Sprintf("WriteTo puts %s at byte %d (want %d)", f, wm[f], lo)
			}
			if g, ok := rm[f]; !ok || g != lo {
				bad = fmt.Sprintf("ReadFrom takes %s from byte %d (want %d)", f, rm[f], lo)
			}
		}
		r.Check(bad == "", key, c.Pos(wf.Pos()), "writer and reader agree on field order and byte ranges", bad)
	}
}

func ruleR05b(c *Ctx, r *Report) {
	fn, err := c.Func(pkgStore, "", "Finalize")
	if err != nil {
		r.InfraFail("%v", err)
		return
	}
	{
		key := "finalize-roles@" + fnKey(fn)
		bad := ""
		if len(fn.Params) != 6 {
			bad = "signature changed: expected (writer, header, idx, dataSize, storeIdentityCIDs, indexCodec)"
		} else {
			pw, ph, pidx, psize, pid, pcodec := fn.Params[0], fn.Params[1], fn.Params[2], fn.Params[3], fn.Params[4], fn.Params[5]
			_ = ph
			wds := callsToFunc(fn, modV2, "Header", "WithDataSize")
			sfi := callsToFunc(fn, modV2, "Characteristics", "SetFullyIndexed")
			fl := callsToFunc(fn, pkgIndex, "InsertionIndex", "Flatten")
			iw := callsToFunc(fn, pkgIndex, "", "WriteTo")
			hw := headerWriteCalls(fn)
			switch {
			case len(wds) != 1 || canon(wds[0].Common().Args[1]) != ssa.Value(psize):
				bad = "header.WithDataSize(dataSize) with the dataSize parameter not found"
			case len(sfi) != 1 || canon(sfi[0].Common().Args[1]) != ssa.Value(pid):
				bad = "SetFullyIndexed is not given the storeIdentityCIDs parameter"
			case len(fl) != 1 || canon(fl[0].Common().Args[0]) != ssa.Value(pidx) || canon(fl[0].Common().Args[1]) != ssa.Value(pcodec):
				bad = "idx.Flatten(indexCodec) over the index and codec parameters not found"
			case len(iw) != 1 || len(hw) != 1:
				bad = "index.WriteTo / header.WriteTo not found"
			}
			if bad == "" {
				// index written at IndexOffset of the header that received the data size
				w, off, ok := offsetWriterOf(iw[0].Common().Args[1])
				if !ok || canon(stripIface(w)) != ssa.Value(pw) {
					bad = "the index is not written through an offset writer over the writer parameter"
				} else {
					fv, base := fieldOfLoad(canon(off))
					if fv == nil || fv.Name() != "IndexOffset" {
						bad = "the index is not written at header.IndexOffset"
					} else if !headerCellReceives(base, wds[0].Value()) {
						bad = "the IndexOffset used for the index write is not that of the header updated by WithDataSize"
					}
				}
				// the flattened index is what is written
				if bad == "" && canon(stripIface(iw[0].Common().Args[0])) != ssa.Value(extractOf(fl[0].Value(), 0)) {
					bad = "index.WriteTo does not write the flattened index"
				}
				// the header written is the updated one
				if bad == "" {
					hv := hw[0].Common().Args[0]
					u, ok := hv.(*ssa.UnOp)
					if !ok || !headerCellReceives(u.X, wds[0].Value()) {
						bad = "the header written is not the one updated by WithDataSize/SetFullyIndexed"
					}
				}
			}
		}
		r.Check(bad == "", key, c.Pos(fn.Pos()), "each parameter used in its role; index at the updated header's IndexOffset", bad)
	}
	// call sites
	for _, cs := range []struct {
		spec   fnSpec
		hdrTyp string
	}{{fnSpec{pkgBS, "ReadWrite", "finalizeReadOnlyWithoutMutex"}, "ReadWrite"}, {fnSpec{pkgStorage, "StorageCar", "Finalize"}, "StorageCar"}} {
		g, err := c.Func(cs.spec.pkg, cs.spec.recv, cs.spec.name)
		if err != nil {
			r.InfraFail("%v", err)
			continue
		}
		key := "finalize-args@" + fnKey(g)
		calls := callsToFunc(g, pkgStore, "", "Finalize")
		if len(calls) != 1 {
			r.Undec(key, c.Pos(g.Pos()), "expected one store.Finalize call")
			continue
		}
		a := calls[0].Common().Args
		bad := ""
		if !loadsField(canon(a[1]), cs.spec.pkg, cs.hdrTyp, "header") {
			bad = "argument 2 is not the header field built by the constructor"
		}
		pc, _ := callOf(canon(a[3]))
		if bad == "" && (pc == nil || calleeFunc(pc.Common()) == nil || calleeFunc(pc.Common()).Name() != "Position" || !loadsField(canon(callArgs(pc.Common())[0]), cs.spec.pkg, cs.hdrTyp, "dataWriter")) {
			bad = "the data size is not Position() of the data writer the sections were written through"
		}
		if bad == "" && !loadsField(canon(a[4]), modV2, "Options", "StoreIdentityCIDs") {
			bad = "argument 5 (fully-indexed flag) is not Options.StoreIdentityCIDs"
		}
		if bad == "" && !loadsField(canon(a[5]), modV2, "Options", "IndexCodec") {
			bad = "argument 6 is not Options.IndexCodec"
		}
		if bad == "" && !loadsField(canon(stripIface(a[2])), cs.spec.pkg, cs.hdrTyp, "idx") {
			// StorageCar asserts the concrete type first
			ok := false
			for _, o := range origins(a[2], originOpts{}) {
				if o.Kind == "field" && o.Field != nil && o.Field.Name() == "idx" {
					ok = true
				}
			}
			if !ok {
				bad = "argument 3 is not the store's index"
			}
		}
		r.Check(bad == "", key, c.Pos(calls[0].Pos()), "(writer, header field, idx, dataWriter.Position(), StoreIdentityCIDs, IndexCodec)", bad)
	}
	// constructors
	for _, cs := range []struct {
		spec   fnSpec
		hdrTyp string
	}{{fnSpec{pkgBS, "", "OpenReadWriteFile"}, "ReadWrite"}, {fnSpec{pkgStorage, "", "newWritable"}, "StorageCar"}} {
		g, err := c.Func(cs.spec.pkg, cs.spec.recv, cs.spec.name)
		if err != nil {
			r.InfraFail("%v", err)
			continue
		}
		key := "ctor-header@" + fnKey(g)
		bad := ""
		sawNew := false
		n := 0
		eachInstr(g, func(in ssa.Instruction) {
			st, ok := in.(*ssa.Store)
			if !ok {
				return
			}
			fa, ok := st.Addr.(*ssa.FieldAddr)
			if !ok || !fieldAddrIs(fa, cs.spec.pkg, cs.hdrTyp, "header") {
				return
			}
			// the stored value, or every input of the merge it is (a helper that applies the paddings
			// conditionally, inlined back, hands over phi[header, WithDataPadding(..), WithIndexPadding(..)]);
			// a helper the pinned tree does not have and that could not be inlined (it stands among other
			// calls in a composite literal) is judged by what it returns
			var judge func(v ssa.Value, inHelper bool, depth int)
			judge = func(v ssa.Value, inHelper bool, depth int) {
				for _, leaf := range phiLeaves(v) {
					if loadsField(leaf, cs.spec.pkg, cs.hdrTyp, "header") {
						continue // the header as it was
					}
					if inHelper {
						// the helper's own header variable being passed along
						if u, ok := leaf.(*ssa.UnOp); ok && u.Op == token.MUL {
							if _, isAl := u.X.(*ssa.Alloc); isAl && isNamed(u.Type(), modV2, "Header") {
								continue
							}
						}
					}
					n++
					cl, _ := callOf(leaf)
					if cl == nil {
						bad = "header field assigned from something other than NewHeader/With*Padding"
						return
					}
					f := calleeFunc(cl.Common())
					switch {
					case funcIs(f, modV2, "", "NewHeader"):
						if k, ok := constInt(cl.Call.Args[0]); !ok || k != 0 {
							bad = "initial header is not NewHeader(0)"
						}
						sawNew = true
					case funcIs(f, modV2, "Header", "WithDataPadding"):
						if !loadsField(canon(cl.Call.Args[1]), modV2, "Options", "DataPadding") {
							bad = "WithDataPadding is not given Options.DataPadding"
						}
					case funcIs(f, modV2, "Header", "WithIndexPadding"):
						if !loadsField(canon(cl.Call.Args[1]), modV2, "Options", "IndexPadding") {
							bad = "WithIndexPadding is not given Options.IndexPadding"
						}
					default:
						callee := staticTarget(cl.Common())
						if callee != nil && callee.Blocks != nil && depth < 2 && isRepoPkg(callee.Pkg.Pkg.Path()) && !baselineFuncs[ssaDeclKey(callee)] {
							n--
							for _, ret := range returnsOf(callee) {
								if len(ret.Results) == 1 {
									judge(ret.Results[0], true, depth+1)
								}
							}
							// assignments to the helper's header variable on the way
							eachInstr(callee, func(in2 ssa.Instruction) {
								if st2, ok := in2.(*ssa.Store); ok {
									if al, ok := st2.Addr.(*ssa.Alloc); ok && isNamed(derefType(al.Type()), modV2, "Header") {
										judge(st2.Val, true, depth+1)
									}
								}
							})
							continue
						}
						bad = "header field assigned from " + funcKey(f)
					}
				}
			}
			judge(st.Val, false, 0)
		})
		if bad == "" && (!sawNew || n < 3) {
			bad = "constructor does not build the header from NewHeader(0) plus both padding options"
		}
		r.Check(bad == "", key, c.Pos(g.Pos()), "header = NewHeader(0) [.WithDataPadding(DataPadding)] [.WithIndexPadding(IndexPadding)]", bad)
	}
}

// headerCellReceives: cell (an *Header alloc, or a FieldAddr base) has the given value stored into it.
func headerCellReceives(cell ssa.Value, v ssa.Value) bool {
	return headerCellReceivesD(cell, v, 0)
}

// ... directly, or through whole-struct copies (`r0 = header; header = r0` is what the inlining of a
// helper that takes the header by value and returns the updated copy leaves behind)
func headerCellReceivesD(cell ssa.Value, v ssa.Value, depth int) bool {
	al, ok := cell.(*ssa.Alloc)
	if !ok || depth > 4 {
		return false
	}
	for _, st := range storesTo(al) {
		if canon(st.Val) == canon(v) {
			return true
		}
		// a value merged from copies, or a plain copy of another cell
		for _, leaf := range phiLeaves(st.Val) {
			if leaf == canon(v) {
				return true
			}
		}
		vals := []ssa.Value{st.Val}
		if ph, ok := st.Val.(*ssa.Phi); ok {
			vals = ph.Edges
		}
		for _, sv := range vals {
			if l, ok := sv.(*ssa.UnOp); ok && l.Op == token.MUL && l.X != ssa.Value(al) {
				if headerCellReceivesD(l.X, v, depth+1) {
					return true
				}
			}
		}
	}
	return false
}

func ruleR05c(c *Ctx, r *Report) {
	// pragma writes in initialisers only on the v2 outcome
	type site struct {
		spec fnSpec
	}
	for _, s := range []fnSpec{{pkgBS, "ReadWrite", "initWithRoots"}, {pkgStorage, "StorageCar", "init"}} {
		fn, err := c.Func(s.pkg, s.recv, s.name)
		if err != nil {
			r.InfraFail("%v", err)
			continue
		}
		key := "v1-no-pragma@" + fnKey(fn)
		var pw []ssa.Instruction
		eachInstr(fn, func(in ssa.Instruction) {
			if _, ok := pragmaWriteTarget(in); ok {
				pw = append(pw, in)
			}
		})
		if len(pw) != 1 {
			r.Undec(key, c.Pos(fn.Pos()), "expected one pragma write")
			continue
		}
		var v2 []Edge
		var boolParam *ssa.Parameter
		for _, p := range fn.Params[1:] {
			if bt, ok := p.Type().Underlying().(*types.Basic); ok && bt.Kind() == types.Bool {
				boolParam = p
			}
		}
		if s.name == "initWithRoots" && boolParam != nil {
			v2 = boolParamEdges(fn, boolParam, true)
			// and the caller passes !WriteAsCarV1
			caller, err := c.Func(pkgBS, "", "OpenReadWriteFile")
			if err == nil {
				for _, ci := range callsToFunc(caller, pkgBS, "ReadWrite", "initWithRoots") {
					idx := 0
					for i, p := range fn.Params {
						if p == boolParam {
							idx = i
						}
					}
					base, neg := condNorm(canon(ci.Common().Args[idx]))
					if !neg || !loadsField(base, modV2, "Options", "WriteAsCarV1") {
						v2 = nil
					}
				}
			}
		} else {
			v2 = condEdges(fn, matchFieldCond(modV2, "Options", "WriteAsCarV1", false))
			if len(v2) == 0 && boolParam != nil {
				// the mode handed in as a parameter: every caller must pass WriteAsCarV1 (or its negation)
				polarity := 0 // 1: param == WriteAsCarV1, 2: param == !WriteAsCarV1, -1: neither
				idx := 0
				for i, p := range fn.Params {
					if p == boolParam {
						idx = i
					}
				}
				for _, g := range c.RepoFuncs() {
					for _, ci := range callsToFunc(g, s.pkg, s.recv, s.name) {
						base, neg := condNorm(canon(ci.Common().Args[idx]))
						pol := -1
						if loadsField(base, modV2, "Options", "WriteAsCarV1") {
							pol = 1
							if neg {
								pol = 2
							}
						}
						if polarity == 0 {
							polarity = pol
						} else if polarity != pol {
							polarity = -1
						}
					}
				}
				switch polarity {
				case 1:
					v2 = boolParamEdges(fn, boolParam, false)
				case 2:
					v2 = boolParamEdges(fn, boolParam, true)
				}
			}
		}
		bad := ""
		if len(v2) == 0 {
			bad = "the pragma write is not conditional on CARv2 mode (!WriteAsCarV1)"
		} else if reach(fn, nil, edgeSet(v2))[pw[0].Block()] {
			bad = "the pragma is written in CARv1 mode too: the file would not be a plain CARv1 payload"
		}
		r.Check(bad == "", key, c.Pos(pw[0].Pos()), "pragma only when !WriteAsCarV1", bad)
	}
	// store.Finalize only in v2 mode
	for _, s := range []fnSpec{{pkgBS, "ReadWrite", "finalizeReadOnlyWithoutMutex"}, {pkgStorage, "StorageCar", "Finalize"}} {
		fn, err := c.Func(s.pkg, s.recv, s.name)
		if err != nil {
			r.InfraFail("%v", err)
			continue
		}
		key := "v1-no-finalize@" + fnKey(fn)
		calls := callsToFunc(fn, pkgStore, "", "Finalize")
		v2 := condEdges(fn, matchFieldCond(modV2, "Options", "WriteAsCarV1", false))
		bad := ""
		if len(calls) != 1 || len(v2) == 0 {
			bad = "store.Finalize call or the WriteAsCarV1 test not found"
		} else if reach(fn, nil, edgeSet(v2))[calls[0].Block()] {
			bad = "store.Finalize (index + CARv2 header) is reachable in CARv1 mode"
		}
		r.Check(bad == "", key, c.Pos(fn.Pos()), "index/header only when !WriteAsCarV1", bad)
	}
	// writer base
	for _, s := range []struct {
		spec fnSpec
		typ  string
	}{{fnSpec{pkgBS, "", "OpenReadWriteFile"}, "ReadWrite"}, {fnSpec{pkgStorage, "", "newWritable"}, "StorageCar"}} {
		fn, err := c.Func(s.spec.pkg, s.spec.recv, s.spec.name)
		if err != nil {
			r.InfraFail("%v", err)
			continue
		}
		key := "writer-base@" + fnKey(fn)
		bad := "no NewOffsetWriter for the data writer found"
		for _, ci := range callsToFunc(fn, pkgIntIO, "", "NewOffsetWriter") {
			off := canon(ci.Common().Args[1])
			phi, ok := off.(*ssa.Phi)
			if !ok {
				bad = "data writer base is not `DataOffset, or 0 in CARv1 mode`"
				continue
			}
			sawField, sawZero := false, false
			for i, e := range phi.Edges {
				if k, ok := constInt(e); ok && k == 0 {
					sawZero = true
					// the edge with 0 must come from the WriteAsCarV1-true outcome
					v1 := condEdges(fn, matchFieldCond(modV2, "Options", "WriteAsCarV1", true))
					okEdge := false
					for _, ve := range v1 {
						if ve.From.Succs[ve.Succ] == phi.Block().Preds[i] || (ve.From == phi.Block().Preds[i] && ve.From.Succs[ve.Succ] == phi.Block()) {
							okEdge = true
						}
					}
					if !okEdge {
						bad = "base 0 is not selected by WriteAsCarV1"
						sawZero = false
					}
				} else if loadsField(canon(e), modV2, "Header", "DataOffset") {
					sawField = true
				}
			}
			if sawField && sawZero {
				bad = ""
				break
			}
		}
		r.Check(bad == "", key, c.Pos(fn.Pos()), "data writer starts at header.DataOffset, at 0 in CARv1 mode", bad)
	}
}

func ruleR05j(c *Ctx, r *Report) {
	for _, k := range []struct {
		pkg, name string
		want      int64
	}{
		{modV2, "PragmaSize", 11}, {modV2, "HeaderSize", 40}, {modV2, "CharacteristicsSize", 16},
		{modV2, "DefaultMaxIndexCidSize", 2 << 10}, {modV2, "DefaultMaxAllowedHeaderSize", 32 << 20}, {modV2, "DefaultMaxAllowedSectionSize", 8 << 20},
		{pkgV1, "DefaultMaxAllowedHeaderSize", 32 << 20}, {pkgV1, "DefaultMaxAllowedSectionSize", 8 << 20},
		{pkgIndex, "CarIndexNone", 0x300000},
	} {
		key := "format-constant@" + shortPkg(k.pkg) + "." + k.name
		p := c.Pkgs[k.pkg]
		if p == nil {
			r.InfraFail("package %s not loaded", k.pkg)
			continue
		}
		cst, ok := p.Types.Scope().Lookup(k.name).(*types.Const)
		if !ok {
			r.Undec(key, "-", "constant not found")
			continue
		}
		v, exact := constant.Int64Val(constant.ToInt(cst.Val()))
		r.Check(exact && v == k.want, key, c.Pos(cst.Pos()), fmt.Sprintf("= %d", k.want), fmt.Sprintf("is %s, the format (or the documented default) says %d", cst.Val().String(), k.want))
	}
	// the pragma bytes
	key := "format-constant@v2.Pragma"
	want := []int64{0x0a, 0xa1, 0x67, 0x76, 0x65, 0x72, 0x73, 0x69, 0x6f, 0x6e, 0x02}
	p := c.Pkgs[modV2]
	found := false
	for _, f := range p.Syntax {
		for _, d := range f.Decls {
			gd, ok := d.(*ast.GenDecl)
			if !ok {
				continue
			}
			for _, sp := range gd.Specs {
				vs, ok := sp.(*ast.ValueSpec)
				if !ok || len(vs.Names) != 1 || vs.Names[0].Name != "Pragma" || len(vs.Values) != 1 {
					continue
				}
				cl, ok := vs.Values[0].(*ast.CompositeLit)
				if !ok {
					continue
				}
				found = true
				var got []int64
				for _, e := range cl.Elts {
					if tv, ok := p.TypesInfo.Types[e]; ok && tv.Value != nil {
						if v, exact := constant.Int64Val(constant.ToInt(tv.Value)); exact {
							got = append(got, v)
						}
					}
				}
				r.Check(fmt.Sprint(got) == fmt.Sprint(want), key, c.Pos(vs.Pos()), "0a a1 67 76 65 72 73 69 6f 6e 02", fmt.Sprintf("pragma bytes are %x", got))
			}
		}
	}
	if !found {
		r.Undec(key, "-", "var Pragma = []byte{...} not found")
	}
}

func ruleR05l(c *Ctx, r *Report) {
	for _, sp := range []fnSpec{{pkgBS, "ReadWrite", "finalizeReadOnlyWithoutMutex"}, {pkgStorage, "StorageCar", "Finalize"}} {
		fn, err := c.Func(sp.pkg, sp.recv, sp.name)
		if err != nil {
			r.InfraFail("%v", err)
			continue
		}
		key := "v2-success-means-finalized@" + fnKey(fn)
		v2 := condEdges(fn, matchFieldCond(modV2, "Options", "WriteAsCarV1", false))
		if len(v2) == 0 {
			r.Undec(key, c.Pos(fn.Pos()), "no test of Options.WriteAsCarV1 found")
			continue
		}
		bad := ""
		for _, e := range v2 {
			rs := reachFromEdge(fn, e, nil)
			for _, ret := range returnsOf(fn) {
				if rs[ret.Block()] && len(ret.Results) == 1 && resultIsNilConst(ret, 0) {
					bad = fmt.Sprintf("in CARv2 mode the return at %s reports success without store.Finalize having written index and header", c.Pos(ret.Pos()))
				}
			}
		}
		r.Check(bad == "", key, c.Pos(fn.Pos()), "past the CARv1 test, success is only the result of store.Finalize", bad)
	}
}

// appendedLen: the length of a buffer built by a chain of binary.*.AppendUint64 calls from an empty
// slice (make([]byte, 0, n), nil, []byte{}).
func appendedLen(v ssa.Value, depth int) (int64, bool) {
	if depth > 16 {
		return 0, false
	}
	switch x := canon(v).(type) {
	case *ssa.MakeSlice:
		if k, ok := constInt(x.Len); ok {
			return k, true
		}
	case *ssa.Const:
		if x.IsNil() {
			return 0, true
		}
	case *ssa.Slice:
		if al, ok := x.X.(*ssa.Alloc); ok {
			if arr, ok := derefType(al.Type()).Underlying().(*types.Array); ok {
				lo, hi := int64(0), arr.Len()
				if x.Low != nil {
					k, ok := constInt(x.Low)
					if !ok {
						return 0, false
					}
					lo = k
				}
				if x.High != nil {
					k, ok := constInt(x.High)
					if !ok {
						return 0, false
					}
					hi = k
				}
				return hi - lo, true
			}
		}
	case *ssa.Call:
		if f := calleeFunc(x.Common()); f != nil && f.Pkg() != nil && f.Pkg().Path() == "encoding/binary" {
			w := map[string]int64{"AppendUint64": 8, "AppendUint32": 4, "AppendUint16": 2}[f.Name()]
			args := x.Call.Args
			if w > 0 {
				if n, ok := appendedLen(args[len(args)-2], depth+1); ok {
					return n + w, true
				}
			}
		}
	}
	return 0, false
}

// appendLoopBase: the buffer argument of the append call is the loop-carried value
// `phi [before the loop: base, back edge: this call]`; it returns base.
func appendLoopBase(call *ssa.Call, buf ssa.Value) (ssa.Value, bool) {
	ph, ok := buf.(*ssa.Phi)
	if !ok || len(ph.Edges) != 2 {
		return nil, false
	}
	switch {
	case ph.Edges[1] == ssa.Value(call):
		return ph.Edges[0], true
	case ph.Edges[0] == ssa.Value(call):
		return ph.Edges[1], true
	}
	return nil, false
}

// literalElemsOfRange: v is the element `lit[i]` of a range over a literal list; the values the
// literal holds, by index.
func literalElemsOfRange(v ssa.Value) []ssa.Value {
	u, ok := v.(*ssa.UnOp)
	if !ok || u.Op != token.MUL {
		return nil
	}
	ia, ok := u.X.(*ssa.IndexAddr)
	if !ok {
		return nil
	}
	base := canon(ia.X)
	if sl, ok := base.(*ssa.Slice); ok {
		base = sl.X
	}
	al, ok := base.(*ssa.Alloc)
	if !ok {
		return nil
	}
	arr, ok := derefType(al.Type()).Underlying().(*types.Array)
	if !ok {
		return nil
	}
	out := make([]ssa.Value, arr.Len())
	for _, rf := range *al.Referrers() {
		ea, ok := rf.(*ssa.IndexAddr)
		if !ok {
			continue
		}
		k, isK := constInt(ea.Index)
		if !isK || k < 0 || k >= arr.Len() {
			continue
		}
		for _, st := range storesTo(ea) {
			out[k] = st.Val
		}
	}
	for _, e := range out {
		if e == nil {
			return nil
		}
	}
	return out
}
