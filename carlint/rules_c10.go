package main

import (
	"fmt"
	"go/token"
	"go/types"
	"sort"
	"strings"

	"golang.org/x/tools/go/ssa"
)

func init() {
	register(PropertyDef{
		ID: "C10",
		Explanation: "Decided statically: (R10a) ReplaceRootsInFile writes to the file only behind the equal outcome of `current header size != new header size`, where the current " +
			"size is measured from file positions (bytes actually consumed on disk, not a re-encoding) and the new size is the length of the buffer that is then written at " +
			"the header offset of the detected version; the file is opened O_RDWR only; (R10b) ExtractV1File seeks the source to int64(Header.DataOffset), copies exactly " +
			"int64(Header.DataSize) bytes from the source itself, opens the destination with constant flags that do not contain O_TRUNC (in-place extraction), and " +
			"truncates only on size > dataSize; (R10c) WrapV1 writes, in this order on its success path, Pragma, NewHeader(size obtained by Seek(0, SeekEnd)), the source " +
			"from its start, the index; (R10d) Reader.DataReader/IndexReader window the file by Header.DataOffset/DataSize/IndexOffset. NOT decided: byte equality itself.",
		Assumptions: []string{"io.Copy/io.CopyN copy bytes unmodified", "os.OpenFile honours its flags"},
		Rules: []RuleDef{
			{ID: "R10a", Floor: 1, Doc: "replace-roots: size guard from file positions, constant O_RDWR open, write of the encoded header at the version's header offset", Run: ruleR10a},
			{ID: "R10b", Floor: 1, Doc: "extract: seek/copy window from the parsed header, no O_TRUNC, guarded truncate", Run: ruleR10b},
			{ID: "R10c", Floor: 1, Doc: "wrap: pragma, header(size from SeekEnd), source from start, index — in order", Run: ruleR10c},
			{ID: "R10e", Floor: 1, Doc: "extraction depends on the payload window only: the header fields that can influence ExtractV1File after parsing are DataOffset and DataSize (an archive without index, or with any IndexOffset/characteristics, extracts the same)", Run: ruleR10e},
			{ID: "R10i", Floor: 1, Doc: "Reader.DataReader hands out a fresh reader on every call (a constructor's result, never a remembered one): Roots, Inspect and extraction each keep their own read position over the payload", Run: ruleR10i},
			{ID: "R10j", Floor: 1, Doc: "a wrap writes a whole new file: WrapV1File opens its destination truncating (os.Create / O_TRUNC) — it has no trimming step of its own, so bytes of a longer old file would stay behind the index", Run: ruleR10j},
			{ID: "R10k", Floor: 1, Doc: "a CARv2 header is final when it is written: no field of a header value is assigned after that value was handed to Header.WriteTo, unless it is written again (library and CLI)", Run: ruleR10k},
			{ID: "R10d", Floor: 2, Doc: "reader windows from header fields", Run: ruleR10d},
			{ID: "R10f", Floor: 2, Doc: "the index a wrap writes records true section offsets (= R03b)", Run: ruleR03b},
			{ID: "R10g", Floor: 10, Doc: "no new dropped error in the container transforms (a failed write must fail the transform) (= R16h)", Run: ruleR16h},
			{ID: "R10h", Floor: 5, Doc: "`car index`, the CLI wrap, re-emits the payload with offsets that advance by every section copied (= R19d)", Run: ruleR19d},
			{ID: "R10l", Floor: 2, Doc: "a wrap indexes every valid CARv1: the CID-size limit is applied only to sections that get an index record (= R03c)", Run: ruleR03c},
			{ID: "R10m", Floor: 7, Doc: "every header writer encodes the header it was given (nil roots stay null): a transform that re-writes a header must reproduce its bytes (= R01c)", Run: ruleR01c},
			{ID: "R10n", Floor: 1, Doc: "the transforms accept every valid CARv1: no function of the v2 library (readers, stores, transforms) goes through carv1.NewCarReader*, whose legacy rejection of a header without roots no other part of the library shares", Run: ruleR10n},
			{ID: "R10o", Floor: 1, Doc: "the fully-indexed characteristic is set from the StoreIdentityCIDs option, wherever it is set: a transform that sets it on its own announces a complete catalogue over an index that leaves identity sections out", Run: ruleR10o},
			{ID: "R10p", Floor: 1, Doc: "ReplaceRootsInFile reports success only as the outcome of writing the new header: it has no `return nil` of its own (a same-roots shortcut, compared by multihash, leaves other roots in place)", Run: ruleR10p},
			{ID: "R10q", Floor: 1, Doc: "index generation hands all records to the index in one Load (the sorted indexes replace a bucket on every Load) (= R03h)", Run: ruleR03h},
			{ID: "R10r", Floor: 6, Doc: "the index of a wrap lists every section: nothing is dropped between sorting and compaction (= R11b)", Run: ruleR11b},
			{ID: "R10s", Floor: 1, Doc: "a wrap is indexed under the options the caller gave: WrapV1 forwards its options to index generation (= R03l)", Run: ruleR07c},
			{ID: "R10t", Floor: 2, Doc: "the index of a wrap holds every hash function's records: load loops store a fresh object, built around fresh maps, per iteration (= R11i)", Run: ruleR11i},
			{ID: "R10u", Floor: 1, Doc: "the index a wrap writes behind the payload is made of buckets that are exactly width x len bytes (= R03x): a bucket cut from a shared buffer without an upper bound is serialized with the buckets behind it", Run: ruleR03x},
		},
	})
}

const (
	oWRONLY = 0x1
	oRDWR   = 0x2
	oCREATE = 0x40
	oEXCL   = 0x80
	oTRUNC  = 0x200
	oAPPEND = 0x400
)

func ruleR10a(c *Ctx, r *Report) {
	fn, err := c.Func(modV2, "", "ReplaceRootsInFile")
	if err != nil {
		r.InfraFail("%v", err)
		return
	}
	key := "replace-roots@" + fnKey(fn)
	bad := ""
	opens := callsToFunc(fn, "os", "", "OpenFile")
	writes := callsToFunc(fn, "os", "File", "Write")
	wh := callsToFunc(fn, pkgV1, "", "WriteHeader")
	if len(opens) != 1 || len(writes) != 1 || len(wh) != 1 {
		r.Undec(key, c.Pos(fn.Pos()), "expected one OpenFile, one File.Write and one WriteHeader")
		return
	}
	if fl, ok := constInt(opens[0].Common().Args[1]); !ok || fl != oRDWR {
		bad = fmt.Sprintf("the file is opened with flags %#x; it must be the constant O_RDWR (no create, truncate or append: a failed replacement must leave the file untouched)", fl)
	}
	// the written bytes: buf.Bytes() of the buffer WriteHeader encoded into
	var buf ssa.Value
	if bad == "" {
		bc, _ := callOf(canon(writes[0].Common().Args[1]))
		if bc == nil || !funcIs(calleeFunc(bc.Common()), "bytes", "Buffer", "Bytes") {
			bad = "the bytes written are not the encoded replacement header"
		} else {
			buf = callArgs(bc.Common())[0]
			if !sameValue(stripIface(wh[0].Common().Args[1]), buf) {
				bad = "the bytes written do not come from the buffer carv1.WriteHeader encoded into"
			}
		}
	}
	// size guard
	if bad == "" {
		isNew := func(v ssa.Value) bool {
			lc, _ := callOf(canon(v))
			return lc != nil && funcIs(calleeFunc(lc.Common()), "bytes", "Buffer", "Len") && sameValue(callArgs(lc.Common())[0], buf)
		}
		isCur := func(v ssa.Value) bool {
			if isNew(v) {
				return false
			}
			// measured from file positions only
			os := origins(v, originOpts{binops: true})
			n := 0
			for _, o := range os {
				switch {
				case o.Kind == "call" && o.Fn != nil && o.Fn.Name() == "Seek":
					n++
				case o.Kind == "field" && o.Field != nil && o.Field.Name() == "DataOffset":
				case o.Kind == "const":
				default:
					return false
				}
			}
			return n > 0
		}
		eq := cmpEdges(fn, isCur, isNew, "eq")
		if len(eq) == 0 {
			bad = "no comparison of the on-disk header size (from file positions) with the length of the replacement header: a header of another size — or one whose stored encoding is not canonical — would be overwritten and the first section clobbered"
		} else if reach(fn, nil, edgeSet(eq))[writes[0].Block()] {
			bad = "the file is written on a path where the sizes were not found equal"
		}
		// the on-disk size of a CARv2's inner header is (position after reading it) - DataOffset
		if bad == "" {
			nsub := 0
			eachInstr(fn, func(in ssa.Instruction) {
				b, ok := in.(*ssa.BinOp)
				if !ok || (b.Op != token.EQL && b.Op != token.NEQ) {
					return
				}
				cur := b.X
				if isNew(b.X) {
					cur = b.Y
				} else if !isNew(b.Y) {
					return
				}
				for _, sub := range subtractionsFeeding(cur) {
					nsub++
					for _, o := range origins(sub.Y, originOpts{}) {
						if o.Kind == "const" || (o.Kind == "field" && o.Field != nil && o.Field.Name() == "DataOffset") {
							continue
						}
						bad = fmt.Sprintf("the on-disk header size is computed at %s by subtracting something other than Header.DataOffset from the file position: with data padding the inner header does not start right after the CARv2 header", c.Pos(sub.Pos()))
					}
				}
			})
			if bad == "" && nsub == 0 {
				bad = "the on-disk size of a CARv2's inner header is not measured relative to Header.DataOffset (no subtraction found)"
			}
		}
	}
	// seek target before the write: 0 (v1) / DataOffset (v2)
	if bad == "" {
		okSeek := false
		eachInstr(fn, func(in ssa.Instruction) {
			ci, ok := in.(*ssa.Call)
			if !ok || !funcIs(calleeFunc(ci.Common()), "os", "File", "Seek") {
				return
			}
			if k, ok := constInt(ci.Call.Args[2]); !ok || k != 0 {
				return
			}
			if !ci.Block().Dominates(writes[0].Block()) && ci.Block() != writes[0].Block() {
				return
			}
			good := true
			for _, o := range origins(ci.Call.Args[1], originOpts{}) {
				switch {
				case o.Kind == "const":
					if k, _ := constInt(o.Val); k != 0 {
						good = false
					}
				case o.Kind == "field" && o.Field != nil && o.Field.Name() == "DataOffset":
				default:
					good = false
				}
			}
			if good {
				okSeek = true
			}
		})
		if !okSeek {
			bad = "the write is not preceded by a seek to the header offset of the detected version (0 / Header.DataOffset)"
		}
	}
	r.Check(bad == "", key, c.Pos(fn.Pos()), "O_RDWR; write of the encoded header only behind on-disk size == new size, at the header offset", bad)
}

func ruleR10b(c *Ctx, r *Report) {
	fn, err := c.Func(modV2, "", "ExtractV1File")
	if err != nil {
		r.InfraFail("%v", err)
		return
	}
	key := "extract-v1@" + fnKey(fn)
	bad := ""
	opens := callsToFunc(fn, "os", "", "OpenFile")
	cps := callsToFunc(fn, "io", "", "CopyN")
	hrs := callsToFunc(fn, modV2, "Header", "ReadFrom")
	srcOpen := callsToFunc(fn, "os", "", "Open")
	if len(opens) != 1 || len(cps) != 1 || len(hrs) != 1 || len(srcOpen) != 1 {
		r.Undec(key, c.Pos(fn.Pos()), "expected one os.Open, one OpenFile, one CopyN, one Header.ReadFrom")
		return
	}
	hdr := hrs[0].Common().Args[0]
	src := extractOf(srcOpen[0].Value(), 0)
	fl, isK := constInt(opens[0].Common().Args[1])
	switch {
	case !isK:
		bad = "the destination's open flags are not a constant: a flag chosen at run time (e.g. O_TRUNC when the paths 'differ') destroys the source when both names denote one file"
	case fl&oTRUNC != 0:
		bad = "the destination is opened with O_TRUNC: in-place extraction reads what the truncation destroys"
	case fl&oAPPEND != 0:
		bad = "the destination is opened with O_APPEND"
	}
	isHdrField := func(v ssa.Value, f string) bool {
		fv, base := fieldOfLoad(canon(v))
		if fv == nil || fv.Name() != f {
			return false
		}
		if sameValue(base, hdr) {
			return true
		}
		// a by-value copy of the parsed header (argument of an inlined helper)
		roots := structRoots(base)
		for _, rt := range roots {
			if !sameValue(rt, hdr) && rt != canon(hdr) {
				return false
			}
		}
		return len(roots) > 0
	}
	if bad == "" {
		if !isHdrField(cps[0].Common().Args[2], "DataSize") {
			bad = "the number of bytes copied is not int64(Header.DataSize) of the header just parsed"
		} else if canon(stripIface(cps[0].Common().Args[1])) != src {
			bad = "the payload is not copied from the source file itself"
		}
	}
	if bad == "" {
		okSeek := false
		eachInstr(fn, func(in ssa.Instruction) {
			ci, ok := in.(*ssa.Call)
			if ok && funcIs(calleeFunc(ci.Common()), "os", "File", "Seek") && canon(ci.Call.Args[0]) == src {
				if k, ok := constInt(ci.Call.Args[2]); ok && k == 0 && isHdrField(ci.Call.Args[1], "DataOffset") && ci.Block().Dominates(cps[0].Block()) {
					okSeek = true
				}
			}
		})
		if !okSeek {
			bad = "the source is not positioned at int64(Header.DataOffset) before the copy"
		}
	}
	if bad == "" {
		for _, tr := range callsToFunc(fn, "os", "File", "Truncate") {
			gt := cmpEdges(fn, func(v ssa.Value) bool {
				cl, _ := callOf(canon(v))
				return cl != nil && calleeFunc(cl.Common()) != nil && calleeFunc(cl.Common()).Name() == "Size"
			}, func(v ssa.Value) bool { return isHdrField(v, "DataSize") }, "gt")
			if len(gt) == 0 || reach(fn, nil, edgeSet(gt))[tr.Block()] {
				bad = "Truncate is not confined to the outcome size > dataSize"
			}
		}
	}
	r.Check(bad == "", key, c.Pos(fn.Pos()), "seek to DataOffset, CopyN(dst, src, DataSize), constant flags without O_TRUNC, truncate only when larger", bad)
}

func ruleR10c(c *Ctx, r *Report) {
	fn, err := c.Func(modV2, "", "WrapV1")
	if err != nil {
		r.InfraFail("%v", err)
		return
	}
	key := "wrap-v1@" + fnKey(fn)
	bad := ""
	srcP, dstP := fn.Params[0], fn.Params[1]
	var pragmaW, hdrW, cp, idxW ssa.Instruction
	eachInstr(fn, func(in ssa.Instruction) {
		if t, ok := pragmaWriteTarget(in); ok && canon(stripIface(t)) == ssa.Value(dstP) {
			pragmaW = in
		}
	})
	if hw := headerWriteCalls(fn); len(hw) == 1 {
		hdrW = hw[0]
	}
	if cs := callsToFunc(fn, "io", "", "Copy"); len(cs) == 1 {
		cp = cs[0]
	}
	if iw := callsToFunc(fn, pkgIndex, "", "WriteTo"); len(iw) == 1 {
		idxW = iw[0]
	}
	if pragmaW == nil || hdrW == nil || cp == nil || idxW == nil {
		r.Undec(key, c.Pos(fn.Pos()), "pragma write / header write / copy / index write not all found")
		return
	}
	// a before b on every path that gets to b: same block and earlier, a dominator, or — for the
	// shape an inlined helper with early error returns leaves behind — b unreachable once the
	// edges out of a's block are cut (the error exits rejoin behind a merge whose test is decided)
	ordered := func(a, b ssa.Instruction) bool {
		if a.Block() == b.Block() {
			return instrIndex(a) < instrIndex(b)
		}
		if a.Block().Dominates(b.Block()) {
			return true
		}
		cut := EdgeSet{}
		for i := range a.Block().Succs {
			cut[Edge{From: a.Block(), Succ: i}] = true
		}
		return !reach(fn, nil, cut)[b.Block()]
	}
	switch {
	case !ordered(pragmaW, hdrW) || !ordered(hdrW, cp) || !ordered(cp, idxW):
		bad = "the components are not written in the order pragma, header, payload, index"
	}
	if bad == "" {
		// header = NewHeader(uint64(size)) with size = src.Seek(0, SeekEnd)
		recv := hdrW.(*ssa.Call).Call.Args[0]
		okHdr := false
		for _, o := range origins(recv, originOpts{}) {
			if o.Kind == "call" && o.Fn != nil && strings.HasPrefix(o.Fn.Name(), "With") {
				bad = "the wrap header is modified by " + o.Fn.Name() + ": WrapV1 writes pragma, header, payload, index back to back, so any padding announced in the header shifts the payload/index windows off the bytes actually written"
			}
			if o.Kind == "call" && funcIs(o.Fn, modV2, "", "NewHeader") {
				cl, _ := callOf(o.Val)
				sc, si := callOf(canon(cl.Call.Args[0]))
				if sc != nil && si == 0 && isSeekCall(sc) && canon(stripIface(seekReceiver(sc))) == ssa.Value(srcP) {
					off, wh := seekArgs(sc)
					if k, ok := constInt(wh); ok && k == 2 {
						if k0, ok := constInt(off); ok && k0 == 0 {
							okHdr = true
						}
					}
				}
			}
		}
		if !okHdr && bad == "" {
			bad = "the header's data size is not the size of the source obtained by src.Seek(0, io.SeekEnd): payload bytes beyond the announced size end up outside the payload window"
		}
	}
	if bad == "" {
		cc := cp.(*ssa.Call)
		if canon(stripIface(cc.Call.Args[0])) != ssa.Value(dstP) || canon(stripIface(cc.Call.Args[1])) != ssa.Value(srcP) {
			bad = "the payload copy is not io.Copy(dst, src)"
		}
		rewound := false
		eachInstr(fn, func(in ssa.Instruction) {
			ci, ok := in.(*ssa.Call)
			if ok && isSeekCall(ci) && canon(stripIface(seekReceiver(ci))) == ssa.Value(srcP) {
				off, wh := seekArgs(ci)
				k, ok1 := constInt(wh)
				k0, ok2 := constInt(off)
				if ok1 && ok2 && k == 0 && k0 == 0 && ordered(in, cp) {
					rewound = true
				}
			}
		})
		if bad == "" && !rewound {
			bad = "the source is not rewound to its start before being copied"
		}
	}
	r.Check(bad == "", key, c.Pos(fn.Pos()), "Pragma; NewHeader(SeekEnd size); io.Copy(dst, src from 0); index.WriteTo", bad)
}

func ruleR10d(c *Ctx, r *Report) {
	// DataReader
	if fn, err := c.Func(modV2, "Reader", "DataReader"); err != nil {
		r.InfraFail("%v", err)
	} else {
		key := "window@" + fnKey(fn)
		bad := "io.NewSectionReader(r.r, DataOffset, DataSize) not found"
		for _, ci := range callsToFunc(fn, "io", "", "NewSectionReader") {
			a := ci.Common().Args
			f1, _ := fieldOfLoad(canon(a[1]))
			f2, _ := fieldOfLoad(canon(a[2]))
			switch {
			case !loadsField(canon(stripIface(a[0])), modV2, "Reader", "r"):
				bad = "the section reader is not over the reader's backing file"
			case f1 == nil || f1.Name() != "DataOffset" || f2 == nil || f2.Name() != "DataSize":
				bad = "the payload window is not (Header.DataOffset, Header.DataSize)"
			default:
				bad = ""
			}
		}
		r.Check(bad == "", key, c.Pos(fn.Pos()), "v2 payload = SectionReader(r.r, DataOffset, DataSize)", bad)
	}
	if fn, err := c.Func(modV2, "Reader", "IndexReader"); err != nil {
		r.InfraFail("%v", err)
	} else {
		key := "window@" + fnKey(fn)
		bad := "NewOffsetReadSeeker(r.r, IndexOffset) not found"
		for _, ci := range callsToFunc(fn, pkgIntIO, "", "NewOffsetReadSeeker") {
			a := ci.Common().Args
			f1, _ := fieldOfLoad(canon(a[1]))
			switch {
			case !loadsField(canon(stripIface(a[0])), modV2, "Reader", "r"):
				bad = "the index reader is not over the reader's backing file"
			case f1 == nil || f1.Name() != "IndexOffset":
				bad = "the index reader does not start at Header.IndexOffset"
			default:
				bad = ""
			}
		}
		r.Check(bad == "", key, c.Pos(fn.Pos()), "index = OffsetReadSeeker(r.r, IndexOffset)", bad)
	}
}

var _ = ssa.Value(nil)

// ruleR10e: which header fields can decide the outcome of ExtractV1File.
func ruleR10e(c *Ctx, r *Report) {
	fn, err := c.Func(modV2, "", "ExtractV1File")
	if err != nil {
		r.InfraFail("%v", err)
		return
	}
	key := "header-fields-used@" + fnKey(fn)
	used := map[string]string{}
	seen := map[*ssa.Function]bool{}
	var visit func(f *ssa.Function, depth int)
	visit = func(f *ssa.Function, depth int) {
		if seen[f] || depth > 3 {
			return
		}
		seen[f] = true
		for _, g := range withAnon(f) {
			eachInstr(g, func(in ssa.Instruction) {
				switch x := in.(type) {
				case *ssa.FieldAddr:
					if isNamed(x.X.Type(), modV2, "Header") || isNamed(derefType(x.X.Type()), modV2, "Header") {
						if fv := fieldVar(x.X.Type(), x.Field); fv != nil {
							if _, ok := used[fv.Name()]; !ok {
								used[fv.Name()] = c.Pos(x.Pos())
							}
						}
					}
				case *ssa.Field:
					if isNamed(x.X.Type(), modV2, "Header") {
						if fv := fieldVar(x.X.Type(), x.Field); fv != nil {
							if _, ok := used[fv.Name()]; !ok {
								used[fv.Name()] = c.Pos(x.Pos())
							}
						}
					}
				case ssa.CallInstruction:
					cf := calleeFunc(x.Common())
					if cf == nil || funcIs(cf, modV2, "Header", "ReadFrom") {
						return
					}
					if _, rn := recvTypeName(cf); rn == "Header" && cf.Pkg() != nil && cf.Pkg().Path() == modV2 {
						if callee := c.Prog.FuncValue(cf); callee != nil {
							visit(callee, depth+1)
						}
					}
				}
			})
		}
	}
	visit(fn, 0)
	var bad []string
	for f, pos := range used {
		if f != "DataOffset" && f != "DataSize" {
			bad = append(bad, fmt.Sprintf("Header.%s (read at %s)", f, pos))
		}
	}
	sort.Strings(bad)
	if len(used) == 0 {
		r.Undec(key, c.Pos(fn.Pos()), "no header field read found")
		return
	}
	r.Check(len(bad) == 0, key, c.Pos(fn.Pos()), "only DataOffset and DataSize are read",
		"extraction also reads "+strings.Join(bad, ", ")+": the payload of an archive without index (IndexOffset 0) or with unusual characteristics must extract exactly like any other")
}

func derefType(t types.Type) types.Type {
	if p, ok := t.Underlying().(*types.Pointer); ok {
		return p.Elem()
	}
	return t
}

func ruleR10i(c *Ctx, r *Report) {
	fn, err := c.Func(modV2, "Reader", "DataReader")
	if err != nil {
		r.InfraFail("%v", err)
		return
	}
	key := "fresh-reader@" + fnKey(fn)
	bad := ""
	n := 0
	for _, ret := range returnsOf(fn) {
		if len(ret.Results) == 0 || resultIsNilConst(ret, 0) {
			continue
		}
		for _, o := range origins(retResult(ret, 0), originOpts{}) {
			switch o.Kind {
			case "call":
				n++
			case "const":
			default:
				bad = fmt.Sprintf("the reader returned at %s comes from %s (not from a constructor called here): every caller then shares one read position", c.Pos(ret.Pos()), o.Kind)
			}
		}
	}
	if bad == "" && n == 0 {
		bad = "no constructor result returned"
	}
	r.Check(bad == "", key, c.Pos(fn.Pos()), fmt.Sprintf("%d constructor result(s) returned", n), bad)
}

func ruleR10j(c *Ctx, r *Report) {
	fn, err := c.Func(modV2, "", "WrapV1File")
	if err != nil {
		r.InfraFail("%v", err)
		return
	}
	key := "wrap-destination@" + fnKey(fn)
	creates := callsToFunc(fn, "os", "", "Create")
	opens := callsToFunc(fn, "os", "", "OpenFile")
	truncs := callsToFunc(fn, "os", "File", "Truncate")
	bad := ""
	switch {
	case len(creates) > 0:
	case len(opens) > 0:
		for _, o := range opens {
			fl, isK := constInt(o.Common().Args[1])
			if (!isK || fl&oTRUNC == 0) && len(truncs) == 0 {
				bad = fmt.Sprintf("the destination is opened at %s without O_TRUNC and never trimmed: what a longer pre-existing file held stays behind the index", c.Pos(o.Pos()))
			}
		}
	default:
		bad = "no os.Create / os.OpenFile of the destination found"
	}
	r.Check(bad == "", key, c.Pos(fn.Pos()), "destination created truncating", bad)
}

func ruleR10k(c *Ctx, r *Report) {
	n := 0
	var bad []string
	for _, fn := range c.RepoFuncs() {
		for _, h := range headerWriteCalls(fn) {
			ld, ok := h.Common().Args[0].(*ssa.UnOp)
			if !ok {
				continue
			}
			al, ok := ld.X.(*ssa.Alloc)
			if !ok {
				continue
			}
			n++
			after := reach(fn, h.Block(), nil)
			for _, ref := range *al.Referrers() {
				fa, ok := ref.(*ssa.FieldAddr)
				if !ok {
					continue
				}
				for _, st := range storesTo(fa) {
					later := after[st.Block()] && (st.Block() != h.Block() || instrIndex(st) > instrIndex(h.(ssa.Instruction)))
					if st.Block() == h.Block() && instrIndex(st) < instrIndex(h.(ssa.Instruction)) {
						// same block, earlier: only later if the block is in a loop
						later = false
					}
					if !later {
						continue
					}
					// written again afterwards?
					again := false
					for _, h2 := range headerWriteCalls(fn) {
						if h2 == h {
							continue
						}
						if ld2, ok := h2.Common().Args[0].(*ssa.UnOp); ok && ld2.X == ssa.Value(al) && reach(fn, st.Block(), nil)[h2.Block()] {
							again = true
						}
					}
					if !again {
						fv := fieldVar(fa.X.Type(), fa.Field)
						bad = append(bad, fmt.Sprintf("%s assigns Header.%s at %s after the header was written at %s", fnKey(fn), fv.Name(), c.Pos(st.Pos()), c.Pos(h.Pos())))
					}
				}
			}
		}
	}
	sort.Strings(bad)
	r.Check(len(bad) == 0, "header-final-when-written@repository", "-", fmt.Sprintf("%d header writes from local header values, none modified afterwards", n),
		strings.Join(bad, "; ")+": the bytes on disk announce what the header said before the assignment")
}
