package main

// API canonicalisation: before anything else the normaliser rewrites calls into the standard library
// that are, by the library's own documentation, another spelling of the call the rules know:
//
//	io.ReadAtLeast(r, b, len(b))                     -> io.ReadFull(r, b)            (ReadFull's definition)
//	bytes.Compare(a, b) == 0 / != 0                  -> bytes.Equal(a, b) / !bytes.Equal(a, b)
//	os.OpenFile(p, os.O_RDONLY, 0)                   -> os.Open(p)                   (Open's definition)
//	os.OpenFile(p, O_RDWR|O_CREATE|O_TRUNC, 0666)    -> os.Create(p)                 (Create's definition)
//	&io.LimitedReader{R: r, N: n}                    -> io.LimitReader(r, n)         (where an io.Reader is wanted)
//	slices.Delete(s, i, j)                           -> append(s[:i], s[j:]...)
//	slices.Concat(lit, s)                            -> append(lit, s...)            (lit a composite literal)
//	x = cmp.Or(x, d)                                 -> if x == 0 { x = d }          (x of an integer type)
//	K == x, K < x (K a constant, nil, or pkg.Var)     -> x == K, x > K                (the constant stands on the right)
//	return cmp.Or(f(), g())  (result type error)     -> for _, e := range []error{f(), g()} { if e != nil { return e } }; return nil
//
// Every rewrite keeps the evaluation order and the line structure of the file; the result is
// type-checked like every other rewrite and abandoned if it does not load. On the pinned tree
// nothing matches.

import (
	"fmt"
	"go/ast"
	"go/constant"
	"go/token"
	"go/types"
	"os"
	"strings"

	"golang.org/x/tools/go/packages"
)

func canonicaliseAPIs(fset *token.FileSet, pkgs []*packages.Package, overlay map[string][]byte) (map[string][]byte, []string, error) {
	out := map[string][]byte{}
	var log []string
	for _, p := range pkgs {
		if !isRepoPkg(p.PkgPath) || p.TypesInfo == nil {
			continue
		}
		info := p.TypesInfo
		for _, f := range p.Syntax {
			tf := fset.File(f.Pos())
			if tf == nil {
				continue
			}
			fname := tf.Name()
			if strings.HasSuffix(fname, "_test.go") {
				continue
			}
			src, ok := overlay[fname]
			if !ok {
				var err error
				src, err = os.ReadFile(fname)
				if err != nil {
					return nil, nil, err
				}
			}
			off := func(pos token.Pos) int { return fset.PositionFor(pos, false).Offset }
			text := func(a, b token.Pos) string { return string(src[off(a):off(b)]) }
			nls := func(a, b token.Pos) int { return strings.Count(text(a, b), "\n") }
			pad := func(n int) string {
				if n == 0 {
					return ""
				}
				return "," + strings.Repeat("\n", n)
			}
			pkgFunc := func(e ast.Expr) (string, string) {
				sel, ok := ast.Unparen(e).(*ast.SelectorExpr)
				if !ok {
					return "", ""
				}
				if fn, ok := info.Uses[sel.Sel].(*types.Func); ok && fn.Pkg() != nil && fn.Type().(*types.Signature).Recv() == nil {
					return fn.Pkg().Path(), fn.Name()
				}
				return "", ""
			}
			qual := func(e ast.Expr) string { // the package qualifier as written ("io", "stdio", ...)
				sel := ast.Unparen(e).(*ast.SelectorExpr)
				return text(sel.X.Pos(), sel.X.End())
			}
			constVal := func(e ast.Expr) (int64, bool) {
				tv, ok := info.Types[e]
				if !ok || tv.Value == nil {
					return 0, false
				}
				return constant.Int64Val(constant.ToInt(tv.Value))
			}
			var eds []textEdit
			dropped := map[string]string{} // package path -> a dummy use that keeps its import alive
			covered := func(a, b token.Pos) bool {
				for _, e := range eds {
					if off(a) < e.end && e.start < off(b) {
						return true
					}
				}
				return false
			}
			// &io.LimitedReader{R: r, N: n} handed to something that wants an interface value
			wantsIface := map[ast.Expr]bool{}
			ast.Inspect(f, func(n ast.Node) bool {
				switch x := n.(type) {
				case *ast.CallExpr:
					if sig, ok := info.TypeOf(x.Fun).(*types.Signature); ok {
						for i, a := range x.Args {
							var pt types.Type
							switch {
							case sig.Variadic() && i >= sig.Params().Len()-1:
								if sl, ok := sig.Params().At(sig.Params().Len() - 1).Type().(*types.Slice); ok {
									pt = sl.Elem()
								}
							case i < sig.Params().Len():
								pt = sig.Params().At(i).Type()
							}
							if pt != nil && types.IsInterface(pt) {
								wantsIface[ast.Unparen(a)] = true
							}
						}
					}
				case *ast.AssignStmt:
					if x.Tok == token.ASSIGN && len(x.Lhs) == len(x.Rhs) {
						for i, l := range x.Lhs {
							if t := info.TypeOf(l); t != nil && types.IsInterface(t) {
								wantsIface[ast.Unparen(x.Rhs[i])] = true
							}
						}
					}
				}
				return true
			})
			ast.Inspect(f, func(n ast.Node) bool {
				switch x := n.(type) {
				case *ast.UnaryExpr:
					if x.Op != token.AND || !wantsIface[x] {
						return true
					}
					cl, ok := ast.Unparen(x.X).(*ast.CompositeLit)
					if !ok || len(cl.Elts) != 2 {
						return true
					}
					nt, ok := info.TypeOf(cl).(*types.Named)
					if !ok || nt.Obj().Pkg() == nil || nt.Obj().Pkg().Path() != "io" || nt.Obj().Name() != "LimitedReader" {
						return true
					}
					var rr, nn ast.Expr
					for _, el := range cl.Elts {
						kv, ok := el.(*ast.KeyValueExpr)
						if !ok {
							return true
						}
						switch k := kv.Key.(*ast.Ident); k.Name {
						case "R":
							rr = kv.Value
						case "N":
							nn = kv.Value
						}
					}
					if rr == nil || nn == nil || rr.Pos() > nn.Pos() {
						return true
					}
					sel, ok := cl.Type.(*ast.SelectorExpr)
					if !ok {
						return true
					}
					eds = append(eds, textEdit{off(x.Pos()), off(x.End()), text(sel.X.Pos(), sel.X.End()) + ".LimitReader(" + text(rr.Pos(), rr.End()) + ", " + text(nn.Pos(), nn.End()) + pad(nls(x.Pos(), x.End())) + ")"})
					log = append(log, fmt.Sprintf("canonical form: &io.LimitedReader{R, N} -> io.LimitReader at %s", fset.Position(x.Pos())))
					return false
				case *ast.AssignStmt:
					// x = cmp.Or(x, d)
					if x.Tok != token.ASSIGN || len(x.Lhs) != 1 || len(x.Rhs) != 1 {
						return true
					}
					call, ok := ast.Unparen(x.Rhs[0]).(*ast.CallExpr)
					if !ok || len(call.Args) != 2 {
						return true
					}
					if pp, fn := pkgFunc(call.Fun); pp != "cmp" || fn != "Or" {
						return true
					}
					lhs := text(x.Lhs[0].Pos(), x.Lhs[0].End())
					if text(call.Args[0].Pos(), call.Args[0].End()) != lhs || !pureExpr(x.Lhs[0]) {
						return true
					}
					if b, ok := info.TypeOf(x.Lhs[0]).Underlying().(*types.Basic); !ok || b.Info()&types.IsInteger == 0 {
						return true
					}
					d := text(call.Args[1].Pos(), call.Args[1].End())
					if !pureExpr(call.Args[1]) {
						return true // cmp.Or evaluates d in any case
					}
					eds = append(eds, textEdit{off(x.Pos()), off(x.End()), "if " + lhs + " == 0 { " + lhs + " = " + d + strings.Repeat("\n", nls(x.Pos(), x.End())) + " }"})
					dropped["cmp"] = "var _ = " + qual(call.Fun) + ".Compare[int]"
					log = append(log, fmt.Sprintf("canonical form: %s = cmp.Or(%s, d) -> if-zero default at %s", lhs, lhs, fset.Position(x.Pos())))
					return false
				case *ast.ReturnStmt:
					if len(x.Results) != 1 {
						return true
					}
					call, ok := ast.Unparen(x.Results[0]).(*ast.CallExpr)
					if !ok || len(call.Args) < 2 {
						return true
					}
					if pp, fn := pkgFunc(call.Fun); pp != "cmp" || fn != "Or" {
						return true
					}
					if !types.Identical(info.TypeOf(x.Results[0]), types.Universe.Lookup("error").Type()) {
						return true
					}
					var as []string
					for _, a := range call.Args {
						as = append(as, text(a.Pos(), a.End()))
					}
					eds = append(eds, textEdit{off(x.Pos()), off(x.End()), "for _, _cerr := range []error{" + strings.Join(as, ", ") + pad(nls(x.Pos(), x.End())) + "} { if _cerr != nil { return _cerr } }; return nil"})
					dropped["cmp"] = "var _ = " + qual(call.Fun) + ".Compare[int]"
					log = append(log, fmt.Sprintf("canonical form: return cmp.Or(errors...) -> first non-nil loop at %s", fset.Position(x.Pos())))
					return false
				case *ast.BinaryExpr:
					// the constant of a comparison stands on the right: `nil == x`, `0 < n`, `io.EOF == err`
					if mir, isCmp := map[token.Token]token.Token{token.EQL: token.EQL, token.NEQ: token.NEQ, token.LSS: token.GTR, token.GTR: token.LSS, token.LEQ: token.GEQ, token.GEQ: token.LEQ}[x.Op]; isCmp && !covered(x.Pos(), x.End()) {
						rank := func(e ast.Expr) int {
							e = ast.Unparen(e)
							if tv, ok := info.Types[e]; ok && (tv.Value != nil || tv.IsNil()) {
								return 2
							}
							if sel, ok := e.(*ast.SelectorExpr); ok {
								if id, ok := sel.X.(*ast.Ident); ok {
									if _, isPkg := info.Uses[id].(*types.PkgName); isPkg {
										if _, isVar := info.Uses[sel.Sel].(*types.Var); isVar {
											return 1 // a package-level variable of another package (io.EOF)
										}
									}
								}
							}
							return 0
						}
						_, lcall := ast.Unparen(x.X).(*ast.CallExpr)
						_, rcall := ast.Unparen(x.Y).(*ast.CallExpr)
						if rank(x.X) > rank(x.Y) && !lcall && !rcall && nls(x.Pos(), x.End()) == 0 {
							eds = append(eds, textEdit{off(x.Pos()), off(x.End()), text(x.Y.Pos(), x.Y.End()) + " " + mir.String() + " " + text(x.X.Pos(), x.X.End())})
							log = append(log, fmt.Sprintf("canonical form: constant operand of %s moved to the right at %s", x.Op, fset.Position(x.Pos())))
							return false
						}
					}
					// bytes.Compare(a, b) == 0 / != 0 (either side)
					if x.Op != token.EQL && x.Op != token.NEQ {
						return true
					}
					var call *ast.CallExpr
					var zero ast.Expr
					if c1, ok := ast.Unparen(x.X).(*ast.CallExpr); ok {
						call, zero = c1, x.Y
					} else if c2, ok := ast.Unparen(x.Y).(*ast.CallExpr); ok {
						call, zero = c2, x.X
					}
					if call == nil || len(call.Args) != 2 {
						return true
					}
					if pp, fn := pkgFunc(call.Fun); pp != "bytes" || fn != "Compare" {
						return true
					}
					if k, ok := constVal(zero); !ok || k != 0 {
						return true
					}
					neg := ""
					if x.Op == token.NEQ {
						neg = "!"
					}
					a, b := text(call.Args[0].Pos(), call.Args[0].End()), text(call.Args[1].Pos(), call.Args[1].End())
					eds = append(eds, textEdit{off(x.Pos()), off(x.End()), neg + qual(call.Fun) + ".Equal(" + a + ", " + b + pad(nls(x.Pos(), x.End())) + ")"})
					log = append(log, fmt.Sprintf("canonical form: bytes.Compare %s 0 -> %sbytes.Equal at %s", x.Op, neg, fset.Position(x.Pos())))
					return false
				case *ast.CallExpr:
					if covered(x.Pos(), x.End()) {
						return false
					}
					pp, fn := pkgFunc(x.Fun)
					switch {
					case pp == "io" && fn == "ReadAtLeast" && len(x.Args) == 3:
						// third argument len(<second argument>)
						lc, ok := ast.Unparen(x.Args[2]).(*ast.CallExpr)
						if !ok || len(lc.Args) != 1 {
							return true
						}
						if id, ok := lc.Fun.(*ast.Ident); !ok || id.Name != "len" || info.Uses[id] != types.Universe.Lookup("len") {
							return true
						}
						lenOf, buf := text(lc.Args[0].Pos(), lc.Args[0].End()), text(x.Args[1].Pos(), x.Args[1].End())
						if (lenOf != buf && lenOf+"[:]" != buf) || !pureExpr(x.Args[1]) {
							return true // len(b) for b, or for b[:] of an array (or pointer to array) b
						}
						eds = append(eds, textEdit{off(x.Pos()), off(x.End()), qual(x.Fun) + ".ReadFull(" + text(x.Args[0].Pos(), x.Args[0].End()) + ", " + text(x.Args[1].Pos(), x.Args[1].End()) + pad(nls(x.Pos(), x.End())) + ")"})
						log = append(log, fmt.Sprintf("canonical form: io.ReadAtLeast(r, b, len(b)) -> io.ReadFull at %s", fset.Position(x.Pos())))
						return false
					case pp == "os" && fn == "OpenFile" && len(x.Args) == 3:
						flag, ok1 := constVal(x.Args[1])
						perm, ok2 := constVal(x.Args[2])
						if !ok1 || !ok2 {
							return true
						}
						name := ""
						switch {
						case flag == int64(os.O_RDONLY) && perm == 0:
							name = "Open"
						case flag == int64(os.O_RDWR|os.O_CREATE|os.O_TRUNC) && perm == 0o666:
							name = "Create"
						default:
							return true
						}
						eds = append(eds, textEdit{off(x.Pos()), off(x.End()), qual(x.Fun) + "." + name + "(" + text(x.Args[0].Pos(), x.Args[0].End()) + pad(nls(x.Pos(), x.End())) + ")"})
						log = append(log, fmt.Sprintf("canonical form: os.OpenFile(...) -> os.%s at %s", name, fset.Position(x.Pos())))
						return false
					case pp == "slices" && fn == "Delete" && len(x.Args) == 3:
						s, i, j := x.Args[0], x.Args[1], x.Args[2]
						if !pureExpr(s) || !pureExpr(i) || !pureExpr(j) {
							return true
						}
						st := text(s.Pos(), s.End())
						eds = append(eds, textEdit{off(x.Pos()), off(x.End()), "append(" + st + "[:" + text(i.Pos(), i.End()) + "], " + st + "[" + text(j.Pos(), j.End()) + ":]..." + pad(nls(x.Pos(), x.End())) + ")"})
						dropped["slices"] = "var _ = " + qual(x.Fun) + ".Contains[[]int]"
						log = append(log, fmt.Sprintf("canonical form: slices.Delete -> append splice at %s", fset.Position(x.Pos())))
						return false
					case pp == "slices" && fn == "Concat" && len(x.Args) == 2 && !x.Ellipsis.IsValid():
						if _, isLit := ast.Unparen(x.Args[0]).(*ast.CompositeLit); !isLit {
							return true
						}
						eds = append(eds, textEdit{off(x.Pos()), off(x.End()), "append(" + text(x.Args[0].Pos(), x.Args[0].End()) + ", " + text(x.Args[1].Pos(), x.Args[1].End()) + "..." + pad(nls(x.Pos(), x.End())) + ")"})
						dropped["slices"] = "var _ = " + qual(x.Fun) + ".Contains[[]int]"
						log = append(log, fmt.Sprintf("canonical form: slices.Concat(literal, s) -> append at %s", fset.Position(x.Pos())))
						return false
					}
				}
				return true
			})
			if len(eds) == 0 {
				continue
			}
			// nested rewrites (a rewritten call inside a rewritten expression) are left for the next load
			var flat []textEdit
			for i, e := range eds {
				inner := false
				for j, o := range eds {
					if i != j && o.start <= e.start && e.end <= o.end && !(o.start == e.start && o.end == e.end && j > i) {
						inner = true
					}
				}
				if !inner {
					flat = append(flat, e)
				}
			}
			nb, err := applyEdits(src, flat)
			if err != nil {
				return nil, nil, fmt.Errorf("%s: %v", fname, err)
			}
			for _, d := range dropped {
				nb = append(nb, []byte("\n"+d+"\n")...)
			}
			out[fname] = nb
		}
	}
	if len(out) == 0 {
		return nil, nil, nil
	}
	return out, log, nil
}
