package main

import (
	"fmt"
	"go/token"
	"go/types"
	"sort"
	"strings"

	"golang.org/x/tools/go/ssa"
)

func init() {
	register(PropertyDef{
		ID: "C20",
		Explanation: "Decided statically: (R20a) laziness — in package deferred the only calls that create a file or a CAR writer (os.OpenFile/os.Create/storage.NewWritable) are in the " +
			"helper writer(), behind the `dcw.w == nil` outcome; writer() is reached only from Put, and from Has behind `dcw.w != nil`; constructors, OnPut, BlockWriteOpener and " +
			"Close reach no creation (Close touches the writer and the file only behind their non-nil tests); (R20b) delegation — Put hands its key and content parameters " +
			"unchanged to the underlying writer's Put; the writer is NewWritable(the caller's stream or the file opened from the caller's path, the caller's roots, the caller's " +
			"options...), the stream constructor prepends WriteAsCarV1(true), the file is opened with constant flags containing O_CREATE and O_TRUNC and neither O_APPEND nor " +
			"O_EXCL; (R20c) every return of Close leaves the writer closed, every operation tests closed first, callbacks receive len(content) and a once-only callback is " +
			"removed by an order-preserving splice. NOT decided: byte identity with a direct writer (follows from R20b given C01, not checked as bytes); callback order over all " +
			"registration interleavings.",
		Assumptions: []string{"storage.NewWritable writes its header when constructed (that is the 'first write' the laziness clause is about)"},
		Rules: []RuleDef{
			{ID: "R20a", Floor: 4, Doc: "creation only in writer() behind w == nil; writer() only from Put and guarded Has; nothing else creates", Run: ruleR20a},
			{ID: "R20b", Floor: 4, Doc: "Put delegates its parameters unchanged; writer built from constructor inputs; open flags", Run: ruleR20b},
			{ID: "R20c", Floor: 3, Doc: "Close leaves closed on every return; callbacks get len(content); once-only removal keeps order", Run: ruleR20c},
			{ID: "R20d", Floor: 1, Doc: "OnPut registers every callback it is given, whenever it is called: no return of OnPut bypasses the append to the callback list", Run: ruleR20d},
			{ID: "R20e", Floor: 1, Doc: "Close finalizes whatever writer exists: from `w != nil` the call of w.Finalize is unavoidable (whether the output is a CARv1 or a CARv2 is the writer's business, decided by the same options the direct writer gets)", Run: ruleR20e},
			{ID: "R20f", Floor: 1, Doc: "DeferredCarWriter.Put answers with what the underlying writer's Put answers: it has no `return nil` of its own (a put that is acknowledged here without reaching the writer is a block missing from the CAR)", Run: ruleR20f},
			{ID: "R20g", Floor: 2, Doc: "the deferred writer hands the direct writer exactly the roots it was given: the constructors store their roots parameter itself (a rebuilt list turns nil into empty, and the header encodes the two differently)", Run: ruleR20g},
			{ID: "R20h", Floor: 1, Doc: "OnPut can be called from inside a Put callback: Put runs the callbacks while holding the writer's lock, so OnPut must not acquire it", Run: ruleR20h},
			{ID: "R20i", Floor: 1, Doc: "the path constructor treats every path as a file name: NewDeferredCarWriterForPath stores its path parameter as given, compares it with nothing and never hands over to the stream constructor", Run: ruleR20i},
			{ID: "R20j", Floor: 3, Doc: "the deferred writer adds no state and no checks of its own to a put: no error is kept in a field of DeferredCarWriter, and Put / Has pass their context on without consulting it (the direct writer does neither)", Run: ruleR20j},
			{ID: "R20l", Floor: 20, Doc: "an option constructor sets the one option it is named after: the overridable default the stream constructor prepends leaves nothing else behind (= R04i)", Run: ruleR04i},
			{ID: "R20m", Floor: 1, Doc: "the deferred writer keeps no state of its own beyond the pinned fields (= R08s)", Run: ruleR08s},
			{ID: "R20n", Floor: 1, Doc: "every stream writer starts from WriteAsCarV1(true), whatever its stream is: the constructor prepends the default on every path and does not inspect the stream's dynamic type", Run: ruleR20n},
			{ID: "R20o", Floor: 1, Doc: "what DeferredCarWriter.Put does does not depend on the length of the content: an empty block notifies the listeners like any other", Run: ruleR20o},
			{ID: "R20p", Floor: 1, Doc: "Put calls the callbacks that were registered, each once per Put, in order: the entry is read by value before the once-only removal splices the list", Run: ruleR20p},
			{ID: "R20q", Floor: 1, Doc: "after a once-only callback was spliced out, the loop over the callbacks looks at the same slot again (i--, or no increment): the entry behind it is not skipped", Run: ruleR20q},
			{ID: "R20r", Floor: 1, Doc: "what a deferred writer was constructed with stays what it writes with: roots, options, path and stream of a DeferredCarWriter are stored by its constructors only (on the freshly allocated object), never by Put, writer or Close — so the header that goes out at the first Put is the one a directly constructed writer with the same roots and options writes", Run: ruleR20r},
		},
	})
}

func isCreationCall(f *types.Func) bool {
	return funcIs(f, "os", "", "OpenFile") || funcIs(f, "os", "", "Create") || funcIs(f, pkgStorage, "", "NewWritable") ||
		funcIs(f, pkgStorage, "", "NewReadableWritable") || funcIs(f, pkgStorage, "", "OpenReadableWritable") || funcIs(f, "os", "", "WriteFile")
}

func ruleR20a(c *Ctx, r *Report) {
	wfn, err := c.Func(pkgDeferred, "DeferredCarWriter", "writer")
	if err != nil {
		r.InfraFail("%v", err)
		return
	}
	wNil := cmpNilEdges(wfn, func(v ssa.Value) bool { return loadsField(canon(v), pkgDeferred, "DeferredCarWriter", "w") }, true)
	nCreate := 0
	for _, fn := range c.RepoFuncs() {
		if fn.Pkg == nil || fn.Pkg.Pkg.Path() != pkgDeferred {
			continue
		}
		eachInstr(fn, func(in ssa.Instruction) {
			ci, ok := in.(ssa.CallInstruction)
			if !ok {
				return
			}
			f := calleeFunc(ci.Common())
			if isCreationCall(f) {
				nCreate++
				key := fmt.Sprintf("creation@%s#%s", fnKey(fn), funcKey(f))
				switch {
				case fn != wfn:
					r.Viol(key, c.Pos(in.Pos()), funcKey(f)+" is called outside the lazy helper writer(): the file/stream is touched before the first Put")
				case len(wNil) == 0 || reach(wfn, nil, edgeSet(wNil))[in.Block()]:
					r.Viol(key, c.Pos(in.Pos()), funcKey(f)+" in writer() is not confined to the dcw.w == nil outcome")
				default:
					r.Hold(key, c.Pos(in.Pos()), "only in writer(), behind dcw.w == nil")
				}
			}
			// any direct write on the stream/file fields outside the CAR writer
			if f != nil && (f.Name() == "Write" || f.Name() == "WriteAt" || f.Name() == "Truncate") {
				for _, a := range callArgs(ci.Common())[:1] {
					if loadsField(canon(stripIface(a)), pkgDeferred, "DeferredCarWriter", "outStream") || loadsField(canon(stripIface(a)), pkgDeferred, "DeferredCarWriter", "f") {
						r.Viol(fmt.Sprintf("direct-write@%s", fnKey(fn)), c.Pos(in.Pos()), "the deferred writer writes to its stream/file directly")
					}
				}
			}
		})
	}
	r.Count("creation calls in package deferred", nCreate)
	// who calls writer()
	for _, fn := range c.RepoFuncs() {
		if fn.Pkg == nil || fn.Pkg.Pkg.Path() != pkgDeferred {
			continue
		}
		for _, ci := range callsToFunc(fn, pkgDeferred, "DeferredCarWriter", "writer") {
			key := "writer-call@" + fnKey(fn)
			switch fnKey(fn) {
			case "v2/storage/deferred.DeferredCarWriter.Put":
				r.Hold(key, c.Pos(ci.Pos()), "Put is the operation that may create")
			case "v2/storage/deferred.DeferredCarWriter.Has":
				nn := cmpNilEdges(fn, func(v ssa.Value) bool { return loadsField(canon(v), pkgDeferred, "DeferredCarWriter", "w") }, false)
				ok := len(nn) > 0 && !reach(fn, nil, edgeSet(nn))[ci.Block()]
				r.Check(ok, key, c.Pos(ci.Pos()), "behind dcw.w != nil", "Has reaches the lazy initialiser although nothing was put yet: a lookup creates the output file")
			default:
				r.Viol(key, c.Pos(ci.Pos()), fnKey(fn)+" calls writer(): it may create the output before the first Put")
			}
		}
	}
	// Close uses the writer / file only behind their non-nil tests
	if cl, err := c.Func(pkgDeferred, "DeferredCarWriter", "Close"); err == nil {
		key := "close-lazy@" + fnKey(cl)
		bad := ""
		for _, fld := range []string{"w", "f"} {
			fldc := fld
			nn := cmpNilEdges(cl, func(v ssa.Value) bool { return loadsField(canon(v), pkgDeferred, "DeferredCarWriter", fldc) }, false)
			eachInstr(cl, func(in ssa.Instruction) {
				ci, ok := in.(ssa.CallInstruction)
				if !ok {
					return
				}
				if _, isDefer := in.(*ssa.Defer); isDefer {
					return
				}
				for _, a := range callArgs(ci.Common()) {
					if loadsField(canon(stripIface(a)), pkgDeferred, "DeferredCarWriter", fldc) {
						if len(nn) == 0 || reach(cl, nil, edgeSet(nn))[in.Block()] {
							bad = "Close uses dcw." + fldc + " without the non-nil test"
						}
					}
				}
			})
		}
		r.Check(bad == "", key, c.Pos(cl.Pos()), "writer and file used only when they exist", bad)
	} else {
		r.InfraFail("%v", err)
	}
}

// cmpNilEdges: edges on which `x == nil` (isNil) or `x != nil` (!isNil) is established for a value satisfying pred.
func cmpNilEdges(fn *ssa.Function, pred func(ssa.Value) bool, isNil bool) []Edge {
	return condEdges(fn, func(base ssa.Value) (bool, bool) {
		b, ok := base.(*ssa.BinOp)
		if !ok || (b.Op.String() != "==" && b.Op.String() != "!=") {
			return false, false
		}
		var x ssa.Value
		switch {
		case isNilConst(b.Y):
			x = b.X
		case isNilConst(b.X):
			x = b.Y
		default:
			return false, false
		}
		if !pred(x) {
			return false, false
		}
		if b.Op.String() == "==" {
			return true, isNil
		}
		return true, !isNil
	})
}

func ruleR20b(c *Ctx, r *Report) {
	put, err := c.Func(pkgDeferred, "DeferredCarWriter", "Put")
	if err != nil {
		r.InfraFail("%v", err)
		return
	}
	{
		key := "delegation@" + fnKey(put)
		bad := "no delegation to the underlying writer's Put"
		eachInstr(put, func(in ssa.Instruction) {
			ci, ok := in.(*ssa.Call)
			if !ok || !ci.Common().IsInvoke() || ci.Common().Method.Name() != "Put" {
				return
			}
			a := ci.Common().Args
			switch {
			case len(a) != 3 || canon(a[1]) != ssa.Value(put.Params[2]) || canon(a[2]) != ssa.Value(put.Params[3]):
				bad = "Put does not hand its key and content parameters unchanged to the underlying writer"
			default:
				wc, wi := callOf(canon(ci.Common().Value))
				if wc == nil || wi != 0 || !funcIs(calleeFunc(wc.Common()), pkgDeferred, "DeferredCarWriter", "writer") {
					bad = "the writer Put delegates to is not the lazily created one"
				} else {
					bad = ""
				}
			}
		})
		r.Check(bad == "", key, c.Pos(put.Pos()), "writer().Put(ctx, key, content) with the parameters unchanged", bad)
	}
	{
		// once: a second hand-over behind the first (a retry) writes the section again behind whatever
		// part of it the failed attempt got out, which a directly constructed writer never does
		key := "delegation-once@" + fnKey(put)
		var dels []*ssa.Call
		eachInstr(put, func(in ssa.Instruction) {
			if ci, ok := in.(*ssa.Call); ok && ci.Common().IsInvoke() && ci.Common().Method.Name() == "Put" && len(ci.Common().Args) == 3 {
				dels = append(dels, ci)
			}
		})
		bad := ""
		for _, a := range dels {
			for _, b := range dels {
				if (a != b && instrReaches(a, b)) || (a == b && blockReaches(a.Block(), a.Block()) && inLoopWith(a.Block())) {
					bad = fmt.Sprintf("the hand-over at %s can be followed by the one at %s in the same call", c.Pos(a.Pos()), c.Pos(b.Pos()))
				}
			}
		}
		r.Check(bad == "", key, c.Pos(put.Pos()), "a Put hands its block to the underlying writer at most once", bad+": a section goes out in several writes, so a repeated hand-over leaves the fragment of the failed attempt in front of the section — the output is no longer what a directly constructed writer produces for the same puts (it reports the error)")
	}
	wfn, err := c.Func(pkgDeferred, "DeferredCarWriter", "writer")
	if err != nil {
		r.InfraFail("%v", err)
		return
	}
	{
		key := "writer-construction@" + fnKey(wfn)
		bad := ""
		nw := callsToFunc(wfn, pkgStorage, "", "NewWritable")
		opens := callsToFunc(wfn, "os", "", "OpenFile")
		if len(nw) != 1 || len(opens) != 1 {
			bad = "expected one NewWritable and one os.OpenFile"
		} else {
			a := nw[0].Common().Args
			// dcw.f read back behind the store of the file just opened is the opened file — on every
			// path: a read that a path reaches without passing the store sees whatever an earlier,
			// failed attempt left there
			var fStores []*ssa.Store
			eachInstr(wfn, func(in ssa.Instruction) {
				st, ok := in.(*ssa.Store)
				if !ok {
					return
				}
				fa, ok := st.Addr.(*ssa.FieldAddr)
				if !ok || !fieldAddrIs(fa, pkgDeferred, "DeferredCarWriter", "f") {
					return
				}
				for _, o := range origins(st.Val, originOpts{}) {
					if !(o.Kind == "call" && funcIs(o.Fn, "os", "", "OpenFile")) {
						return
					}
				}
				fStores = append(fStores, st)
			})
			fIsOpenedAt := func(v ssa.Value) bool {
				in, ok := v.(ssa.Instruction)
				if !ok {
					return false
				}
				for _, st := range fStores {
					if st.Block() == in.Block() && instrBefore(st, in) || st.Block() != in.Block() && st.Block().Dominates(in.Block()) {
						return true
					}
				}
				return false
			}
			for _, o := range origins(a[0], originOpts{}) {
				ok := (o.Kind == "field" && o.Field != nil && o.Field.Name() == "outStream") || (o.Kind == "call" && funcIs(o.Fn, "os", "", "OpenFile")) || (o.Kind == "const" && isNilConst(o.Val)) ||
					(o.Kind == "field" && o.Field != nil && o.Field.Name() == "f" && fIsOpenedAt(o.Val))
				if !ok {
					bad = "the CAR writer is not built over the caller's stream or the file opened from the caller's path"
				}
			}
			if bad == "" && !loadsField(canon(a[1]), pkgDeferred, "DeferredCarWriter", "roots") {
				bad = "the CAR writer is not given the caller's roots"
			}
			if bad == "" && !loadsField(canon(a[2]), pkgDeferred, "DeferredCarWriter", "opts") {
				bad = "the CAR writer is not given the caller's options"
			}
			if bad == "" && !loadsField(canon(opens[0].Common().Args[0]), pkgDeferred, "DeferredCarWriter", "outPath") {
				bad = "the file is not opened at the caller's path"
			}
			if bad == "" {
				fl, isK := constInt(opens[0].Common().Args[1])
				switch {
				case !isK:
					bad = "open flags are not constant"
				case fl&oCREATE == 0 || fl&oTRUNC == 0:
					bad = fmt.Sprintf("open flags %#x lack O_CREATE|O_TRUNC: an existing longer file keeps its stale tail, the output is not what a direct writer produces", fl)
				case fl&oAPPEND != 0 || fl&oEXCL != 0:
					bad = fmt.Sprintf("open flags %#x contain O_APPEND/O_EXCL", fl)
				case fl&(oWRONLY|oRDWR) == 0:
					bad = "file not opened for writing"
				}
			}
		}
		r.Check(bad == "", key, c.Pos(wfn.Pos()), "NewWritable(outStream | OpenFile(outPath, O_CREATE|O_TRUNC|O_WRONLY), roots, opts...)", bad)
	}
	// constructors store their parameters
	for _, name := range []string{"NewDeferredCarWriterForPath", "NewDeferredCarWriterForStream"} {
		fn, err := c.Func(pkgDeferred, "", name)
		if err != nil {
			r.InfraFail("%v", err)
			continue
		}
		key := "constructor@" + fnKey(fn)
		bad := ""
		want := map[string]int{"roots": 1, "opts": 2}
		if name == "NewDeferredCarWriterForPath" {
			want["outPath"] = 0
		} else {
			want["outStream"] = 0
		}
		seen := map[string]bool{}
		eachInstr(fn, func(in ssa.Instruction) {
			st, ok := in.(*ssa.Store)
			if !ok {
				return
			}
			fa, ok := st.Addr.(*ssa.FieldAddr)
			if !ok || !isNamed(fa.X.Type(), pkgDeferred, "DeferredCarWriter") {
				return
			}
			fname := fieldVar(fa.X.Type(), fa.Field).Name()
			pi, tracked := want[fname]
			if !tracked {
				// the zero value written explicitly (a shared constructor called with "" / nil for
				// the destination this constructor does not have) sets nothing
				if k, isK := canon(st.Val).(*ssa.Const); isK && (k.Value == nil || k.Value.ExactString() == `""` || k.Value.ExactString() == "0" || k.Value.ExactString() == "false") {
					return
				}
				bad = "constructor sets field " + fname
				return
			}
			seen[fname] = true
			okSrc := false
			for _, o := range origins(st.Val, originOpts{through: func(call *ssa.Call, f *types.Func) []ssa.Value {
				if b, isB := call.Call.Value.(*ssa.Builtin); isB && b.Name() == "append" {
					return call.Call.Args
				}
				return nil
			}}) {
				if o.Kind == "param" && o.Val == ssa.Value(fn.Params[pi]) {
					okSrc = true
				}
			}
			if !okSrc {
				bad = "field " + fname + " is not initialised from the corresponding constructor parameter"
			}
		})
		for f := range want {
			if !seen[f] && bad == "" {
				bad = "field " + f + " is not initialised"
			}
		}
		if bad == "" && name == "NewDeferredCarWriterForStream" {
			// the default is prepended into a fresh slice: append(opts, default) would write into the
			// caller's backing array and let a later option of the caller's be lost / reordered
			eachInstr(fn, func(in ssa.Instruction) {
				ci, ok := in.(*ssa.Call)
				if !ok {
					return
				}
				if b, isB := ci.Call.Value.(*ssa.Builtin); !isB || b.Name() != "append" {
					return
				}
				if canon(ci.Call.Args[0]) == ssa.Value(fn.Params[2]) {
					bad = "the default option is appended to the caller's own slice (append(opts, ...)): it is written into the caller's backing array and comes after the caller's options, so WriteAsCarV1(false) from the caller no longer overrides it and a later append by the caller overwrites it"
				}
			})
		}
		if bad == "" && name == "NewDeferredCarWriterForStream" {
			if len(callsToFunc(fn, modV2, "", "WriteAsCarV1")) != 1 {
				bad = "the stream constructor does not prepend WriteAsCarV1(true)"
			} else if k, ok := constBool(callsToFunc(fn, modV2, "", "WriteAsCarV1")[0].Common().Args[0]); !ok || !k {
				bad = "the stream constructor does not prepend WriteAsCarV1(true)"
			}
		}
		r.Check(bad == "", key, c.Pos(fn.Pos()), "fields initialised from the parameters only", bad)
	}
}

func ruleR20c(c *Ctx, r *Report) {
	checkFinalizerCloses(c, r, finalizerSpec{pkgDeferred, "DeferredCarWriter", "Close", closedFlag["DeferredCarWriter"]})
	put, err := c.Func(pkgDeferred, "DeferredCarWriter", "Put")
	if err != nil {
		r.InfraFail("%v", err)
		return
	}
	// the callback step may live in Put or in an unexported helper of the same type that Put calls
	type site struct {
		fn      *ssa.Function
		content func(ssa.Value) bool // is this value len(content)?
	}
	isLenOf := func(v, content ssa.Value) bool {
		lc, _ := callOf(canon(v))
		if lc == nil {
			return false
		}
		b, isB := lc.Call.Value.(*ssa.Builtin)
		return isB && b.Name() == "len" && canon(lc.Call.Args[0]) == content
	}
	sites := []site{{put, func(v ssa.Value) bool { return isLenOf(v, put.Params[3]) }}}
	eachInstr(put, func(in ssa.Instruction) {
		ci, ok := in.(*ssa.Call)
		if !ok {
			return
		}
		h := staticTarget(ci.Common())
		if h == nil || h.Blocks == nil || h.Pkg != put.Pkg || h.Signature.Recv() == nil {
			return
		}
		// which helper parameters receive len(content)?
		sizeParams := map[ssa.Value]bool{}
		for i, a := range ci.Call.Args {
			if isLenOf(a, put.Params[3]) && i < len(h.Params) {
				sizeParams[h.Params[i]] = true
			}
		}
		sites = append(sites, site{h, func(v ssa.Value) bool { return sizeParams[canon(v)] }})
	})
	// callbacks receive len(content)
	{
		key := "callback-arg@" + fnKey(put)
		bad := "no callback invocation found"
		for _, st := range sites {
			eachInstr(st.fn, func(in ssa.Instruction) {
				ci, ok := in.(*ssa.Call)
				if !ok || ci.Common().IsInvoke() || staticTarget(ci.Common()) != nil {
					return
				}
				if _, isB := ci.Common().Value.(*ssa.Builtin); isB {
					return
				}
				if len(ci.Call.Args) != 1 || !isIntegral(ci.Call.Args[0].Type()) {
					return
				}
				if st.content(ci.Call.Args[0]) {
					bad = ""
				} else {
					bad = "a put callback is invoked with something other than len(content)"
				}
			})
		}
		r.Check(bad == "", key, c.Pos(put.Pos()), "cb(len(content))", bad)
	}
	// once-only removal: putCb = append(putCb[:i], putCb[i+1:]...)
	{
		key := "once-removal@" + fnKey(put)
		bad := "no removal of once-only callbacks found"
		for _, st := range sites {
			eachInstr(st.fn, func(in ssa.Instruction) {
				sto, ok := in.(*ssa.Store)
				if !ok {
					return
				}
				fa, ok := sto.Addr.(*ssa.FieldAddr)
				if !ok || !fieldAddrIs(fa, pkgDeferred, "DeferredCarWriter", "putCb") {
					return
				}
				ac, _ := callOf(canon(sto.Val))
				if ac == nil {
					bad = "putCb is reassigned from something other than an append"
					return
				}
				if b, isB := ac.Call.Value.(*ssa.Builtin); !isB || b.Name() != "append" {
					bad = "putCb is reassigned from something other than an append"
					return
				}
				s0, ok0 := ac.Call.Args[0].(*ssa.Slice)
				s1, ok1 := ac.Call.Args[1].(*ssa.Slice)
				if !ok0 || !ok1 || s0.High == nil || s1.Low == nil || s1.High != nil || s0.Low != nil {
					bad = "a once-only callback is not removed by the order-preserving splice append(cbs[:i], cbs[i+1:]...): the remaining callbacks change order"
					return
				}
				env := &AffEnv{}
				if !env.of(s1.Low).add(env.of(s0.High), -1).equal(Aff{K: 1}) {
					bad = "the splice does not remove exactly element i"
					return
				}
				bad = ""
			})
		}
		r.Check(bad == "", key, c.Pos(put.Pos()), "append(putCb[:i], putCb[i+1:]...)", bad)
	}
}

func ruleR20d(c *Ctx, r *Report) {
	fn, err := c.Func(pkgDeferred, "DeferredCarWriter", "OnPut")
	if err != nil {
		r.InfraFail("%v", err)
		return
	}
	key := "registers-always@" + fnKey(fn)
	var reg *ssa.Store
	eachInstr(fn, func(in ssa.Instruction) {
		st, ok := in.(*ssa.Store)
		if !ok {
			return
		}
		fa, ok := st.Addr.(*ssa.FieldAddr)
		if !ok || !fieldAddrIs(fa, pkgDeferred, "DeferredCarWriter", "putCb") {
			return
		}
		if cl, ok := st.Val.(*ssa.Call); ok {
			if b, ok := cl.Call.Value.(*ssa.Builtin); ok && b.Name() == "append" {
				reg = st
			}
		}
	})
	if reg == nil {
		r.Undec(key, c.Pos(fn.Pos()), "the append to putCb was not found")
		return
	}
	cut := EdgeSet{}
	for _, b := range fn.Blocks {
		for i, sc := range b.Succs {
			if sc == reg.Block() {
				cut[Edge{From: b, Succ: i}] = true
			}
		}
	}
	bad := ""
	if reg.Block() != fn.Blocks[0] {
		rs := reach(fn, nil, cut)
		for _, ret := range returnsOf(fn) {
			if rs[ret.Block()] && ret.Block() != reg.Block() {
				bad = fmt.Sprintf("OnPut can return at %s without having registered the callback: a callback registered in that state never fires", c.Pos(ret.Pos()))
			}
		}
	}
	r.Check(bad == "", key, c.Pos(reg.Pos()), "every return passes the registration", bad)
}

func ruleR20e(c *Ctx, r *Report) {
	fn, err := c.Func(pkgDeferred, "DeferredCarWriter", "Close")
	if err != nil {
		r.InfraFail("%v", err)
		return
	}
	key := "close-finalizes@" + fnKey(fn)
	var fin ssa.Instruction
	eachInstr(fn, func(in ssa.Instruction) {
		if ci, ok := in.(ssa.CallInstruction); ok && ci.Common().IsInvoke() && ci.Common().Method.Name() == "Finalize" {
			fin = in
		}
	})
	nonNil := cmpNilEdges(fn, func(v ssa.Value) bool { return loadsField(canon(v), pkgDeferred, "DeferredCarWriter", "w") }, false)
	if fin == nil || len(nonNil) == 0 {
		r.Viol(key, c.Pos(fn.Pos()), "Close does not call Finalize on the writer behind a `w != nil` test")
		return
	}
	cut := EdgeSet{}
	for _, b := range fn.Blocks {
		for i, sc := range b.Succs {
			if sc == fin.Block() {
				cut[Edge{From: b, Succ: i}] = true
			}
		}
	}
	bad := ""
	for _, e := range nonNil {
		if e.From.Succs[e.Succ] == fin.Block() {
			continue
		}
		rs := reachFromEdge(fn, e, cut)
		for _, ret := range returnsOf(fn) {
			if rs[ret.Block()] {
				bad = fmt.Sprintf("with a writer in place, Close can reach the return at %s without calling Finalize: a CARv2 written through the deferred writer keeps its zeroed header and gets no index, where the direct writer finalizes", c.Pos(ret.Pos()))
			}
		}
	}
	r.Check(bad == "", key, c.Pos(fin.Pos()), "w != nil leads to Finalize on every path", bad)
}

func ruleR20f(c *Ctx, r *Report) {
	fn, err := c.Func(pkgDeferred, "DeferredCarWriter", "Put")
	if err != nil {
		r.InfraFail("%v", err)
		return
	}
	key := "put-delegates@" + fnKey(fn)
	bad := ""
	n := 0
	for _, ret := range returnsOf(fn) {
		if len(ret.Results) != 1 {
			continue
		}
		n++
		if resultIsNilConst(ret, 0) {
			bad = fmt.Sprintf("Put returns nil at %s without the underlying writer having been asked", c.Pos(ret.Pos()))
		}
	}
	r.Check(bad == "", key, c.Pos(fn.Pos()), fmt.Sprintf("%d return(s): errors, or the underlying Put's result", n), bad)
}

func ruleR20g(c *Ctx, r *Report) {
	for _, name := range []string{"NewDeferredCarWriterForPath", "NewDeferredCarWriterForStream"} {
		fn, err := c.Func(pkgDeferred, "", name)
		if err != nil {
			r.InfraFail("%v", err)
			continue
		}
		key := "roots-passed-through@" + fnKey(fn)
		n, bad := 0, ""
		eachInstr(fn, func(in ssa.Instruction) {
			st, ok := in.(*ssa.Store)
			if !ok {
				return
			}
			if fa, ok := st.Addr.(*ssa.FieldAddr); ok && fieldAddrIs(fa, pkgDeferred, "DeferredCarWriter", "roots") {
				n++
				for _, o := range origins(st.Val, originOpts{}) {
					if o.Kind != "param" {
						bad = fmt.Sprintf("the roots kept at %s are built from %s, not the parameter itself", c.Pos(st.Pos()), o.Kind)
					}
				}
			}
		})
		if n == 0 {
			r.Undec(key, c.Pos(fn.Pos()), "no store to the roots field found")
			continue
		}
		r.Check(bad == "", key, c.Pos(fn.Pos()), "roots field = roots parameter", bad)
	}
}

func ruleR20h(c *Ctx, r *Report) {
	fn, err := c.Func(pkgDeferred, "DeferredCarWriter", "OnPut")
	if err != nil {
		r.InfraFail("%v", err)
		return
	}
	key := "onput-lock-free@" + fnKey(fn)
	bad := ""
	eachInstr(fn, func(in ssa.Instruction) {
		if ci, ok := in.(ssa.CallInstruction); ok {
			if _, _, isLock := lockOp(ci.Common()); isLock {
				bad = fmt.Sprintf("OnPut takes a lock at %s; Put invokes the registered callbacks with the writer's lock held, so a callback that registers another listener never returns", c.Pos(in.Pos()))
			}
		}
	})
	r.Check(bad == "", key, c.Pos(fn.Pos()), "acquires no lock", bad)
}

// ---- R20r: the construction parameters of a deferred writer are set at construction only ---------

func ruleR20r(c *Ctx, r *Report) {
	cfg := map[string]bool{"roots": true, "opts": true, "outPath": true, "outStream": true}
	n := 0
	var bad []string
	for _, fn := range c.RepoFuncs() {
		if fn.Pkg == nil || fn.Pkg.Pkg.Path() != pkgDeferred || fn.Parent() != nil {
			continue
		}
		for _, g := range withAnon(fn) {
			eachInstr(g, func(in ssa.Instruction) {
				st, ok := in.(*ssa.Store)
				if !ok {
					return
				}
				// the field itself, or an element of the slice kept in it
				addr := st.Addr
				if ia, ok := addr.(*ssa.IndexAddr); ok {
					if l, ok := ia.X.(*ssa.UnOp); ok && l.Op == token.MUL {
						addr = l.X
					}
				}
				fa, ok := addr.(*ssa.FieldAddr)
				if !ok || !typeIs(namedOf(fa.X.Type()), pkgDeferred, "DeferredCarWriter") {
					return
				}
				fv := fieldVar(fa.X.Type(), fa.Field)
				if fv == nil || !cfg[fv.Name()] {
					return
				}
				n++
				if _, fresh := fa.X.(*ssa.Alloc); !fresh || addr != st.Addr {
					bad = append(bad, fmt.Sprintf("%s stores DeferredCarWriter.%s at %s", fnKey(fn), fv.Name(), c.Pos(st.Pos())))
				}
			})
		}
	}
	sort.Strings(bad)
	r.Count("stores to roots, opts, outPath, outStream of a DeferredCarWriter", n)
	key := "construction-parameters-fixed@deferred.DeferredCarWriter"
	if n < 4 {
		r.Undec(key, "-", fmt.Sprintf("only %d stores to the construction parameters of a DeferredCarWriter found", n))
		return
	}
	r.Check(len(bad) == 0, key, "-", "roots, options, path and stream are stored on the freshly allocated object only", strings.Join(bad, "; ")+": the archive that goes out no longer has the roots and options the writer was constructed with — a directly constructed writer given the same roots writes another header")
}

// inLoopWith: the block lies on a cycle of the control-flow graph.
func inLoopWith(b *ssa.BasicBlock) bool {
	seen := map[*ssa.BasicBlock]bool{}
	work := append([]*ssa.BasicBlock(nil), b.Succs...)
	for len(work) > 0 {
		x := work[len(work)-1]
		work = work[:len(work)-1]
		if x == b {
			return true
		}
		if seen[x] {
			continue
		}
		seen[x] = true
		work = append(work, x.Succs...)
	}
	return false
}
