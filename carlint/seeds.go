package main

import (
	"fmt"
	"os"
	"path/filepath"
	"sort"
	"strings"
)

// Seed is a small source edit used to test the checker both ways in the thorough
// tier: applied in memory (packages.Config.Overlay), the tree is re-loaded and the
// named rule must report. Seeds are scaffolding for the checker; they never decide
// a property. A seed whose old fragment no longer occurs exactly once in the
// current /repo (because /repo was edited) is skipped and listed.
type Seed struct {
	ID       string
	Property string
	Rule     string // rule that must report (violated or undecided)
	File     string // path relative to the repository root
	Old, New string
	Note     string
}

type seedResult struct {
	ID     string `json:"seed"`
	Rule   string `json:"rule"`
	Status string `json:"status"` // fired, MISSED, skipped:<why>
	By     string `json:"reported_as,omitempty"`
}

func runThorough(def PropertyDef, rep *Report, repo string, extra map[string]any) {
	// (a) second configuration: GOARCH=386 (catches width-dependent build constraints)
	if c386, err := Load(LoadOpts{Repo: repo, GOARCH: "386"}); err != nil {
		rep.Infra = append(rep.Infra, "GOARCH=386 load failed: "+err.Error())
	} else {
		r2 := runRules(def, c386)
		a, b := verdictMultiset(rep), verdictMultiset(r2)
		extra["goarch_386_obligations"] = len(r2.Obs)
		if a != b {
			rep.Infra = append(rep.Infra, "verdicts under GOARCH=386 differ from the default configuration:\n  default: "+a+"\n  386:     "+b)
		}
	}
	// (b) seeded variants
	var results []seedResult
	fired, missed, skipped := 0, 0, 0
	for _, s := range seeds {
		if s.Property != def.ID {
			continue
		}
		res := seedResult{ID: s.ID, Rule: s.Rule}
		path := filepath.Join(repo, s.File)
		src, err := os.ReadFile(path)
		if err != nil {
			res.Status = "skipped: " + err.Error()
			skipped++
			results = append(results, res)
			continue
		}
		if n := strings.Count(string(src), s.Old); n != 1 {
			res.Status = fmt.Sprintf("skipped: old fragment occurs %d times in the current tree", n)
			skipped++
			results = append(results, res)
			continue
		}
		mutated := strings.Replace(string(src), s.Old, s.New, 1)
		c2, err := Load(LoadOpts{Repo: repo, Overlay: map[string][]byte{path: []byte(mutated)}})
		if err != nil {
			res.Status = "skipped: variant does not load: " + firstLine(err.Error())
			skipped++
			results = append(results, res)
			continue
		}
		lockCache.la, lockCache.c = nil, nil
		r2 := runRules(def, c2)
		hit, other := "", ""
		for _, o := range r2.Obs {
			if o.Verdict != Violated && o.Verdict != Undecided {
				continue
			}
			if o.Rule == s.Rule && hit == "" {
				hit = o.Rule + "@" + o.Key
			} else if other == "" {
				other = o.Rule + "@" + o.Key
			}
		}
		switch {
		case hit != "":
			res.Status, res.By = "fired", hit
			fired++
		case other != "":
			res.Status, res.By = "fired (by another rule of the property)", other
			fired++
		default:
			res.Status = "MISSED"
			missed++
			rep.Infra = append(rep.Infra, fmt.Sprintf("seeded variant %s (%s) was not reported by rule %s: the checker lost its ability to see this violation", s.ID, s.Note, s.Rule))
		}
		results = append(results, res)
	}
	lockCache.la, lockCache.c = nil, nil
	sort.Slice(results, func(i, j int) bool { return results[i].ID < results[j].ID })
	extra["seeded_variants"] = results
	extra["seeds_fired"] = fired
	extra["seeds_missed"] = missed
	extra["seeds_skipped"] = skipped
}

func firstLine(s string) string {
	if i := strings.IndexByte(s, '\n'); i >= 0 {
		return s[:i]
	}
	return s
}

func verdictMultiset(r *Report) string {
	m := map[string]int{}
	for _, o := range r.Obs {
		m[o.Rule+":"+o.Verdict]++
	}
	var ks []string
	for k, v := range m {
		ks = append(ks, fmt.Sprintf("%s=%d", k, v))
	}
	sort.Strings(ks)
	return strings.Join(ks, " ")
}
