package main

func runThorough(def PropertyDef, rep *Report, repo string, extra map[string]any) {}
