package main

import (
	"encoding/json"
	"fmt"
	"os"
	"os/exec"
	"path/filepath"
	"sort"
	"strings"
)

// Seed is a small source edit used to test the checker both ways in the thorough
// tier: applied in memory (packages.Config.Overlay), the tree is re-loaded and the
// named rule must report. Seeds are scaffolding for the checker; they never decide
// a property. A seed whose old fragment no longer occurs exactly once in the
// current /repo (because /repo was edited) is skipped and listed.
type Seed struct {
	ID       string
	Property string
	Rule     string // rule that must report (violated or undecided)
	File     string // path relative to the repository root
	Old, New string
	Note     string
}

type seedResult struct {
	ID     string `json:"seed"`
	Rule   string `json:"rule"`
	Status string `json:"status"` // fired, MISSED, skipped:<why>
	By     string `json:"reported_as,omitempty"`
}

func runThorough(def PropertyDef, rep *Report, repo string, extra map[string]any) {
	// (a) second configuration: GOARCH=386 (catches width-dependent build constraints)
	if c386, err := Load(LoadOpts{Repo: repo, GOARCH: "386"}); err != nil {
		rep.Infra = append(rep.Infra, "GOARCH=386 load failed: "+err.Error())
	} else {
		r2 := runRules(def, c386)
		a, b := verdictMultiset(rep), verdictMultiset(r2)
		extra["goarch_386_obligations"] = len(r2.Obs)
		if a != b {
			rep.Infra = append(rep.Infra, "verdicts under GOARCH=386 differ from the default configuration:\n  default: "+a+"\n  386:     "+b)
		}
	}
	// (b) seeded variants
	var results []seedResult
	fired, missed, skipped := 0, 0, 0
	for _, s := range seeds {
		if s.Property != def.ID {
			continue
		}
		res := seedResult{ID: s.ID, Rule: s.Rule}
		path := filepath.Join(repo, s.File)
		src, err := os.ReadFile(path)
		if err != nil {
			res.Status = "skipped: " + err.Error()
			skipped++
			results = append(results, res)
			continue
		}
		if n := strings.Count(string(src), s.Old); n != 1 {
			res.Status = fmt.Sprintf("skipped: old fragment occurs %d times in the current tree", n)
			skipped++
			results = append(results, res)
			continue
		}
		mutated := strings.Replace(string(src), s.Old, s.New, 1)
		c2, err := Load(LoadOpts{Repo: repo, Overlay: map[string][]byte{path: []byte(mutated)}})
		if err != nil {
			res.Status = "skipped: variant does not load: " + firstLine(err.Error())
			skipped++
			results = append(results, res)
			continue
		}
		lockCache.la, lockCache.c = nil, nil
		r2 := runRules(def, c2)
		hit, other := "", ""
		for _, o := range r2.Obs {
			if o.Verdict != Violated && o.Verdict != Undecided {
				continue
			}
			if o.Rule == s.Rule && hit == "" {
				hit = o.Rule + "@" + o.Key
			} else if other == "" {
				other = o.Rule + "@" + o.Key
			}
		}
		switch {
		case hit != "":
			res.Status, res.By = "fired", hit
			fired++
		case other != "":
			res.Status, res.By = "fired (by another rule of the property)", other
			fired++
		default:
			res.Status = "MISSED"
			missed++
			rep.Infra = append(rep.Infra, fmt.Sprintf("seeded variant %s (%s) was not reported by rule %s: the checker lost its ability to see this violation", s.ID, s.Note, s.Rule))
		}
		results = append(results, res)
	}
	lockCache.la, lockCache.c = nil, nil
	// (c) replay the stored sub-agent changes of this property, and the benign refactorings
	replayStored(def, rep, repo, extra)
	lockCache.la, lockCache.c = nil, nil
	sort.Slice(results, func(i, j int) bool { return results[i].ID < results[j].ID })
	extra["seeded_variants"] = results
	extra["seeds_fired"] = fired
	extra["seeds_missed"] = missed
	extra["seeds_skipped"] = skipped
}

func firstLine(s string) string {
	if i := strings.IndexByte(s, '\n'); i >= 0 {
		return s[:i]
	}
	return s
}

func verdictMultiset(r *Report) string {
	m := map[string]int{}
	for _, o := range r.Obs {
		m[o.Rule+":"+o.Verdict]++
	}
	var ks []string
	for k, v := range m {
		ks = append(ks, fmt.Sprintf("%s=%d", k, v))
	}
	sort.Strings(ks)
	return strings.Join(ks, " ")
}

// ---- replay of stored patches ------------------------------------------------------------------------

// patchedFiles applies a unified diff to copies of the files it touches (taken from
// repo) in a scratch directory and returns path-in-repo -> patched content. The
// repository itself is not touched.
func patchedFiles(repo, patch string) (map[string][]byte, error) {
	data, err := os.ReadFile(patch)
	if err != nil {
		return nil, err
	}
	var files []string
	for _, line := range strings.Split(string(data), "\n") {
		if strings.HasPrefix(line, "+++ b/") {
			files = append(files, strings.TrimPrefix(line, "+++ b/"))
		}
	}
	if len(files) == 0 {
		return nil, fmt.Errorf("no files in patch")
	}
	tmp, err := os.MkdirTemp("", "carlint-patch")
	if err != nil {
		return nil, err
	}
	defer os.RemoveAll(tmp)
	for _, f := range files {
		src, err := os.ReadFile(filepath.Join(repo, f))
		if err != nil {
			if os.IsNotExist(err) {
				continue // file created by the patch
			}
			return nil, err
		}
		if err := os.MkdirAll(filepath.Dir(filepath.Join(tmp, f)), 0o755); err != nil {
			return nil, err
		}
		if err := os.WriteFile(filepath.Join(tmp, f), src, 0o644); err != nil {
			return nil, err
		}
	}
	cmd := exec.Command("git", "apply", "--unsafe-paths", "--directory="+tmp, patch)
	cmd.Dir = tmp
	cmd.Env = append(os.Environ(), "GIT_CEILING_DIRECTORIES=/", "GIT_DIR=/nonexistent")
	if out, err := cmd.CombinedOutput(); err != nil {
		// fall back to patch(1)-like application from inside the directory
		cmd2 := exec.Command("git", "apply", patch)
		cmd2.Dir = tmp
		cmd2.Env = append(os.Environ(), "GIT_CEILING_DIRECTORIES=/", "GIT_DIR=/nonexistent")
		if out2, err2 := cmd2.CombinedOutput(); err2 != nil {
			return nil, fmt.Errorf("does not apply to the current tree: %s %s", firstLine(string(out)), firstLine(string(out2)))
		}
	}
	res := map[string][]byte{}
	for _, f := range files {
		b, err := os.ReadFile(filepath.Join(tmp, f))
		if err != nil {
			return nil, err
		}
		res[filepath.Join(repo, f)] = b
	}
	return res, nil
}

type storedResult struct {
	Name   string `json:"change"`
	Status string `json:"status"`
	By     string `json:"reported_as,omitempty"`
}

func replayStored(def PropertyDef, rep *Report, repo string, extra map[string]any) {
	verif := verifDir
	// what the unchanged tree itself reports (known findings, or a violation the check fails on anyway) is
	// not what a replayed change is judged by: only reports beyond these count
	baseClean := true
	baseKeys := map[string]bool{}
	for _, o := range rep.Obs {
		if o.Verdict == Violated || o.Verdict == Undecided {
			baseKeys[o.Rule+"@"+o.Key] = true
		}
	}
	// seeded changes of this property
	var res []storedResult
	det, lost, skip := 0, 0, 0
	dirs, _ := filepath.Glob(filepath.Join(verif, "seeded", def.ID+"-*"))
	sort.Strings(dirs)
	only := os.Getenv("CARLINT_REPLAY_ONLY") // debugging aid: replay the stored patches whose name contains this
	for _, d := range dirs {
		name := filepath.Base(d)
		if only != "" && !strings.Contains(name, only) {
			continue
		}
		if os.Getenv("CARLINT_DEBUG") != "" {
			fmt.Fprintln(os.Stderr, "replay", name)
		}
		var meta struct {
			Own bool `json:"detected_by_own_property_check"`
		}
		if b, err := os.ReadFile(filepath.Join(d, "meta.json")); err == nil {
			json.Unmarshal(b, &meta)
		}
		ov, err := patchedFiles(repo, filepath.Join(d, "patch.diff"))
		if err != nil {
			res = append(res, storedResult{Name: name, Status: "skipped: " + err.Error()})
			skip++
			continue
		}
		c2, err := Load(LoadOpts{Repo: repo, Overlay: ov})
		if err != nil {
			res = append(res, storedResult{Name: name, Status: "skipped: variant does not load: " + firstLine(err.Error())})
			skip++
			continue
		}
		lockCache.la, lockCache.c = nil, nil
		r2 := runRules(def, c2)
		hit := ""
		for _, o := range r2.Obs {
			if (o.Verdict == Violated || o.Verdict == Undecided) && !baseKeys[o.Rule+"@"+o.Key] {
				hit = o.Rule + "@" + o.Key
				break
			}
		}
		switch {
		case hit != "":
			res = append(res, storedResult{Name: name, Status: "detected", By: hit})
			det++
		case !meta.Own:
			res = append(res, storedResult{Name: name, Status: "not detected by this property's check (recorded as such in its meta.json)"})
		default:
			res = append(res, storedResult{Name: name, Status: "LOST"})
			lost++
			if baseClean {
				rep.Infra = append(rep.Infra, "stored seeded change "+name+" used to be detected by this check and no longer is")
			}
		}
	}
	extra["stored_seeded_changes"] = res
	extra["stored_detected"] = det
	extra["stored_lost"] = lost
	extra["stored_skipped"] = skip
	// benign refactorings: must stay silent (only meaningful when the base tree is clean)
	var bres []storedResult
	nb, alarms := 0, 0
	if baseClean {
		files, _ := filepath.Glob(filepath.Join(verif, "benign", "*.diff"))
		sort.Strings(files)
		for _, f := range files {
			name := filepath.Base(f)
			if only != "" && !strings.Contains(name, only) {
				continue
			}
			if os.Getenv("CARLINT_DEBUG") != "" {
				fmt.Fprintln(os.Stderr, "replay", name)
			}
			ov, err := patchedFiles(repo, f)
			if err != nil {
				bres = append(bres, storedResult{Name: name, Status: "skipped: " + err.Error()})
				continue
			}
			c2, err := Load(LoadOpts{Repo: repo, Overlay: ov})
			if err != nil {
				bres = append(bres, storedResult{Name: name, Status: "skipped: does not load: " + firstLine(err.Error())})
				continue
			}
			lockCache.la, lockCache.c = nil, nil
			r2 := runRules(def, c2)
			nb++
			hit := ""
			for _, o := range r2.Obs {
				if (o.Verdict == Violated || o.Verdict == Undecided) && !baseKeys[o.Rule+"@"+o.Key] {
					hit = o.Rule + "@" + o.Key + ": " + o.Detail
					break
				}
			}
			if hit != "" {
				alarms++
				bres = append(bres, storedResult{Name: name, Status: "FALSE ALARM", By: hit})
				rep.Infra = append(rep.Infra, "false alarm on the behaviour-preserving refactoring "+name+": "+hit)
			}
		}
	}
	extra["benign_refactorings_replayed"] = nb
	extra["benign_false_alarms"] = alarms
	if len(bres) > 0 {
		extra["benign_details"] = bres
	}
}
