package main

import (
	"fmt"
	"go/token"
	"go/types"
	"sort"

	"golang.org/x/tools/go/ssa"
)

// ---- lock classes -------------------------------------------------------------------------------

type lockClass struct{ pkg, typ, field string }

func (l lockClass) String() string { return shortPkg(l.pkg) + "." + l.typ + "." + l.field }

const (
	modeNone = 0
	modeR    = 1
	modeW    = 2
)

var modeName = map[int]string{0: "not held", 1: "held shared (RLock)", 2: "held exclusive (Lock)"}

type lsFact struct {
	held     map[lockClass]int
	deferred map[lockClass]bool // a deferred release is registered
	top      bool               // unreached
}

func topFact() lsFact { return lsFact{top: true} }
func emptyFact() lsFact {
	return lsFact{held: map[lockClass]int{}, deferred: map[lockClass]bool{}}
}

func (f lsFact) clone() lsFact {
	if f.top {
		return f
	}
	n := emptyFact()
	for k, v := range f.held {
		n.held[k] = v
	}
	for k, v := range f.deferred {
		n.deferred[k] = v
	}
	return n
}

func meetFact(a, b lsFact) lsFact {
	if a.top {
		return b.clone()
	}
	if b.top {
		return a.clone()
	}
	n := emptyFact()
	for k, v := range a.held {
		if w := b.held[k]; w < v {
			v = w
		}
		if v > 0 {
			n.held[k] = v
		}
	}
	for k := range a.deferred {
		if b.deferred[k] {
			n.deferred[k] = true
		}
	}
	return n
}

func eqFact(a, b lsFact) bool {
	if a.top != b.top {
		return false
	}
	if a.top {
		return true
	}
	if len(a.held) != len(b.held) || len(a.deferred) != len(b.deferred) {
		return false
	}
	for k, v := range a.held {
		if b.held[k] != v {
			return false
		}
	}
	for k := range a.deferred {
		if !b.deferred[k] {
			return false
		}
	}
	return true
}

// lockOp recognises a call (or deferred call) on a mutex field; returns the class
// and the op name.
func lockOp(cc *ssa.CallCommon) (lockClass, string, bool) {
	f := calleeFunc(cc)
	if f == nil || f.Pkg() == nil || f.Pkg().Path() != "sync" {
		return lockClass{}, "", false
	}
	_, rn := recvTypeName(f)
	if rn != "RWMutex" && rn != "Mutex" {
		return lockClass{}, "", false
	}
	switch f.Name() {
	case "Lock", "Unlock", "RLock", "RUnlock":
	default:
		return lockClass{}, "", false
	}
	if len(cc.Args) == 0 {
		return lockClass{}, "", false
	}
	fa, ok := cc.Args[0].(*ssa.FieldAddr)
	if !ok {
		return lockClass{}, "", false
	}
	n := namedOf(fa.X.Type())
	fv := fieldVar(fa.X.Type(), fa.Field)
	if n == nil || fv == nil || n.Obj().Pkg() == nil {
		return lockClass{}, "", false
	}
	return lockClass{n.Obj().Pkg().Path(), n.Obj().Name(), fv.Name()}, f.Name(), true
}

func applyLockOp(f lsFact, cl lockClass, op string) lsFact {
	n := f.clone()
	switch op {
	case "Lock":
		n.held[cl] = modeW
	case "RLock":
		if n.held[cl] < modeR {
			n.held[cl] = modeR
		}
	case "Unlock", "RUnlock":
		delete(n.held, cl)
	}
	return n
}

// lockFlow is the result of the per-function must-hold analysis.
type lockFlow struct {
	fn     *ssa.Function
	before map[ssa.Instruction]lsFact
}

func analyzeLocks(fn *ssa.Function, entry lsFact) *lockFlow {
	in := map[*ssa.BasicBlock]lsFact{}
	out := map[*ssa.BasicBlock]lsFact{}
	for _, b := range fn.Blocks {
		in[b] = topFact()
		out[b] = topFact()
	}
	in[fn.Blocks[0]] = entry.clone()
	transfer := func(b *ssa.BasicBlock, f lsFact, rec map[ssa.Instruction]lsFact) lsFact {
		for _, ins := range b.Instrs {
			if rec != nil {
				rec[ins] = f
			}
			if f.top {
				continue
			}
			switch x := ins.(type) {
			case *ssa.Call:
				if cl, op, ok := lockOp(x.Common()); ok {
					f = applyLockOp(f, cl, op)
				}
			case *ssa.Defer:
				if cl, op, ok := lockOp(x.Common()); ok && (op == "Unlock" || op == "RUnlock") {
					f = f.clone()
					f.deferred[cl] = true
				}
			}
		}
		return f
	}
	changed := true
	for iter := 0; changed && iter < 100; iter++ {
		changed = false
		for _, b := range fn.Blocks {
			var inb lsFact
			if b == fn.Blocks[0] {
				inb = entry.clone()
			} else {
				inb = topFact()
				for _, p := range b.Preds {
					inb = meetFact(inb, out[p])
				}
			}
			o := transfer(b, inb, nil)
			if !eqFact(in[b], inb) || !eqFact(out[b], o) {
				in[b], out[b] = inb, o
				changed = true
			}
		}
	}
	lf := &lockFlow{fn: fn, before: map[ssa.Instruction]lsFact{}}
	for _, b := range fn.Blocks {
		transfer(b, in[b], lf.before)
	}
	return lf
}

// ---- guard tables -------------------------------------------------------------------------------

type fieldID struct{ pkg, typ, field string }

func (f fieldID) String() string { return shortPkg(f.pkg) + "." + f.typ + "." + f.field }

type guardTable struct {
	// value fields: every load needs >= shared, every store needs exclusive
	values map[fieldID]lockClass
	// pointee fields: the pointer identity is fixed after construction; calls on the
	// pointee need the lock (exclusive for mutating callees)
	pointees map[fieldID]lockClass
	reason   map[fieldID]string
}

var (
	lkRO  = lockClass{pkgBS, "ReadOnly", "mu"}
	lkSC  = lockClass{pkgStorage, "StorageCar", "mu"}
	lkDCW = lockClass{pkgDeferred, "DeferredCarWriter", "lk"}
)

var guards = guardTable{
	values: map[fieldID]lockClass{
		{pkgBS, "ReadOnly", "closed"}:                lkRO,
		{pkgBS, "ReadWrite", "finalized"}:            lkRO,
		{pkgStorage, "StorageCar", "closed"}:         lkSC,
		{pkgDeferred, "DeferredCarWriter", "f"}:      lkDCW,
		{pkgDeferred, "DeferredCarWriter", "closed"}: lkDCW,
		{pkgDeferred, "DeferredCarWriter", "w"}:      lkDCW,
		{pkgDeferred, "DeferredCarWriter", "putCb"}:  lkDCW,
	},
	pointees: map[fieldID]lockClass{
		{pkgBS, "ReadOnly", "idx"}:               lkRO,
		{pkgBS, "ReadWrite", "idx"}:              lkRO,
		{pkgBS, "ReadWrite", "dataWriter"}:       lkRO,
		{pkgStorage, "StorageCar", "idx"}:        lkSC,
		{pkgStorage, "StorageCar", "dataWriter"}: lkSC,
		{pkgStorage, "StorageCar", "writer"}:     lkSC,
		{pkgDeferred, "DeferredCarWriter", "w"}:  lkDCW,
		{pkgDeferred, "DeferredCarWriter", "f"}:  lkDCW,
	},
	reason: map[fieldID]string{
		{pkgBS, "ReadOnly", "closed"}:            "field comment: set by Close/Discard/Finalize, read by every method",
		{pkgBS, "ReadWrite", "finalized"}:        "field comment: 'also protected by ronly.mu'",
		{pkgBS, "ReadOnly", "idx"}:               "mu comment: 'main fields guarded by the mutex are the index and the underlying writers'",
		{pkgBS, "ReadWrite", "idx"}:              "same insertion index as ronly.idx, mutated by PutMany",
		{pkgBS, "ReadWrite", "dataWriter"}:       "the underlying writer; its offset is mutated by every write",
		{pkgStorage, "StorageCar", "closed"}:     "read/written under mu in every method",
		{pkgStorage, "StorageCar", "idx"}:        "insertion index mutated by Put",
		{pkgStorage, "StorageCar", "dataWriter"}: "offset mutated by Put",
		{pkgStorage, "StorageCar", "writer"}:     "position tracking writer mutated by Put",
	},
}

// callees whose use of a guarded pointee mutates it.
var mutatingCallee = map[string]bool{
	"InsertNoReplace": true, "Load": true, "Write": true, "WriteAt": true, "Seek": true, "Truncate": true,
	"Close": true, "LdWrite": true, "WriteHeader": true, "Finalize": true, "Resume": true, "Put": true,
	"WriteTo": true, "Unmarshal": true, "ReadFrom": true, "WriteString": true, "Sync": true,
}

// constructor phase: the object is not yet shared, no lock needed. Methods in this
// table are validated to be called only from other entries of the table.
var constructorPhase = map[string]string{
	"v2/blockstore.OpenReadWrite":                       "constructor",
	"v2/blockstore.OpenReadWriteFile":                   "constructor",
	"v2/blockstore.ReadWrite.initWithRoots":             "called only by OpenReadWriteFile on the object under construction",
	"v2/blockstore.NewReadOnly":                         "constructor",
	"v2/blockstore.OpenReadOnly":                        "constructor",
	"v2/blockstore.generateIndex":                       "constructor helper",
	"v2/storage.OpenReadable":                           "constructor",
	"v2/storage.NewWritable":                            "constructor",
	"v2/storage.newWritable":                            "constructor helper",
	"v2/storage.newReadableWritable":                    "constructor helper",
	"v2/storage.NewReadableWritable":                    "constructor",
	"v2/storage.OpenReadableWritable":                   "constructor",
	"v2/storage.StorageCar.init":                        "called only by NewWritable/NewReadableWritable on the object under construction",
	"v2/storage/deferred.NewDeferredCarWriterForPath":   "constructor",
	"v2/storage/deferred.NewDeferredCarWriterForStream": "constructor",
}

// ctorPhase returns the constructor-phase table extended, for this tree, with
// every unexported function or method of the analysed packages all of whose
// (at least one) callers are themselves constructor-phase: a helper extracted from
// a constructor still works on an object nobody else can see yet.
var ctorCache struct {
	c *Ctx
	m map[string]string
}

func ctorPhase(c *Ctx) map[string]string {
	if ctorCache.c == c && ctorCache.m != nil {
		return ctorCache.m
	}
	m := map[string]string{}
	for k, v := range constructorPhase {
		m[k] = v
	}
	var funcs []*ssa.Function
	for _, fn := range c.RepoFuncs() {
		if fn.Pkg == nil || fn.Parent() != nil {
			continue
		}
		for _, lp := range lockPkgs {
			if fn.Pkg.Pkg.Path() == lp {
				funcs = append(funcs, fn)
			}
		}
	}
	top := func(fn *ssa.Function) *ssa.Function {
		for fn.Parent() != nil {
			fn = fn.Parent()
		}
		return fn
	}
	for changed := true; changed; {
		changed = false
		for _, fn := range funcs {
			k := fnKey(fn)
			if _, ok := m[k]; ok || isExportedEntry(fn) {
				continue
			}
			callers, all := 0, true
			for _, g := range c.RepoFuncs() {
				eachInstr(g, func(in ssa.Instruction) {
					if ci, ok := in.(ssa.CallInstruction); ok && ci.Common().StaticCallee() == fn {
						callers++
						if _, ok := m[fnKey(top(g))]; !ok {
							all = false
						}
					}
				})
			}
			if callers > 0 && all {
				m[k] = "inferred: only called from constructor-phase functions"
				changed = true
			}
		}
	}
	ctorCache.c, ctorCache.m = c, m
	return m
}

// named exemptions (one symbol each).
var lockExemptFuncs = map[string]string{
	"v2/blockstore.ReadOnly.Index":                "documented as direct, unsynchronised access to the index ('You should never add records on your own there')",
	"v2/blockstore.ReadWrite.Index":               "documented as direct, unsynchronised access to the index",
	"v2/storage.StorageCar.Index":                 "accessor returning the index pointer; pointer identity is fixed after construction",
	"v2/storage/deferred.DeferredCarWriter.OnPut": "callback registration is not among the operations C08 quantifies over (Put, PutMany, Has, Get, GetSize, AllKeysChan, Roots, Finalize)",
}

// ---- whole analysis over the three packages ---------------------------------------------------------

type lockAnalysis struct {
	c       *Ctx
	funcs   []*ssa.Function
	inSet   map[*ssa.Function]bool
	entry   map[*ssa.Function]lsFact
	flow    map[*ssa.Function]*lockFlow
	kind    map[*ssa.Function]string // for closures: go, defer, sync, escape
	site    map[*ssa.Function]ssa.Instruction
	nLockOp int
	nGo     int
}

var lockPkgs = []string{pkgBS, pkgStorage, pkgDeferred}

func newLockAnalysis(c *Ctx) *lockAnalysis {
	la := &lockAnalysis{c: c, inSet: map[*ssa.Function]bool{}, entry: map[*ssa.Function]lsFact{}, flow: map[*ssa.Function]*lockFlow{}, kind: map[*ssa.Function]string{}, site: map[*ssa.Function]ssa.Instruction{}}
	for _, fn := range c.RepoFuncs() {
		p := fn.Pkg
		if p == nil {
			continue
		}
		for _, lp := range lockPkgs {
			if p.Pkg.Path() == lp {
				la.funcs = append(la.funcs, fn)
				la.inSet[fn] = true
			}
		}
	}
	// classify closures
	for _, fn := range la.funcs {
		eachInstr(fn, func(in ssa.Instruction) {
			mc, ok := in.(*ssa.MakeClosure)
			if !ok {
				return
			}
			child := mc.Fn.(*ssa.Function)
			kind := "escape"
			var site ssa.Instruction = mc
			refs := mc.Referrers()
			if refs != nil {
				allSync := len(*refs) > 0
				for _, r := range *refs {
					switch x := r.(type) {
					case *ssa.Go:
						if x.Call.Value == ssa.Value(mc) {
							kind, site = "go", x
							allSync = false
						}
					case *ssa.Defer:
						if x.Call.Value == ssa.Value(mc) {
							kind, site = "defer", x
							allSync = false
						}
					case *ssa.Call:
						// called directly or passed as an argument: runs during the call
						site = x
					default:
						allSync = false
					}
				}
				if kind == "escape" && allSync {
					kind = "sync"
				}
			}
			la.kind[child] = kind
			la.site[child] = site
		})
	}
	// function literals without free variables are plain function values, not MakeClosure
	for _, fn := range la.funcs {
		eachInstr(fn, func(in ssa.Instruction) {
			ci, ok := in.(ssa.CallInstruction)
			if !ok {
				return
			}
			child, ok := ci.Common().Value.(*ssa.Function)
			if !ok || child.Parent() != fn {
				return
			}
			if _, seen := la.kind[child]; seen {
				return
			}
			switch in.(type) {
			case *ssa.Go:
				la.kind[child] = "go"
			case *ssa.Defer:
				la.kind[child] = "defer"
			default:
				la.kind[child] = "sync"
			}
			la.site[child] = in
		})
	}
	// initial entries
	for _, fn := range la.funcs {
		if fn.Parent() != nil {
			la.entry[fn] = topFact()
			continue
		}
		if isExportedEntry(fn) || !la.hasCallers(fn) {
			la.entry[fn] = emptyFact()
		} else {
			la.entry[fn] = topFact()
		}
	}
	for round := 0; round < 12; round++ {
		changed := false
		for _, fn := range la.funcs {
			e := la.entry[fn]
			if e.top {
				continue
			}
			la.flow[fn] = analyzeLocks(fn, e)
		}
		// propagate to callees and closures
		next := map[*ssa.Function]lsFact{}
		for _, fn := range la.funcs {
			if fn.Parent() == nil && (isExportedEntry(fn) || !la.hasCallers(fn)) {
				next[fn] = emptyFact()
			} else {
				next[fn] = topFact()
			}
		}
		for _, fn := range la.funcs {
			lf := la.flow[fn]
			if lf == nil {
				continue
			}
			eachInstr(fn, func(in ssa.Instruction) {
				ci, ok := in.(ssa.CallInstruction)
				if !ok {
					return
				}
				if _, isGo := in.(*ssa.Go); isGo {
					return
				}
				if _, isDefer := in.(*ssa.Defer); isDefer {
					return
				}
				for _, sc := range la.directTargets(ci) {
					if sc.Parent() != nil {
						continue
					}
					st := lf.before[in]
					if !st.top {
						next[sc] = meetFact(next[sc], st)
					}
				}
			})
		}
		for child, kind := range la.kind {
			parent := child.Parent()
			lf := la.flow[parent]
			if lf == nil {
				continue
			}
			st := lf.before[la.site[child]]
			if st.top {
				continue
			}
			switch kind {
			case "sync":
				next[child] = meetFact(next[child], st)
			case "defer":
				// runs at exit, LIFO: only locks whose deferred release was registered
				// before this defer are still held.
				f := emptyFact()
				for cl, m := range st.held {
					if st.deferred[cl] {
						f.held[cl] = m
					}
				}
				next[child] = meetFact(next[child], f)
			case "go":
				f := emptyFact()
				for cl, m := range st.held {
					if la.handedOff(parent, la.site[child], child, cl) {
						f.held[cl] = m
					}
				}
				next[child] = meetFact(next[child], f)
			default:
				next[child] = meetFact(next[child], emptyFact())
			}
		}
		for _, fn := range la.funcs {
			if !eqFact(next[fn], la.entry[fn]) {
				la.entry[fn] = next[fn]
				changed = true
			}
		}
		if !changed {
			break
		}
	}
	// functions never reached keep top: analyse them with the empty fact so that
	// accesses in dead helpers are still reported conservatively.
	for _, fn := range la.funcs {
		if la.entry[fn].top {
			la.entry[fn] = emptyFact()
		}
		la.flow[fn] = analyzeLocks(fn, la.entry[fn])
	}
	for _, fn := range la.funcs {
		eachInstr(fn, func(in ssa.Instruction) {
			if ci, ok := in.(ssa.CallInstruction); ok {
				if _, _, ok := lockOp(ci.Common()); ok {
					la.nLockOp++
				}
			}
			if _, ok := in.(*ssa.Go); ok {
				la.nGo++
			}
		})
	}
	return la
}

func isExportedEntry(fn *ssa.Function) bool {
	obj, ok := fn.Object().(*types.Func)
	if !ok {
		return false
	}
	return obj.Exported()
}

// directTargets: the analysed function a call statically goes to — the callee itself, or the
// method wrapped by a bound-method closure that is called (`fn := b.m; ...; fn()`).
func (la *lockAnalysis) directTargets(ci ssa.CallInstruction) []*ssa.Function {
	sc := ci.Common().StaticCallee()
	if sc == nil {
		return nil
	}
	if la.inSet[sc] {
		return []*ssa.Function{sc}
	}
	if sc.Synthetic == "" || sc.Blocks == nil {
		return nil
	}
	var out []*ssa.Function
	eachInstr(sc, func(in ssa.Instruction) {
		if c2, ok := in.(ssa.CallInstruction); ok {
			if t := c2.Common().StaticCallee(); t != nil && la.inSet[t] {
				out = append(out, t)
			}
		}
	})
	return out
}

func (la *lockAnalysis) hasCallers(fn *ssa.Function) bool {
	found := false
	for _, g := range la.funcs {
		eachInstr(g, func(in ssa.Instruction) {
			if ci, ok := in.(ssa.CallInstruction); ok {
				for _, t := range la.directTargets(ci) {
					if t == fn {
						found = true
					}
				}
			}
		})
	}
	return found
}

// handedOff: the goroutine started at `site` takes over lock cl: after the go
// statement the parent neither releases cl explicitly nor has a deferred release
// registered, and the child releases it.
func (la *lockAnalysis) handedOff(parent *ssa.Function, site ssa.Instruction, child *ssa.Function, cl lockClass) bool {
	lf := la.flow[parent]
	if lf == nil {
		return false
	}
	if st := lf.before[site]; st.top || st.deferred[cl] {
		return false
	}
	// any release reachable after site?
	rel := false
	eachInstr(parent, func(in ssa.Instruction) {
		ci, ok := in.(ssa.CallInstruction)
		if !ok {
			return
		}
		c2, op, ok := lockOp(ci.Common())
		if !ok || c2 != cl || (op != "Unlock" && op != "RUnlock") {
			return
		}
		if instrReaches(site, in) {
			rel = true
		}
	})
	if rel {
		return false
	}
	// child must release
	childRel := false
	eachInstr(child, func(in ssa.Instruction) {
		if ci, ok := in.(ssa.CallInstruction); ok {
			if c2, op, ok := lockOp(ci.Common()); ok && c2 == cl && (op == "Unlock" || op == "RUnlock") {
				childRel = true
			}
		}
	})
	return childRel
}

// guardedPointee: does v denote the pointee of a guarded pointer field?
func guardedPointee(v ssa.Value) (fieldID, lockClass, bool) {
	seen := map[ssa.Value]bool{}
	var res fieldID
	var cl lockClass
	found := false
	var walk func(ssa.Value)
	walk = func(v ssa.Value) {
		if v == nil || seen[v] || found {
			return
		}
		seen[v] = true
		switch x := v.(type) {
		case *ssa.ChangeInterface:
			walk(x.X)
		case *ssa.MakeInterface:
			walk(x.X)
		case *ssa.ChangeType:
			walk(x.X)
		case *ssa.TypeAssert:
			walk(x.X)
		case *ssa.Extract:
			if ta, ok := x.Tuple.(*ssa.TypeAssert); ok && x.Index == 0 {
				walk(ta.X)
			}
		case *ssa.Phi:
			for _, e := range x.Edges {
				walk(e)
			}
		case *ssa.UnOp:
			if x.Op != token.MUL {
				return
			}
			switch a := x.X.(type) {
			case *ssa.FieldAddr:
				n := namedOf(a.X.Type())
				fv := fieldVar(a.X.Type(), a.Field)
				if n == nil || fv == nil || n.Obj().Pkg() == nil {
					return
				}
				id := fieldID{n.Obj().Pkg().Path(), n.Obj().Name(), fv.Name()}
				if c, ok := guards.pointees[id]; ok {
					res, cl, found = id, c, true
				}
			case *ssa.Alloc:
				for _, st := range storesTo(a) {
					walk(st.Val)
				}
			}
		}
	}
	walk(v)
	return res, cl, found
}

// freshBase: the struct whose field is accessed was allocated in this function
// (not yet shared).
func freshBase(v ssa.Value) bool {
	for i := 0; i < 8; i++ {
		switch x := v.(type) {
		case *ssa.Alloc:
			return true
		case *ssa.FieldAddr:
			v = x.X
		case *ssa.UnOp:
			if x.Op == token.MUL {
				if al, ok := x.X.(*ssa.Alloc); ok {
					sts := storesTo(al)
					if len(sts) == 1 {
						v = sts[0].Val
						continue
					}
				}
			}
			return false
		default:
			return false
		}
	}
	return false
}

type lockAccess struct {
	fn    *ssa.Function
	at    ssa.Instruction
	what  string
	class lockClass
	need  int
	have  int
}

func (la *lockAnalysis) topLevel(fn *ssa.Function) *ssa.Function {
	for fn.Parent() != nil {
		fn = fn.Parent()
	}
	return fn
}

// accesses enumerates every guarded access in the analysed packages with the
// lock state at that point.
func (la *lockAnalysis) accesses() []lockAccess {
	var out []lockAccess
	for _, fn := range la.funcs {
		top := fnKey(la.topLevel(fn))
		if _, ok := ctorPhase(la.c)[top]; ok {
			continue
		}
		if _, ok := lockExemptFuncs[top]; ok {
			continue
		}
		lf := la.flow[fn]
		eachInstr(fn, func(in ssa.Instruction) {
			switch x := in.(type) {
			case *ssa.FieldAddr:
				n := namedOf(x.X.Type())
				fv := fieldVar(x.X.Type(), x.Field)
				if n == nil || fv == nil || n.Obj().Pkg() == nil {
					return
				}
				id := fieldID{n.Obj().Pkg().Path(), n.Obj().Name(), fv.Name()}
				cl, ok := guards.values[id]
				if !ok || freshBase(x.X) {
					return
				}
				if x.Referrers() == nil {
					return
				}
				for _, ref := range *x.Referrers() {
					switch r := ref.(type) {
					case *ssa.Store:
						if r.Addr == ssa.Value(x) {
							st := lf.before[r]
							out = append(out, lockAccess{fn, r, "write of " + id.String(), cl, modeW, st.held[cl]})
						}
					case *ssa.UnOp:
						if r.Op == token.MUL {
							st := lf.before[r]
							out = append(out, lockAccess{fn, r, "read of " + id.String(), cl, modeR, st.held[cl]})
						}
					}
				}
			case ssa.CallInstruction:
				if _, _, isLock := lockOp(x.Common()); isLock {
					return
				}
				f := calleeFunc(x.Common())
				name := ""
				if f != nil {
					name = f.Name()
				}
				for _, a := range callArgs(x.Common()) {
					id, cl, ok := guardedPointee(a)
					if !ok {
						continue
					}
					need := modeR
					if mutatingCallee[name] {
						need = modeW
					}
					st := lf.before[in]
					out = append(out, lockAccess{fn, in, fmt.Sprintf("call %s on/with the pointee of %s", funcKey(f), id.String()), cl, need, st.held[cl]})
				}
			}
		})
	}
	sort.SliceStable(out, func(i, j int) bool { return out[i].at.Pos() < out[j].at.Pos() })
	return out
}

// acquires: lock classes a function may acquire, transitively through static
// callees and interface dispatch onto repository types (go statements excluded).
func (la *lockAnalysis) acquires() map[*ssa.Function]map[lockClass]bool {
	acq := map[*ssa.Function]map[lockClass]bool{}
	for _, fn := range la.funcs {
		acq[fn] = map[lockClass]bool{}
		eachInstr(fn, func(in ssa.Instruction) {
			if ci, ok := in.(*ssa.Call); ok {
				if cl, op, ok := lockOp(ci.Common()); ok && (op == "Lock" || op == "RLock") {
					acq[fn][cl] = true
				}
			}
		})
	}
	changed := true
	for changed {
		changed = false
		for _, fn := range la.funcs {
			eachInstr(fn, func(in ssa.Instruction) {
				ci, ok := in.(*ssa.Call)
				if !ok {
					return
				}
				for _, callee := range la.calleesOf(ci) {
					for cl := range acq[callee] {
						if !acq[fn][cl] {
							acq[fn][cl] = true
							changed = true
						}
					}
				}
				// synchronous closures passed as arguments run inside the call
				for _, a := range ci.Call.Args {
					if mc, ok := a.(*ssa.MakeClosure); ok {
						for cl := range acq[mc.Fn.(*ssa.Function)] {
							if !acq[fn][cl] {
								acq[fn][cl] = true
								changed = true
							}
						}
					}
				}
			})
		}
	}
	return acq
}

// calleesOf resolves a call to functions of the analysed packages: the static
// callee, or for an invoke every method of an analysed named type that
// implements the interface.
func (la *lockAnalysis) calleesOf(ci *ssa.Call) []*ssa.Function {
	cc := ci.Common()
	if sc := cc.StaticCallee(); sc != nil {
		if la.inSet[sc] {
			return []*ssa.Function{sc}
		}
		// a bound-method closure called directly (`fn := b.m; fn()`): the method it wraps
		if sc.Synthetic != "" && sc.Blocks != nil {
			var out []*ssa.Function
			eachInstr(sc, func(in ssa.Instruction) {
				if c2, ok := in.(ssa.CallInstruction); ok {
					if t := c2.Common().StaticCallee(); t != nil && la.inSet[t] {
						out = append(out, t)
					}
				}
			})
			return out
		}
		return nil
	}
	// interface dispatch, or a call of a function value (`fn()` with fn a method value handed to a
	// locking helper): resolved by the VTA call graph over the repository's functions (type flow
	// decides which concrete types / function values reach this call).
	var out []*ssa.Function
	seen := map[*ssa.Function]bool{}
	var add func(f *ssa.Function, depth int)
	add = func(f *ssa.Function, depth int) {
		if f == nil || seen[f] || depth > 2 {
			return
		}
		seen[f] = true
		if la.inSet[f] {
			out = append(out, f)
			return
		}
		// a bound-method closure or thunk: the method it wraps
		if f.Synthetic != "" && f.Blocks != nil {
			eachInstr(f, func(in ssa.Instruction) {
				if c2, ok := in.(ssa.CallInstruction); ok {
					add(c2.Common().StaticCallee(), depth+1)
				}
			})
		}
	}
	for _, callee := range la.c.Callees(ci) {
		add(callee, 0)
	}
	return out
}
