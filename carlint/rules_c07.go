package main

import (
	"fmt"
	"go/token"
	"go/types"
	"sort"
	"strings"

	"golang.org/x/tools/go/ssa"
)

func init() {
	register(PropertyDef{
		ID: "C07",
		Explanation: "Decided statically: (R07a) the lookup callback of store.FindCid reports 'found' (stops the iteration without an error) only behind the true outcome of the " +
			"confirmation of the section's own CID against the key — whole-CID Equals on the UseWholeCIDs branch, multihash byte equality otherwise — and every " +
			"non-matching candidate resets the result and continues with the next offset; (R07b) the five front-end call sites (ReadOnly.Has/Get/GetSize, " +
			"StorageCar.Has/GetStream) pass, by position, the payload-relative backing reader, the index, the key, Options.BlockstoreUseWholeCIDs, " +
			"Options.ZeroLengthSectionAsEOF, Options.MaxAllowedSectionSize and a constant (the two bools are adjacent: a swap compiles); (R07c) constructors window a " +
			"CARv2 through Reader.DataReader() for both the backing and a generated index, read a stored index through IndexReader(), and forward the caller's options " +
			"to every option-taking callee; (R07d) key listings flatten to NewCidV1(Raw, hash) exactly when UseWholeCIDs is off, and every scanned section's key is sent. " +
			"NOT decided: that returned bytes equal the scanned section for all archives; duplicate handling inside the sorted index codecs.",
		Assumptions: []string{"index.Index.GetAll calls the callback for every candidate offset until it returns false"},
		Rules: []RuleDef{
			{ID: "R07a", Floor: 3, Doc: "FindCid callback: found only behind the CID/multihash confirmation; mismatches continue", Run: ruleR07a},
			{ID: "R07b", Floor: 4, Doc: "positional agreement of the five FindCid call sites", Run: ruleR07b},
			{ID: "R07c", Floor: 2 + 3, Doc: "payload window and index source in NewReadOnly/OpenReadable; options forwarded to option-taking callees", Run: ruleR07c},
			{ID: "R07e", Floor: 1, Doc: "a caller-supplied index is used as given (never replaced by an embedded or generated one)", Run: ruleR07e},
			{ID: "R07i", Floor: 1, Doc: "identity answers carry the decoder's digest (= R04g)", Run: ruleR04g},
			{ID: "R07j", Floor: 5, Doc: "answer provenance: what Has/Get/GetSize/GetStream return is computed from this call's store.FindCid / store.IsIdentity results, the key and the backing reader only — never from state remembered on the store between calls", Run: ruleR07j},
			{ID: "R07g", Floor: 2, Doc: "the insertion index keeps records with equal digests side by side (= R03f)", Run: ruleR03f},
			{ID: "R07h", Floor: 1, Doc: "InsertionIndex.GetAll offers every record with the key's digest (= R03g)", Run: ruleR03g},
			{ID: "R07f", Floor: 1, Doc: "index generation loads the index once (= R03h)", Run: ruleR03h},
			{ID: "R07d", Floor: 2 + 1, Doc: "key flattening polarity in both AllKeysChan; every scanned key is sent", Run: ruleR07d},
			{ID: "R07k", Floor: 3, Doc: "the sorted index is searched and read in the layout it was written in, with the whole-digest comparison (= R03i)", Run: ruleR03i},
			{ID: "R07l", Floor: 2, Doc: "a generated index records true section offsets (= R03b)", Run: ruleR03b},
			{ID: "R07m", Floor: 1, Doc: "Reader.Roots hands out the root list as decoded from the payload header (or its cached copy), not a filtered or rebuilt list: the storage front-end takes a CARv2's roots from here, the blockstore from the header itself", Run: ruleR07m},
			{ID: "R07n", Floor: 1, Doc: "equal digests are legal neighbours in a bucket (the same block stored twice, or under two codecs): no check in package index rejects two records for comparing equal", Run: ruleR07n},
			{ID: "R07o", Floor: 6, Doc: "the identity short-circuit of the read-only store is taken only with StoreIdentityCIDs off: with it on, Get answers from the archive like the scan does (= R04d)", Run: ruleR04d},
			{ID: "R07p", Floor: 1, Doc: "NewOffsetReadSeeker positions a re-wrapped view from its offset argument and the wrapped view's base, never from the wrapped view's cursor (a moving quantity: every lookup through the new view would be shifted by what had been consumed)", Run: ruleR07p},
			{ID: "R07q", Floor: 2, Doc: "ReadOnly.AllKeysChan and ReadOnly.Roots read the payload through a cursor of their own (a fresh NewOffsetReadSeeker over the backing), not through the shared backing's own cursor", Run: ruleR07q},
			{ID: "R07r", Floor: 1, Doc: "no new mutable package-level state: what a lookup answers is computed from the archive, not from what an earlier call left behind (= R13k)", Run: ruleR13k},
			{ID: "R07s", Floor: 2, Doc: "index-backed lookups accept sections exactly as long as their CID (empty blocks), like the scan does (= R01r)", Run: ruleR01r},
			{ID: "R07t", Floor: 1, Doc: "both front-ends run under the options the caller gave: no constructor switches StoreIdentityCIDs for itself (= R04j)", Run: ruleR04j},
			{ID: "R07u", Floor: 1, Doc: "lookups answer from the archive, not from what an earlier call left in the object (= R08o)", Run: ruleR08o},
			{ID: "R07v", Floor: 1, Doc: "an empty block is found by the index-backed lookups as it is by the scan (= R18u)", Run: ruleR18u},
			{ID: "R07w", Floor: 7, Doc: "HeaderSize is the size of the encoding WriteHeader produces — the listing seeks by it (= R01c)", Run: ruleR01c},
			{ID: "R07x", Floor: 1, Doc: "the stores and readers carry no new state from call to call (= R08s)", Run: ruleR08s},
			{ID: "R07y", Floor: 1, Doc: "a section exactly at the size limit is served by every front-end: the limit test is `>` (= R09b)", Run: ruleR09b},
			{ID: "R07z", Floor: 2, Doc: "an index read back answers for every hash function it holds: decode and load loops store a fresh object per iteration (= R11i)", Run: ruleR11i},
			{ID: "R07A", Floor: 8, Doc: "a section read through the blockstore is filled with io.ReadFull: framing functions (= R01b)", Run: ruleR01b},
			{ID: "R07B", Floor: 20, Doc: "Roots reads the header under the header limit, like every other reader of it (= R09c)", Run: ruleR09c},
		},
	})
}

func ruleR07a(c *Ctx, r *Report) {
	fn, err := c.Func(pkgStore, "", "FindCid")
	if err != nil {
		r.InfraFail("%v", err)
		return
	}
	if len(closuresOf(fn)) != 1 {
		r.Undec("lookup-confirmation@"+fnKey(fn), c.Pos(fn.Pos()), "expected one callback closure")
		return
	}
	cb := closuresOf(fn)[0]
	key := "lookup-confirmation@" + fnKey(cb)
	// free variables by role
	var fnErr, fnLen, keyFV, wholeFV *ssa.FreeVar
	for _, fv := range cb.FreeVars {
		switch fv.Name() {
		case "fnErr":
			fnErr = fv
		case "fnLen":
			fnLen = fv
		case "key":
			keyFV = fv
		case "useWholeCids":
			wholeFV = fv
		}
	}
	if fnErr == nil || fnLen == nil || keyFV == nil || wholeFV == nil {
		r.Undec(key, c.Pos(cb.Pos()), "captured variables fnErr/fnLen/key/useWholeCids not found")
		return
	}
	isKey := func(v ssa.Value) bool {
		u, ok := canon(v).(*ssa.UnOp)
		return ok && u.Op == token.MUL && u.X == ssa.Value(keyFV)
	}
	// the CID read from the section
	isReadCid := func(v ssa.Value) bool {
		for _, l := range phiLeaves(v) {
			cl, idx := callOf(l)
			if cl == nil {
				return false
			}
			f := calleeFunc(cl.Common())
			if !((funcIs(f, pkgV1Util, "", "ReadNode") && idx == 0) || (funcIs(f, pkgCid, "", "CidFromReader") && idx == 1)) {
				return false
			}
		}
		return true
	}
	eqWhole := condEdges(cb, matchCallCond(pkgCid, "Cid", "Equals", true, func(cl *ssa.Call) bool {
		a := callArgs(cl.Common())
		return (isReadCid(a[0]) && isKey(a[1])) || (isReadCid(a[1]) && isKey(a[0]))
	}))
	isHashOf := func(v ssa.Value, pred func(ssa.Value) bool) bool {
		hc, _ := callOf(canon(v))
		return hc != nil && funcIs(calleeFunc(hc.Common()), pkgCid, "Cid", "Hash") && pred(callArgs(hc.Common())[0])
	}
	eqHash := condEdges(cb, matchCallCond("bytes", "", "Equal", true, func(cl *ssa.Call) bool {
		a := cl.Call.Args
		return (isHashOf(a[0], isReadCid) && isHashOf(a[1], isKey)) || (isHashOf(a[1], isReadCid) && isHashOf(a[0], isKey))
	}))
	if len(eqWhole) == 0 || len(eqHash) == 0 {
		r.Viol(key, c.Pos(cb.Pos()), "the callback lacks the whole-CID confirmation and/or the multihash confirmation of the section's CID against the key: a digest collision (same digest, other hash function or codec) is returned as the block")
		return
	}
	// classify returns
	var found, cont []*ssa.Return
	for _, ret := range returnsOf(cb) {
		b, ok := constBool(ret.Results[0])
		if !ok {
			r.Undec(key, c.Pos(ret.Pos()), "callback returns a non-constant")
			return
		}
		storesErr := false
		for _, in := range ret.Block().Instrs {
			if st, ok := in.(*ssa.Store); ok && st.Addr == ssa.Value(fnErr) {
				storesErr = true
			}
		}
		switch {
		case b:
			cont = append(cont, ret)
		case !storesErr:
			found = append(found, ret)
		}
	}
	bad := ""
	reachable := reach(cb, nil, edgeSet(eqWhole, eqHash))
	for _, ret := range found {
		if reachable[ret.Block()] {
			bad = fmt.Sprintf("the callback can stop the search at %s (result kept, no error) without the candidate's CID having been confirmed against the key: the search gives up on, or returns, a non-matching candidate", c.Pos(ret.Pos()))
		}
	}
	// branch placement
	wholeTrue := condEdges(cb, func(base ssa.Value) (bool, bool) {
		if u, ok := canon(base).(*ssa.UnOp); ok && u.Op == token.MUL && u.X == ssa.Value(wholeFV) {
			return true, true
		}
		return false, false
	})
	wholeFalse := condEdges(cb, func(base ssa.Value) (bool, bool) {
		if u, ok := canon(base).(*ssa.UnOp); ok && u.Op == token.MUL && u.X == ssa.Value(wholeFV) {
			return true, false
		}
		return false, false
	})
	if bad == "" {
		for _, e := range eqWhole {
			if reach(cb, nil, edgeSet(wholeTrue))[condBlock(e)] {
				bad = "the whole-CID confirmation is not confined to the UseWholeCIDs branch"
			}
		}
		for _, e := range eqHash {
			if reach(cb, nil, edgeSet(wholeFalse))[condBlock(e)] {
				bad = "the multihash confirmation is not confined to the !UseWholeCIDs branch"
			}
		}
	}
	r.Check(bad == "", key, c.Pos(cb.Pos()), fmt.Sprintf("%d found-exit(s) behind Equals / bytes.Equal(Hash) on the matching branch", len(found)), bad)
	// mismatch exits reset and continue
	key2 := "mismatch-continues@" + fnKey(cb)
	bad = ""
	nMis := 0
	for _, e := range append(append([]Edge{}, eqWhole...), eqHash...) {
		mis := opposite(e)
		rr := reachFromEdge(cb, mis, nil)
		for _, ret := range returnsOf(cb) {
			if !rr[ret.Block()] {
				continue
			}
			nMis++
			b, _ := constBool(ret.Results[0])
			if !b {
				bad = fmt.Sprintf("on a candidate whose CID does not match, the callback returns false at %s: the remaining candidate offsets are never tried and a key that IS present is reported not-found", c.Pos(ret.Pos()))
				continue
			}
			reset := false
			for _, in := range ret.Block().Instrs {
				if st, ok := in.(*ssa.Store); ok && st.Addr == ssa.Value(fnLen) {
					if k, ok := constInt(st.Val); ok && k == -1 {
						reset = true
					}
				}
			}
			if !reset {
				bad = "a non-matching candidate does not reset fnLen to -1 before continuing"
			}
		}
	}
	if nMis < 2 && bad == "" {
		bad = "mismatch exits not found"
	}
	r.Check(bad == "", key2, c.Pos(cb.Pos()), "non-matching candidates reset the result and return true (continue)", bad)
	// result mapping in FindCid
	key3 := "notfound-mapping@" + fnKey(fn)
	ok := false
	for _, ret := range returnsOf(fn) {
		if isGlobalLoad(canon(ret.Results[3]), pkgIndex, "ErrNotFound") {
			ok = true
		}
	}
	r.Check(ok, key3, c.Pos(fn.Pos()), "fnLen == -1 is reported as index.ErrNotFound", "FindCid no longer reports an unconfirmed search as index.ErrNotFound")
}

func ruleR07b(c *Ctx, r *Report) {
	// every call site of store.FindCid in the two front-end packages (the methods may share helpers)
	n := 0
	for _, fn := range c.RepoFuncs() {
		if fn.Pkg == nil || (fn.Pkg.Pkg.Path() != pkgBS && fn.Pkg.Pkg.Path() != pkgStorage) {
			continue
		}
		ord := 0
		for _, call := range callsToFunc(fn, pkgStore, "", "FindCid") {
			ord++
			n++
			key := fmt.Sprintf("findcid-args@%s#%d", fnKey(fn), ord)
			a := call.Common().Args
			bad := ""
			isBacking := loadsField(canon(stripIface(a[0])), pkgBS, "ReadOnly", "backing") || loadsField(canon(stripIface(a[0])), pkgStorage, "StorageCar", "reader")
			isIdx := loadsField(canon(stripIface(a[1])), pkgBS, "ReadOnly", "idx") || loadsField(canon(stripIface(a[1])), pkgStorage, "StorageCar", "idx")
			switch {
			case !isBacking:
				bad = "argument 1 is not the payload-relative backing reader of the store"
			case !isIdx:
				bad = "argument 2 is not the store's index"
			case !loadsField(canon(a[3]), modV2, "Options", "BlockstoreUseWholeCIDs"):
				bad = "argument 4 (useWholeCids) is not Options.BlockstoreUseWholeCIDs"
			case !loadsField(canon(a[4]), modV2, "Options", "ZeroLengthSectionAsEOF"):
				bad = "argument 5 (zeroLenAsEOF) is not Options.ZeroLengthSectionAsEOF"
			case !loadsField(canon(a[5]), modV2, "Options", "MaxAllowedSectionSize"):
				bad = "argument 6 is not Options.MaxAllowedSectionSize"
			}
			if bad == "" {
				if _, ok := constBool(a[6]); !ok {
					if _, isParam := canon(a[6]).(*ssa.Parameter); !isParam {
						bad = "argument 7 (readBytes) is neither a constant nor a pass-through parameter"
					}
				}
			}
			if bad == "" {
				okKey := false
				for _, o := range origins(a[2], originOpts{}) {
					if o.Kind == "param" || (o.Kind == "call" && funcIs(o.Fn, pkgCid, "", "Cast")) {
						okKey = true
					}
				}
				if !okKey {
					bad = "argument 3 is not the key being looked up"
				}
			}
			r.Check(bad == "", key, c.Pos(call.Pos()), "(backing, idx, key, UseWholeCIDs, ZeroLengthSectionAsEOF, MaxAllowedSectionSize, const)", bad)
		}
	}
	r.Count("store.FindCid call sites in blockstore and storage", n)
	// each lookup method reaches FindCid (directly or through a same-type helper)
	for _, s := range []fnSpec{{pkgBS, "ReadOnly", "Has"}, {pkgBS, "ReadOnly", "Get"}, {pkgBS, "ReadOnly", "GetSize"}, {pkgStorage, "StorageCar", "Has"}, {pkgStorage, "StorageCar", "GetStream"}} {
		fn, err := c.Func(s.pkg, s.recv, s.name)
		if err != nil {
			r.InfraFail("%v", err)
			continue
		}
		reaches := len(callsToFunc(fn, pkgStore, "", "FindCid")) > 0
		eachInstr(fn, func(in ssa.Instruction) {
			if ci, ok := in.(ssa.CallInstruction); ok {
				if h := staticTarget(ci.Common()); h != nil && h.Blocks != nil && h.Pkg == fn.Pkg && len(callsToFunc(h, pkgStore, "", "FindCid")) > 0 {
					reaches = true
				}
			}
		})
		r.Check(reaches, "lookup-uses-findcid@"+fnKey(fn), c.Pos(fn.Pos()), "answers through store.FindCid", "the lookup no longer goes through store.FindCid (the confirmed lookup)")
	}
}

func ruleR07c(c *Ctx, r *Report) {
	// payload window
	for _, s := range []struct {
		spec         fnSpec
		typ, backing string
	}{{fnSpec{pkgBS, "", "NewReadOnly"}, "ReadOnly", "backing"}, {fnSpec{pkgStorage, "", "OpenReadable"}, "StorageCar", "reader"}} {
		fn, err := c.Func(s.spec.pkg, s.spec.recv, s.spec.name)
		if err != nil {
			r.InfraFail("%v", err)
			continue
		}
		key := "payload-window@" + fnKey(fn)
		bad := ""
		nDR, nRaw := 0, 0
		eachInstr(fn, func(in ssa.Instruction) {
			st, ok := in.(*ssa.Store)
			if !ok {
				return
			}
			fa, ok := st.Addr.(*ssa.FieldAddr)
			if !ok || !fieldAddrIs(fa, s.spec.pkg, s.typ, s.backing) {
				return
			}
			for _, o := range origins(st.Val, originOpts{}) {
				switch {
				case o.Kind == "call" && funcIs(o.Fn, modV2, "Reader", "DataReader"):
					nDR++
				case o.Kind == "param":
					nRaw++
				default:
					bad = "the backing reader is assigned from " + o.Kind + ": for a CARv2 it must be Reader.DataReader() (payload-relative), for a CARv1 the raw reader"
				}
			}
		})
		if bad == "" && (nDR == 0 || nRaw == 0) {
			bad = "the constructor does not install DataReader() for CARv2 and the raw reader for CARv1"
		}
		// index sources: ReadFrom(IndexReader()), or generated over DataReader()/raw
		if bad == "" {
			for _, ci := range callsToFunc(fn, pkgIndex, "", "ReadFrom") {
				okSrc := false
				for _, o := range origins(ci.Common().Args[0], originOpts{}) {
					if o.Kind == "call" && funcIs(o.Fn, modV2, "Reader", "IndexReader") {
						okSrc = true
					}
				}
				if !okSrc {
					bad = "a stored index is read from something other than Reader.IndexReader()"
				}
			}
			gens := append(callsToFunc(fn, modV2, "", "LoadIndex"), callsToFunc(fn, pkgBS, "", "generateIndex")...)
			for _, ci := range gens {
				src := ci.Common().Args[0]
				if funcIs(calleeFunc(ci.Common()), modV2, "", "LoadIndex") {
					src = ci.Common().Args[1]
				}
				for _, o := range origins(src, originOpts{through: func(call *ssa.Call, f *types.Func) []ssa.Value {
					if funcIs(f, pkgIntIO, "", "ToReadSeeker") {
						return call.Call.Args[:1]
					}
					return nil
				}}) {
					if !(o.Kind == "param" || (o.Kind == "call" && funcIs(o.Fn, modV2, "Reader", "DataReader"))) {
						bad = "an index is generated over something other than the payload (DataReader() / the CARv1 reader): its offsets would not be payload-relative"
					}
				}
			}
		}
		r.Check(bad == "", key, c.Pos(fn.Pos()), "v2: backing and generated index over DataReader(), stored index from IndexReader(); v1: raw reader", bad)
	}
	// option forwarding
	n := 0
	for _, fn := range c.RepoFuncs() {
		if fn.Pkg == nil || (fn.Pkg.Pkg.Path() != pkgBS && fn.Pkg.Pkg.Path() != pkgStorage && fn.Pkg.Pkg.Path() != modV2) {
			continue
		}
		if fn.Signature.Variadic() == false || len(fn.Params) == 0 {
			continue
		}
		optsP := fn.Params[len(fn.Params)-1]
		if !isOptionSlice(optsP.Type()) {
			continue
		}
		ord := map[string]int{}
		eachInstr(fn, func(in ssa.Instruction) {
			ci, ok := in.(*ssa.Call)
			if !ok {
				return
			}
			f := calleeFunc(ci.Common())
			if f == nil || f.Pkg() == nil || !isRepoPkg(f.Pkg().Path()) {
				return
			}
			sig := f.Type().(*types.Signature)
			if !sig.Variadic() || !isOptionSlice(sig.Params().At(sig.Params().Len()-1).Type()) {
				return
			}
			n++
			fk := funcKey(f)
			ord[fk]++
			key := fmt.Sprintf("options-forwarded@%s#%s#%d", fnKey(fn), fk, ord[fk])
			arg := ci.Call.Args[len(ci.Call.Args)-1]
			ok = false
			for _, o := range origins(arg, originOpts{through: func(call *ssa.Call, f *types.Func) []ssa.Value {
				if b, isB := call.Call.Value.(*ssa.Builtin); isB && b.Name() == "append" {
					return call.Call.Args
				}
				return nil
			}}) {
				if o.Kind == "param" && o.Val == ssa.Value(optsP) {
					ok = true
				}
			}
			r.Check(ok, key, c.Pos(in.Pos()), "the caller's options are passed on", "the caller's options are not forwarded to "+fk+": it runs with defaults (e.g. StoreIdentityCIDs, ZeroLengthSectionAsEOF, size limits) while the rest of the store uses the caller's options")
		})
	}
	r.Count("option-taking calls inside option-taking functions", n)
}

func isOptionSlice(t types.Type) bool {
	s, ok := t.Underlying().(*types.Slice)
	if !ok {
		return false
	}
	return isNamed(s.Elem(), modV2, "Option")
}

func ruleR07d(c *Ctx, r *Report) {
	for _, s := range []fnSpec{{pkgBS, "ReadOnly", "AllKeysChan"}, {pkgBS, "ReadWrite", "AllKeysChan"}} {
		fn, err := c.Func(s.pkg, s.recv, s.name)
		if err != nil {
			r.InfraFail("%v", err)
			continue
		}
		key := "key-flattening@" + fnKey(fn)
		bad := "no flattening NewCidV1(Raw, c.Hash()) found"
		for _, g := range withNewCallees(fn) {
			for _, ci := range callsToFunc(g, pkgCid, "", "NewCidV1") {
				k, isK := constInt(ci.Common().Args[0])
				hc, _ := callOf(canon(ci.Common().Args[1]))
				if !isK || k != 0x55 || hc == nil || !funcIs(calleeFunc(hc.Common()), pkgCid, "Cid", "Hash") {
					bad = "keys are not flattened to NewCidV1(cid.Raw, c.Hash())"
					continue
				}
				off := condEdges(g, matchFieldCond(modV2, "Options", "BlockstoreUseWholeCIDs", false))
				if len(off) == 0 || reach(g, nil, edgeSet(off))[ci.Block()] {
					bad = "the flattening is not confined to the !UseWholeCIDs outcome"
				} else {
					bad = ""
				}
			}
		}
		r.Check(bad == "", key, c.Pos(fn.Pos()), "flatten exactly when !BlockstoreUseWholeCIDs", bad)
	}
	// ReadOnly.AllKeysChan: every scanned section's key is sent
	fn, err := c.Func(pkgBS, "ReadOnly", "AllKeysChan")
	if err != nil {
		r.InfraFail("%v", err)
		return
	}
	key := "all-keys-sent@" + fnKey(fn)
	if len(closuresOf(fn)) != 1 {
		r.Undec(key, c.Pos(fn.Pos()), "scanning goroutine not found")
		return
	}
	g := closuresOf(fn)[0]
	lens := callsToFunc(g, pkgVarint, "", "ReadUvarint")
	cids := callsToFunc(g, pkgCid, "", "CidFromReader")
	var sel *ssa.Select
	eachInstr(g, func(in ssa.Instruction) {
		if s, ok := in.(*ssa.Select); ok {
			sel = s
		}
	})
	if len(lens) != 1 || len(cids) != 1 || sel == nil {
		r.Undec(key, c.Pos(g.Pos()), "scan loop shape not recognised")
		return
	}
	cut := EdgeSet{}
	for i := range sel.Block().Succs {
		cut[Edge{From: sel.Block(), Succ: i}] = true
	}
	bad := ""
	for i := range cids[0].Block().Succs {
		if reachFromEdge(g, Edge{From: cids[0].Block(), Succ: i}, cut)[lens[0].Block()] && cids[0].Block() != sel.Block() {
			bad = "the scan can move on to the next section without sending the current section's key (e.g. de-duplicating keys): the listing is no longer the scan's CID sequence"
		}
	}
	r.Check(bad == "", key, c.Pos(g.Pos()), "each scanned section reaches the channel send before the next one is read", bad)
}

func ruleR07e(c *Ctx, r *Report) {
	fn, err := c.Func(pkgBS, "", "NewReadOnly")
	if err != nil {
		r.InfraFail("%v", err)
		return
	}
	key := "supplied-index-kept@" + fnKey(fn)
	idxP := fn.Params[1]
	isIdx := func(v ssa.Value) bool {
		for _, l := range phiLeaves(v) {
			if l == ssa.Value(idxP) {
				return true
			}
		}
		return canon(v) == ssa.Value(idxP)
	}
	absent := cmpNilEdges(fn, isIdx, true)
	bad := ""
	if len(absent) == 0 {
		bad = "NewReadOnly never tests whether an index was supplied"
	} else {
		reachable := reach(fn, nil, edgeSet(absent))
		eachInstr(fn, func(in ssa.Instruction) {
			ci, ok := in.(*ssa.Call)
			if !ok {
				return
			}
			f := calleeFunc(ci.Common())
			if funcIs(f, pkgIndex, "", "ReadFrom") || funcIs(f, pkgBS, "", "generateIndex") || funcIs(f, modV2, "", "GenerateIndex") || funcIs(f, modV2, "", "LoadIndex") {
				if reachable[in.Block()] {
					bad = fmt.Sprintf("%s at %s runs although the caller supplied an index: the supplied index is silently replaced", funcKey(f), c.Pos(in.Pos()))
				}
			}
		})
	}
	r.Check(bad == "", key, c.Pos(fn.Pos()), "an index is read or generated only behind idx == nil", bad)
}

// ruleR07j: a lookup answer is a function of (index, payload, key) of this call.
func ruleR07j(c *Ctx, r *Report) {
	var leavesOf func(fn *ssa.Function, res int, depth int, seen map[*ssa.Function]bool) []string
	leavesOf = func(fn *ssa.Function, res int, depth int, seen map[*ssa.Function]bool) []string {
		var bad []string
		if seen[fn] || depth > 3 {
			return nil
		}
		seen[fn] = true
		defer delete(seen, fn)
		opts := originOpts{binops: true}
		opts.through = func(call *ssa.Call, f *types.Func) []ssa.Value {
			if funcIs(f, pkgStore, "", "FindCid") || funcIs(f, pkgStore, "", "IsIdentity") {
				return nil
			}
			if f != nil {
				if callee := c.Prog.FuncValue(f); callee != nil && len(callee.Blocks) > 0 {
					return nil // examined below, as a leaf
				}
			}
			return callArgs(call.Common())
		}
		for _, ret := range returnsOf(fn) {
			if res >= len(ret.Results) {
				continue
			}
			for _, o := range origins(ret.Results[res], opts) {
				switch o.Kind {
				case "const", "param":
				case "call":
					if funcIs(o.Fn, pkgStore, "", "FindCid") || funcIs(o.Fn, pkgStore, "", "IsIdentity") {
						continue
					}
					if o.Fn != nil {
						if callee := c.Prog.FuncValue(o.Fn); callee != nil && len(callee.Blocks) > 0 {
							bad = append(bad, leavesOf(callee, o.Res, depth+1, seen)...)
							continue
						}
					}
					bad = append(bad, fmt.Sprintf("result of %s at %s", funcKeyOrNil(o.Fn), c.Pos(o.Val.Pos())))
				case "field":
					n := ""
					if o.Field != nil {
						n = o.Field.Name()
					}
					if n == "reader" || n == "backing" {
						continue
					}
					bad = append(bad, fmt.Sprintf("field %s read at %s", n, c.Pos(o.Val.Pos())))
				default:
					bad = append(bad, fmt.Sprintf("%s at %s", o.Kind, c.Pos(o.Val.Pos())))
				}
			}
		}
		return bad
	}
	for _, s := range [][3]string{
		{pkgBS, "ReadOnly", "Has"}, {pkgBS, "ReadOnly", "Get"}, {pkgBS, "ReadOnly", "GetSize"},
		{pkgStorage, "StorageCar", "Has"}, {pkgStorage, "StorageCar", "GetStream"},
	} {
		fn, err := c.Func(s[0], s[1], s[2])
		if err != nil {
			r.InfraFail("%v", err)
			continue
		}
		key := "answer-provenance@" + fnKey(fn)
		bad := leavesOf(fn, 0, 0, map[*ssa.Function]bool{})
		sort.Strings(bad)
		bad = uniqStrings(bad)
		r.Check(len(bad) == 0, key, c.Pos(fn.Pos()), "answer computed from FindCid/IsIdentity results, the key and the backing only",
			"the answer also depends on "+strings.Join(bad, "; ")+": a lookup must be decided by the index and payload for this key, not by remembered state")
	}
}

func funcKeyOrNil(f *types.Func) string {
	if f == nil {
		return "a dynamic call"
	}
	return funcKey(f)
}

func uniqStrings(in []string) []string {
	var out []string
	for i, x := range in {
		if i == 0 || x != in[i-1] {
			out = append(out, x)
		}
	}
	return out
}

func ruleR07m(c *Ctx, r *Report) {
	fn, err := c.Func(modV2, "Reader", "Roots")
	if err != nil {
		r.InfraFail("%v", err)
		return
	}
	key := "roots-as-decoded@" + fnKey(fn)
	bad := ""
	n := 0
	for _, ret := range returnsOf(fn) {
		if len(ret.Results) == 0 || resultIsNilConst(ret, 0) {
			continue
		}
		for _, o := range origins(retResult(ret, 0), originOpts{}) {
			switch {
			case o.Kind == "field" && o.Field != nil && (o.Field.Name() == "Roots" || o.Field.Name() == "roots"):
				n++
			case o.Kind == "const":
			default:
				bad = fmt.Sprintf("the list returned at %s is built from %s, not the header's own Roots: it can differ from what a scan of the payload header (and the other front-end) reports", c.Pos(ret.Pos()), o.Kind)
			}
		}
	}
	// and what is cached is the header's list
	eachInstr(fn, func(in ssa.Instruction) {
		st, ok := in.(*ssa.Store)
		if !ok {
			return
		}
		if fa, ok := st.Addr.(*ssa.FieldAddr); ok && fieldAddrIs(fa, modV2, "Reader", "roots") {
			for _, o := range origins(st.Val, originOpts{}) {
				if !(o.Kind == "field" && o.Field != nil && o.Field.Name() == "Roots") && o.Kind != "const" {
					bad = fmt.Sprintf("the cached root list is assigned at %s from %s, not from the decoded header's Roots", c.Pos(st.Pos()), o.Kind)
				}
			}
		}
	})
	if bad == "" && n == 0 {
		bad = "no return of the header's Roots found"
	}
	r.Check(bad == "", key, c.Pos(fn.Pos()), "returns the decoded header's Roots", bad)
}

func ruleR07n(c *Ctx, r *Report) {
	n := 0
	var bad []string
	for _, fn := range c.RepoFuncs() {
		if fn.Pkg == nil || fn.Pkg.Pkg.Path() != pkgIndex {
			continue
		}
		eachInstr(fn, func(in ssa.Instruction) {
			b, ok := in.(*ssa.BinOp)
			if !ok {
				return
			}
			cl, _ := b.X.(*ssa.Call)
			if cl == nil || !funcIs(calleeFunc(cl.Common()), "bytes", "", "Compare") {
				return
			}
			if k, isK := constInt(b.Y); !isK || k != 0 {
				return
			}
			// both operands are record digests of an index bucket
			isRec := func(v ssa.Value) bool {
				sl, ok := v.(*ssa.Slice)
				return ok && loadsField(canon(sl.X), pkgIndex, "singleWidthIndex", "index")
			}
			if !isRec(cl.Call.Args[0]) || !isRec(cl.Call.Args[1]) {
				return
			}
			n++
			if b.Op != token.GEQ && b.Op != token.LEQ && b.Op != token.EQL {
				return
			}
			// does the outcome that includes equality lead straight to an error return?
			for _, ref := range *b.Referrers() {
				iff, ok := ref.(*ssa.If)
				if !ok {
					continue
				}
				// the returns reachable from the outcome that includes equality: all of them error returns?
				rs := reachFromEdge(fn, Edge{From: iff.Block(), Succ: 0}, nil)
				nret, nerr := 0, 0
				for _, ret := range returnsOf(fn) {
					if !rs[ret.Block()] || len(ret.Results) == 0 {
						continue
					}
					last := len(ret.Results) - 1
					if !types.Identical(ret.Results[last].Type(), types.Universe.Lookup("error").Type()) {
						continue
					}
					nret++
					if !resultIsNilConst(ret, last) {
						nerr++
					}
				}
				if nret > 0 && nerr == nret {
					bad = append(bad, fmt.Sprintf("%s rejects two neighbouring records whose digests compare equal (%s 0) at %s", fnKey(fn), b.Op, c.Pos(b.Pos())))
				}
			}
		})
	}
	sort.Strings(bad)
	r.Check(len(bad) == 0, "equal-digests-legal@v2/index", "-", fmt.Sprintf("%d record-to-record comparisons, none rejects equality", n),
		strings.Join(bad, "; ")+": an archive that holds the same block twice, or the same bytes under two codecs, has such neighbours, and its index would be refused")
}
