package main

// Shared necessary conditions (rule R<nn>S). A rule is written for the property whose statement it
// is a necessary condition of, and registered by hand under the others it is known to matter for.
// Round 11 showed how much that registration lags: 22 of 54 changes were reported, but under another
// property than the one the change was aimed at, because the violated rule sits in a function that
// the aimed-at property's behaviour runs through without the rule being registered there (six
// different properties' agents independently turned LdReadSize's `>` into `>=`).
//
// R<nn>S closes that gap by construction: every obligation of every other property's rules that is
// violated or undecided, is keyed by a function, and whose function the property's anchor files
// declare or reach (the reach of the pitfall family, pitfalls.go) is reported under this property
// too, with the rule and property it comes from. Known findings of the home property stay there.

import (
	"fmt"
	"path/filepath"
	"regexp"
	"runtime/debug"
	"sort"
	"strings"
)

var posInText = regexp.MustCompile(`[A-Za-z0-9_/.\-]+\.go:[0-9]+`)

// sharedEnabled can switch the family off (debugging); every tier runs with it on.
var sharedEnabled = true

func (c *Ctx) allObligations() map[string][]Obligation {
	if c.allObs != nil {
		return c.allObs
	}
	out := map[string][]Obligation{}
	var ids []string
	for id := range registry {
		ids = append(ids, id)
	}
	sort.Strings(ids)
	for _, id := range ids {
		def := registry[id]
		rep := &Report{Property: id}
		for _, rd := range def.Rules {
			if strings.HasSuffix(rd.ID, "P") || strings.HasSuffix(rd.ID, "S") || strings.HasSuffix(rd.ID, "G") || strings.HasSuffix(rd.ID, "W") || strings.HasSuffix(rd.ID, "O") {
				continue
			}
			rep.cur = rd.ID
			func() {
				defer func() {
					if e := recover(); e != nil {
						rep.InfraFail("analyser panic: %v\n%s", e, debug.Stack())
					}
				}()
				rd.Run(c, rep)
			}()
		}
		out[id] = rep.Obs
	}
	c.allObs = out
	return out
}

// constructFunc: the declared function a construct key is about ("rule-kind@pkg.Recv.Name#3",
// "…@pkg.Func$1"), "" when the construct is not a function.
func constructFunc(key string) string {
	_, fn, ok := strings.Cut(key, "@")
	if !ok {
		return ""
	}
	if i := strings.IndexAny(fn, "#$ "); i >= 0 {
		fn = fn[:i]
	}
	if !strings.Contains(fn, ".") {
		return ""
	}
	return fn
}

func ruleShared(c *Ctx, r *Report) {
	if !sharedEnabled {
		r.Exempt("shared@replay", "-", "not evaluated while stored variants are replayed (the property's own rules are)")
		return
	}
	reach := c.propReach(r.Property)
	known, _, _ := loadKnown(filepath.Join(verifDir, "KNOWN_FINDINGS.txt"))
	own := map[string]bool{}
	for _, o := range c.allObligations()[r.Property] {
		own[o.Key] = true
	}
	seen := map[string]bool{}
	var ids []string
	for id := range c.allObligations() {
		ids = append(ids, id)
	}
	sort.Strings(ids)
	examined, added := 0, 0
	for _, q := range ids {
		if q == r.Property {
			continue
		}
		for _, o := range c.allObligations()[q] {
			fn := constructFunc(o.Key)
			if fn == "" {
				// a library-wide rule: the function its (first) finding is in
				pos := o.Pos
				if m := posInText.FindString(o.Detail); pos == "-" && m != "" {
					pos = m
				}
				fn = c.funcAt(pos)
			}
			if fn == "" || !reach[fn] {
				continue
			}
			examined++
			if o.Verdict != Violated && o.Verdict != Undecided {
				continue
			}
			if o.Key == "floor" || strings.HasPrefix(o.Key, "anchor@") || own[o.Key] {
				continue
			}
			isKnown := false
			for _, k := range known {
				if k.Property == q && k.Rule == o.Rule && k.Construct == o.Key {
					isKnown = true
				}
			}
			if isKnown || seen[o.Key+"|"+o.Detail] {
				continue
			}
			seen[o.Key+"|"+o.Detail] = true
			added++
			r.add(o.Verdict, "shared:"+o.Key, o.Pos, fmt.Sprintf("[necessary condition of %s, rule %s, in a function this property's anchor files reach] %s", q, o.Rule, o.Detail))
		}
	}
	r.Count("function-keyed obligations of other properties inside this property's reach", examined)
	if added == 0 {
		r.Hold("shared@reach", "-", fmt.Sprintf("%d obligations of other properties' rules lie in functions this property reaches; none is violated or undecided", examined))
	}
}

// funcAt: the declared function that contains the position "file:line" (relative to the repository).
func (c *Ctx) funcAt(pos string) string {
	file, lineS, ok := strings.Cut(pos, ":")
	if !ok {
		return ""
	}
	line := 0
	fmt.Sscanf(lineS, "%d", &line)
	if line == 0 {
		return ""
	}
	if c.funcLines == nil {
		c.funcLines = map[string][]funcSpan{}
		for _, fn := range c.RepoFuncs() {
			if fn.Parent() != nil || fn.Syntax() == nil {
				continue
			}
			a, b := c.Fset.Position(fn.Syntax().Pos()), c.Fset.Position(fn.Syntax().End())
			f := strings.TrimPrefix(a.Filename, c.Repo+"/")
			c.funcLines[f] = append(c.funcLines[f], funcSpan{a.Line, b.Line, fnKey(fn)})
		}
	}
	for _, sp := range c.funcLines[file] {
		if line >= sp.from && line <= sp.to {
			return sp.key
		}
	}
	return ""
}

type funcSpan struct {
	from, to int
	key      string
}
