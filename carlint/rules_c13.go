package main

import (
	"fmt"
	"go/token"

	"golang.org/x/tools/go/ssa"
)

func init() {
	register(PropertyDef{
		ID: "C13",
		Explanation: "Decided statically, inside Reader.Inspect: (R13a) a block is counted only behind the streamed-hash comparison with the section's own CID (or validation off), " +
			"and — because the data is streamed through a limited reader — behind the check that the reader was consumed in full (N == 0), so a section whose data ends early " +
			"cannot pass; every success return has evaluated the `version != 1 && HasIndex()` decision, and the index codec is read only on its true outcome; (R13b) no error " +
			"of a callee is dropped or swallowed; the only non-error loop exits are the clean io.EOF of the length read and the zero-length-section option; (R13c) the " +
			"statistics are bound to the right accumulators over the right per-block quantities: minima start at MaxUint64 and are lowered only on `x < min`, maxima raised only " +
			"on `x > max`, totals add x, averages are total/BlockCount under BlockCount > 0, BlockCount is incremented by one per accepted block, with x = uint64(cidLen) for " +
			"the CID statistics and sectionLength - uint64(cidLen) for the block statistics; (R13d) section lengths are bounded by the section limit (shared with C09). " +
			"NOT decided: equality of the reported numbers with an independent scan over all inputs.",
		Assumptions: []string{"multihash.SumStream reads its reader to EOF"},
		Rules: []RuleDef{
			{ID: "R13a", Floor: 3, Doc: "hash gate + full consumption of the streamed block; index-codec decision on every success path", Run: ruleR13a},
			{ID: "R13b", Floor: 8, Doc: "no dropped/swallowed error in Inspect; loop exits", Run: ruleR13b},
			{ID: "R13c", Floor: 9, Doc: "accumulator idioms bound to the right quantities", Run: ruleR13c},
			{ID: "R13g", Floor: 1, Doc: "RootsPresent counts every root at most once: the increment of the roots-present counter consumes a per-root latch (seen flag set / set entry deleted) that also gates it, so a root block stored twice cannot stand in for a missing root", Run: ruleR13g},
			{ID: "R13e", Floor: 2, Doc: "the payload header is consumed by decoding it from the data reader; the hasher is given the CID's own digest length", Run: ruleR13e},
			{ID: "R13f", Floor: 4, Doc: "index codec prefix read with the same varint family it is written with (= R11c)", Run: ruleR11c},
			{ID: "R13d", Floor: 20, Doc: "section lengths bounded by the section limit, header by the header limit (= R09c)", Run: ruleR09c},
			{ID: "R13h", Floor: 2, Doc: "Inspect scans exactly the payload window DataOffset..DataOffset+DataSize (= R10d)", Run: ruleR10d},
			{ID: "R13i", Floor: 1, Doc: "Inspect and the block reader run under the same options: nothing rewrites an option after ApplyOptions (= R04j)", Run: ruleR04j},
			{ID: "R13j", Floor: 1, Doc: "Header.HasIndex means exactly `IndexOffset != 0`: Inspect, the readers and verify decide by it whether an index must be readable; an offset that is set but implausible is an error to report, not an absent index", Run: ruleR13j},
			{ID: "R13k", Floor: 1, Doc: "no new mutable package-level state in the library: a package-level variable the pinned tree does not have is not written after initialisation (directly, or through a repository function given its address) — an inspection reports what is in the archive, not what an earlier call or another reader left in a memo", Run: ruleR13k},
			{ID: "R13l", Floor: 1, Doc: "what Inspect accepts depends on parser options only: it reads no index or writer option (MaxIndexCidSize, StoreIdentityCIDs, IndexCodec, paddings, ...), so it succeeds exactly where a scan with the same reader options does", Run: ruleR13l},
			{ID: "R13m", Floor: 1, Doc: "Inspect stops reading at the zero-length section it treats as the end: from the ZeroLengthSectionAsEOF outcome nothing reads the payload reader any more", Run: ruleR13m},
			{ID: "R13n", Floor: 1, Doc: "a root is present when a section carries that CID: Inspect compares whole CIDs, never multihashes", Run: ruleR13n},
			{ID: "R13o", Floor: 1, Doc: "the printed report lists every code that was counted: Counts.String ranges over the map it prints, not over an external table of known codes", Run: ruleR13o},
			{ID: "R13p", Floor: 1, Doc: "a full inspection accepts valid CIDv0 sections: the rebuilt CID has the section's CID version (= R02s)", Run: ruleR02s},
			{ID: "R13q", Floor: 1, Doc: "the payload Inspect walks is the one the header bounds: the three range checks of Header.ReadFrom, DataSize as a positive int64 (= R09e)", Run: ruleR09e},
			{ID: "R13s", Floor: 1, Doc: "car inspect renders roots with Cid.String(), which every CID has (a fixed multibase refuses CIDv0)", Run: ruleR13s},
			{ID: "R13t", Floor: 1, Doc: "of the index Inspect reads the codec and nothing else: it builds and loads no index (index.New, index.ReadFrom, Unmarshal), so an inspection succeeds wherever the scan succeeds and the codec prefix can be read — whether this build knows the codec is not asked", Run: ruleR13t},
		},
	})
}

func ruleR13a(c *Ctx, r *Report) {
	fn, err := c.Func(modV2, "Reader", "Inspect")
	if err != nil {
		r.InfraFail("%v", err)
		return
	}
	checkInspectGate(c, r, fn, "R13a")
	// full consumption
	{
		key := "streamed-block-fully-read@" + fnKey(fn)
		var incs []*ssa.Store
		eachInstr(fn, func(in ssa.Instruction) {
			if st, ok := in.(*ssa.Store); ok {
				if fa, ok := st.Addr.(*ssa.FieldAddr); ok && fieldAddrIs(fa, modV2, "Stats", "BlockCount") {
					incs = append(incs, st)
				}
			}
		})
		sums := callsToFunc(fn, pkgMh, "", "SumStream")
		bad := ""
		if len(sums) != 1 || len(incs) == 0 {
			bad = "SumStream / BlockCount++ not found"
		} else {
			full := streamFullyConsumedEdges(fn)
			if len(full) == 0 {
				bad = "the block data is streamed through a length-limited reader into the hasher but nothing checks that the announced length was actually present (LimitedReader.N == 0): a section that ends early passes when its CID matches the bytes that are there, while every scanning reader reports unexpected EOF"
			} else {
				reachable := reach(fn, sums[0].Block(), edgeSet(full))
				for _, st := range incs {
					if reachable[st.Block()] {
						bad = "a block is counted on a path that did not establish N == 0 on the limited reader"
					}
				}
			}
		}
		r.Check(bad == "", key, c.Pos(fn.Pos()), "counted only behind LimitedReader.N == 0 after SumStream", bad)
	}
	// index decision
	{
		key := "index-codec-decision@" + fnKey(fn)
		has := condEdges(fn, matchCallCond(modV2, "Header", "HasIndex", true, nil))
		rc := callsToFunc(fn, pkgIndex, "", "ReadCodec")
		bad := ""
		if len(has) != 1 || len(rc) != 1 {
			bad = "HasIndex() test / index.ReadCodec not found"
		} else {
			if reach(fn, nil, edgeSet(has))[rc[0].Block()] {
				bad = "the index codec is read without the header claiming an index"
			}
			// every success return has passed the decision point
			cut := EdgeSet{}
			db := has[0].From
			// version != 1 short-circuit sits in a predecessor: cut both the HasIndex block and the edge that skips it
			for i := range db.Succs {
				cut[Edge{From: db, Succ: i}] = true
			}
			// stats.Version is r.Version (Stats{Version: r.Version, ...}); either spelling is the version test
			v1 := cmpEdges(fn, func(v ssa.Value) bool {
				return loadsField(canon(v), modV2, "Stats", "Version") || loadsField(canon(v), modV2, "Reader", "Version")
			}, func(v ssa.Value) bool { k, ok := constInt(v); return ok && k == 1 }, "eq")
			for _, e := range v1 {
				cut[e] = true
			}
			reachable := reach(fn, nil, cut)
			for _, ret := range returnsOf(fn) {
				if isNilConst(ret.Results[1]) && reachable[ret.Block()] {
					bad = fmt.Sprintf("Inspect can return success at %s without having decided whether an index codec must be readable (e.g. an early return for empty archives): a CARv2 with a missing/garbage index passes", c.Pos(ret.Pos()))
				}
			}
		}
		r.Check(bad == "", key, c.Pos(fn.Pos()), "ReadCodec exactly on version != 1 && HasIndex(); no success return bypasses the decision", bad)
	}
}

func ruleR13b(c *Ctx, r *Report) {
	n := checkErrDiscipline(c, r, []fnSpec{{modV2, "Reader", "Inspect"}}, true)
	r.Count("error-returning calls in Inspect", n)
	fn, err := c.Func(modV2, "Reader", "Inspect")
	if err != nil {
		r.InfraFail("%v", err)
		return
	}
	// loop exits: from the section loop to the statistics epilogue only via EOF of the length read or the zero-length option
	key := "loop-exits@" + fnKey(fn)
	lens := callsToFunc(fn, pkgVarint, "", "ReadUvarint")
	if len(lens) == 0 {
		lens = callsToFunc(fn, pkgV1Util, "", "LdReadSize")
	}
	var rootsPresent *ssa.Store
	eachInstr(fn, func(in ssa.Instruction) {
		if st, ok := in.(*ssa.Store); ok {
			if fa, ok := st.Addr.(*ssa.FieldAddr); ok && fieldAddrIs(fa, modV2, "Stats", "RootsPresent") {
				rootsPresent = st
			}
		}
	})
	if len(lens) != 1 || rootsPresent == nil {
		r.Undec(key, c.Pos(fn.Pos()), "section loop / epilogue not recognised")
		return
	}
	errv := extractOf(lens[0].Value(), 1)
	closure := flowClosure(errv)
	eof := condEdges(fn, func(base ssa.Value) (bool, bool) {
		b, ok := base.(*ssa.BinOp)
		if !ok || (b.Op != token.EQL && b.Op != token.NEQ) {
			return false, false
		}
		if (closure[b.X] && isGlobalLoad(b.Y, "io", "EOF")) || (closure[b.Y] && isGlobalLoad(b.X, "io", "EOF")) {
			return true, b.Op == token.EQL
		}
		return false, false
	})
	zero := condEdges(fn, matchFieldCond(modV2, "Options", "ZeroLengthSectionAsEOF", true))
	bad := ""
	if len(eof) == 0 {
		bad = "the loop has no clean io.EOF exit"
	} else if reach(fn, lens[0].Block(), edgeSet(eof, zero))[rootsPresent.Block()] {
		bad = "the section loop can be left towards the success epilogue by something other than the clean EOF of a length read or the zero-length-section option: a failing scan is reported as a successful inspection"
	}
	r.Check(bad == "", key, c.Pos(fn.Pos()), "loop left only on io.EOF of the length read / ZeroLengthSectionAsEOF", bad)
}

func ruleR13c(c *Ctx, r *Report) {
	fn, err := c.Func(modV2, "Reader", "Inspect")
	if err != nil {
		r.InfraFail("%v", err)
		return
	}
	pos := c.Pos(fn.Pos())
	lens := callsToFunc(fn, pkgVarint, "", "ReadUvarint")
	if len(lens) == 0 {
		lens = callsToFunc(fn, pkgV1Util, "", "LdReadSize")
	}
	cids := callsToFunc(fn, pkgCid, "", "CidFromReader")
	if len(lens) != 1 || len(cids) != 1 {
		r.Undec("accumulators@"+fnKey(fn), pos, "section loop not recognised")
		return
	}
	L := extractOf(lens[0].Value(), 0)
	n := extractOf(cids[0].Value(), 0)
	env := &AffEnv{name: func(v ssa.Value) string {
		switch canon(v) {
		case L:
			return "L"
		case n:
			return "n"
		}
		return ""
	}}
	isQ := func(q string) func(ssa.Value) bool {
		want := affAtom("n")
		if q == "block" {
			want = affAtom("L").add(affAtom("n"), -1)
		}
		return func(v ssa.Value) bool { return env.of(canon(v)).equal(want) }
	}
	statStore := func(field string) *ssa.Store {
		var out *ssa.Store
		eachInstr(fn, func(in ssa.Instruction) {
			if st, ok := in.(*ssa.Store); ok {
				if fa, ok := st.Addr.(*ssa.FieldAddr); ok && fieldAddrIs(fa, modV2, "Stats", field) {
					out = st
				}
			}
		})
		return out
	}
	// ---- minima
	for _, m := range []struct{ field, q string }{{"MinCidLength", "cid"}, {"MinBlockLength", "block"}} {
		key := "min@" + m.field
		st := statStore(m.field)
		bad := ""
		if st == nil {
			bad = "not reported"
		} else {
			phi, ok := canon(st.Val).(*ssa.Phi)
			if !ok {
				bad = "the reported minimum is not the loop-carried minimum"
			} else {
				bad = checkExtremum(fn, phi, isQ(m.q), "lt", true)
			}
		}
		r.Check(bad == "", key, pos, "starts at MaxUint64; lowered to x only on x < min; x = "+map[string]string{"cid": "uint64(cidLen)", "block": "sectionLength - uint64(cidLen)"}[m.q], bad)
	}
	// ---- maxima: stores to the Stats field in the loop, guarded by x > field
	for _, m := range []struct{ field, q string }{{"MaxCidLength", "cid"}, {"MaxBlockLength", "block"}} {
		key := "max@" + m.field
		st := statStore(m.field)
		bad := ""
		if st == nil {
			bad = "not reported"
		} else if a, b, ok := builtinArgs(canon(st.Val), "max"); ok {
			// max(field, x): raised to x exactly when x is larger
			isF := func(v ssa.Value) bool { return loadsField(canon(v), modV2, "Stats", m.field) }
			if !(isF(a) && isQ(m.q)(b)) && !(isF(b) && isQ(m.q)(a)) {
				bad = "the maximum is not max(" + m.field + ", per-block " + m.q + " length)"
			}
		} else if !isQ(m.q)(st.Val) {
			bad = "the maximum is raised to a quantity other than the per-block " + m.q + " length"
		} else {
			gt := cmpEdges(fn, isQ(m.q), func(v ssa.Value) bool { return loadsField(canon(v), modV2, "Stats", m.field) }, "gt")
			if len(gt) == 0 || reach(fn, cids[0].Block(), edgeSet(gt))[st.Block()] {
				bad = "the maximum is not raised exactly on x > max"
			}
		}
		r.Check(bad == "", key, pos, "raised to x only on x > max", bad)
	}
	// ---- totals and averages
	for _, m := range []struct{ field, q string }{{"AvgCidLength", "cid"}, {"AvgBlockLength", "block"}} {
		key := "avg@" + m.field
		st := statStore(m.field)
		bad := ""
		if st == nil {
			bad = "not reported"
		} else {
			q, ok := canon(st.Val).(*ssa.BinOp)
			if !ok || q.Op != token.QUO || !loadsField(canon(q.Y), modV2, "Stats", "BlockCount") {
				bad = "the average is not total / BlockCount"
			} else {
				phi, ok := canon(q.X).(*ssa.Phi)
				if !ok {
					bad = "the dividend is not the loop-carried total"
				} else {
					bad = checkTotal(phi, isQ(m.q))
				}
			}
			if bad == "" {
				pos0 := cmpEdges(fn, func(v ssa.Value) bool { return loadsField(canon(v), modV2, "Stats", "BlockCount") }, func(v ssa.Value) bool { k, ok := constInt(v); return ok && k == 0 }, "ne")
				if len(pos0) == 0 || reach(fn, nil, edgeSet(pos0))[st.Block()] {
					bad = "the division is not guarded by BlockCount > 0"
				}
			}
		}
		r.Check(bad == "", key, pos, "total(x)/BlockCount under BlockCount > 0", bad)
	}
	// ---- BlockCount++
	{
		key := "count@BlockCount"
		st := statStore("BlockCount")
		bad := ""
		if st == nil {
			bad = "BlockCount is never updated"
		} else {
			b, ok := canon(st.Val).(*ssa.BinOp)
			k, isK := int64(0), false
			if ok {
				k, isK = constInt(b.Y)
			}
			if !ok || b.Op != token.ADD || !isK || k != 1 || !loadsField(canon(b.X), modV2, "Stats", "BlockCount") {
				bad = "BlockCount is not incremented by exactly one per block"
			}
		}
		r.Check(bad == "", key, pos, "BlockCount = BlockCount + 1", bad)
	}
	// ---- histograms
	for _, m := range []struct{ field, pf string }{{"CodecCounts", "Codec"}, {"MhTypeCounts", "MhType"}} {
		key := "histogram@" + m.field
		bad := "no update of the histogram found"
		eachInstr(fn, func(in ssa.Instruction) {
			mu, ok := in.(*ssa.MapUpdate)
			if !ok || !loadsField(canon(mu.Map), modV2, "Stats", m.field) {
				return
			}
			// key = Code(cp.<pf>) ; value = lookup + 1
			fv, _ := fieldOfLoad(canon(mu.Key))
			b, isB := canon(mu.Value).(*ssa.BinOp)
			k, isK := int64(0), false
			if isB {
				k, isK = constInt(b.Y)
			}
			switch {
			case fv == nil || fv.Name() != m.pf:
				bad = "the histogram is keyed by something other than Prefix()." + m.pf
			case !isB || b.Op != token.ADD || !isK || k != 1:
				bad = "the histogram entry is not incremented by one"
			default:
				bad = ""
			}
		})
		r.Check(bad == "", key, pos, "counts[Prefix()."+m.pf+"]++", bad)
	}
}

// checkExtremum validates a loop-carried min (rel "lt") accumulator phi: initial
// constant MaxUint64 and every other input is either the accumulator itself or x on the
// edge where `x rel acc` was established.
func checkExtremum(fn *ssa.Function, loopPhi *ssa.Phi, isX func(ssa.Value) bool, rel string, wantMaxInit bool) string {
	sawInit := false
	var updates []ssa.Value
	for _, e := range loopPhi.Edges {
		if k, ok := e.(*ssa.Const); ok {
			if wantMaxInit && k.Uint64() == ^uint64(0) {
				sawInit = true
				continue
			}
			return "the minimum does not start at math.MaxUint64 (a zero or other sentinel is mistaken for a real minimum, or masks one)"
		}
		updates = append(updates, e)
	}
	if !sawInit {
		return "no MaxUint64 initial value"
	}
	for _, u := range updates {
		// min(acc, x) / max(acc, x): the builtin is the guarded update in one expression
		if a, b, ok := builtinArgs(canon(u), map[string]string{"lt": "min", "gt": "max"}[rel]); ok {
			isAcc := func(v ssa.Value) bool { return canon(v) == ssa.Value(loopPhi) }
			if (isAcc(a) && isX(b)) || (isAcc(b) && isX(a)) {
				continue
			}
			return "the accumulator is combined with something other than the per-block quantity"
		}
		p, ok := canon(u).(*ssa.Phi)
		if !ok {
			return "update shape not recognised"
		}
		for i, e := range p.Edges {
			switch {
			case canon(e) == ssa.Value(loopPhi):
			case isX(e):
				lt := cmpEdges(fn, isX, func(v ssa.Value) bool { return canon(v) == ssa.Value(loopPhi) }, rel)
				ok := false
				for _, ed := range lt {
					tgt := ed.From.Succs[ed.Succ]
					if tgt == p.Block().Preds[i] || (ed.From == p.Block().Preds[i] && tgt == p.Block()) {
						ok = true
					}
				}
				if !ok {
					return "the minimum is replaced by x on an edge where x < min was not established"
				}
			default:
				return "the minimum takes a value that is neither itself nor the per-block quantity"
			}
		}
	}
	return ""
}

func checkTotal(loopPhi *ssa.Phi, isX func(ssa.Value) bool) string {
	for _, e := range loopPhi.Edges {
		if k, ok := constInt(e); ok {
			if k != 0 {
				return "the total does not start at 0"
			}
			continue
		}
		b, ok := canon(e).(*ssa.BinOp)
		if !ok || b.Op != token.ADD {
			return "the total is not advanced by an addition"
		}
		switch {
		case canon(b.X) == ssa.Value(loopPhi) && isX(b.Y):
		case canon(b.Y) == ssa.Value(loopPhi) && isX(b.X):
		default:
			return "the total is advanced by something other than the per-block quantity (e.g. the whole section length)"
		}
	}
	return ""
}

func ruleR13e(c *Ctx, r *Report) {
	fn, err := c.Func(modV2, "Reader", "Inspect")
	if err != nil {
		r.InfraFail("%v", err)
		return
	}
	// header consumed by reading it
	{
		key := "header-consumed-by-decoding@" + fnKey(fn)
		drs := callsToFunc(fn, modV2, "Reader", "DataReader")
		rh := callsToFunc(fn, pkgV1, "", "ReadHeader")
		bad := ""
		if len(drs) != 1 || len(rh) != 1 {
			bad = "Inspect does not decode the payload header with carv1.ReadHeader from its data reader: skipping it by a size obtained from re-encoding (HeaderSize) mis-positions the scan for headers whose stored encoding is not canonical"
		} else {
			dr := extractOf(drs[0].Value(), 0)
			if canon(stripIface(rh[0].Common().Args[0])) != dr {
				bad = "the header is not decoded from the data reader the sections are then read from"
			}
			eachInstr(fn, func(in ssa.Instruction) {
				ci, ok := in.(*ssa.Call)
				if !ok || !isSeekCall(ci) || canon(stripIface(seekReceiver(ci))) != dr {
					return
				}
				_, wh := seekArgs(ci)
				if k, ok := constInt(wh); !ok || k != 1 {
					bad = "the data reader is re-positioned absolutely at " + c.Pos(in.Pos()) + ": section positions must follow from what was read"
				}
			})
		}
		r.Check(bad == "", key, c.Pos(fn.Pos()), "ReadHeader(dr) then relative seeks only", bad)
	}
	// digest length
	{
		key := "digest-length@" + fnKey(fn)
		sums := callsToFunc(fn, pkgMh, "", "SumStream")
		bad := ""
		if len(sums) != 1 {
			bad = "SumStream not found"
		} else {
			sawLen, sawOther := false, false
			for _, o := range origins(sums[0].Common().Args[2], originOpts{}) {
				switch {
				case o.Kind == "field" && o.Field != nil && o.Field.Name() == "MhLength":
					sawLen = true
				case o.Kind == "const":
					if k, ok := constInt(o.Val); !ok || k != -1 {
						sawOther = true
					}
				default:
					sawOther = true
				}
			}
			if !sawLen || sawOther {
				bad = "the streamed hash is not computed with the CID's own digest length (Prefix().MhLength, -1 only for identity): CIDs with truncated digests are then reported as mismatching although the verifying readers accept them"
			}
			if fv, _ := fieldOfLoad(canon(sums[0].Common().Args[1])); fv == nil || fv.Name() != "MhType" {
				bad = "the streamed hash does not use the CID's own hash function (Prefix().MhType)"
			}
		}
		r.Check(bad == "", key, c.Pos(fn.Pos()), "SumStream(reader, cp.MhType, cp.MhLength | -1 for identity)", bad)
	}
}

func addsFeeding(v ssa.Value) []*ssa.BinOp {
	var out []*ssa.BinOp
	seen := map[ssa.Value]bool{}
	var walk func(v ssa.Value, d int)
	walk = func(v ssa.Value, d int) {
		if v == nil || seen[v] || d > 12 {
			return
		}
		seen[v] = true
		switch x := v.(type) {
		case *ssa.Convert:
			walk(x.X, d+1)
		case *ssa.Phi:
			for _, e := range x.Edges {
				walk(e, d+1)
			}
		case *ssa.BinOp:
			if x.Op == token.ADD {
				if k, ok := constInt(x.Y); ok && k == 1 {
					out = append(out, x)
				} else {
					// `count += n`: the steps are whatever increments n
					walk(x.Y, d+1)
				}
				walk(x.X, d+1)
			}
		case *ssa.UnOp:
			if al, ok := x.X.(*ssa.Alloc); ok && x.Op == token.MUL {
				for _, st := range storesTo(al) {
					walk(st.Val, d+1)
				}
			}
		}
	}
	walk(v, 0)
	return out
}

func ruleR13g(c *Ctx, r *Report) {
	fn, err := c.Func(modV2, "Reader", "Inspect")
	if err != nil {
		r.InfraFail("%v", err)
		return
	}
	key := "roots-present-latch@" + fnKey(fn)
	var cmp *ssa.BinOp
	eachInstr(fn, func(in ssa.Instruction) {
		st, ok := in.(*ssa.Store)
		if !ok {
			return
		}
		fa, ok := st.Addr.(*ssa.FieldAddr)
		if !ok || !fieldAddrIs(fa, modV2, "Stats", "RootsPresent") {
			return
		}
		if b, ok := st.Val.(*ssa.BinOp); ok && b.Op == token.EQL {
			cmp = b
		}
	})
	if cmp == nil {
		r.Exempt(key, c.Pos(fn.Pos()), "RootsPresent is not computed as `number of roots == counter`; the latch rule applies to counter-based implementations only")
		return
	}
	isLen := func(v ssa.Value) bool {
		cl, _ := strip(v).(*ssa.Call)
		if cl == nil {
			return false
		}
		b, ok := cl.Call.Value.(*ssa.Builtin)
		return ok && b.Name() == "len"
	}
	counter := cmp.Y
	if isLen(cmp.Y) {
		counter = cmp.X
	} else if !isLen(cmp.X) {
		r.Exempt(key, c.Pos(cmp.Pos()), "RootsPresent does not compare a length with a counter")
		return
	}
	incs := addsFeeding(counter)
	if len(incs) == 0 {
		r.Exempt(key, c.Pos(cmp.Pos()), "RootsPresent compares the number of roots with something that is not an incremented counter (e.g. the size of a set, which cannot count a root twice); the latch rule applies to counter-based implementations only")
		return
	}
	container := func(in ssa.Instruction) ssa.Value {
		switch x := in.(type) {
		case *ssa.Store:
			if ia, ok := x.Addr.(*ssa.IndexAddr); ok {
				return canon(ia.X)
			}
		case *ssa.MapUpdate:
			return canon(x.Map)
		case *ssa.Call:
			if b, ok := x.Call.Value.(*ssa.Builtin); ok && b.Name() == "delete" {
				return canon(x.Call.Args[0])
			}
		}
		return nil
	}
	bad := ""
	for _, inc := range incs {
		B := inc.Block()
		var latch ssa.Value
		for _, in := range B.Instrs {
			if x := container(in); x != nil {
				latch = x
			}
		}
		if latch == nil {
			bad = fmt.Sprintf("the counter is incremented at %s without consuming a per-root latch in the same step: a root whose block appears twice is counted twice and RootsPresent can be true although another root has no block", c.Pos(inc.Pos()))
			continue
		}
		gated := false
		for _, P := range fn.Blocks {
			if len(P.Instrs) == 0 {
				continue
			}
			iff, ok := P.Instrs[len(P.Instrs)-1].(*ssa.If)
			if !ok {
				continue
			}
			reads := false
			for v := range flowSources(iff.Cond) {
				switch x := v.(type) {
				case *ssa.IndexAddr:
					reads = reads || canon(x.X) == latch
				case *ssa.Lookup:
					reads = reads || canon(x.X) == latch
				}
			}
			if !reads {
				continue
			}
			for i := range P.Succs {
				if !reach(fn, nil, EdgeSet{Edge{From: P, Succ: i}: true})[B] {
					gated = true
				}
			}
		}
		if !gated {
			bad = fmt.Sprintf("the increment at %s sets a latch but is not gated by it", c.Pos(inc.Pos()))
		}
	}
	r.Check(bad == "", key, c.Pos(cmp.Pos()), fmt.Sprintf("%d increment(s), each gated by and consuming a per-root latch", len(incs)), bad)
}

func ruleR13j(c *Ctx, r *Report) {
	fn, err := c.Func(modV2, "Header", "HasIndex")
	if err != nil {
		r.InfraFail("%v", err)
		return
	}
	key := "has-index-definition@" + fnKey(fn)
	bad := ""
	rets := returnsOf(fn)
	if len(rets) != 1 {
		bad = "HasIndex has more than one outcome"
	} else {
		b, ok := canon(rets[0].Results[0]).(*ssa.BinOp)
		k, isK := int64(1), false
		if ok {
			k, isK = constInt(b.Y)
		}
		fv, _ := fieldOfLoad(canon(func() ssa.Value {
			if ok {
				return b.X
			}
			return rets[0].Results[0]
		}()))
		if !ok || b.Op != token.NEQ || !isK || k != 0 || fv == nil || fv.Name() != "IndexOffset" {
			bad = "HasIndex is not `h.IndexOffset != 0`"
		}
	}
	r.Check(bad == "", key, c.Pos(fn.Pos()), "IndexOffset != 0", bad+": a header whose index offset is set but wrong then counts as index-less, and Inspect/readers skip the index instead of failing on it")
}

// builtinArgs: v is a call of the two-argument builtin `name` (min / max); its arguments.
func builtinArgs(v ssa.Value, name string) (ssa.Value, ssa.Value, bool) {
	cl, ok := v.(*ssa.Call)
	if !ok {
		return nil, nil, false
	}
	b, ok := cl.Call.Value.(*ssa.Builtin)
	if !ok || b.Name() != name || len(cl.Call.Args) != 2 {
		return nil, nil, false
	}
	return cl.Call.Args[0], cl.Call.Args[1], true
}
