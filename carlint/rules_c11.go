package main

import (
	"fmt"
	"go/ast"
	"go/constant"
	"go/token"
	"go/types"
	"sort"
	"strings"

	"golang.org/x/tools/go/packages"
	"golang.org/x/tools/go/ssa"
)

func init() {
	register(PropertyDef{
		ID: "C11",
		Explanation: "Decided statically: (R11a) in packages index and internal/loader no `range` over a map has an order-sensitive effect in its body (no write to an io.Writer, no " +
			"Marshal, no callback invocation); a body may only collect keys/values into a slice that is sorted before use (or only handed to Index.Load), fill other maps, or return; " +
			"(R11b) in multiWidthIndex.Load each bucket is compacted only after sort.Sort of that very slice with a comparator that is bytes.Compare(a.digest, b.digest) < 0, and " +
			"every key ordering used for emission/iteration is ascending (`<`); (R11c) the codec registry agrees: index.New(K) returns the implementation whose Codec() is K, " +
			"WriteTo prefixes uvarint(idx.Codec()) and ReadFrom decodes that prefix, constructs through New and calls Unmarshal; (R11d) the byte count reported by each Marshal " +
			"and by WriteTo is the sum of the static sizes of what it binary.Writes plus every count its callees/Write calls reported, each exactly once; (R11e) a resumed " +
			"session indexes every section (shared with C12). NOT decided: that Unmarshal∘Marshal is the identity on lookups; equality of flattened and regenerated indexes.",
		Assumptions: []string{"sort.Sort/sort.Slice sort by the given comparator", "binary.Write emits binary.Size(v) bytes for fixed-size v"},
		Rules: []RuleDef{
			{ID: "R11a", Floor: 5, Doc: "no order-sensitive effect inside a map range (index, internal/loader)", Run: ruleR11a},
			{ID: "R11b", Floor: 1 + 1 + 4, Doc: "sort before compaction with the digest comparator; ascending key orders", Run: ruleR11b},
			{ID: "R11c", Floor: 2 + 2, Doc: "codec registry agreement; WriteTo/ReadFrom prefix", Run: ruleR11c},
			{ID: "R11d", Floor: 5, Doc: "byte-count bookkeeping of Marshal/WriteTo", Run: ruleR11d},
			{ID: "R11f", Floor: 1, Doc: "Flatten hands every record of the session to the on-disk index (no record skipped)", Run: ruleR11f},
			{ID: "R11g", Floor: 1, Doc: "the read-side bucket-width cap admits everything the default write-side CID limit admits", Run: ruleR11g},
			{ID: "R11h", Floor: 5, Doc: "wire-layout agreement: for every index type the sequence of fixed-width fields its Marshal writes with binary.Write equals, width for width, the sequence its Unmarshal reads with binary.Read", Run: ruleR11h},
			{ID: "R11i", Floor: 2, Doc: "decode loops store a fresh object per iteration: a pointer put into an index container inside a loop of package index points to an allocation made in that iteration (a pointer to a variable declared outside the loop makes every entry alias the last one decoded)", Run: ruleR11i},
			{ID: "R11k", Floor: 1, Doc: "index decoders read exactly what they decode: no buffering reader (bufio) is put over the shared reader inside package index — it reads ahead, and the caller's next group or the next index field starts at the wrong byte", Run: ruleR11k},
			{ID: "R11l", Floor: 1, Doc: "the digests the sorted index files its records under are those of a multihash decoder (DecodedMultihash.Digest), not a hand-computed slice of the multihash (length prefixes are varints)", Run: ruleR11l},
			{ID: "R11o", Floor: 1, Doc: "index.New constructs exactly the two index formats of the CARv2 specification (0x0400 IndexSorted, 0x0401 MultihashIndexSorted): every other codec — the no-index sentinel, the in-memory insertion index — is refused, so nothing that is not a real on-disk index can be announced by a finalized header or decoded from a file", Run: ruleR11o},
			{ID: "R11e", Floor: 1, Doc: "rescan indexes every section (= R12c)", Run: ruleR12c},
			{ID: "R11j", Floor: 1, Doc: "index generation loads all records in one Load (bucket-overwriting codecs lose earlier batches) (= R03h)", Run: ruleR03h},
			{ID: "R11m", Floor: 2, Doc: "a regenerated index records true section offsets (= R03b)", Run: ruleR03b},
			{ID: "R11n", Floor: 1, Doc: "the rescan ends where the payload ends (payload-relative position against DataSize) (= R03e)", Run: ruleR03e},
			{ID: "R11p", Floor: 4, Doc: "index regeneration from a stream positions itself through the audited reader adapters only (= R03o)", Run: ruleR03o},
			{ID: "R11r", Floor: 1, Doc: "index decoders read their fixed-size fields completely (= R02i)", Run: ruleR02i},
			{ID: "R11s", Floor: 1, Doc: "the index decoders accept what the encoders emit: equal neighbouring digests are legal (= R07n)", Run: ruleR07n},
			{ID: "R11t", Floor: 1, Doc: "the selective writer's index has every section: a block is written once per session, matching the one-record-per-CID map (= R15a)", Run: ruleR15a},
			{ID: "R11u", Floor: 2, Doc: "a record enters the session index only after its section was written, at the position held before the write (= R06a)", Run: ruleR06a},
			{ID: "R11v", Floor: 1, Doc: "package index consults no registry of hash functions (multihash.Codes, Names, GetHasher, ValidCode): the multihash code is a bucket key, and every code the encoder writes the decoder reads", Run: ruleR11v},
			{ID: "R11w", Floor: 3, Doc: "car index records, for every section it copies, the offset the section has in the output (= R19d)", Run: ruleR19d},
			{ID: "R11x", Floor: 1, Doc: "the payload size StorageCar.Finalize hands to store.Finalize is read after the lock was taken", Run: ruleR11x},
			{ID: "R11y", Floor: 1, Doc: "multiWidthIndex.Load builds one bucket per digest width: the groups it ranges over are keyed by an integer (the width), so no two groups address the same bucket", Run: ruleR11y},
			{ID: "R11z", Floor: 1, Doc: "the insertion index refuses no record for the length of its digest: Load tests the decoded digest for nil only, so the empty identity CID loads like everywhere else", Run: ruleR11z},
			{ID: "R11C", Floor: 2, Doc: "records with equal digests do not evict each other when an index is regenerated: InsertNoReplace only (= R03f)", Run: ruleR03f},
			{ID: "R11D", Floor: 1, Doc: "the index of a wrap is where the header says: the payload size is the seek to the end (= R10c)", Run: ruleR10c},
			{ID: "R11B", Floor: 1, Doc: "a compact bucket built in memory is exactly width x len bytes (= R03x)", Run: ruleR03x},
			{ID: "R11q", Floor: 1, Doc: "a decoded bucket has exactly as many records as the bytes read for it hold (= R09f)", Run: ruleR09f},
		},
	})
}

// enclosingFuncName finds the name of the function declaration containing pos.
func enclosingFuncName(f *ast.File, pos token.Pos) string {
	name := "?"
	for _, d := range f.Decls {
		fd, ok := d.(*ast.FuncDecl)
		if !ok || fd.Body == nil || pos < fd.Pos() || pos > fd.End() {
			continue
		}
		name = fd.Name.Name
		if fd.Recv != nil && len(fd.Recv.List) > 0 {
			t := fd.Recv.List[0].Type
			if st, ok := t.(*ast.StarExpr); ok {
				t = st.X
			}
			if id, ok := t.(*ast.Ident); ok {
				name = id.Name + "." + name
			}
		}
	}
	return name
}

func ruleR11a(c *Ctx, r *Report) {
	for _, pp := range []string{pkgIndex, pkgLoader} {
		p := c.Pkgs[pp]
		for _, f := range p.Syntax {
			ord := map[string]int{}
			ast.Inspect(f, func(nd ast.Node) bool {
				rs, ok := nd.(*ast.RangeStmt)
				if !ok {
					return true
				}
				t := p.TypesInfo.TypeOf(rs.X)
				if t == nil {
					return true
				}
				if _, isMap := t.Underlying().(*types.Map); !isMap {
					return true
				}
				fnName := enclosingFuncName(f, rs.Pos())
				// a helper the normalisation pass has inlined into all its callers is judged there
				if fd := enclosingFuncDecl(f, rs.Pos()); fd != nil {
					if o, _ := p.TypesInfo.Defs[fd.Name].(*types.Func); o != nil && c.deadNewHelpers()[o] {
						return true
					}
				}
				ord[fnName]++
				key := fmt.Sprintf("map-range@%s.%s#%d", shortPkg(pp), fnName, ord[fnName])
				bad := mapRangeBodyProblem(p, f, rs)
				r.Check(bad == "", key, c.Pos(rs.Pos()), "body has no order-sensitive effect (collect-then-sort / fill maps / return)", bad)
				return true
			})
		}
	}
}

func mapRangeBodyProblem(p *packages.Package, file *ast.File, rs *ast.RangeStmt) string {
	info := p.TypesInfo
	bad := ""
	var appended []types.Object
	ast.Inspect(rs.Body, func(nd ast.Node) bool {
		switch x := nd.(type) {
		case *ast.CallExpr:
			// builtin append: remember the destination
			if id, ok := x.Fun.(*ast.Ident); ok && id.Name == "append" {
				if _, isBuiltin := info.Uses[id].(*types.Builtin); isBuiltin && len(x.Args) > 0 {
					if dst, ok := x.Args[0].(*ast.Ident); ok {
						if o := info.Uses[dst]; o != nil && (o.Pos() < rs.Pos() || o.Pos() > rs.End()) {
							appended = append(appended, o)
						}
					}
				}
				return true
			}
			// calls of function-typed variables/parameters (callbacks)
			if id, ok := x.Fun.(*ast.Ident); ok {
				if v, isVar := info.Uses[id].(*types.Var); isVar {
					if _, isSig := v.Type().Underlying().(*types.Signature); isSig {
						bad = "a callback (" + id.Name + ") is invoked in map iteration order"
					}
				}
			}
			if sel, ok := x.Fun.(*ast.SelectorExpr); ok {
				name := sel.Sel.Name
				if fobj, ok := info.Uses[sel.Sel].(*types.Func); ok {
					full := fobj.FullName()
					switch {
					case name == "Marshal" || name == "WriteTo" || name == "Write" || name == "WriteString" || name == "WriteByte":
						bad = name + " is called in map iteration order: the serialized bytes depend on Go's randomised map order, not only on the records"
					case full == "encoding/binary.Write" || strings.HasPrefix(full, "fmt.Fprint"):
						bad = full + " is called in map iteration order"
					case name == "forEach" || name == "forEachDigest" || name == "ForEach":
						bad = name + " (which invokes a callback per entry) is called in map iteration order"
					}
				}
			}
		}
		return true
	})
	if bad != "" {
		return bad
	}
	// appended slices must be sorted afterwards, or only be passed to Load
	for _, o := range appended {
		if !sortedOrLoadedAfter(p, file, rs, o) {
			return "values are collected into " + o.Name() + " in map order and that slice is neither sorted before use nor only handed to Index.Load"
		}
	}
	return ""
}

func sortedOrLoadedAfter(p *packages.Package, file *ast.File, rs *ast.RangeStmt, o types.Object) bool {
	info := p.TypesInfo
	ok := false
	otherUse := false
	// the slice under other names: plain copies `r0 = rcrds` after the loop (what the inlining of
	// a helper that returns the slice leaves behind)
	names := map[types.Object]bool{o: true}
	for round := 0; round < 3; round++ {
		ast.Inspect(file, func(nd ast.Node) bool {
			as, isAs := nd.(*ast.AssignStmt)
			if !isAs || as.Pos() < rs.End() || len(as.Lhs) != len(as.Rhs) {
				return true
			}
			for i, rh := range as.Rhs {
				rid, ok1 := ast.Unparen(rh).(*ast.Ident)
				lid, ok2 := as.Lhs[i].(*ast.Ident)
				if ok1 && ok2 && names[info.Uses[rid]] {
					if lo := info.ObjectOf(lid); lo != nil {
						names[lo] = true
					}
				}
			}
			return true
		})
	}
	ast.Inspect(file, func(nd ast.Node) bool {
		ce, isCall := nd.(*ast.CallExpr)
		if !isCall || ce.Pos() < rs.End() {
			return true
		}
		usesObj := func(e ast.Expr) bool {
			found := false
			ast.Inspect(e, func(n ast.Node) bool {
				if id, isId := n.(*ast.Ident); isId && names[info.Uses[id]] {
					found = true
				}
				return true
			})
			return found
		}
		if sel, isSel := ce.Fun.(*ast.SelectorExpr); isSel {
			if fobj, isF := info.Uses[sel.Sel].(*types.Func); isF {
				full := fobj.FullName()
				if (strings.HasPrefix(full, "sort.") || strings.HasPrefix(full, "slices.Sort")) && len(ce.Args) > 0 && usesObj(ce.Args[0]) {
					ok = true
					return true
				}
				if fobj.Name() == "Load" && len(ce.Args) == 1 && usesObj(ce.Args[0]) {
					ok = true
					return true
				}
			}
		}
		_ = otherUse
		return true
	})
	return ok
}

func ruleR11b(c *Ctx, r *Report) {
	// comparator
	less, err := c.Func(pkgIndex, "recordSet", "Less")
	if err != nil {
		r.InfraFail("%v", err)
		return
	}
	{
		key := "comparator@" + fnKey(less)
		bad := "Less is not bytes.Compare(r[i].digest, r[j].digest) < 0"
		for _, ret := range returnsOf(less) {
			b, ok := canon(ret.Results[0]).(*ssa.BinOp)
			if !ok {
				continue
			}
			cc, _ := callOf(b.X)
			k, isK := constInt(b.Y)
			if cc == nil || !funcIs(calleeFunc(cc.Common()), "bytes", "", "Compare") || !isK || k != 0 {
				continue
			}
			if b.Op != token.LSS {
				bad = "the comparator orders by bytes.Compare(...) " + b.Op.String() + " 0: entries are not ascending by digest"
				continue
			}
			// args: digest of element i, digest of element j (params 1, 2)
			okArgs := true
			for ai, pi := range []int{1, 2} {
				fv, base := fieldOfLoad(canon(cc.Call.Args[ai]))
				if fv == nil || fv.Name() != "digest" {
					okArgs = false
					continue
				}
				ia, isIA := base.(*ssa.IndexAddr)
				if !isIA || canon(ia.Index) != ssa.Value(less.Params[pi]) {
					okArgs = false
				}
			}
			if okArgs {
				bad = ""
			} else {
				bad = "the comparator does not compare element i's digest with element j's digest in that order"
			}
		}
		r.Check(bad == "", key, c.Pos(less.Pos()), "bytes.Compare(r[i].digest, r[j].digest) < 0", bad)
	}
	// sort before compaction
	load, err := c.Func(pkgIndex, "multiWidthIndex", "Load")
	if err != nil {
		r.InfraFail("%v", err)
		return
	}
	{
		key := "sort-before-compact@" + fnKey(load)
		sorts := callsToFunc(load, "sort", "", "Sort")
		writes := callsToFunc(load, pkgIndex, "digestRecord", "write")
		bad := ""
		viaHelper := false
		if len(sorts) == 1 && len(writes) == 0 {
			// the compaction may have been extracted: a same-package helper that writes the
			// elements of the slice it is handed, called with the sorted slice after the sort
			sv := canon(stripIface(sorts[0].Common().Args[0]))
			eachInstr(load, func(in ssa.Instruction) {
				ci, ok := in.(*ssa.Call)
				if !ok {
					return
				}
				h := staticTarget(ci.Common())
				if h == nil || h.Blocks == nil || h.Pkg != load.Pkg {
					return
				}
				hw := callsToFunc(h, pkgIndex, "digestRecord", "write")
				if len(hw) == 0 {
					return
				}
				for i, a := range ci.Call.Args {
					if !sameValue(a, sv) || i >= len(h.Params) {
						continue
					}
					okAll := true
					for _, w := range hw {
						u, isU := canon(w.Common().Args[0]).(*ssa.UnOp)
						if !isU {
							okAll = false
							continue
						}
						ia, isIA := u.X.(*ssa.IndexAddr)
						if !isIA || canon(ia.X) != ssa.Value(h.Params[i]) {
							okAll = false
						}
					}
					if okAll && sorts[0].Block().Dominates(ci.Block()) && (sorts[0].Block() != ci.Block() || instrIndex(sorts[0]) < instrIndex(ci)) {
						viaHelper = true
					}
				}
			})
		}
		if viaHelper {
			// nothing more to check here
		} else if len(sorts) != 1 || len(writes) == 0 {
			bad = "the bucket is compacted without sort.Sort(recordSet(lst)) first: binary search over an unsorted bucket misses entries"
		} else {
			// sorted value is recordSet(lst) of the slice whose elements are written
			sv := canon(stripIface(sorts[0].Common().Args[0]))
			if !isNamed(sorts[0].Common().Args[0].(*ssa.MakeInterface).X.Type(), pkgIndex, "recordSet") {
				bad = "the slice is not sorted with the recordSet comparator"
			}
			for _, w := range writes {
				if !sorts[0].Block().Dominates(w.Block()) {
					bad = "a record is written to the compact form on a path that did not sort the bucket"
				}
				// element comes from the sorted slice
				el := canon(w.Common().Args[0])
				okEl := false
				for _, o := range origins(el, originOpts{}) {
					_ = o
				}
				if u, isU := el.(*ssa.UnOp); isU {
					if ia, isIA := u.X.(*ssa.IndexAddr); isIA && canon(ia.X) == sv {
						okEl = true
					}
				}
				if ex, isEx := el.(*ssa.Extract); isEx {
					// range over slice yields (ok, k, v) through Next only for maps; slices use IndexAddr
					_ = ex
				}
				if !okEl {
					// accept: element loaded from the same underlying slice value as the sort argument
					if u, isU := el.(*ssa.UnOp); isU {
						if ia, isIA := u.X.(*ssa.IndexAddr); isIA && sameValue(ia.X, sv) {
							okEl = true
						}
					}
				}
				if !okEl {
					bad = "the records written to the compact form do not come from the slice that was sorted"
				}
			}
		}
		r.Check(bad == "", key, c.Pos(load.Pos()), "sort.Sort(recordSet(lst)) dominates the compaction of lst", bad)
	}
	// ascending key orders
	for _, s := range []fnSpec{{pkgIndex, "multiWidthIndex", "Marshal"}, {pkgIndex, "multiWidthIndex", "forEachDigest"}, {pkgIndex, "MultihashIndexSorted", "ForEach"}, {pkgIndex, "MultihashIndexSorted", "sortedMultihashCodes"}} {
		fn, err := c.Func(s.pkg, s.recv, s.name)
		if err != nil {
			r.InfraFail("%v", err)
			continue
		}
		key := "ascending-keys@" + fnKey(fn)
		bad := "keys are not sorted with sort.Slice(keys, func(i, j) bool { return keys[i] < keys[j] })"
		// the sorted keys may come from a same-package helper that is checked by this very rule
		for _, hs := range []fnSpec{{pkgIndex, "MultihashIndexSorted", "sortedMultihashCodes"}} {
			if hs.name != s.name && len(callsToFunc(fn, hs.pkg, hs.recv, hs.name)) > 0 && len(callsToFunc(fn, "sort", "", "Slice")) == 0 {
				bad = ""
			}
		}
		// library sorts that are ascending by definition
		eachInstr(fn, func(in ssa.Instruction) {
			ci, ok := in.(ssa.CallInstruction)
			if !ok {
				return
			}
			f := calleeFunc(ci.Common())
			if f == nil || f.Pkg() == nil {
				return
			}
			switch f.Pkg().Path() + "." + f.Name() {
			case "slices.Sort", "slices.Sorted", "sort.Ints", "sort.Strings", "sort.Float64s":
				bad = ""
			}
		})
		for _, sc := range callsToFunc(fn, "sort", "", "Slice") {
			mc, ok := sc.Common().Args[1].(*ssa.MakeClosure)
			if !ok {
				continue
			}
			cmp := mc.Fn.(*ssa.Function)
			for _, ret := range returnsOf(cmp) {
				b, ok := canon(ret.Results[0]).(*ssa.BinOp)
				if !ok {
					continue
				}
				li, lok := b.X.(*ssa.UnOp)
				lj, jok := b.Y.(*ssa.UnOp)
				if !lok || !jok {
					continue
				}
				ii, iok := li.X.(*ssa.IndexAddr)
				ij, jok2 := lj.X.(*ssa.IndexAddr)
				if !iok || !jok2 {
					continue
				}
				if canon(ii.Index) == ssa.Value(cmp.Params[0]) && canon(ij.Index) == ssa.Value(cmp.Params[1]) && b.Op == token.LSS {
					bad = ""
				} else if canon(ii.Index) == ssa.Value(cmp.Params[1]) && canon(ij.Index) == ssa.Value(cmp.Params[0]) && b.Op == token.GTR {
					bad = ""
				} else {
					bad = "keys are ordered by `" + b.Op.String() + "`: buckets would not ascend"
				}
			}
		}
		r.Check(bad == "", key, c.Pos(fn.Pos()), "keys sorted ascending before use", bad)
	}
}

func ruleR11c(c *Ctx, r *Report) {
	nw, err := c.Func(pkgIndex, "", "New")
	if err != nil {
		r.InfraFail("%v", err)
		return
	}
	// for each `codec == K` true edge: the returned implementation's Codec() returns K
	type caseK struct {
		k    int64
		edge Edge
	}
	var cases []caseK
	for _, b := range nw.Blocks {
		if len(b.Instrs) == 0 {
			continue
		}
		iff, ok := b.Instrs[len(b.Instrs)-1].(*ssa.If)
		if !ok {
			continue
		}
		bo, ok := iff.Cond.(*ssa.BinOp)
		if !ok || bo.Op != token.EQL || canon(bo.X) != ssa.Value(nw.Params[0]) {
			continue
		}
		if k, ok := constInt(bo.Y); ok {
			cases = append(cases, caseK{k, Edge{From: b, Succ: 0}})
		}
	}
	sort.Slice(cases, func(i, j int) bool { return cases[i].k < cases[j].k })
	for _, cs := range cases {
		key := fmt.Sprintf("registry@index.New#%#x", cs.k)
		tgt := cs.edge.From.Succs[cs.edge.Succ]
		bad := "no implementation returned for this codec"
		for _, in := range tgt.Instrs {
			ret, ok := in.(*ssa.Return)
			if !ok {
				continue
			}
			// concrete type of the returned value
			var conc types.Type
			for _, o := range origins(ret.Results[0], originOpts{through: func(call *ssa.Call, f *types.Func) []ssa.Value { return nil }}) {
				if o.Kind == "call" && o.Fn != nil {
					callee := c.Prog.FuncValue(o.Fn)
					if callee != nil {
						for _, rr := range returnsOf(callee) {
							if mi, ok := rr.Results[0].(*ssa.MakeInterface); ok {
								conc = mi.X.Type()
							} else {
								conc = rr.Results[0].Type()
							}
						}
					}
				}
			}
			if mi, ok := ret.Results[0].(*ssa.MakeInterface); ok && conc == nil {
				conc = mi.X.Type()
			}
			if conc == nil {
				bad = "cannot determine the implementation returned"
				continue
			}
			// its Codec() constant
			ms := c.Prog.MethodSets.MethodSet(conc)
			sel := ms.Lookup(c.Pkgs[pkgIndex].Types, "Codec")
			if sel == nil {
				sel = ms.Lookup(nil, "Codec")
			}
			if sel == nil {
				bad = "returned type has no Codec()"
				continue
			}
			cf := c.Prog.MethodValue(sel)
			got := int64(-1)
			for _, rr := range returnsOf(cf) {
				if k, ok := constInt(rr.Results[0]); ok {
					got = k
				}
			}
			if got == cs.k {
				bad = ""
			} else {
				bad = fmt.Sprintf("index.New(%#x) returns an implementation whose Codec() is %#x: an index written with one codec is read back as the other", cs.k, got)
			}
		}
		r.Check(bad == "", key, c.Pos(nw.Pos()), "New(K).Codec() == K", bad)
	}
	if len(cases) < 2 {
		// the same registry written as a lookup table filled in the package initialiser
		if tab, ok := tableRegistry(c, nw); ok && len(tab) >= 2 {
			var ks []int64
			for k := range tab {
				ks = append(ks, k)
			}
			sort.Slice(ks, func(i, j int) bool { return ks[i] < ks[j] })
			for _, k := range ks {
				got := codecOfType(c, tab[k])
				bad := ""
				if got != k {
					bad = fmt.Sprintf("index.New(%#x) returns an implementation whose Codec() is %#x: an index written with one codec is read back as the other", k, got)
				}
				r.Check(bad == "", fmt.Sprintf("registry@index.New#%#x", k), c.Pos(nw.Pos()), "New(K).Codec() == K (table entry)", bad)
			}
		} else {
			r.Undec("registry@index.New", c.Pos(nw.Pos()), "fewer than two codec cases recognised")
		}
	}
	// WriteTo prefix / ReadFrom
	wt, err1 := c.Func(pkgIndex, "", "WriteTo")
	rf, err2 := c.Func(pkgIndex, "", "ReadFrom")
	if err1 != nil || err2 != nil {
		r.InfraFail("%v %v", err1, err2)
		return
	}
	{
		key := "codec-prefix@" + fnKey(wt)
		bad := "the codec prefix is not varint.PutUvarint(buf, uint64(idx.Codec())) written before Marshal"
		for _, x := range uvarintEncoded(wt, false) {
			cc, _ := callOf(canon(x))
			if cc != nil && cc.Common().IsInvoke() && cc.Common().Method.Name() == "Codec" && canon(cc.Common().Value) == ssa.Value(wt.Params[0]) {
				bad = ""
			}
		}
		var firstWrite, marshal ssa.Instruction
		eachInstr(wt, func(in ssa.Instruction) {
			if ci, ok := in.(*ssa.Call); ok && ci.Common().IsInvoke() {
				switch ci.Common().Method.Name() {
				case "Write":
					if firstWrite == nil {
						firstWrite = in
					}
				case "Marshal":
					marshal = in
				}
			}
		})
		if bad == "" && (firstWrite == nil || marshal == nil || !firstWrite.Block().Dominates(marshal.Block())) {
			bad = "the prefix write does not precede Marshal"
		}
		r.Check(bad == "", key, c.Pos(wt.Pos()), "uvarint(idx.Codec()) then idx.Marshal(w)", bad)
	}
	{
		key := "codec-prefix@" + fnKey(rf)
		rc := callsToFunc(rf, pkgIndex, "", "ReadCodec")
		nc := callsToFunc(rf, pkgIndex, "", "New")
		bad := ""
		if len(rc) != 1 || len(nc) != 1 || canon(nc[0].Common().Args[0]) != ssa.Value(extractOf(rc[0].Value(), 0)) {
			bad = "ReadFrom does not construct the index through New(ReadCodec(r))"
		} else {
			um := false
			eachInstr(rf, func(in ssa.Instruction) {
				if ci, ok := in.(*ssa.Call); ok && ci.Common().IsInvoke() && ci.Common().Method.Name() == "Unmarshal" && canon(ci.Common().Value) == ssa.Value(extractOf(nc[0].Value(), 0)) {
					um = true
				}
			})
			if !um {
				bad = "the constructed index is not Unmarshal-ed from the same reader"
			}
		}
		r.Check(bad == "", key, c.Pos(rf.Pos()), "ReadCodec -> New -> Unmarshal", bad)
	}
	// ReadCodec uses the same varint family as WriteTo
	if rcf, err := c.Func(pkgIndex, "", "ReadCodec"); err == nil {
		ok := len(callsToFunc(rcf, pkgVarint, "", "ReadUvarint")) == 1
		r.Check(ok, "codec-prefix@"+fnKey(rcf), c.Pos(rcf.Pos()), "go-varint on both sides", "ReadCodec does not decode the prefix with go-varint's ReadUvarint")
	}
}

// countForm decomposes a byte-count value into a constant and a set of addends.
func countForm(v ssa.Value) (int64, map[ssa.Value]int, string) {
	adds := map[ssa.Value]int{}
	var k int64
	why := ""
	seenPhi := map[*ssa.Phi]bool{}
	var visit func(v ssa.Value)
	visit = func(v ssa.Value) {
		v = canon(v)
		switch x := v.(type) {
		case *ssa.Const:
			if c, ok := constInt(x); ok {
				k += c
			}
		case *ssa.BinOp:
			if x.Op == token.ADD {
				visit(x.X)
				visit(x.Y)
				return
			}
			why = "count computed with " + x.Op.String()
		case *ssa.Phi:
			if seenPhi[x] {
				return
			}
			seenPhi[x] = true
			for _, e := range x.Edges {
				ce := canon(e)
				if b, ok := ce.(*ssa.BinOp); ok && b.Op == token.ADD && (canon(b.X) == ssa.Value(x) || canon(b.Y) == ssa.Value(x)) {
					if canon(b.X) == ssa.Value(x) {
						visit(b.Y)
					} else {
						visit(b.X)
					}
					continue
				}
				visit(e)
			}
		default:
			adds[v]++
		}
	}
	visit(v)
	return k, adds, why
}

func ruleR11d(c *Ctx, r *Report) {
	for _, s := range []fnSpec{
		{pkgIndex, "singleWidthIndex", "Marshal"}, {pkgIndex, "multiWidthIndex", "Marshal"},
		{pkgIndex, "multiWidthCodedIndex", "Marshal"}, {pkgIndex, "MultihashIndexSorted", "Marshal"}, {pkgIndex, "", "WriteTo"},
	} {
		fn, err := c.Func(s.pkg, s.recv, s.name)
		if err != nil {
			r.InfraFail("%v", err)
			continue
		}
		key := "byte-count@" + fnKey(fn)
		// expected constant: sizes of binary.Write values
		var wantK int64
		wantAdds := map[ssa.Value]bool{}
		bad := ""
		eachInstr(fn, func(in ssa.Instruction) {
			ci, ok := in.(*ssa.Call)
			if !ok {
				return
			}
			f := calleeFunc(ci.Common())
			switch {
			case funcIs(f, "encoding/binary", "", "Write"):
				mi, ok := ci.Call.Args[2].(*ssa.MakeInterface)
				if !ok {
					bad = "binary.Write of a value of unknown static type"
					return
				}
				sz := c.Pkgs[pkgIndex].TypesSizes.Sizeof(mi.X.Type())
				wantK += sz
			case f != nil && (f.Name() == "Marshal" || f.Name() == "Write") && f.Pkg() != nil:
				if ex := extractOf(ci, 0); ex != nil && valueUsed(ex) {
					wantAdds[ex] = true
				} else if f.Name() == "Write" && len(ci.Call.Args) > 0 {
					// a fixed-size value encoded by hand and written with one Write whose count is
					// not looked at: its size is part of the constant, as with binary.Write
					if n, ok := appendedLen(ci.Call.Args[len(ci.Call.Args)-1], 0); ok {
						wantK += n
					}
				}
			}
		})
		// the last return in source order is the success return
		var last *ssa.Return
		for _, ret := range returnsOf(fn) {
			if last == nil || ret.Pos() > last.Pos() {
				last = ret
			}
		}
		if bad == "" && last != nil {
			k, adds, why := countForm(last.Results[0])
			switch {
			case why != "":
				bad = why
			case k != wantK:
				bad = fmt.Sprintf("the reported count includes the constant %d but the function binary.Writes %d bytes of fixed-size values: count and bytes written diverge", k, wantK)
			default:
				for a := range wantAdds {
					if adds[a] != 1 {
						bad = fmt.Sprintf("the byte count returned by a nested write (%s) is added %d times instead of once", a.Name(), adds[a])
					}
				}
				for a := range adds {
					if !wantAdds[a] {
						bad = "the reported count includes " + a.Name() + ", which is not a byte count returned by a write"
					}
				}
			}
		}
		// every return taken after a nested write has happened includes that write's count (also on error paths)
		if bad == "" {
			eachInstr(fn, func(in ssa.Instruction) {
				ci, ok := in.(*ssa.Call)
				if !ok {
					return
				}
				f := calleeFunc(ci.Common())
				if f == nil || (f.Name() != "Marshal" && f.Name() != "Write") || f.Pkg() == nil {
					return
				}
				cnt := extractOf(ci, 0)
				if cnt == nil || !valueUsed(cnt) {
					return // a fixed-size write whose size is in the constant (as with binary.Write)
				}
				for _, ret := range returnsOf(fn) {
					if !instrReaches(in, ret) {
						continue
					}
					// within the same pass through a loop the count must be in the returned sum itself:
					// the running total of earlier rounds contains the earlier counts, not this one
					if sameRound(in, ret) && !directAddend(ret.Results[0], cnt, 0) {
						bad = fmt.Sprintf("the return at %s is taken right after %s wrote %s bytes, before they are added to the running total: on a failure inside a bucket the reported count is short of the bytes written", c.Pos(ret.Pos()), funcKey(f), cnt.Name())
						continue
					}
					_, adds, _ := countForm(ret.Results[0])
					if adds[cnt] < 1 {
						bad = fmt.Sprintf("the return at %s is taken after %s wrote %s bytes but its count does not include them: on an error in the body the reported count is short of the bytes written", c.Pos(ret.Pos()), funcKey(f), cnt.Name())
					}
				}
			})
		}
		r.Check(bad == "", key, c.Pos(fn.Pos()), fmt.Sprintf("count = %d + every nested count once", wantK), bad)
	}
}

var _ = constant.MakeInt64

// sameRound: to is reachable from from without taking a back edge.
func sameRound(from, to ssa.Instruction) bool {
	if from.Block() == to.Block() {
		return instrBefore(from, to)
	}
	seen := map[*ssa.BasicBlock]bool{}
	work := []*ssa.BasicBlock{from.Block()}
	for len(work) > 0 {
		x := work[len(work)-1]
		work = work[:len(work)-1]
		for _, s := range x.Succs {
			if s.Dominates(x) || seen[s] {
				continue
			}
			if s == to.Block() {
				return true
			}
			seen[s] = true
			work = append(work, s)
		}
	}
	return false
}

// directAddend: want is a term of the sum v, looking through additions and conversions but not
// through merges (a loop-carried total is what earlier rounds added up).
func directAddend(v, want ssa.Value, depth int) bool {
	if depth > 8 || v == nil {
		return false
	}
	if v == want || canon(v) == want {
		return true
	}
	switch x := v.(type) {
	case *ssa.BinOp:
		if x.Op == token.ADD {
			return directAddend(x.X, want, depth+1) || directAddend(x.Y, want, depth+1)
		}
	case *ssa.Convert:
		return directAddend(x.X, want, depth+1)
	case *ssa.UnOp:
		if c2 := canon(x); c2 != ssa.Value(x) {
			return directAddend(c2, want, depth+1)
		}
	}
	return false
}

func ruleR11f(c *Ctx, r *Report) {
	fn, err := c.Func(pkgIndex, "InsertionIndex", "Flatten")
	if err != nil {
		r.InfraFail("%v", err)
		return
	}
	key := "flatten-copies-all@" + fnKey(fn)
	// the iterator: whatever function value is handed to the tree walk (a closure, or a method value)
	var it *ssa.Function
	eachInstr(fn, func(in ssa.Instruction) {
		ci, ok := in.(*ssa.Call)
		if !ok {
			return
		}
		if f := calleeFunc(ci.Common()); f != nil && strings.HasPrefix(f.Name(), "Ascend") {
			args := ci.Common().Args
			if t := funcValueTarget(args[len(args)-1]); t != nil {
				it = t
			}
		}
	})
	if it == nil && len(closuresOf(fn)) == 1 {
		it = closuresOf(fn)[0]
	}
	if it == nil {
		r.Undec(key, c.Pos(fn.Pos()), "iterator function not found")
		return
	}
	it = unwrapForwarder(it)
	// the store of the record into the output slice (or an append to it)
	var sink ssa.Instruction
	eachInstr(it, func(in ssa.Instruction) {
		switch x := in.(type) {
		case *ssa.Store:
			if _, ok := x.Addr.(*ssa.IndexAddr); ok && isNamed(x.Val.Type(), pkgIndex, "Record") {
				sink = in
			}
		case *ssa.Call:
			if b, ok := x.Call.Value.(*ssa.Builtin); ok && b.Name() == "append" {
				sink = in
			}
		}
	})
	bad := ""
	if sink == nil {
		bad = "the iterator does not copy the record"
	} else {
		cut := EdgeSet{}
		for i := range sink.Block().Succs {
			cut[Edge{From: sink.Block(), Succ: i}] = true
		}
		reachable := reach(it, nil, cut)
		for _, ret := range returnsOf(it) {
			if ret.Block() == sink.Block() {
				continue
			}
			if reachable[ret.Block()] {
				bad = "the flatten iterator can return without copying the current record (e.g. skipping 'repeats'): the stored index loses (multihash, offset) records the session wrote, so it differs from an index regenerated from the payload"
			}
		}
		for _, ret := range returnsOf(it) {
			if b, ok := constBool(ret.Results[0]); !ok || !b {
				bad = "the flatten iterator can stop before the last record"
			}
		}
	}
	r.Check(bad == "", key, c.Pos(fn.Pos()), "every record visited is copied, iteration never stops early", bad)
}

// unwrapForwarder: when it does nothing but hand (a part of) its argument to a function value it
// captured and return that call's answer — the adapter a shared walking helper puts between the
// tree and its caller's visitor — the visitor; otherwise it.
func unwrapForwarder(it *ssa.Function) *ssa.Function {
	for depth := 0; depth < 3; depth++ {
		rets := returnsOf(it)
		if len(rets) != 1 || len(rets[0].Results) != 1 {
			return it
		}
		call, ok := rets[0].Results[0].(*ssa.Call)
		if !ok || call.Common().IsInvoke() || call.Common().StaticCallee() != nil {
			return it
		}
		// nothing else with an effect in the adapter
		effects := 0
		eachInstr(it, func(in ssa.Instruction) {
			switch in.(type) {
			case *ssa.Store, *ssa.MapUpdate, *ssa.Send, *ssa.Go, *ssa.Defer:
				effects++
			case *ssa.Call:
				if in != ssa.Instruction(call) {
					if _, isB := in.(*ssa.Call).Call.Value.(*ssa.Builtin); !isB {
						effects++
					}
				}
			}
		})
		if effects > 0 {
			return it
		}
		v := call.Common().Value
		if l, ok := v.(*ssa.UnOp); ok && l.Op == token.MUL {
			v = l.X
		}
		var bound ssa.Value
		if fv, ok := v.(*ssa.FreeVar); ok {
			bound = freeVarBinding(fv)
		}
		if bound == nil {
			return it
		}
		// the captured cell holds the visitor
		var t *ssa.Function
		if al, ok := bound.(*ssa.Alloc); ok {
			for _, st := range storesTo(al) {
				if tt := funcValueTarget(st.Val); tt != nil {
					t = tt
				}
			}
		} else {
			t = funcValueTarget(bound)
		}
		if t == nil || t.Blocks == nil {
			return it
		}
		it = t
	}
	return it
}

func ruleR11g(c *Ctx, r *Report) {
	fn, err := c.Func(pkgIndex, "singleWidthIndex", "checkUnmarshalLengths")
	if err != nil {
		r.InfraFail("%v", err)
		return
	}
	key := "width-cap@" + fnKey(fn)
	// DefaultMaxIndexCidSize of package v2
	def := int64(2 << 10)
	if k, ok := c.Pkgs[modV2].Types.Scope().Lookup("DefaultMaxIndexCidSize").(*types.Const); ok {
		if v, ok := constant.Int64Val(k.Val()); ok {
			def = v
		}
	}
	// the width: the one 32-bit parameter, wherever it stands
	var widthP *ssa.Parameter
	params := fn.Params
	if fn.Signature.Recv() != nil && len(params) > 0 {
		params = params[1:]
	}
	for _, p := range params {
		if b, ok := p.Type().Underlying().(*types.Basic); ok && b.Kind() == types.Uint32 {
			widthP = p
		}
	}
	if widthP == nil {
		r.Undec(key, c.Pos(fn.Pos()), "no uint32 width parameter")
		return
	}
	bad := "no upper bound on the bucket width found"
	eachInstr(fn, func(in ssa.Instruction) {
		b, ok := in.(*ssa.BinOp)
		if !ok || (b.Op != token.GTR && b.Op != token.GEQ) || canon(b.X) != ssa.Value(widthP) {
			return
		}
		k, isK := constInt(b.Y)
		if !isK || k < 64 {
			return
		}
		if k < def+8 {
			bad = fmt.Sprintf("the read side rejects bucket widths above %d, but the write side indexes CIDs up to DefaultMaxIndexCidSize = %d bytes (width = digest length + 8): an index the library itself wrote can no longer be read back", k, def)
		} else {
			bad = ""
		}
	})
	r.Check(bad == "", key, c.Pos(fn.Pos()), "width cap >= DefaultMaxIndexCidSize + 8", bad)
}

// ruleR11h: the fixed-width fields of each index serialisation are written and
// read with the same widths in the same order. Only encoding/binary calls are
// recognised; a side that frames its fields some other way is exempt (the floor
// keeps the rule from passing vacuously).
func ruleR11h(c *Ctx, r *Report) {
	sizes := types.SizesFor("gc", "amd64")
	widths := func(fn *ssa.Function, callee string) ([]int64, bool) {
		type at struct {
			pos token.Pos
			w   int64
		}
		var seq []at
		ok := true
		eachInstr(fn, func(in ssa.Instruction) {
			ci, isCall := in.(*ssa.Call)
			if !isCall {
				return
			}
			f := calleeFunc(ci.Common())
			if !funcIs(f, "encoding/binary", "", callee) || len(ci.Call.Args) != 3 {
				return
			}
			v := ci.Call.Args[2]
			if mi, isMI := v.(*ssa.MakeInterface); isMI {
				v = mi.X
			}
			t := v.Type()
			if callee == "Read" {
				pt, isPtr := t.Underlying().(*types.Pointer)
				if !isPtr {
					ok = false
					return
				}
				t = pt.Elem()
			}
			b, isBasic := t.Underlying().(*types.Basic)
			if !isBasic || b.Info()&(types.IsInteger|types.IsFloat) == 0 || b.Kind() == types.Int || b.Kind() == types.Uint || b.Kind() == types.Uintptr {
				ok = false
				return
			}
			seq = append(seq, at{ci.Pos(), sizes.Sizeof(t)})
		})
		sort.Slice(seq, func(i, j int) bool { return seq[i].pos < seq[j].pos })
		var out []int64
		for _, a := range seq {
			out = append(out, a.w)
		}
		return out, ok
	}
	for _, tn := range []string{"singleWidthIndex", "multiWidthIndex", "multiWidthCodedIndex", "MultihashIndexSorted", "InsertionIndex"} {
		m, err1 := c.Func(pkgIndex, tn, "Marshal")
		u, err2 := c.Func(pkgIndex, tn, "Unmarshal")
		if err1 != nil || err2 != nil {
			r.InfraFail("R11h: %v %v", err1, err2)
			continue
		}
		key := "wire-layout@v2/index." + tn
		wm, okm := widths(m, "Write")
		wu, oku := widths(u, "Read")
		switch {
		case !okm || !oku:
			r.Viol(key, c.Pos(m.Pos()), "a field is written or read with encoding/binary through a type without a fixed wire width (int, uint, or a non-numeric value)")
		case len(wm) == 0 || len(wu) == 0:
			r.Exempt(key, c.Pos(m.Pos()), "one side does not use encoding/binary for its fixed-width fields; not compared")
		case fmt.Sprint(wm) != fmt.Sprint(wu):
			r.Viol(key, c.Pos(u.Pos()), fmt.Sprintf("Marshal writes fixed-width fields of %v bytes, Unmarshal reads %v bytes: every later field is decoded from shifted bytes", wm, wu))
		default:
			r.Hold(key, c.Pos(m.Pos()), fmt.Sprintf("fields %v bytes on both sides", wm))
		}
	}
}

// ruleR11i: aliasing in the Unmarshal/Load loops of package index.
func ruleR11i(c *Ctx, r *Report) {
	inCycleWith := func(fn *ssa.Function, a, b *ssa.BasicBlock) bool {
		// a and b lie on a common cycle: each reaches the other through at least one edge
		fwd := map[*ssa.BasicBlock]bool{}
		for _, sc := range a.Succs {
			for k := range reach(fn, sc, nil) {
				fwd[k] = true
			}
		}
		if !fwd[b] {
			return false
		}
		back := map[*ssa.BasicBlock]bool{}
		for _, sc := range b.Succs {
			for k := range reach(fn, sc, nil) {
				back[k] = true
			}
		}
		return back[a]
	}
	for _, fn := range c.RepoFuncs() {
		if fn.Pkg == nil || fn.Pkg.Pkg.Path() != pkgIndex {
			continue
		}
		ord := 0
		eachInstr(fn, func(in ssa.Instruction) {
			var stored ssa.Value
			switch x := in.(type) {
			case *ssa.MapUpdate:
				stored = x.Value
			case *ssa.Call:
				f := calleeFunc(x.Common())
				if f == nil || f.Name() != "put" || f.Pkg() == nil || f.Pkg().Path() != pkgIndex {
					return
				}
				args := callArgs(x.Common())
				stored = args[len(args)-1]
			default:
				return
			}
			if _, isPtr := stored.Type().Underlying().(*types.Pointer); !isPtr {
				return
			}
			// only sites inside a loop
			if !inCycleWith(fn, in.Block(), in.Block()) {
				return
			}
			ord++
			key := fmt.Sprintf("fresh-per-iteration@%s#%d", fnKey(fn), ord)
			bad := ""
			for _, o := range origins(stored, originOpts{}) {
				var at *ssa.BasicBlock
				switch v := o.Val.(type) {
				case *ssa.Alloc:
					at = v.Block()
				case ssa.Instruction:
					at = v.Block()
				}
				if o.Kind == "param" || o.Kind == "const" {
					continue
				}
				if at == nil || !(at == in.Block() || inCycleWith(fn, at, in.Block())) {
					bad = fmt.Sprintf("the pointer stored at %s refers to an object created outside the loop (%s at %s): every iteration stores the same address, so all entries alias the one decoded last", c.Pos(in.Pos()), o.Kind, c.Pos(o.Val.Pos()))
				}
				// the fresh object must not be built around a map or pointer made outside the loop
				// (`&T{m: shared}`): the entries then share that map
				if al, isAlloc := o.Val.(*ssa.Alloc); isAlloc && bad == "" {
					for _, rf := range *al.Referrers() {
						fa, ok := rf.(*ssa.FieldAddr)
						if !ok {
							continue
						}
						for _, st := range storesTo(fa) {
							switch st.Val.Type().Underlying().(type) {
							case *types.Map, *types.Pointer:
							default:
								continue
							}
							for _, o2 := range origins(st.Val, originOpts{}) {
								var at2 *ssa.BasicBlock
								switch v := o2.Val.(type) {
								case *ssa.Alloc:
									at2 = v.Block()
								case ssa.Instruction:
									at2 = v.Block()
								}
								if o2.Kind == "param" || o2.Kind == "const" {
									continue
								}
								if at2 == nil || !(at2 == in.Block() || inCycleWith(fn, at2, in.Block())) {
									bad = fmt.Sprintf("the object stored at %s is new in every iteration but is built around a %s made outside the loop (%s): all entries share it, and groups with the same inner key overwrite each other", c.Pos(in.Pos()), st.Val.Type().String(), c.Pos(st.Pos()))
								}
							}
						}
					}
				}
			}
			r.Check(bad == "", key, c.Pos(in.Pos()), "the stored pointer is allocated inside the loop", bad)
		})
	}
}

// funcValueTarget resolves a function value to the function that runs: a closure's
// body, a named function, or — for a method value — the method behind the bound wrapper.
func funcValueTarget(v ssa.Value) *ssa.Function {
	var f *ssa.Function
	switch x := canon(v).(type) {
	case *ssa.MakeClosure:
		f, _ = x.Fn.(*ssa.Function)
	case *ssa.Function:
		f = x
	}
	if f == nil {
		return nil
	}
	if f.Synthetic != "" && len(f.Blocks) > 0 {
		var tgt *ssa.Function
		eachInstr(f, func(in ssa.Instruction) {
			if ci, ok := in.(ssa.CallInstruction); ok {
				if sc := staticTarget(ci.Common()); sc != nil {
					tgt = sc
				}
			}
		})
		if tgt != nil {
			return tgt
		}
	}
	return f
}

func ruleR11k(c *Ctx, r *Report) {
	var bad []string
	n := 0
	for _, fn := range c.RepoFuncs() {
		if fn.Pkg == nil || fn.Pkg.Pkg.Path() != pkgIndex {
			continue
		}
		n++
		eachInstr(fn, func(in ssa.Instruction) {
			ci, ok := in.(ssa.CallInstruction)
			if !ok {
				return
			}
			if f := calleeFunc(ci.Common()); f != nil && f.Pkg() != nil && f.Pkg().Path() == "bufio" && strings.HasPrefix(f.Name(), "NewReader") {
				bad = append(bad, fmt.Sprintf("%s at %s", fnKey(fn), c.Pos(in.Pos())))
			}
		})
	}
	sort.Strings(bad)
	r.Check(len(bad) == 0, "no-readahead@v2/index", "-", fmt.Sprintf("%d functions of package index, none wraps a reader in bufio", n),
		"a bufio reader is created in "+strings.Join(bad, "; ")+": it consumes up to a buffer's worth of the bytes that whoever reads next from the underlying reader expects")
}

func ruleR11l(c *Ctx, r *Report) {
	fn, err := c.Func(pkgIndex, "multiWidthIndex", "Load")
	if err != nil {
		r.InfraFail("%v", err)
		return
	}
	key := "digest-provenance@" + fnKey(fn)
	n, bad := 0, ""
	eachInstr(fn, func(in ssa.Instruction) {
		st, ok := in.(*ssa.Store)
		if !ok {
			return
		}
		fa, ok := st.Addr.(*ssa.FieldAddr)
		if !ok || !fieldAddrIs(fa, pkgIndex, "digestRecord", "digest") {
			return
		}
		n++
		// the whole digest, not a part of it
		for _, leaf := range phiLeaves(st.Val) {
			if sl, isSl := canon(leaf).(*ssa.Slice); isSl && (sl.Low != nil || sl.High != nil) {
				bad = fmt.Sprintf("the digest stored at %s is a sub-slice of the decoded digest: records that agree on the kept part answer for each other, and a key that is absent is reported found", c.Pos(st.Pos()))
			}
		}
		for _, o := range origins(st.Val, originOpts{}) {
			if o.Kind == "field" && o.Field != nil && o.Field.Name() == "Digest" {
				continue
			}
			bad = fmt.Sprintf("the digest stored at %s comes from %s, not from DecodedMultihash.Digest: a slice taken at a computed offset is wrong whenever the length prefix is longer than one byte (digests of 128 bytes and more)", c.Pos(st.Pos()), o.Kind)
		}
	})
	if n == 0 {
		r.Undec(key, c.Pos(fn.Pos()), "no digestRecord.digest store found")
		return
	}
	r.Check(bad == "", key, c.Pos(fn.Pos()), fmt.Sprintf("%d record(s) built from the decoder's digest", n), bad)
}

func ruleR11o(c *Ctx, r *Report) {
	nw, err := c.Func(pkgIndex, "", "New")
	if err != nil {
		r.InfraFail("%v", err)
		return
	}
	key := "registry-set@v2/index.New"
	var got []string
	for _, b := range nw.Blocks {
		if len(b.Instrs) == 0 {
			continue
		}
		iff, ok := b.Instrs[len(b.Instrs)-1].(*ssa.If)
		if !ok {
			continue
		}
		bo, ok := iff.Cond.(*ssa.BinOp)
		if !ok || bo.Op != token.EQL || canon(bo.X) != ssa.Value(nw.Params[0]) {
			continue
		}
		if k, ok := constInt(bo.Y); ok {
			got = append(got, fmt.Sprintf("%#x", k))
		}
	}
	if len(got) == 0 {
		if tab, ok := tableRegistry(c, nw); ok {
			for k := range tab {
				got = append(got, fmt.Sprintf("%#x", k))
			}
		}
	}
	sort.Strings(got)
	want := "[0x400 0x401]"
	r.Check(fmt.Sprint(got) == want, key, c.Pos(nw.Pos()), "dispatches exactly 0x400 and 0x401",
		fmt.Sprintf("index.New dispatches %v, the specification's index formats are %s: a codec accepted here can be written as, and read back as, the index of a CARv2", got, want))
}

func enclosingFuncDecl(f *ast.File, pos token.Pos) *ast.FuncDecl {
	for _, d := range f.Decls {
		if fd, ok := d.(*ast.FuncDecl); ok && fd.Body != nil && pos >= fd.Pos() && pos <= fd.End() {
			return fd
		}
	}
	return nil
}

// uvarintEncoded: the values fn encodes as an unsigned varint — varint.PutUvarint(buf, x),
// varint.ToUvarint(x); with alsoStd, encoding/binary's PutUvarint and AppendUvarint as well (go-varint
// and encoding/binary write the same bytes; they differ in what they accept when reading).
func uvarintEncoded(fn *ssa.Function, alsoStd bool) []ssa.Value {
	var out []ssa.Value
	for _, g := range withAnon(fn) {
		eachInstr(g, func(in ssa.Instruction) {
			ci, ok := in.(*ssa.Call)
			if !ok {
				return
			}
			f := calleeFunc(ci.Common())
			switch {
			case funcIs(f, pkgVarint, "", "PutUvarint"), alsoStd && funcIs(f, "encoding/binary", "", "PutUvarint"), alsoStd && funcIs(f, "encoding/binary", "", "AppendUvarint"):
				out = append(out, ci.Call.Args[1])
			case funcIs(f, pkgVarint, "", "ToUvarint"):
				out = append(out, ci.Call.Args[0])
			}
		})
	}
	return out
}
