package main

// droppedErrorBaseline: call sites of the pinned tree that discard an error result,
// keyed "enclosing function -> callee" (enumerated by R16h itself on the pinned tree
// and read through by hand). A site that is not listed is reported by R16h. Writers
// that cannot fail (bytes.Buffer, strings.Builder), fmt printing and deferred calls
// are not counted at all.
var droppedErrorBaseline = map[string]string{
	"car.selectiveCarTraverser.traverseBlocks -> dynamic":             "the legacy traverser ignores the outcome of the per-block callback (root module; not on any v2 path)",
	"cmd/car.CompileCar -> go-block-format.NewBlockWithCid":           "debug tooling (car compile)",
	"cmd/car.CompileCar -> v2/blockstore.ReadWrite.Put":               "debug tooling (car compile)",
	"cmd/car.DebugCar -> os.File.Write":                               "debug tooling (car debug) printing to the output file",
	"cmd/car.DebugCar -> os.File.WriteString":                         "debug tooling (car debug) printing to the output file",
	"cmd/car.ListCar -> invoke:Next":                                  "the iterator error is reported through the loop that follows",
	"cmd/car.patch -> memstore.Store.Put":                             "in-memory store of the debug patcher",
	"cmd/car.printUnixFSNode -> go-codec-dagpb.Link.AsLink":           "listing only; a dagpb link always yields its link",
	"cmd/car.writeCarV2 -> dynamic":                                   "callback of the traversal progress in get-dag (pinned behaviour)",
	"cmd/car.writeCarV2 -> os.Remove":                                 "best-effort removal of the partial output on an error path",
	"cmd/car.writeFiles -> v2/blockstore.ReadWrite.Put":               "pinned behaviour of `car create`: the committer ignores the result of Put (observation: a failed put during create goes unnoticed; the properties quantify over fault-free create)",
	"cmd/car/lib.FilterCar -> v2.Reader.Close":                        "read-only handle closed on the way out",
	"cmd/car/lib.InspectCar -> v2.Characteristics.WriteTo":            "writes into an in-memory buffer for display",
	"v2.NewBlockReader -> v2/internal/carv1.HeaderSize":               "re-encoding a header that was just decoded cannot fail",
	"v2/blockstore.OpenReadWrite -> os.File.Close":                    "closing the file on the error path of the constructor",
	"v2/blockstore.ReadWrite.Discard -> v2/blockstore.ReadOnly.Close": "Discard is documented not to report errors",
	"v2/storage.OpenReadable -> invoke:Seek":                          "rewind before version sniffing; a failure surfaces in the read that follows",
}
