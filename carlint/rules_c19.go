package main

import (
	"fmt"
	"go/ast"
	"go/constant"
	"go/token"
	"go/types"
	"sort"
	"strings"

	"golang.org/x/tools/go/ssa"
)

func init() {
	register(PropertyDef{
		ID: "C19",
		Explanation: "Decided statically: (R19a) every write of a CARv2 header in the repository (library and CLI) goes either to an offset writer positioned at the pragma size or " +
			"to a stream to which carv2.Pragma was written before on every path; (R19b) a file handle that was handed to an API as io.ReaderAt (which does not advance it) is " +
			"not afterwards consumed with Read on the assumption that it was advanced; (R19c) `car filter` puts a block exactly on the true outcome of a condition whose truth table over (blk.Cid() is in cidMap, invert) " +
			"is `present != invert` (evaluated over go/ssa values wherever the predicate is written: matchFilter, a method, inline), roots go through the same predicate, and the scan ends only on io.EOF; " +
			"(R19d) `car index` re-emits with offsets that start at reader position minus buffered bytes and advance by U(len)+len, records the offset held before the " +
			"section is read, builds the output header with NewHeader(payload size) (only IndexOffset may be zeroed), get-block writes blk.RawData(), detach-index copies " +
			"IndexReader(), `--version 1` copies DataReader(); (R19e) get-dag visits links once only when no custom selector is set. Two clauses are VIOLATED on the pinned " +
			"tree and recorded as known findings (D12a concat --version 2 writes a header without pragma; D12b inspect --full reads a handle ReadAt never advanced). " +
			"Further rules (R19f-R19q, listed under coverage.rules with what each requires) cover the other subcommands: output truncation, flag lineage, parser limits, list/concat/create/verify/filter clauses. " +
			"NOT decided: acceptance by inspect/verify over all inputs and flags, equality with library results.",
		Assumptions: []string{"bufio.Reader.Buffered() is the number of bytes read ahead of the consumer"},
		Rules: []RuleDef{
			{ID: "R19a", Floor: 7, Doc: "pragma before every CARv2 header write", Run: ruleR19a},
			{ID: "R19b", Floor: 1, Doc: "no Read on a handle after it was used as io.ReaderAt without re-positioning", Run: ruleR19b},
			{ID: "R19c", Floor: 3, Doc: "filter gate polarity, root filtering by the same predicate, scan ends only on EOF", Run: ruleR19c},
			{ID: "R19d", Floor: 5, Doc: "re-emission offsets and pass-through copies", Run: ruleR19d},
			{ID: "R19f", Floor: 3, Doc: "concat skips each input's own header; `index create` regenerates the index from the payload; CLI output files are opened truncating", Run: ruleR19f},
			{ID: "R19h", Floor: 1, Doc: "CLI flag lineage: a subcommand defines no flag whose name or alias an enclosing command already defines (urfave/cli resolves c.String(name) innermost-first, so the shadowing default silently overrides `car index --codec=X create`)", Run: ruleR19h},
			{ID: "R19i", Floor: 1, Doc: "the commands agree on parser limits: no command of the CLI lowers MaxAllowedSectionSize/MaxAllowedHeaderSize for itself (what index/filter emit and verify accepts, inspect must accept)", Run: ruleR19i},
			{ID: "R19j", Floor: 1, Doc: "line-oriented input of the CLI: data returned by bufio ReadString/ReadBytes together with io.EOF (an unterminated last line) is not dropped", Run: ruleR19j},
			{ID: "R19k", Floor: 1, Doc: "car verify rejects an index offset only when it lies inside the payload (`<` the data end): an offset beyond the data end is what UseIndexPadding produces and must be accepted", Run: ruleR19k},
			{ID: "R19m", Floor: 1, Doc: "car filter always finalizes the archive it opened for writing: once blockstore.OpenReadWrite has succeeded (which, on --append, has already dropped the old index and zeroed the header), success is only the result of Finalize", Run: ruleR19m},
			{ID: "R19n", Floor: 1, Doc: "car verify accepts what the library's index means: an index entry is looked up by multihash, so verify never rejects an entry because the section's whole CID differs from the key (no Cid.Equals in VerifyCar)", Run: ruleR19n},
			{ID: "R19g", Floor: 1, Doc: "car verify applies its index-placement check only to archives whose header claims an index", Run: ruleR19g},
			{ID: "R19e", Floor: 2, Doc: "get-dag: link-visit-once derives from !IsSet(selector)", Run: ruleR19e},
			{ID: "R19o", Floor: 1, Doc: "car list prints every section of the scan: from a successful Next, the next Next is not reachable without a print to the output", Run: ruleR19o},
			{ID: "R19p", Floor: 1, Doc: "car concat copies the whole payload of every input: io.Copy to the end of the payload reader (or CopyN of a length taken from the header / file size), never a length found by inspecting the bytes — trailing zero bytes can be block data", Run: ruleR19p},
			{ID: "R19q", Floor: 1, Doc: "car create writes a new archive: the roots it opens its destination with are the placeholder it computed, never something read back from a file — a destination left by another run must be refused (mismatching header), not resumed with its old blocks in the output", Run: ruleR19q},
			{ID: "R19r", Floor: 1, Doc: "`car filter --append` never starts its output over (= R06p)", Run: ruleR06p},
			{ID: "R19s", Floor: 1, Doc: "a command that can emit its product on standard output prints nothing else there: no function of cmd/car that holds os.Stdout as an output stream calls fmt.Print/Printf/Println", Run: ruleR19s},
			{ID: "R19t", Floor: 1, Doc: "get-dag reads matched large-bytes nodes to the end: the WalkMatching visitor of writeCarV2 copies AsLargeBytes() of the matched node (the leaf blocks of a reified file are loaded only when its bytes are read)", Run: ruleR19t},
			{ID: "R19u", Floor: 1, Doc: "car create sets no parser option for its destination (= R18t)", Run: ruleR18t},
			{ID: "R19v", Floor: 1, Doc: "car inspect reports what the library's inspection reports: InspectCar calls lib.InspectCar and no other checker of cmd/car/lib", Run: ruleR19v},
			{ID: "R19w", Floor: 1, Doc: "`car filter --append` resumes an output with every block it holds indexed (= R12c)", Run: ruleR12c},
			{ID: "R19x", Floor: 7, Doc: "a header re-encodes to its source bytes: car index and car concat position by HeaderSize (= R01c)", Run: ruleR01c},
			{ID: "R19y", Floor: 1, Doc: "car inspect --full accepts the CIDv0 archives the other commands write (= R02s)", Run: ruleR02s},
			{ID: "R19z", Floor: 1, Doc: "the commands size their inputs with os.Stat, which follows links like the reads do: no os.Lstat in cmd/car", Run: ruleR19z},
			{ID: "R19A", Floor: 1, Doc: "detach-index, get-block and verify find the index where the header says, index padding included (= R10d)", Run: ruleR10d},
			{ID: "R19B", Floor: 1, Doc: "car filter writes the roots that survive as a list, also when none does (= R05x)", Run: ruleR05x},
		},
	})
}

// writesPragma: the call writes the package-level carv2.Pragma to its receiver.
func pragmaWriteTarget(in ssa.Instruction) (ssa.Value, bool) {
	ci, ok := in.(*ssa.Call)
	if !ok {
		return nil, false
	}
	f := calleeFunc(ci.Common())
	if f == nil || (f.Name() != "Write" && f.Name() != "WriteAt") {
		return nil, false
	}
	args := callArgs(ci.Common())
	if len(args) < 2 || !isGlobalLoad(canon(args[1]), modV2, "Pragma") {
		return nil, false
	}
	return args[0], true
}

func ruleR19a(c *Ctx, r *Report) { headerWritesFollowPragma(c, r, nil) }

// headerWritesFollowPragma checks every CARv2 header write in the packages given (all repository packages if nil).
func headerWritesFollowPragma(c *Ctx, r *Report, pkgs map[string]bool) {
	n := 0
	for _, fn := range c.RepoFuncs() {
		if pkgs != nil && (fn.Pkg == nil || !pkgs[fn.Pkg.Pkg.Path()]) {
			continue
		}
		ord := 0
		for _, hw := range headerWriteCalls(fn) {
			n++
			ord++
			key := fmt.Sprintf("header-write@%s#%d", fnKey(fn), ord)
			w := hw.Common().Args[1]
			if _, off, ok := offsetWriterOf(w); ok {
				k, isK := constInt(off)
				r.Check(isK && k == 11, key, c.Pos(hw.Pos()), "positioned write at PragmaSize (the pragma occupies [0,11))", "header written through an offset writer that is not positioned at PragmaSize")
				continue
			}
			// a stream: a pragma write to the same stream must dominate
			ok := false
			eachInstr(fn, func(in ssa.Instruction) {
				t, isP := pragmaWriteTarget(in)
				if !isP {
					return
				}
				if !sameStream(t, w) {
					return
				}
				if (in.Block() == hw.Block() && instrIndex(in) < instrIndex(hw)) || (in.Block() != hw.Block() && in.Block().Dominates(hw.Block())) {
					// and its error was checked (the header write is behind its success)
					ok = true
				}
			})
			// a writer method whose caller wrote the pragma: accept when every call site of this function is preceded by a pragma write to the argument
			if !ok && isWriterParam(w) {
				ok = callersWritePragmaFirst(c, fn, w)
			}
			r.Check(ok, key, c.Pos(hw.Pos()), "carv2.Pragma is written to the same stream before the header on every path", "a CARv2 header is written to a stream that has not received the CARv2 pragma: the output starts with the 40-byte header and no reader (inspect, verify, any CAR parser) recognises it")
		}
	}
	r.Count("CARv2 header writes", n)
}

func sameStream(a, b ssa.Value) bool {
	la, lb := phiLeavesSet(stripIface(a)), phiLeavesSet(stripIface(b))
	la2, lb2 := map[ssa.Value]bool{}, map[ssa.Value]bool{}
	for k := range la {
		la2[stripIface(k)] = true
	}
	for k := range lb {
		lb2[stripIface(k)] = true
	}
	return sameSet(la2, lb2)
}

func isWriterParam(w ssa.Value) bool {
	_, ok := canon(stripIface(w)).(*ssa.Parameter)
	return ok
}

func callersWritePragmaFirst(c *Ctx, fn *ssa.Function, w ssa.Value) bool {
	p := canon(stripIface(w)).(*ssa.Parameter)
	idx := -1
	for i, q := range fn.Params {
		if q == p {
			idx = i
		}
	}
	n := 0
	all := true
	for _, g := range c.RepoFuncs() {
		eachInstr(g, func(in ssa.Instruction) {
			ci, ok := in.(ssa.CallInstruction)
			if !ok || staticTarget(ci.Common()) != fn {
				return
			}
			n++
			arg := ci.Common().Args[idx]
			found := false
			eachInstr(g, func(pin ssa.Instruction) {
				t, isP := pragmaWriteTarget(pin)
				if isP && sameStream(t, arg) && ((pin.Block() == in.Block() && instrIndex(pin) < instrIndex(in)) || (pin.Block() != in.Block() && pin.Block().Dominates(in.Block()))) {
					found = true
				}
			})
			if !found {
				all = false
			}
		})
	}
	return n > 0 && all
}

func ruleR19b(c *Ctx, r *Report) {
	n := 0
	for _, fn := range c.RepoFuncs() {
		if fn.Pkg == nil || (fn.Pkg.Pkg.Path() != pkgCmdCar && fn.Pkg.Pkg.Path() != pkgCmdLib) {
			continue
		}
		// handles converted to io.ReaderAt and passed to a call
		eachInstr(fn, func(in ssa.Instruction) {
			ci, ok := in.(*ssa.Call)
			if !ok {
				return
			}
			f := calleeFunc(ci.Common())
			if f == nil {
				return
			}
			sig, _ := f.Type().(*types.Signature)
			if sig == nil {
				return
			}
			for i, a := range ci.Call.Args {
				if i >= sig.Params().Len() {
					break
				}
				pt := sig.Params().At(i).Type()
				if !isIface(pt, "io", "ReaderAt") {
					continue
				}
				h := canon(stripIface(a))
				if !isNamed(h.Type(), "os", "File") {
					continue
				}
				n++
				key := fmt.Sprintf("readerat-then-read@%s#%s", fnKey(fn), funcKey(f))
				bad := ""
				eachInstr(fn, func(rin ssa.Instruction) {
					rc, ok := rin.(*ssa.Call)
					if !ok || !funcIs(calleeFunc(rc.Common()), "os", "File", "Read") {
						return
					}
					if canon(rc.Call.Args[0]) != h || !instrReaches(in, rin) {
						return
					}
					// re-positioned in between?
					seeked := false
					eachInstr(fn, func(sin ssa.Instruction) {
						sc, ok := sin.(*ssa.Call)
						if ok && funcIs(calleeFunc(sc.Common()), "os", "File", "Seek") && canon(sc.Call.Args[0]) == h && instrReaches(in, sin) && instrReaches(sin, rin) {
							seeked = true
						}
					})
					if !seeked {
						bad = fmt.Sprintf("the handle was given to %s as io.ReaderAt at %s (ReadAt does not move the file offset) and is then consumed with Read at %s as if it had been advanced: the Read starts at offset 0", funcKey(f), c.Pos(in.Pos()), c.Pos(rin.Pos()))
					}
				})
				r.Check(bad == "", key, c.Pos(in.Pos()), "no sequential Read on the handle afterwards (or it is re-positioned first)", bad)
			}
		})
	}
	r.Count("os.File handles passed as io.ReaderAt in the CLI", n)
}

func isIface(t types.Type, pkg, name string) bool {
	n, ok := t.(*types.Named)
	return ok && n.Obj().Pkg() != nil && n.Obj().Pkg().Path() == pkg && n.Obj().Name() == name
}

// filterParams finds the (cid, set, invert) parameters of a function by type and
// name rather than by position: the set is the map-typed parameter, invert the bool
// parameter called invert (or the only bool), the CID the cid.Cid parameter.
func filterParams(fn *ssa.Function) (cidIdx, setIdx, invIdx int) {
	cidIdx, setIdx, invIdx = -1, -1, -1
	nbool := 0
	for i, p := range fn.Params {
		switch t := p.Type().Underlying().(type) {
		case *types.Map:
			setIdx = i
		case *types.Basic:
			if t.Kind() == types.Bool {
				nbool++
				if invIdx < 0 || strings.EqualFold(p.Name(), "invert") || strings.EqualFold(p.Name(), "inverse") {
					if invIdx < 0 || strings.HasPrefix(strings.ToLower(p.Name()), "inver") {
						invIdx = i
					}
				}
			}
		}
		if isNamed(p.Type(), pkgCid, "Cid") {
			cidIdx = i
		}
	}
	return
}

func ruleR19c(c *Ctx, r *Report) {
	fn, err := c.Func(pkgCmdLib, "", "FilterCar")
	if err != nil {
		r.InfraFail("%v", err)
		return
	}
	puts := callsIn(fn, func(f *types.Func, cc *ssa.CallCommon) bool { return f != nil && f.Name() == "Put" })
	nexts := callsToFunc(fn, modV2, "BlockReader", "Next")
	fins := callsIn(fn, func(f *types.Func, cc *ssa.CallCommon) bool { return f != nil && f.Name() == "Finalize" })
	{
		key := "filter-gate@" + fnKey(fn)
		pkey := "filter-polarity@" + fnKey(fn)
		bad, pbad := "", ""
		_, fSet, fInv := filterParams(fn)
		if len(puts) != 1 || len(nexts) != 1 || fSet < 0 || fInv < 0 {
			bad = "expected one Put and one BlockReader.Next in FilterCar, and set/invert parameters"
			pbad = bad
		} else {
			blk := extractOf(nexts[0].Value(), 0)
			// the predicate, wherever it is computed (matchFilter, a method of a filter struct, inline):
			// a condition that is a function of "blk.Cid() is in cidMap" (P) and invert (I) alone
			sem := &boolSem{
				isI: func(v ssa.Value) bool { return canon(v) == ssa.Value(fn.Params[fInv]) },
				isP: func(lk *ssa.Lookup, fr *bframe, s *boolSem) bool {
					m, mfr := s.resolve(lk.X, fr, 0)
					if mfr != nil || canon(m) != ssa.Value(fn.Params[fSet]) {
						return false
					}
					k, kfr := s.resolve(lk.Index, fr, 0)
					if kfr != nil {
						return false
					}
					cc, _ := callOf(canon(k))
					if cc == nil || calleeFunc(cc.Common()) == nil || calleeFunc(cc.Common()).Name() != "Cid" {
						return false
					}
					return canon(stripIface(callArgs(cc.Common())[0])) == blk
				},
			}
			inLoop := reach(fn, nexts[0].Block(), nil)
			var gate []Edge
			var others []string
			for _, b := range fn.Blocks {
				if !inLoop[b] || len(b.Instrs) == 0 {
					continue
				}
				iff, ok := b.Instrs[len(b.Instrs)-1].(*ssa.If)
				if !ok {
					continue
				}
				t, ok := sem.table(iff.Cond)
				if !ok || (t[0] == t[2] && t[1] == t[3]) {
					continue // not a function of the presence test
				}
				switch t {
				case [4]bool{false, true, true, false}: // P xor I: the block is wanted
					gate = append(gate, Edge{From: b, Succ: 0})
				case [4]bool{true, false, false, true}: // the negation: the block is not wanted
					gate = append(gate, Edge{From: b, Succ: 1})
				default:
					// a step on the way to the answer (`if ok { r = !invert } else { r = invert }`), or a wrong predicate
					others = append(others, fmt.Sprintf("%s: (present,invert) -> %v", c.Pos(condPos(iff)), t))
				}
			}
			switch {
			case len(gate) == 0:
				bad = "the Put is not decided by a predicate over (blk.Cid() in cidMap, invert) for the block just read"
				pbad = "no condition of the scan loop is `present != invert`"
				if len(others) > 0 {
					pbad += "; conditions over the presence test found: " + strings.Join(others, "; ") + " — wanted: present -> !invert, absent -> invert"
				}
			case reach(fn, nexts[0].Block(), edgeSet(gate))[puts[0].Block()]:
				bad = "Put is reachable without the true outcome of the filter predicate (present != invert) for this block: the selection is inverted or bypasses the predicate"
				pbad = bad
			case canon(stripIface(puts[0].Common().Args[len(puts[0].Common().Args)-1])) != blk:
				bad = "the block that is put is not the block that was tested"
			}
			// and every matching block is put: from the true edge, Put is unavoidable before the next iteration
			if bad == "" {
				cut := EdgeSet{}
				for i := range puts[0].Block().Succs {
					cut[Edge{From: puts[0].Block(), Succ: i}] = true
				}
				for _, e := range gate {
					if e.From.Succs[e.Succ] != puts[0].Block() && reachFromEdge(fn, e, cut)[nexts[0].Block()] {
						bad = "a block that matches the filter can be skipped (the loop continues without Put)"
					}
				}
			}
		}
		r.Check(pbad == "", pkey, c.Pos(fn.Pos()), "present -> !invert, absent -> invert", pbad)
		r.Check(bad == "", key, c.Pos(fn.Pos()), "Put exactly on (blk.Cid() in cidMap) != invert, for the block read", bad)
	}
	{
		key := "filter-scan-to-eof@" + fnKey(fn)
		bad := ""
		if len(nexts) != 1 || len(fins) == 0 {
			bad = "scan loop / Finalize not found"
		} else {
			errv := extractOf(nexts[0].Value(), 1)
			eof := condEdges(fn, func(base ssa.Value) (bool, bool) {
				b, ok := base.(*ssa.BinOp)
				if !ok {
					return false, false
				}
				if (canon(b.X) == errv && isGlobalLoad(b.Y, "io", "EOF")) || (canon(b.Y) == errv && isGlobalLoad(b.X, "io", "EOF")) {
					return true, b.Op.String() == "=="
				}
				return false, false
			})
			if len(eof) == 0 {
				bad = "the scan loop has no io.EOF exit"
			} else if reach(fn, nexts[0].Block(), edgeSet(eof))[fins[0].Block()] {
				bad = "the scan can stop (and the output be finalized) before the source reached io.EOF: later selected blocks are dropped"
			}
		}
		r.Check(bad == "", key, c.Pos(fn.Pos()), "Finalize reachable from the scan only through err == io.EOF", bad)
	}
	{
		key := "filter-roots@" + fnKey(fn)
		n := 0
		_, fSet, fInv := filterParams(fn)
		if fSet >= 0 && fInv >= 0 && len(nexts) == 1 {
			blk := extractOf(nexts[0].Value(), 0)
			// the same predicate over (root in cidMap, invert), for a key that is not the scanned block
			sem := &boolSem{
				isI: func(v ssa.Value) bool { return canon(v) == ssa.Value(fn.Params[fInv]) },
				isP: func(lk *ssa.Lookup, fr *bframe, s *boolSem) bool {
					m, mfr := s.resolve(lk.X, fr, 0)
					if mfr != nil || canon(m) != ssa.Value(fn.Params[fSet]) {
						return false
					}
					k, kfr := s.resolve(lk.Index, fr, 0)
					return kfr == nil && !flowSources(k)[blk]
				},
			}
			for _, b := range fn.Blocks {
				if len(b.Instrs) == 0 {
					continue
				}
				if iff, ok := b.Instrs[len(b.Instrs)-1].(*ssa.If); ok {
					if t, ok := sem.table(iff.Cond); ok && (t == [4]bool{false, true, true, false} || t == [4]bool{true, false, false, true}) {
						n++
					}
				}
			}
		}
		r.Check(n >= 1, key, c.Pos(fn.Pos()), "roots and blocks filtered by the same predicate and arguments", "roots are not filtered with the predicate (root in cidMap) != invert")
	}
}

func ruleR19d(c *Ctx, r *Report) {
	fn, err := c.Func(pkgCmdCar, "", "IndexCar")
	if err != nil {
		r.InfraFail("%v", err)
		return
	}
	pos := c.Pos(fn.Pos())
	// --- offsets
	{
		key := "reindex-offsets@" + fnKey(fn)
		bad := ""
		lens := callsToFunc(fn, pkgVarint, "", "ReadUvarint")
		var recStore *ssa.Store
		eachInstr(fn, func(in ssa.Instruction) {
			if st, ok := in.(*ssa.Store); ok {
				if fa, ok := st.Addr.(*ssa.FieldAddr); ok && fieldAddrIs(fa, pkgIndex, "Record", "Offset") {
					recStore = st
				}
			}
		})
		if len(lens) != 1 || recStore == nil {
			bad = "scan loop shape not recognised"
		} else {
			L := extractOf(lens[0].Value(), 0)
			off := canon(recStore.Val)
			if !precedes(off, lens[0].Value()) {
				bad = "the recorded offset is computed after the section's length was read"
			}
			phi, isPhi := off.(*ssa.Phi)
			if bad == "" && !isPhi {
				bad = "recorded offset is not the loop-carried section offset"
			}
			if bad == "" {
				env := &AffEnv{name: func(v ssa.Value) string {
					switch canon(v) {
					case ssa.Value(phi):
						return "S"
					case L:
						return "L"
					}
					if cl, idx := callOf(v); cl != nil {
						f := calleeFunc(cl.Common())
						if f != nil && f.Name() == "Seek" && idx == 0 {
							return "POS"
						}
						if funcIs(f, "bufio", "Reader", "Buffered") {
							return "BUF"
						}
					}
					return ""
				}}
				sawInit, sawStep := false, false
				for _, e := range phi.Edges {
					a := env.of(canon(e))
					switch {
					case a.equal(affAtom("POS").add(affAtom("BUF"), -1)):
						sawInit = true
					case a.equal(affAtom("S").add(affAtom("L"), 1).add(affAtom("U(0 +1*L)"), 1)):
						sawStep = true
					default:
						bad = "section offset takes the value " + a.String() + "; expected POS-BUF initially and S+L+U(L) per section"
					}
				}
				if bad == "" && (!sawInit || !sawStep) {
					bad = "section offset lacks its initial value (reader position minus buffered bytes) or its per-section advance"
				}
			}
		}
		r.Check(bad == "", key, pos, "offset_0 = position - buffered; offset += len + U(len); recorded before the section is read", bad)
	}
	// --- header
	{
		key := "reindex-header@" + fnKey(fn)
		bad := ""
		hws := headerWriteCalls(fn)
		if len(hws) == 0 {
			bad = "no header write"
		}
		for _, hw := range hws {
			recv := hw.Common().Args[0]
			// the receiver is a load of a local Header cell, possibly a copy (of a copy) of the cell
			// that received NewHeader: by-value helpers that return the updated header leave such chains
			cells := map[*ssa.Alloc]bool{}
			var work []ssa.Value
			work = append(work, recv)
			newHdr := 0
			for len(work) > 0 && bad == "" {
				v := work[len(work)-1]
				work = work[:len(work)-1]
				for _, leaf := range phiLeaves(v) {
					if cl, _ := callOf(leaf); cl != nil {
						if !funcIs(calleeFunc(cl.Common()), modV2, "", "NewHeader") {
							bad = "the output header is not built by carv2.NewHeader(payload size): offsets copied from the source header are wrong for the compact output"
						} else if !loadsField(canon(cl.Call.Args[0]), modV2, "Header", "DataSize") {
							bad = "NewHeader is not given the payload size (Header.DataSize)"
						} else {
							newHdr++
						}
						continue
					}
					u, ok := leaf.(*ssa.UnOp)
					if !ok {
						bad = "header value shape not recognised"
						continue
					}
					al, ok := u.X.(*ssa.Alloc)
					if !ok {
						bad = "header value shape not recognised"
						continue
					}
					if cells[al] {
						continue
					}
					cells[al] = true
					for _, st := range storesTo(al) {
						work = append(work, st.Val)
					}
					// field stores: only IndexOffset = 0
					if al.Referrers() != nil {
						for _, ref := range *al.Referrers() {
							if fa, ok := ref.(*ssa.FieldAddr); ok {
								for _, st := range storesTo(fa) {
									k, isK := constInt(st.Val)
									if !fieldAddrIs(fa, modV2, "Header", "IndexOffset") || !isK || k != 0 {
										bad = "the output header is modified other than IndexOffset = 0"
									}
								}
							}
						}
					}
				}
			}
			if bad == "" && newHdr == 0 {
				bad = "the output header is not built by carv2.NewHeader(payload size): offsets copied from the source header are wrong for the compact output"
			}
		}
		r.Check(bad == "", key, pos, "output header = NewHeader(DataSize), optionally IndexOffset = 0", bad)
	}
	// --- pass-through copies
	type cp struct {
		fn     fnSpec
		src    string // method producing the source reader
		what   string
		viaBuf bool
	}
	for _, s := range []cp{
		{fnSpec{pkgCmdCar, "", "IndexCar"}, "DataReader", "--version 1 copies the payload reader", false},
		{fnSpec{pkgCmdCar, "", "DetachCar"}, "IndexReader", "detach-index copies the index reader", false},
	} {
		g, err := c.Func(s.fn.pkg, s.fn.recv, s.fn.name)
		if err != nil {
			r.InfraFail("%v", err)
			continue
		}
		key := "passthrough@" + fnKey(g) + "#" + s.src
		ok := false
		for _, ci := range callsToFunc(g, "io", "", "Copy") {
			for _, o := range origins(ci.Common().Args[1], originOpts{}) {
				if o.Kind == "call" && funcIs(o.Fn, modV2, "Reader", s.src) && o.Res == 0 {
					ok = true
				}
			}
		}
		r.Check(ok, key, c.Pos(g.Pos()), s.what, "no io.Copy from Reader."+s.src+"() to the output")
	}
	// get-block writes blk.RawData()
	g, err := c.Func(pkgCmdCar, "", "GetCarBlock")
	if err != nil {
		r.InfraFail("%v", err)
		return
	}
	ok := false
	eachInstr(g, func(in ssa.Instruction) {
		ci, isCall := in.(*ssa.Call)
		if !isCall || !funcIs(calleeFunc(ci.Common()), "os", "File", "Write") {
			return
		}
		rc, _ := callOf(canon(ci.Call.Args[1]))
		if rc == nil || calleeFunc(rc.Common()) == nil || calleeFunc(rc.Common()).Name() != "RawData" {
			return
		}
		gc, gi := callOf(canon(callArgs(rc.Common())[0]))
		if gc != nil && gi == 0 && funcIs(calleeFunc(gc.Common()), pkgBS, "ReadOnly", "Get") {
			ok = true
		}
	})
	r.Check(ok, "passthrough@"+fnKey(g)+"#RawData", c.Pos(g.Pos()), "writes bs.Get(cid).RawData()", "get-block does not write the RawData() of the block returned by Get")
}

func ruleR19e(c *Ctx, r *Report) {
	fn, err := c.Func(pkgCmdCar, "", "GetCarDag")
	if err != nil {
		r.InfraFail("%v", err)
		return
	}
	for _, w := range []string{"writeCarV1", "writeCarV2"} {
		key := "visit-once-flag@" + fnKey(fn) + "#" + w
		calls := callsToFunc(fn, pkgCmdCar, "", w)
		if len(calls) != 1 {
			r.Undec(key, c.Pos(fn.Pos()), "call to "+w+" not found")
			continue
		}
		args := calls[0].Common().Args
		v := args[len(args)-1]
		// the flag as the callee uses it: the value it stores into Config.LinkVisitOnlyOnce, followed
		// back to the caller's argument (a bool parameter, or a field of an options struct passed by value)
		if callee := staticTarget(calls[0].Common()); callee != nil && callee.Blocks != nil {
			for _, g := range withAnon(callee) {
				eachInstr(g, func(in ssa.Instruction) {
					st, ok := in.(*ssa.Store)
					if !ok {
						return
					}
					fa, ok := st.Addr.(*ssa.FieldAddr)
					if !ok {
						return
					}
					if fv := fieldVar(fa.X.Type(), fa.Field); fv == nil || fv.Name() != "LinkVisitOnlyOnce" {
						return
					}
					sv := canon(st.Val)
					paramIdx := func(p ssa.Value) int {
						for i, q := range callee.Params {
							if ssa.Value(q) == p {
								return i
							}
						}
						return -1
					}
					if i := paramIdx(sv); i >= 0 && i < len(args) {
						v = args[i]
						return
					}
					if src := setOnceSource(sv); src != nil {
						v = src // a field of a new options struct, filled in once by the caller
						return
					}
					if fvv, base := fieldOfLoadRaw(sv); fvv != nil && base != nil {
						// base: the spill cell of a struct parameter
						var pv ssa.Value = base
						if al, ok := base.(*ssa.Alloc); ok {
							for _, s2 := range storesTo(al) {
								pv = s2.Val
							}
						}
						if i := paramIdx(pv); i >= 0 && i < len(args) {
							if l, ok := args[i].(*ssa.UnOp); ok && l.Op == token.MUL {
								if st8, ok := callee.Params[i].Type().Underlying().(*types.Struct); ok {
									for k := 0; k < st8.NumFields(); k++ {
										if st8.Field(k) == fvv {
											if w := localStructField(l.X, k, 0, l); w != nil {
												v = w
											}
										}
									}
								}
							}
						}
					}
				})
			}
		}
		base, neg := condNorm(canon(v))
		cl, _ := callOf(base)
		ok := neg && cl != nil && calleeFunc(cl.Common()) != nil && calleeFunc(cl.Common()).Name() == "IsSet"
		r.Check(ok, key, c.Pos(calls[0].Pos()), "linkVisitOnlyOnce = !c.IsSet(\"selector\")", "link-visit-once is not derived from !IsSet(selector): with a custom selector, blocks reached again on a path the selector explores differently are skipped")
	}
}

func ruleR19f(c *Ctx, r *Report) {
	// ---- concat: the skip offset is the size of THIS input's header
	if fn, err := c.Func(pkgCmdCar, "", "ConcatCar"); err != nil {
		r.InfraFail("%v", err)
	} else {
		key := "concat-skip@" + fnKey(fn)
		bad := "no skip of the input's header before copying"
		eachInstr(fn, func(in ssa.Instruction) {
			ci, ok := in.(*ssa.Call)
			if !ok || !isSeekCall(ci) {
				return
			}
			off, wh := seekArgs(ci)
			if k, ok := constInt(wh); !ok || k != 0 {
				return
			}
			hc, hi := callOf(canon(off))
			if hc == nil || hi != 0 || calleeFunc(hc.Common()) == nil || calleeFunc(hc.Common()).Name() != "HeaderSize" {
				bad = "the number of bytes skipped at the start of an input is not HeaderSize of that input's own header (e.g. computed once for the first input): inputs with a different header length are copied from the wrong position"
				return
			}
			// the header measured belongs to the reader opened in this iteration
			okHdr := false
			for _, o := range origins(hc.Call.Args[0], originOpts{}) {
				if o.Kind == "field" && o.Field != nil && o.Field.Name() == "Header" {
					if nc, _ := callOf(canon(o.Base)); nc != nil && calleeFunc(nc.Common()) != nil && calleeFunc(nc.Common()).Name() == "NewCarReader" {
						okHdr = true
					}
				}
			}
			if okHdr {
				bad = ""
			} else {
				bad = "the header whose size is skipped is not the one just read from this input"
			}
		})
		r.Check(bad == "", key, c.Pos(fn.Pos()), "Seek(HeaderSize(this input's header), SeekStart) before io.Copy", bad)
	}
	// ---- index create: regenerated from the payload
	if fn, err := c.Func(pkgCmdCar, "", "CreateIndex"); err != nil {
		r.InfraFail("%v", err)
	} else {
		key := "index-create-regenerates@" + fnKey(fn)
		bad := ""
		if len(callsToFunc(fn, modV2, "Reader", "IndexReader")) > 0 {
			bad = "`car index create` reads the embedded index (IndexReader) instead of regenerating: the output then ignores the requested codec and repeats whatever the source index holds"
		}
		li := callsToFunc(fn, modV2, "", "LoadIndex")
		wt := callsToFunc(fn, pkgIndex, "", "WriteTo")
		if bad == "" && (len(li) != 1 || len(wt) != 1) {
			bad = "expected LoadIndex over the payload followed by index.WriteTo"
		}
		if bad == "" {
			okSrc := false
			for _, o := range origins(li[0].Common().Args[1], originOpts{}) {
				if o.Kind == "call" && funcIs(o.Fn, modV2, "Reader", "DataReader") {
					okSrc = true
				}
			}
			if !okSrc {
				bad = "the index is not generated over Reader.DataReader()"
			}
			nc := callsToFunc(fn, pkgIndex, "", "New")
			if len(nc) != 1 || !sameValue(stripIface(li[0].Common().Args[0]), extractOf(nc[0].Value(), 0)) || !sameValue(stripIface(wt[0].Common().Args[0]), extractOf(nc[0].Value(), 0)) {
				bad = "the index written is not the one built by index.New(codec) and filled by LoadIndex"
			}
		}
		r.Check(bad == "", key, c.Pos(fn.Pos()), "index.New(codec) -> LoadIndex(DataReader()) -> index.WriteTo", bad)
	}
	// ---- output files
	n := 0
	for _, fn := range c.RepoFuncs() {
		if fn.Pkg == nil || (fn.Pkg.Pkg.Path() != pkgCmdCar && fn.Pkg.Pkg.Path() != pkgCmdLib) {
			continue
		}
		ord := 0
		for _, ci := range callsToFunc(fn, "os", "", "OpenFile") {
			fl, isK := constInt(ci.Common().Args[1])
			if isK && fl&(oWRONLY|oRDWR) == 0 {
				continue // read-only
			}
			n++
			ord++
			key := fmt.Sprintf("output-open@%s#%d", fnKey(fn), ord)
			ok := isK && (fl&oTRUNC != 0 || fl&oAPPEND != 0 || fl&oEXCL != 0)
			r.Check(ok, key, c.Pos(ci.Pos()), "truncating/appending/exclusive open", fmt.Sprintf("an output file is opened for writing with flags %#x, without O_TRUNC: writing a shorter result over an existing file leaves the old tail, so the emitted archive/block is followed by stale bytes", fl))
		}
	}
	r.Hold("output-open@cmd", "-", fmt.Sprintf("%d os.OpenFile-for-write call(s) in the CLI, the rest uses os.Create (truncating)", n))
}

func ruleR19g(c *Ctx, r *Report) {
	fn, err := c.Func(pkgCmdLib, "", "VerifyCar")
	if err != nil {
		r.InfraFail("%v", err)
		return
	}
	key := "verify-indexless@" + fnKey(fn)
	isIO := func(v ssa.Value) bool { return loadsField(canon(v), modV2, "Header", "IndexOffset") }
	// failing outcome of `IndexOffset < something non-constant`
	var fails []Edge
	for _, e := range cmpEdges(fn, isIO, func(v ssa.Value) bool { _, isK := constInt(v); return !isK }, "lt") {
		fails = append(fails, e)
	}
	if len(fails) == 0 {
		r.Exempt(key, c.Pos(fn.Pos()), "no index-placement comparison in VerifyCar")
		return
	}
	claimed := condEdges(fn, matchCallCond(modV2, "Header", "HasIndex", true, nil))
	claimed = append(claimed, cmpEdges(fn, isIO, func(v ssa.Value) bool { k, ok := constInt(v); return ok && k == 0 }, "ne")...)
	bad := ""
	reachable := reach(fn, nil, edgeSet(claimed))
	for _, e := range fails {
		// the failing edge must only be taken when an index is claimed
		tgt := e.From.Succs[e.Succ]
		if reachable[e.From] && reachable[tgt] {
			// is the comparison itself part of a conjunction with the claim? then e.From is behind `claimed`
			bad = "the check `IndexOffset < end of data` is applied to archives without an index (IndexOffset == 0): every index-less CARv2, e.g. the output of `car index --codec none`, is rejected by car verify"
		}
	}
	r.Check(bad == "", key, c.Pos(fn.Pos()), "index-placement check only behind HasIndex()", bad)
}

// ruleR19h walks the cli.App literal of package cmd/car.
func ruleR19h(c *Ctx, r *Report) {
	p := c.Pkgs[pkgCmdCar]
	if p == nil {
		r.InfraFail("package %s not loaded", pkgCmdCar)
		return
	}
	info := p.TypesInfo
	isCli := func(t types.Type, name string) bool {
		n := namedOf(t)
		return n != nil && n.Obj().Name() == name && n.Obj().Pkg() != nil && strings.Contains(n.Obj().Pkg().Path(), "urfave/cli")
	}
	field := func(cl *ast.CompositeLit, name string) ast.Expr {
		for _, e := range cl.Elts {
			if kv, ok := e.(*ast.KeyValueExpr); ok {
				if id, ok := kv.Key.(*ast.Ident); ok && id.Name == name {
					return kv.Value
				}
			}
		}
		return nil
	}
	lit := func(e ast.Expr) *ast.CompositeLit {
		if u, ok := e.(*ast.UnaryExpr); ok {
			e = u.X
		}
		cl, _ := e.(*ast.CompositeLit)
		return cl
	}
	strs := func(e ast.Expr) []string {
		var out []string
		if e == nil {
			return nil
		}
		if tv, ok := info.Types[e]; ok && tv.Value != nil && tv.Value.Kind() == constant.String {
			return []string{constant.StringVal(tv.Value)}
		}
		if cl := lit(e); cl != nil {
			for _, el := range cl.Elts {
				if tv, ok := info.Types[el]; ok && tv.Value != nil && tv.Value.Kind() == constant.String {
					out = append(out, constant.StringVal(tv.Value))
				}
			}
		}
		return out
	}
	flagNames := func(cl *ast.CompositeLit) []string {
		var out []string
		fl := lit(field(cl, "Flags"))
		if fl == nil {
			return nil
		}
		for _, fe := range fl.Elts {
			f := lit(fe)
			if f == nil {
				continue
			}
			out = append(out, strs(field(f, "Name"))...)
			out = append(out, strs(field(f, "Aliases"))...)
		}
		return out
	}
	n := 0
	var walk func(cl *ast.CompositeLit, path string, inherited map[string]string)
	walk = func(cl *ast.CompositeLit, path string, inherited map[string]string) {
		own := flagNames(cl)
		if len(inherited) > 0 {
			n++
			var bad []string
			for _, f := range own {
				if by, ok := inherited[f]; ok {
					bad = append(bad, fmt.Sprintf("flag %q is already defined by `%s`", f, by))
				}
			}
			sort.Strings(bad)
			r.Check(len(bad) == 0, "flag-lineage@"+path, c.Pos(cl.Pos()), fmt.Sprintf("%d own flag names, none shadows an enclosing command's", len(own)),
				strings.Join(bad, "; ")+": the action reads the flag through the context lineage and now sees this command's default instead of the value given to the enclosing command")
		}
		next := map[string]string{}
		for k, v := range inherited {
			next[k] = v
		}
		for _, f := range own {
			next[f] = path
		}
		for _, fname := range []string{"Subcommands", "Commands"} {
			subs := lit(field(cl, fname))
			if subs == nil {
				continue
			}
			for _, se := range subs.Elts {
				sc := lit(se)
				if sc == nil {
					continue
				}
				nm := strs(field(sc, "Name"))
				name := "?"
				if len(nm) > 0 {
					name = nm[0]
				}
				walk(sc, path+" "+name, next)
			}
		}
	}
	found := false
	for _, f := range p.Syntax {
		ast.Inspect(f, func(nd ast.Node) bool {
			cl, ok := nd.(*ast.CompositeLit)
			if !ok {
				return true
			}
			if t := info.TypeOf(cl); t != nil && isCli(t, "App") {
				found = true
				walk(cl, "car", map[string]string{})
				return false
			}
			return true
		})
	}
	if !found {
		r.Undec("flag-lineage@car", "-", "cli.App literal not found in package cmd/car")
		return
	}
	r.Count("nested commands checked for flag shadowing", n)
}

// optionCallsIn: the carv2 option constructors whose results flow into v (a variadic options argument).
func optionCallsIn(v ssa.Value) []*ssa.Call {
	var out []*ssa.Call
	for x := range flowSources(v) {
		if cl, ok := x.(*ssa.Call); ok {
			if f := calleeFunc(cl.Common()); f != nil && f.Pkg() != nil && f.Pkg().Path() == modV2 {
				out = append(out, cl)
			}
		}
	}
	return out
}

func ruleR19i(c *Ctx, r *Report) {
	var bad []string
	n := 0
	for _, fn := range c.RepoFuncs() {
		if fn.Pkg == nil || !strings.HasPrefix(fn.Pkg.Pkg.Path(), modCmd) {
			continue
		}
		eachInstr(fn, func(in ssa.Instruction) {
			ci, ok := in.(*ssa.Call)
			if !ok {
				return
			}
			f := calleeFunc(ci.Common())
			if f == nil || f.Pkg() == nil {
				return
			}
			if funcIs(f, modV2, "", "MaxAllowedSectionSize") || funcIs(f, modV2, "", "MaxAllowedHeaderSize") {
				bad = append(bad, fmt.Sprintf("%s passes %s at %s", fnKey(fn), f.Name(), c.Pos(ci.Pos())))
			}
			if strings.HasPrefix(f.Pkg().Path(), modV2) && f.Type().(*types.Signature).Variadic() {
				n++
			}
		})
	}
	sort.Strings(bad)
	r.Check(len(bad) == 0, "limits-agree@cmd/car", "-", fmt.Sprintf("%d option-taking library calls in the CLI, none sets a section or header limit of its own", n),
		strings.Join(bad, "; ")+": that command now rejects archives the other commands emit and verify accepts (all others run with the library defaults)")
}

func ruleR19j(c *Ctx, r *Report) {
	n := 0
	for _, fn := range c.RepoFuncs() {
		if fn.Pkg == nil || !strings.HasPrefix(fn.Pkg.Pkg.Path(), modCmd) {
			continue
		}
		ord := 0
		eachInstr(fn, func(in ssa.Instruction) {
			ci, ok := in.(*ssa.Call)
			if !ok {
				return
			}
			f := calleeFunc(ci.Common())
			if !(funcIs(f, "bufio", "Reader", "ReadString") || funcIs(f, "bufio", "Reader", "ReadBytes")) {
				return
			}
			n++
			ord++
			key := fmt.Sprintf("eof-line@%s#%d", fnKey(fn), ord)
			data := extractOf(ci, 0)
			useBlocks := map[*ssa.BasicBlock]bool{}
			sameBlockUse := false
			if data != nil {
				for _, ref := range *data.Referrers() {
					if _, isDbg := ref.(*ssa.DebugRef); isDbg {
						continue
					}
					if ref.Block() == ci.Block() {
						sameBlockUse = true
					}
					useBlocks[ref.Block()] = true
				}
			}
			if sameBlockUse {
				r.Hold(key, c.Pos(ci.Pos()), "the data is used before the error is looked at")
				return
			}
			cut := edgeSet(condEdges(fn, errNilCond(errOfCall(ci), true)))
			for _, b := range fn.Blocks {
				for i, sc := range b.Succs {
					if useBlocks[sc] {
						cut[Edge{From: b, Succ: i}] = true
					}
				}
			}
			rs := reach(fn, ci.Block(), cut)
			bad := ""
			for _, ret := range returnsOf(fn) {
				if rs[ret.Block()] && resultIsNilConst(ret, len(ret.Results)-1) {
					bad = fmt.Sprintf("on the error outcome of %s the function returns success at %s without looking at the data returned with it: ReadString/ReadBytes hand back an unterminated last line together with io.EOF, so the last entry of the input is dropped", f.Name(), c.Pos(ret.Pos()))
				}
			}
			r.Check(bad == "", key, c.Pos(ci.Pos()), "data returned together with the error is consumed", bad)
		})
	}
	if n == 0 {
		r.Hold("eof-line@cmd/car", "-", "no ReadString/ReadBytes in the CLI (line input goes through ReadLine, which returns the last line before io.EOF)")
	}
}

func ruleR19k(c *Ctx, r *Report) {
	fn, err := c.Func(pkgCmdLib, "", "VerifyCar")
	if err != nil {
		r.InfraFail("%v", err)
		return
	}
	key := "index-padding-accepted@" + fnKey(fn)
	isIO := func(v ssa.Value) bool { return loadsField(canon(v), modV2, "Header", "IndexOffset") }
	notConst := func(v ssa.Value) bool { _, isK := constInt(v); return !isK && !isIO(v) }
	bad := ""
	n := 0
	for _, want := range []string{"gt", "ge"} {
		for _, e := range cmpEdges(fn, isIO, notConst, want) {
			n++
			// the outcome leads straight (no further test) to an error return
			b := e.From.Succs[e.Succ]
			for i := 0; i < 4 && b != nil; i++ {
				last := b.Instrs[len(b.Instrs)-1]
				if ret, ok := last.(*ssa.Return); ok {
					if !resultIsNilConst(ret, len(ret.Results)-1) {
						bad = fmt.Sprintf("verify fails at %s when the index offset is beyond the end of the data: that gap is the index padding (UseIndexPadding), and such files are what the library writes", c.Pos(ret.Pos()))
					}
					break
				}
				if _, ok := last.(*ssa.Jump); ok && len(b.Succs) == 1 {
					b = b.Succs[0]
					continue
				}
				break
			}
		}
	}
	lt := cmpEdges(fn, isIO, notConst, "lt")
	if len(lt) == 0 && bad == "" {
		r.Undec(key, c.Pos(fn.Pos()), "no comparison of Header.IndexOffset with the data end found")
		return
	}
	r.Check(bad == "", key, c.Pos(fn.Pos()), "IndexOffset is only rejected when below the data end", bad)
}

func ruleR19m(c *Ctx, r *Report) {
	fn, err := c.Func(pkgCmdLib, "", "FilterCar")
	if err != nil {
		r.InfraFail("%v", err)
		return
	}
	key := "filter-finalizes@" + fnKey(fn)
	opens := callsToFunc(fn, pkgBS, "", "OpenReadWrite")
	if len(opens) != 1 {
		r.Undec(key, c.Pos(fn.Pos()), "expected one blockstore.OpenReadWrite")
		return
	}
	okE := condEdges(fn, errNilCond(errOfCall(opens[0]), true))
	bad := ""
	for _, e := range okE {
		rs := reachFromEdge(fn, e, nil)
		for _, ret := range returnsOf(fn) {
			if rs[ret.Block()] && resultIsNilConst(ret, len(ret.Results)-1) {
				bad = fmt.Sprintf("after the output was opened for writing, the return at %s reports success without Finalize: on --append the old index and header are already gone, so the file is left unreadable", c.Pos(ret.Pos()))
			}
		}
	}
	if len(okE) == 0 {
		bad = "the error of blockstore.OpenReadWrite is not tested"
	}
	r.Check(bad == "", key, c.Pos(opens[0].Pos()), "success after OpenReadWrite is only the result of Finalize", bad)
}

func ruleR19n(c *Ctx, r *Report) {
	fn, err := c.Func(pkgCmdLib, "", "VerifyCar")
	if err != nil {
		r.InfraFail("%v", err)
		return
	}
	key := "verify-by-multihash@" + fnKey(fn)
	bad := ""
	for _, g := range withAnon(fn) {
		for _, ci := range callsToFunc(g, pkgCid, "Cid", "Equals") {
			bad = fmt.Sprintf("VerifyCar compares whole CIDs at %s: an index is keyed by multihash, so the entry found for a CID may rightly be the section of another CID over the same bytes, and a valid `car index` output is rejected", c.Pos(ci.Pos()))
		}
	}
	r.Check(bad == "", key, c.Pos(fn.Pos()), "no whole-CID comparison in verify", bad)
}

func ruleR19o(c *Ctx, r *Report) {
	fn, err := c.Func(pkgCmdCar, "", "ListCar")
	if err != nil {
		r.InfraFail("%v", err)
		return
	}
	key := "list-prints-every-section@" + fnKey(fn)
	nexts := callsToFunc(fn, modV2, "BlockReader", "Next")
	if len(nexts) != 1 {
		r.Undec(key, c.Pos(fn.Pos()), "expected one BlockReader.Next")
		return
	}
	okE := condEdges(fn, errNilCond(errOfCall(nexts[0]), true))
	cut := EdgeSet{}
	printBlocks := map[*ssa.BasicBlock]bool{}
	eachInstr(fn, func(in ssa.Instruction) {
		if ci, ok := in.(ssa.CallInstruction); ok {
			if f := calleeFunc(ci.Common()); f != nil && f.Pkg() != nil && f.Pkg().Path() == "fmt" && strings.HasPrefix(f.Name(), "Fp") {
				printBlocks[in.Block()] = true
			}
		}
	})
	for _, b := range fn.Blocks {
		for i, sc := range b.Succs {
			if printBlocks[sc] {
				cut[Edge{From: b, Succ: i}] = true
			}
		}
	}
	bad := ""
	if len(okE) == 0 {
		bad = "the error of Next is not tested"
	}
	for _, e := range okE {
		if printBlocks[e.From.Succs[e.Succ]] {
			continue
		}
		if reachFromEdge(fn, e, cut)[nexts[0].Block()] {
			bad = "after a section was read, the loop can go on to the next one without having printed anything: `car list` leaves out sections that a scan of the archive yields (repeated CIDs, for instance)"
		}
	}
	r.Check(bad == "", key, c.Pos(nexts[0].Pos()), "every iteration prints before the next read", bad)
}

func ruleR19p(c *Ctx, r *Report) {
	fn, err := c.Func(pkgCmdCar, "", "ConcatCar")
	if err != nil {
		r.InfraFail("%v", err)
		return
	}
	key := "concat-copies-whole-payload@" + fnKey(fn)
	n, bad := 0, ""
	for _, g := range withAnon(fn) {
		for _, ci := range callsToFunc(g, "io", "", "Copy") {
			_ = ci
			n++
		}
		for _, ci := range callsToFunc(g, "io", "", "CopyN") {
			n++
			// a length that was counted in a loop is a length found by looking at the bytes
			for v := range flowSources(ci.Common().Args[2]) {
				if ph, ok := v.(*ssa.Phi); ok {
					for _, e := range ph.Edges {
						if flowSources(e)[ph] {
							bad = fmt.Sprintf("the number of payload bytes copied at %s is the result of a loop (a scan of the payload), not a length taken from the header or the file size", c.Pos(ci.Pos()))
						}
					}
				}
			}
			for _, o := range origins(ci.Common().Args[2], originOpts{binops: true}) {
				switch {
				case o.Kind == "const":
				case o.Kind == "field" && o.Field != nil && (o.Field.Name() == "DataSize" || o.Field.Name() == "DataOffset"):
				case o.Kind == "call" && o.Fn != nil && (o.Fn.Name() == "Size" || o.Fn.Name() == "HeaderSize"):
				default:
					bad = fmt.Sprintf("the number of payload bytes copied at %s is computed from %s rather than taken from the header or the file size", c.Pos(ci.Pos()), o.Kind)
				}
			}
		}
	}
	if n == 0 {
		r.Undec(key, c.Pos(fn.Pos()), "no io.Copy / io.CopyN of the payload found")
		return
	}
	r.Check(bad == "", key, c.Pos(fn.Pos()), "payloads copied to their end", bad)
}

// R19q: car create opens its destination with the placeholder root only.
func ruleR19q(c *Ctx, r *Report) {
	fn, err := c.Func(pkgCmdCar, "", "CreateCar")
	if err != nil {
		r.InfraFail("%v", err)
		return
	}
	key := "create-starts-fresh@" + fnKey(fn)
	n, bad := 0, ""
	for _, g := range withAnon(fn) {
		for _, ci := range callsToFunc(g, pkgBS, "", "OpenReadWrite") {
			n++
			for v := range flowSources(ci.Common().Args[1]) {
				call, ok := v.(*ssa.Call)
				if !ok {
					continue
				}
				if f := calleeFunc(call.Common()); f != nil && f.Pkg() != nil && isRepoPkg(f.Pkg().Path()) {
					bad = fmt.Sprintf("the roots handed to OpenReadWrite at %s come from %s: the destination is opened under roots read from a file, so an archive left by another run is resumed and its blocks end up in the output", c.Pos(ci.Pos()), funcKey(f))
				}
			}
		}
	}
	if n == 0 {
		r.Undec(key, c.Pos(fn.Pos()), "CreateCar no longer opens its destination through blockstore.OpenReadWrite")
		return
	}
	r.Check(bad == "", key, c.Pos(fn.Pos()), "the destination is opened with the computed placeholder root", bad)
}

func condPos(iff *ssa.If) token.Pos {
	if iff.Pos().IsValid() {
		return iff.Pos()
	}
	if iff.Cond.Pos().IsValid() {
		return iff.Cond.Pos()
	}
	for _, in := range iff.Block().Instrs {
		if in.Pos().IsValid() {
			return in.Pos()
		}
	}
	return token.NoPos
}
