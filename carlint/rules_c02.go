package main

import (
	"fmt"
	"go/constant"
	"go/token"
	"go/types"
	"sort"
	"strings"

	"golang.org/x/tools/go/ssa"
)

const (
	pkgBlocks   = "github.com/ipfs/go-block-format"
	pkgCid      = "github.com/ipfs/go-cid"
	pkgMh       = "github.com/multiformats/go-multihash"
	pkgVarint   = "github.com/multiformats/go-varint"
	pkgV1       = modV2 + "/internal/carv1"
	pkgV1Util   = modV2 + "/internal/carv1/util"
	pkgIntIO    = modV2 + "/internal/io"
	pkgStore    = modV2 + "/internal/store"
	pkgLoader   = modV2 + "/internal/loader"
	pkgIndex    = modV2 + "/index"
	pkgBS       = modV2 + "/blockstore"
	pkgStorage  = modV2 + "/storage"
	pkgDeferred = modV2 + "/storage/deferred"
	pkgRootUtil = modRoot + "/util"
	pkgCmdCar   = modCmd + "/car"
	pkgCmdLib   = modCmd + "/car/lib"
)

func init() {
	register(PropertyDef{
		ID: "C02",
		Explanation: "Decided statically, for every path of the code: (R02a) in each verifying iterator every return that yields a block is " +
			"unreachable unless the branch `Prefix().Sum(data).Equals(c)` was taken with the very c/data that are returned " +
			"(the only bypass being Options.TrustedCAR in BlockReader.Next, which no other function may read); loaders hand to the store only " +
			"blocks that came out of a verifying Next on its success path; Inspect's per-block accounting is behind the streamed-hash comparison. " +
			"(R02b) every read of a section body from the stream, made after the length prefix was consumed, cannot let a bare io.EOF reach the " +
			"caller (who reads io.EOF as a clean end of archive). NOT decided: that the digest functions of go-cid/go-multihash compute the right " +
			"digest, truncation inside varints/CIDs (delegated to go-varint/go-cid), or any value-level equality.",
		Assumptions: []string{
			"cid.Prefix.Sum / multihash.SumStream compute the digest of exactly the bytes handed to them",
			"io.ReadFull, io.CopyN, cid.CidFromReader return bare io.EOF only when zero bytes were available (read from the cached sources)",
			"callers of the iterators compare the error with io.EOF by identity (as every caller in this repository does)",
		},
		Rules: []RuleDef{
			{ID: "R02a", Floor: 3 + 4 + 1 + 1, Doc: "hash gate: block-yielding returns of verifying iterators are dominated by the true outcome of hashed.Equals(c) for the returned (c,data); TrustedCAR read only by BlockReader.Next; loaders store only results of Next; Inspect counts a block only behind gotCid.Equals(c)", Run: ruleR02a},
			{ID: "R02c", Floor: 1, Doc: "an explicit clean end (return io.EOF for a zero-length section) is taken only on the success outcome of the length read", Run: ruleR02c},
			{ID: "R02d", Floor: 8, Doc: "framing readers return freshly allocated, fully read buffers and decode the CID from them (= R01b): a block cannot alias a reused buffer", Run: ruleR01b},
			{ID: "R02e", Floor: 3, Doc: "single-byte adapters read with io.ReadFull: a Read may deliver its last byte together with io.EOF", Run: ruleR02e},
			{ID: "R02b", Floor: 5, Doc: "EOF sanitisation: the error of a section-body read from the stream reaches a return only along the not-equal outcome of a comparison with io.EOF (or after being replaced/wrapped)", Run: ruleR02b},
			{ID: "R02f", Floor: 2, Doc: "the CARv2 payload is read through a reader bounded by the real stream, not by what the header announces (= R14a)", Run: ruleR14a},
			{ID: "R02g", Floor: 10, Doc: "no new dropped error on the read paths (a failed Seek/Read that goes unnoticed turns truncation into a clean end) (= R16h)", Run: ruleR16h},
			{ID: "R02h", Floor: 1, Doc: "a digest recomputed for comparison has the length of the digest it is compared with: every multihash.Sum / SumStream in the library takes its length from the CID (Prefix.MhLength, the decoded Length) — the constant -1 ('default length') rejects every block addressed by a truncated digest", Run: ruleR02h},
			{ID: "R02i", Floor: 1, Doc: "no Read whose byte count is thrown away: an io.Reader may return fewer bytes than asked for with a nil error, so a library call of Read that ignores n has read an unknown part of what it then decodes (fixed-size fields are read with io.ReadFull / binary.Read); the one site of the pinned tree is tabled", Run: ruleR02i},
			{ID: "R02j", Floor: 2, Doc: "the error of a reader or loader is not replaced by the outcome of a deferred step: a truncated or corrupt archive must not come back as success because a deferred flush succeeded (= R16g)", Run: ruleR16g},
			{ID: "R02k", Floor: 1, Doc: "a reader does not keep a pooled buffer it has given back: the next reader to take it from the pool would have its bytes consumed by this one (= R01m)", Run: ruleR01m},
			{ID: "R02l", Floor: 1, Doc: "the stdin loader of `car extract` marks its input as cleanly consumed only on the io.EOF outcome of BlockReader.Next: any other failure of the verifying reader must not look like the end of the archive to the reads that wait for blocks", Run: ruleR02l},
			{ID: "R02m", Floor: 1, Doc: "Inspect keeps nothing between calls: it assigns no field of its Reader, so a full (hash-validating) inspection cannot be answered from an earlier quick one", Run: ruleR02m},
			{ID: "R02n", Floor: 1, Doc: "the verifying readers keep no result between calls beyond what the pinned tree keeps (= R08o)", Run: ruleR08o},
			{ID: "R02o", Floor: 1, Doc: "the bufio.Reader a root-module CarReader owns came out of the pool: every store to CarReader.br is nil or the result of bufioReaderPool.Get (Next gives it back to the pool; a reader the caller owns would be handed to another CarReader while still in use)", Run: ruleR02o},
			{ID: "R02p", Floor: 3, Doc: "a full inspection ends its scan cleanly only on the bare io.EOF of the length read; every other read failure (a wrapped or mapped EOF included) is reported, never taken for the end of the archive (= R13b)", Run: ruleR13b},
			{ID: "R02q", Floor: 3, Doc: "who may issue a single Read: only the functions that do so in the pinned tree (the reader adapters forwarding one Read, the loops over Read); everything else fills its buffers with io.ReadFull / io.Copy / binary.Read — a short read without error is legal for any io.Reader", Run: ruleR02q},
			{ID: "R02r", Floor: 1, Doc: "the clean end of an archive is the bare io.EOF of a length-prefix read: no errors.Is(err, io.EOF) in the library (the CID decoders wrap io.EOF for a CID cut short, and a wrapped EOF is a truncation)", Run: ruleR02r},
			{ID: "R02s", Floor: 1, Doc: "the CID a full inspection rebuilds from the hashed bytes has the version of the section's CID (NewCidV0 for a CIDv0 section, NewCidV1 for a CIDv1 one, or Prefix.Sum)", Run: ruleR02s},
			{ID: "R02t", Floor: 2, Doc: "the stream adapter's forward skip reports a stream that ends early: io.CopyN over the counted reader (= R03d)", Run: ruleR03d},
			{ID: "R02A", Floor: 1, Doc: "nothing inside the repository switches the block reader's hash check off on the caller's behalf: WithTrustedCAR is called by users of the library only, never by the library or the command-line tool (whose link systems run with TrustedStorage and rely on the reader to verify)", Run: ruleR02A},
		},
	})
}

type iterSpec struct {
	pkg, recv, name string
	bypass          bool // Options.TrustedCAR honoured here
}

var verifyingIterators = []iterSpec{
	{modV2, "BlockReader", "Next", true},
	{pkgV1, "CarReader", "Next", false},
	{modRoot, "CarReader", "Next", false},
}

func ruleR02a(c *Ctx, r *Report) {
	for _, it := range verifyingIterators {
		fn, err := c.Func(it.pkg, it.recv, it.name)
		if err != nil {
			r.InfraFail("%v", err)
			continue
		}
		checkHashGate(c, r, fn, it.bypass)
	}
	// who may read Options.TrustedCAR
	nreads := 0
	for _, fn := range c.RepoFuncs() {
		eachInstr(fn, func(in ssa.Instruction) {
			fa, ok := in.(*ssa.FieldAddr)
			if !ok || !fieldAddrIs(fa, modV2, "Options", "TrustedCAR") {
				return
			}
			// loads only (stores are the option setter)
			for _, ref := range *fa.Referrers() {
				if u, ok := ref.(*ssa.UnOp); ok && u.Op == token.MUL {
					nreads++
					key := "trustedcar-read@" + fnKey(fn)
					ok := fnKey(fn) == "v2.BlockReader.Next"
					r.Check(ok, key, c.Pos(u.Pos()), "the documented bypass", "Options.TrustedCAR is read outside BlockReader.Next: a second reader honours the hash-check bypass")
				}
			}
		})
	}
	r.Count("TrustedCAR reads", nreads)
	// loaders
	for _, m := range []string{pkgV1, modRoot} {
		for _, name := range []string{"loadCarFast", "loadCarSlow"} {
			fn, err := c.Func(m, "", name)
			if err != nil {
				r.InfraFail("%v", err)
				continue
			}
			checkLoader(c, r, fn, m)
		}
	}
	// Inspect
	fn, err := c.Func(modV2, "Reader", "Inspect")
	if err != nil {
		r.InfraFail("%v", err)
		return
	}
	checkInspectGate(c, r, fn, "R02a")
}

// checkHashGate verifies the gate in one iterator.
func checkHashGate(c *Ctx, r *Report, fn *ssa.Function, bypass bool) {
	key := "hashgate@" + fnKey(fn)
	pos := c.Pos(fn.Pos())
	// block-yielding returns: result 0 not the nil constant
	var yielding []*ssa.Return
	for _, ret := range returnsOf(fn) {
		if len(ret.Results) >= 1 && !isNilConst(ret.Results[0]) {
			yielding = append(yielding, ret)
		}
	}
	if len(yielding) == 0 {
		r.Undec(key, pos, "no block-yielding return found")
		return
	}
	// Each yielding return must return a block made by NewBlockWithCid(data, c)
	var gateEdges []Edge
	for _, ret := range yielding {
		call, idx := callOf(ret.Results[0])
		if call == nil || idx != 0 || !funcIs(calleeFunc(call.Common()), pkgBlocks, "", "NewBlockWithCid") {
			r.Undec(key, c.Pos(ret.Pos()), "block-yielding return does not return blocks.NewBlockWithCid(data, c) directly: shape not recognised")
			return
		}
		data, cidv := call.Call.Args[0], call.Call.Args[1]
		// find Equals(hashed, c) with hashed from Prefix(c).Sum(data)
		eq, found := hashEqualsEdges(fn, cidv, data)
		if !found {
			// the check may live in an unexported helper: err == nil of helper(c, data) is then the gate,
			// provided every nil return of the helper is behind its own Equals(Sum(data)) == c outcome
			eachInstr(fn, func(in ssa.Instruction) {
				ci, ok := in.(*ssa.Call)
				if !ok || found {
					return
				}
				h := staticTarget(ci.Common())
				if h == nil || h.Blocks == nil || h.Pkg != fn.Pkg {
					return
				}
				ci2, di := -1, -1
				for i, a := range ci.Call.Args {
					if sameValue(a, cidv) {
						ci2 = i
					}
					if sameValue(a, data) {
						di = i
					}
				}
				if ci2 < 0 || di < 0 || ci2 >= len(h.Params) || di >= len(h.Params) {
					return
				}
				heq, hfound := hashEqualsEdges(h, h.Params[ci2], h.Params[di])
				if !hfound {
					return
				}
				hreach := reach(h, nil, edgeSet(heq))
				for _, hret := range returnsOf(h) {
					ev := hret.Results[len(hret.Results)-1]
					if isNilConst(ev) && hreach[hret.Block()] {
						return
					}
				}
				eq = condEdges(fn, errNilCond(errOfCall(ci), true))
				found = len(eq) > 0
			})
		}
		if !found {
			r.Viol(key, c.Pos(ret.Pos()), "no branch on c.Prefix().Sum(data).Equals(c) over the returned c and data exists in this iterator")
			return
		}
		gateEdges = append(gateEdges, eq...)
	}
	cut := edgeSet(gateEdges)
	if bypass {
		cut = edgeSet(gateEdges, condEdges(fn, matchFieldCond(modV2, "Options", "TrustedCAR", true)))
	}
	reachable := reach(fn, nil, cut)
	for _, ret := range yielding {
		if reachable[ret.Block()] {
			r.Viol(key, c.Pos(ret.Pos()), "a block-yielding return is reachable without passing the true outcome of hashed.Equals(c)"+map[bool]string{true: " (or the TrustedCAR bypass)", false: ""}[bypass])
			return
		}
	}
	r.Hold(key, pos, fmt.Sprintf("%d block-yielding return(s) all behind hashed.Equals(c) over the returned values", len(yielding)))
}

// hashEqualsEdges: the true-outcome edges of `Prefix(c).Sum(data) Equals c` in fn.
func hashEqualsEdges(fn *ssa.Function, cidv, data ssa.Value) ([]Edge, bool) {
	found := false
	eq := condEdges(fn, func(base ssa.Value) (bool, bool) {
		ec, _ := callOf(base)
		if ec == nil || !funcIs(calleeFunc(ec.Common()), pkgCid, "Cid", "Equals") {
			return false, false
		}
		args := callArgs(ec.Common())
		if len(args) != 2 {
			return false, false
		}
		var hashed ssa.Value
		switch {
		case sameValue(args[1], cidv):
			hashed = args[0]
		case sameValue(args[0], cidv):
			hashed = args[1]
		default:
			return false, false
		}
		sc, si := callOf(canon(hashed))
		if sc == nil || si != 0 || !funcIs(calleeFunc(sc.Common()), pkgCid, "Prefix", "Sum") {
			return false, false
		}
		sargs := callArgs(sc.Common())
		if len(sargs) != 2 || !sameValue(sargs[1], data) {
			return false, false
		}
		pc, _ := callOf(canon(sargs[0]))
		if pc == nil || !funcIs(calleeFunc(pc.Common()), pkgCid, "Cid", "Prefix") {
			return false, false
		}
		if !sameValue(callArgs(pc.Common())[0], cidv) {
			return false, false
		}
		found = true
		return true, true
	})
	return eq, found
}

// checkLoader: everything handed to s.Put / s.PutMany came out of cr.Next() of the
// module's verifying CarReader, on the err == nil path.
func checkLoader(c *Ctx, r *Report, fn *ssa.Function, mod string) {
	key := "loader@" + fnKey(fn)
	pos := c.Pos(fn.Pos())
	nexts := callsToFunc(fn, mod, "CarReader", "Next")
	if len(nexts) == 0 {
		r.Viol(key, pos, "loader does not iterate with the verifying CarReader.Next")
		return
	}
	isNextBlock := func(v ssa.Value) (ssa.CallInstruction, bool) {
		cl, idx := callOf(canon(v))
		if cl == nil || idx != 0 {
			return nil, false
		}
		for _, n := range nexts {
			if n.Value() == cl {
				return n, true
			}
		}
		return nil, false
	}
	sinks := 0
	bad := ""
	eachInstr(fn, func(in ssa.Instruction) {
		ci, ok := in.(ssa.CallInstruction)
		if !ok {
			return
		}
		cc := ci.Common()
		if cc.IsInvoke() && cc.Method.Name() == "Put" && len(cc.Args) == 2 {
			sinks++
			n, ok := isNextBlock(cc.Args[1])
			if !ok {
				bad = "value passed to Put at " + c.Pos(in.Pos()) + " is not the block returned by cr.Next()"
				return
			}
			cut := edgeSet(condEdges(fn, errNilCond(errOfCall(n), true)))
			if reach(fn, nil, cut)[in.Block()] {
				bad = "Put at " + c.Pos(in.Pos()) + " is reachable without the err == nil outcome of cr.Next()"
			}
		}
		// appended elements
		if b, ok := cc.Value.(*ssa.Builtin); ok && b.Name() == "append" && len(cc.Args) == 2 {
			// only appends to []blocks.Block
			if !isBlockSlice(cc.Args[0].Type()) {
				return
			}
			sinks++
			for _, ev := range sliceLiteralElems(cc.Args[1]) {
				n, ok := isNextBlock(ev)
				if !ok {
					bad = "value appended to the batch at " + c.Pos(in.Pos()) + " is not the block returned by cr.Next()"
					return
				}
				cut := edgeSet(condEdges(fn, errNilCond(errOfCall(n), true)))
				if reach(fn, nil, cut)[in.Block()] {
					bad = "append at " + c.Pos(in.Pos()) + " is reachable without the err == nil outcome of cr.Next()"
				}
			}
		}
	})
	if sinks == 0 {
		r.Undec(key, pos, "no Put / batch append found in the loader")
		return
	}
	r.Check(bad == "", key, pos, fmt.Sprintf("%d store sink(s) fed only by cr.Next() on its success path", sinks), bad)
}

func isBlockSlice(t types.Type) bool {
	s, ok := t.Underlying().(*types.Slice)
	if !ok {
		return false
	}
	n := namedOf(s.Elem())
	return n != nil && n.Obj().Pkg() != nil && n.Obj().Pkg().Path() == pkgBlocks && n.Obj().Name() == "Block"
}

// sliceLiteralElems returns the values stored into the backing array of a
// variadic/literal slice (append(x, a, b) builds `new [2]T`, stores, slices).
func sliceLiteralElems(v ssa.Value) []ssa.Value {
	sl, ok := v.(*ssa.Slice)
	if !ok {
		return []ssa.Value{v}
	}
	al, ok := sl.X.(*ssa.Alloc)
	if !ok {
		return []ssa.Value{v}
	}
	var out []ssa.Value
	for _, ref := range *al.Referrers() {
		if ia, ok := ref.(*ssa.IndexAddr); ok {
			for _, st := range storesTo(ia) {
				out = append(out, st.Val)
			}
		}
	}
	if len(out) == 0 {
		return []ssa.Value{v}
	}
	return out
}

// checkInspectGate: the block counter increment is reachable from the CID read
// only through `validateBlockHash == false` or the true outcome of
// gotCid.Equals(c), where gotCid is built from multihash.SumStream over a
// LimitReader of the data reader, and c is the CID read for this section.
func checkInspectGate(c *Ctx, r *Report, fn *ssa.Function, rule string) {
	key := "inspect-hashgate@" + fnKey(fn)
	pos := c.Pos(fn.Pos())
	cfr := callsToFunc(fn, pkgCid, "", "CidFromReader")
	if len(cfr) != 1 {
		r.Undec(key, pos, fmt.Sprintf("expected exactly one cid.CidFromReader in Inspect, found %d", len(cfr)))
		return
	}
	// the section CID value
	var cidv ssa.Value
	for _, ref := range *cfr[0].Value().Referrers() {
		if ex, ok := ref.(*ssa.Extract); ok && ex.Index == 1 {
			cidv = ex
		}
	}
	if cidv == nil {
		r.Undec(key, pos, "CID result of CidFromReader is unused")
		return
	}
	// the counter increment: store to Stats.BlockCount
	var incs []*ssa.Store
	eachInstr(fn, func(in ssa.Instruction) {
		if st, ok := in.(*ssa.Store); ok {
			if fa, ok := st.Addr.(*ssa.FieldAddr); ok && fieldAddrIs(fa, modV2, "Stats", "BlockCount") {
				incs = append(incs, st)
			}
		}
	})
	if len(incs) == 0 {
		r.Undec(key, pos, "no store to Stats.BlockCount found")
		return
	}
	foundEq := false
	eq := condEdges(fn, func(base ssa.Value) (bool, bool) {
		ec, _ := callOf(base)
		if ec == nil || !funcIs(calleeFunc(ec.Common()), pkgCid, "Cid", "Equals") {
			return false, false
		}
		args := callArgs(ec.Common())
		var got ssa.Value
		switch {
		case sameValue(args[1], cidv):
			got = args[0]
		case sameValue(args[0], cidv):
			got = args[1]
		default:
			return false, false
		}
		// got must derive only from NewCidV0/NewCidV1 of the SumStream result
		okAll := true
		n := 0
		for _, o := range origins(got, originOpts{}) {
			if o.Kind == "const" {
				continue // zero value of the var declaration, overwritten on all paths that reach the comparison
			}
			if o.Kind != "call" || !(funcIs(o.Fn, pkgCid, "", "NewCidV1") || funcIs(o.Fn, pkgCid, "", "NewCidV0")) {
				okAll = false
				continue
			}
			cl, _ := callOf(o.Val)
			mhArg := cl.Call.Args[len(cl.Call.Args)-1]
			sc, si := callOf(canon(mhArg))
			if sc == nil || si != 0 || !funcIs(calleeFunc(sc.Common()), pkgMh, "", "SumStream") {
				okAll = false
				continue
			}
			// reader argument: io.LimitReader(dr, ...) or &io.LimitedReader{R: dr, N: ...}
			under, okLR := limitedReaderSource(sc.Call.Args[0])
			if !okLR {
				okAll = false
				continue
			}
			// same underlying reader as the CID read
			if !sameValue(stripIface(under), stripIface(cfr[0].Common().Args[0])) {
				okAll = false
			}
			n++
		}
		if !okAll || n == 0 {
			return false, false
		}
		foundEq = true
		return true, true
	})
	if !foundEq {
		r.Viol(key, pos, "no comparison gotCid.Equals(c) with gotCid built from multihash.SumStream(io.LimitReader(dr,…)) over the section's own CID")
		return
	}
	// validateBlockHash parameter false outcome
	var param *ssa.Parameter
	for _, p := range fn.Params {
		if b, ok := p.Type().Underlying().(*types.Basic); ok && b.Kind() == types.Bool {
			param = p
		}
	}
	if param == nil {
		r.Undec(key, pos, "bool parameter of Inspect not found")
		return
	}
	skip := condEdges(fn, func(base ssa.Value) (bool, bool) {
		if canon(base) == ssa.Value(param) {
			return true, false
		}
		return false, false
	})
	cut := edgeSet(eq, skip)
	reachable := reach(fn, cfr[0].Block(), cut)
	for _, st := range incs {
		if reachable[st.Block()] {
			r.Viol(key, c.Pos(st.Pos()), "BlockCount++ is reachable from the section read without the hash comparison succeeding (validateBlockHash=true path)")
			return
		}
	}
	r.Hold(key, pos, "per-block accounting is behind gotCid.Equals(c) (or validateBlockHash == false)")
}

// limitedReaderSource returns the reader wrapped by io.LimitReader(x, n) or by a
// local &io.LimitedReader{R: x, N: n}.
func limitedReaderSource(v ssa.Value) (ssa.Value, bool) {
	v = canon(stripIface(v))
	if lr, _ := callOf(v); lr != nil && funcIs(calleeFunc(lr.Common()), "io", "", "LimitReader") {
		return lr.Call.Args[0], true
	}
	if al, ok := v.(*ssa.Alloc); ok && isNamed(al.Type(), "io", "LimitedReader") && al.Referrers() != nil {
		for _, ref := range *al.Referrers() {
			if fa, ok := ref.(*ssa.FieldAddr); ok {
				if fv := fieldVar(fa.X.Type(), fa.Field); fv != nil && fv.Name() == "R" {
					for _, st := range storesTo(fa) {
						return st.Val, true
					}
				}
			}
		}
	}
	return nil, false
}

// streamFullyConsumedEdges: edges establishing N == 0 on the io.LimitedReader handed to SumStream.
func streamFullyConsumedEdges(fn *ssa.Function) []Edge {
	return cmpEdges(fn, func(v ssa.Value) bool {
		fv, base := fieldOfLoad(canon(v))
		return fv != nil && fv.Name() == "N" && isNamed(base.Type(), "io", "LimitedReader")
	}, func(v ssa.Value) bool { k, ok := constInt(v); return ok && k == 0 }, "eq")
}

// ---- R02b -------------------------------------------------------------------------------------------

type fnSpec struct{ pkg, recv, name string }

var scanTree = []fnSpec{
	{pkgV1Util, "", "LdReadSize"}, {pkgV1Util, "", "LdRead"}, {pkgV1Util, "", "ReadNode"},
	{pkgRootUtil, "", "LdRead"}, {pkgRootUtil, "", "ReadNode"},
	{modV2, "BlockReader", "Next"}, {modV2, "BlockReader", "SkipNext"},
	{pkgV1, "CarReader", "Next"}, {modRoot, "CarReader", "Next"},
}

// bodyReadReaderArg returns the index of the io.Reader argument and of the error
// result if f is one of the library calls that read section bodies.
func bodyReadSpec(f *types.Func) (readerArg, errRes int, ok bool) {
	switch {
	case funcIs(f, "io", "", "ReadFull"):
		return 0, 1, true
	case funcIs(f, "io", "", "ReadAtLeast"):
		return 0, 1, true
	case funcIs(f, "io", "", "CopyN"):
		return 1, 1, true
	case funcIs(f, "io", "", "Copy"):
		return 1, 1, true
	case funcIs(f, "io", "", "ReadAll"):
		return 0, 1, true
	case funcIs(f, pkgCid, "", "CidFromReader"):
		return 0, 2, true
	}
	return 0, 0, false
}

// inMemoryReader: the reader is built over bytes already held in memory.
func inMemoryReader(v ssa.Value) bool {
	os := origins(v, originOpts{through: func(call *ssa.Call, f *types.Func) []ssa.Value {
		if funcIs(f, "io", "", "LimitReader") || funcIs(f, pkgIntIO, "", "ToByteReader") || funcIs(f, pkgIntIO, "", "ToByteReadSeeker") || funcIs(f, "bufio", "", "NewReader") {
			return call.Call.Args[:1]
		}
		return nil
	}})
	if len(os) == 0 {
		return false
	}
	for _, o := range os {
		if o.Kind == "call" && (funcIs(o.Fn, "bytes", "", "NewReader") || funcIs(o.Fn, "bytes", "", "NewBuffer") || funcIs(o.Fn, "strings", "", "NewReader")) {
			continue
		}
		return false
	}
	return true
}

func ruleR02b(c *Ctx, r *Report) {
	n := 0
	for _, sp := range scanTree {
		fn, err := c.Func(sp.pkg, sp.recv, sp.name)
		if err != nil {
			r.InfraFail("%v", err)
			continue
		}
		ord := map[string]int{}
		eachInstr(fn, func(in ssa.Instruction) {
			ci, ok := in.(*ssa.Call)
			if !ok {
				return
			}
			f := calleeFunc(ci.Common())
			ra, er, ok := bodyReadSpec(f)
			if !ok {
				return
			}
			if inMemoryReader(ci.Call.Args[ra]) {
				return
			}
			ord[funcKey(f)]++
			key := fmt.Sprintf("bodyread@%s#%s#%d", fnKey(fn), funcKey(f), ord[funcKey(f)])
			n++
			var errv ssa.Value
			for _, ref := range *ci.Referrers() {
				if ex, ok := ref.(*ssa.Extract); ok && ex.Index == er {
					errv = ex
				}
			}
			if errv == nil {
				r.Viol(key, c.Pos(ci.Pos()), "error of a section-body read is discarded")
				return
			}
			closure := flowClosure(errv)
			cut := edgeSet(eofNotEqualEdges(fn, closure))
			esc := unsanitisedReturns(fn, ci, errv, cut)
			if len(esc) > 0 {
				r.Viol(key, c.Pos(ci.Pos()), fmt.Sprintf("the error of this section-body read reaches the return at %s without a comparison against io.EOF: a stream that ends right here yields a bare io.EOF, which callers take for a clean end of archive", c.Pos(esc[0].Ret.Pos())))
				return
			}
			r.Hold(key, c.Pos(ci.Pos()), "error reaches returns only on the != io.EOF outcome (or replaced)")
		})
	}
	r.Count("stream body reads", n)
	// seek branch of SkipNext: success only if finalOffset <= readerSize
	fn, err := c.Func(modV2, "BlockReader", "SkipNext")
	if err != nil {
		r.InfraFail("%v", err)
		return
	}
	checkSkipSeekBound(c, r, fn)
}

// checkSkipSeekBound: on the branch where the reader is seekable the block body
// is skipped with Seek, which is silent past the end; a success return must then
// be behind `finalOffset > size` being false, with finalOffset the result of that
// Seek.
func checkSkipSeekBound(c *Ctx, r *Report, fn *ssa.Function) {
	key := "seekskip-bound@" + fnKey(fn)
	pos := c.Pos(fn.Pos())
	// Seek invokes with whence SeekCurrent (1) and a non-constant offset
	var seeks []*ssa.Call
	eachInstr(fn, func(in ssa.Instruction) {
		ci, ok := in.(*ssa.Call)
		if !ok {
			return
		}
		f := calleeFunc(ci.Common())
		if f == nil || f.Name() != "Seek" || len(ci.Call.Args) != 2 {
			return
		}
		if w, ok := constInt(ci.Call.Args[1]); !ok || w != 1 {
			return
		}
		if _, isConst := constInt(ci.Call.Args[0]); isConst {
			return
		}
		seeks = append(seeks, ci)
	})
	if len(seeks) == 0 {
		r.Exempt(key, pos, "SkipNext no longer skips by seeking; nothing to bound")
		return
	}
	for _, sk := range seeks {
		var off ssa.Value
		for _, ref := range *sk.Referrers() {
			if ex, ok := ref.(*ssa.Extract); ok && ex.Index == 0 {
				off = ex
			}
		}
		if off == nil {
			r.Viol(key, c.Pos(sk.Pos()), "the position returned by the skipping Seek is ignored, so a seek past the end of the source goes unnoticed")
			return
		}
		offs := flowClosure(off)
		bound := condEdges(fn, func(base ssa.Value) (bool, bool) {
			b, ok := base.(*ssa.BinOp)
			if !ok {
				return false, false
			}
			isSize := func(v ssa.Value) bool { return loadsField(canon(v), modV2, "BlockReader", "readerSize") }
			switch b.Op {
			case token.GTR, token.GEQ: // off > size : want false
				if offs[strip(b.X)] && isSize(b.Y) {
					return true, false
				}
				if isSize(b.X) && offs[strip(b.Y)] { // size >= off : want true
					return true, true
				}
			case token.LSS, token.LEQ:
				if isSize(b.X) && offs[strip(b.Y)] { // size < off : want false
					return true, false
				}
				if offs[strip(b.X)] && isSize(b.Y) { // off <= size : want true
					return true, true
				}
			}
			return false, false
		})
		if len(bound) == 0 {
			r.Viol(key, c.Pos(sk.Pos()), "no comparison of the post-seek position with the source size: a truncated last block would be skipped silently")
			return
		}
		cut := edgeSet(bound)
		reachable := reach(fn, sk.Block(), cut)
		for _, ret := range returnsOf(fn) {
			if len(ret.Results) > 0 && !isNilConst(ret.Results[0]) && reachable[ret.Block()] {
				r.Viol(key, c.Pos(ret.Pos()), "success return reachable from the skipping Seek without the size comparison")
				return
			}
		}
	}
	r.Hold(key, pos, fmt.Sprintf("%d skipping Seek(s): success returns are behind the post-seek position <= source size", len(seeks)))
	// the size that bound relies on must be a real size: -1 (unknown yet), DataOffset+DataSize of the
	// parsed header, or the result of Seek(0, io.SeekEnd)
	key2 := "reader-size-provenance@v2.BlockReader"
	bad := ""
	n := 0
	for _, g := range []string{"NewBlockReader", "SkipNext", "Next"} {
		var gf *ssa.Function
		var err error
		if g == "NewBlockReader" {
			gf, err = c.Func(modV2, "", g)
		} else {
			gf, err = c.Func(modV2, "BlockReader", g)
		}
		if err != nil {
			continue
		}
		eachInstr(gf, func(in ssa.Instruction) {
			st, ok := in.(*ssa.Store)
			if !ok {
				return
			}
			fa, ok := st.Addr.(*ssa.FieldAddr)
			if !ok || !fieldAddrIs(fa, modV2, "BlockReader", "readerSize") {
				return
			}
			n++
			for _, o := range origins(st.Val, originOpts{binops: true}) {
				switch {
				case o.Kind == "const":
					if k, ok := constInt(o.Val); !ok || k != -1 {
						bad = fmt.Sprintf("br.readerSize is set to the constant %d at %s: the truncation check `finalOffset > readerSize` can then never fire and a cut payload is skipped over silently", k, c.Pos(in.Pos()))
					}
				case o.Kind == "field" && o.Field != nil && (o.Field.Name() == "DataOffset" || o.Field.Name() == "DataSize"):
				case o.Kind == "call" && o.Fn != nil && o.Fn.Name() == "Seek":
					cl, _ := callOf(o.Val)
					_, wh := seekArgs(cl)
					if k, ok := constInt(wh); !ok || k != 2 {
						bad = "br.readerSize comes from a Seek that is not Seek(0, io.SeekEnd)"
					}
				default:
					bad = "br.readerSize is set from " + o.Kind + " at " + c.Pos(in.Pos())
				}
			}
		})
	}
	if n == 0 {
		bad = "no assignment of br.readerSize found"
	}
	r.Check(bad == "", key2, pos, "readerSize ∈ {-1, DataOffset+DataSize, Seek(0, SeekEnd)}", bad)
}

// ruleR02c: in the length readers an explicit io.EOF (the zero-length-section
// option) may be returned only where the varint read itself succeeded; otherwise
// decode errors and truncations inside the prefix are reported as a clean end.
func ruleR02c(c *Ctx, r *Report) {
	fn, err := c.Func(pkgV1Util, "", "LdReadSize")
	if err != nil {
		r.InfraFail("%v", err)
		return
	}
	key := "explicit-eof@" + fnKey(fn)
	rd := callsToFunc(fn, pkgVarint, "", "ReadUvarint")
	if len(rd) != 1 {
		r.Undec(key, c.Pos(fn.Pos()), "expected one varint.ReadUvarint")
		return
	}
	errv := extractOf(rd[0].Value(), 1)
	okEdges := condEdges(fn, errNilCond(errOfCall(rd[0]), true))
	reachable := reach(fn, nil, edgeSet(okEdges))
	bad := ""
	n := 0
	for _, ret := range returnsOf(fn) {
		ev := canon(ret.Results[len(ret.Results)-1])
		if !isGlobalLoad(ev, "io", "EOF") {
			continue
		}
		n++
		if reachable[ret.Block()] {
			bad = fmt.Sprintf("the explicit clean end (return io.EOF) at %s is reachable although the length read failed: a truncation or corruption inside a length prefix is reported as a clean end of archive when ZeroLengthSectionAsEOF is on", c.Pos(ret.Pos()))
		}
	}
	_ = errv
	if n == 0 {
		r.Exempt(key, c.Pos(fn.Pos()), "no explicit io.EOF return (zero-length option handled elsewhere)")
		return
	}
	r.Check(bad == "", key, c.Pos(fn.Pos()), fmt.Sprintf("%d explicit io.EOF return(s), all behind err == nil of the varint read", n), bad)
}

// ruleR02e: the ReadByte adapters of internal/io.
func ruleR02e(c *Ctx, r *Report) {
	for _, t := range []string{"readerPlusByte", "readSeekerPlusByte", "discardingReadSeekerPlusByte"} {
		fn, err := c.Func(pkgIntIO, t, "ReadByte")
		if err != nil {
			r.InfraFail("%v", err)
			continue
		}
		key := "readbyte-full@" + fnKey(fn)
		nFull := len(callsToFunc(fn, "io", "", "ReadFull"))
		direct := 0
		eachInstr(fn, func(in ssa.Instruction) {
			if ci, ok := in.(*ssa.Call); ok {
				if f := calleeFunc(ci.Common()); f != nil && f.Name() == "Read" {
					direct++
				}
			}
		})
		r.Check(nFull == 1 && direct == 0, key, c.Pos(fn.Pos()), "one byte obtained with io.ReadFull", "ReadByte issues a bare Read: an io.Reader may return (1, io.EOF) for its last byte, which the varint decoder then takes for a clean end although a byte was delivered")
	}
}

func ruleR02h(c *Ctx, r *Report) {
	n := 0
	for _, fn := range c.RepoFuncs() {
		if !inLib(fn) {
			continue
		}
		ord := 0
		eachInstr(fn, func(in ssa.Instruction) {
			ci, ok := in.(*ssa.Call)
			if !ok {
				return
			}
			f := calleeFunc(ci.Common())
			if !(funcIs(f, pkgMh, "", "Sum") || funcIs(f, pkgMh, "", "SumStream")) || len(ci.Call.Args) < 3 {
				return
			}
			n++
			ord++
			key := fmt.Sprintf("digest-length@%s#%d", fnKey(fn), ord)
			fromCid := false
			for _, o := range origins(ci.Call.Args[2], originOpts{binops: true}) {
				if o.Kind == "field" && o.Field != nil && (o.Field.Name() == "MhLength" || o.Field.Name() == "Length") {
					fromCid = true
				}
				if o.Kind == "call" && o.Fn == nil {
					fromCid = true // len(digest)
				}
			}
			r.Check(fromCid, key, c.Pos(ci.Pos()), "length taken from the CID's prefix / decoded multihash",
				"the digest is recomputed with a length that does not come from the CID (a constant such as -1 means the hash function's default length): blocks addressed by truncated digests (sha2-256 cut to 20 bytes) never compare equal")
		})
	}
	r.Count("direct multihash.Sum/SumStream calls in library packages", n)
}

// bareReadBaseline: Read calls of the pinned library that ignore the byte count.
var bareReadBaseline = map[string]string{
	"v2/internal/io.offsetReadSeeker.ReadByte": "one-byte read through its own ReadAt-backed Read: 0 bytes comes with an error, which is returned",
}

func ruleR02i(c *Ctx, r *Report) {
	n := 0
	for _, fn := range c.RepoFuncs() {
		if !inLib(fn) {
			continue
		}
		ord := 0
		eachInstr(fn, func(in ssa.Instruction) {
			ci, ok := in.(*ssa.Call)
			if !ok {
				return
			}
			name := ""
			if ci.Common().IsInvoke() {
				name = ci.Common().Method.Name()
			} else if f := calleeFunc(ci.Common()); f != nil {
				name = f.Name()
			}
			sig := ci.Common().Signature()
			if name != "Read" || sig == nil || sig.Params().Len() != 1 || sig.Results().Len() != 2 {
				return
			}
			if sl, ok := sig.Params().At(0).Type().Underlying().(*types.Slice); !ok || !types.Identical(sl.Elem(), types.Typ[types.Byte]) {
				return
			}
			nv := extractOf(ci, 0)
			used := false
			if nv != nil {
				for _, ref := range *nv.Referrers() {
					if _, isDbg := ref.(*ssa.DebugRef); !isDbg {
						used = true
					}
				}
			}
			if used {
				return
			}
			n++
			ord++
			root := fnKey(rootFuncOf(fn))
			key := fmt.Sprintf("read-count-ignored@%s#%d", root, ord)
			if why, ok := bareReadBaseline[root]; ok {
				r.Exempt(key, c.Pos(ci.Pos()), "site of the pinned tree: "+why)
				return
			}
			r.Viol(key, c.Pos(ci.Pos()), "Read is called and its byte count ignored: on a short read (a pipe, a network body, any reader that delivers in pieces) the rest of the buffer stays zero and is decoded as if it had been read")
		})
	}
	r.Count("Read calls that ignore the byte count", n)
}

// ---- R02A: the trusted-archive option is the caller's to set -------------------------------------

func ruleR02A(c *Ctx, r *Report) {
	n := 0
	var bad []string
	for _, fn := range c.RepoFuncs() {
		eachInstr(fn, func(in ssa.Instruction) {
			ci, ok := in.(ssa.CallInstruction)
			if !ok {
				return
			}
			n++
			if f := calleeFunc(ci.Common()); funcIs(f, modV2, "", "WithTrustedCAR") {
				if k, isK := ci.Common().Args[0].(*ssa.Const); isK && k.Value != nil && !constant.BoolVal(k.Value) {
					return // WithTrustedCAR(false): verification stays on
				}
				bad = append(bad, fmt.Sprintf("%s calls WithTrustedCAR at %s", fnKey(fn), c.Pos(in.Pos())))
			}
		})
	}
	sort.Strings(bad)
	r.Count("calls examined", n)
	if n < 1000 {
		r.Undec("trusted-option-is-the-callers@repository", "-", fmt.Sprintf("only %d calls seen in the repository", n))
		return
	}
	r.Check(len(bad) == 0, "trusted-option-is-the-callers@repository", "-", "no function of the repository passes WithTrustedCAR", strings.Join(bad, "; ")+": the blocks that reader returns are not hashed, and the command-line tool's link systems (TrustedStorage) do not hash them either — corrupt block bytes go out as file content with exit status 0")
}
