package main

// typeAssertBaseline: single-value type assertions of the pinned library (enumerated by R09o on the
// pinned tree and read through by hand: each asserts a type the same function, or its only caller,
// has put there or has checked before). A site not listed is reported.
var typeAssertBaseline = map[string]bool{
	"car.NewCarReaderWithOptions -> *bufio.Reader":                         true,
	"v2/index.InsertionIndex.Flatten -> v2/index.recordDigest":             true,
	"v2/index.InsertionIndex.ForEach -> v2/index.recordDigest":             true,
	"v2/index.InsertionIndex.ForEachCid -> v2/index.recordDigest":          true,
	"v2/index.InsertionIndex.GetAll -> v2/index.recordDigest":              true,
	"v2/index.InsertionIndex.HasExactCID -> v2/index.recordDigest":         true,
	"v2/index.InsertionIndex.HasMultihash -> v2/index.recordDigest":        true,
	"v2/index.InsertionIndex.Marshal -> v2/index.recordDigest":             true,
	"v2/internal/loader.writingReader.Read -> *bytes.Buffer":               true,
	"v2/internal/store.FindCid -> interface{Position() int64}":             true,
	"v2/internal/store.Resume -> interface{Truncate(int64) error}":         true,
	"v2/storage.OpenReadableWritable -> *v2/index.InsertionIndex":          true,
	"v2/storage.StorageCar.Finalize -> *v2/storage.positionTrackingWriter": true,
}
