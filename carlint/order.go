package main

// The right things in the wrong order (rule R<nn>O, round 13). A change that keeps every statement
// and every value and moves WHEN something happens: the index entry recorded before the write that
// can fail, the zero-length test before the error test of the read whose result it looks at, a
// field of the result assigned before the constructor's error is tested, the walker asked before
// the node is written, the key marked as counted before the load that can be refused, the header
// seek moved behind the read it positions, the options applied after the defaults they override.
//
// What a static check can hold on to is the order itself. Per function (closures are functions of
// their own) the *events* that are not free to move are listed — calls that are not known to be
// pure (by callee; an interface method by name; a function value kept in a field by that field),
// stores into state the function did not make itself (fields of parameters, receivers, results of
// calls, captured variables, globals; map updates on such maps), and the tests that decide what
// happens next: the error test of a call, the test of a call's boolean result, and integer
// comparisons in the canonical form of guards.go — and for every two events of different kinds the
// pinned tree is asked which comes first: an occurrence of a comes before an occurrence of b when b can be reached
// from a without taking a back edge (later in one pass through a loop's body), or can be reached
// at all while a cannot be reached from b (behind the loop). The numbers of such
// occurrence pairs, both ways, are tabled with the number of occurrences of each event
// (baseline_order.txt, `-genbaselineorder`). A function is reported when, with the occurrences
// unchanged in number, one way has gained what the other has lost: an occurrence changed sides.
//
// Pairs of two plain tests are not tabled (independent `if`s and the cases of a switch may stand in
// any order), nor anything about pure calls, locals, allocations or stores into objects the
// function has just made (all of which a maintainer may move freely). Code that moves between
// functions, into a new helper or out of one, changes which pairs exist, not their direction.

import (
	_ "embed"
	"fmt"
	"go/token"
	"go/types"
	"sort"
	"strings"

	"golang.org/x/tools/go/ssa"
)

//go:embed baseline_order.txt
var baselineOrderTxt string

// baselineOrder: unit -> "a\tb" -> number of (occurrence of a, occurrence of b) with a before b;
// baselineOrderCount: unit -> event -> occurrences.
var baselineOrder, baselineOrderCount = func() (map[string]map[string]int, map[string]map[string]int) {
	m, cnt := map[string]map[string]int{}, map[string]map[string]int{}
	for _, l := range strings.Split(baselineOrderTxt, "\n") {
		if l == "" || strings.HasPrefix(l, "#") {
			continue
		}
		f := strings.Split(l, "\t")
		if len(f) != 4 {
			continue
		}
		n := 0
		fmt.Sscan(f[3], &n)
		if f[1] == "#" {
			if cnt[f[0]] == nil {
				cnt[f[0]] = map[string]int{}
			}
			cnt[f[0]][f[2]] = n
			continue
		}
		if m[f[0]] == nil {
			m[f[0]] = map[string]int{}
		}
		m[f[0]][f[1]+"\t"+f[2]] = n
	}
	return m, cnt
}()

type orderEvent struct {
	key  string
	in   ssa.Instruction
	test bool // a plain test (integer comparison or boolean result), not an error test
}

// effectNames: method names that, on an interface or on a type of a dependency, stand for an
// operation with an effect outside the caller's frame (I/O, locking, mutation of a shared
// structure, a traversal that calls back). Getters — Size, Name, Binary, Exists, Link, Len, String —
// are not in it: a call of one is free to move.
var effectNames = map[string]bool{
	"Read": true, "ReadAt": true, "ReadByte": true, "ReadFrom": true, "ReadFull": true, "UnreadByte": true,
	"Write": true, "WriteAt": true, "WriteTo": true, "WriteString": true, "WriteByte": true,
	"Seek": true, "Close": true, "Sync": true, "Truncate": true, "Flush": true, "Reset": true, "Grow": true, "Discard": true, "Peek": true,
	"Lock": true, "Unlock": true, "RLock": true, "RUnlock": true, "Wait": true, "Signal": true, "Broadcast": true, "Add": true, "Done": true, "Do": true,
	"Put": true, "PutMany": true, "Get": true, "GetStream": true, "GetSize": true, "Has": true, "Delete": true, "DeleteBlock": true,
	"Load": true, "Store": true, "Visit": true, "Finalize": true, "FinalizeReadOnly": true, "Next": true, "SkipNext": true,
	"Marshal": true, "Unmarshal": true, "ForEach": true, "GetAll": true, "AllKeysChan": true, "Roots": true,
	"InsertNoReplace": true, "ReplaceOrInsert": true, "InsertNoReplaceBulk": true, "AscendGreaterOrEqual": true, "AscendRange": true,
	"WalkAdv": true, "WalkMatching": true, "WalkLocal": true, "Walk": true, "Iterate": true, "Run": true,
	"Sum": false, "SumStream": true, "Position": true,
}

// effectPkgs: packages of the standard library and of dependencies all of whose functions act on the
// outside world or on shared state.
var effectPkgs = map[string]bool{
	"os": true, "io": true, "io/ioutil": true, "bufio": true, "sync": true, "sync/atomic": true, "net": true,
	"github.com/petar/GoLLRB/llrb": true, "golang.org/x/exp/mmap": true,
}

// effectfulDepCallee: a function of a dependency or of the standard library whose call is an event.
func effectfulDepCallee(f *types.Func) bool {
	if f == nil || f.Pkg() == nil {
		return false
	}
	// constructors and wrappers allocate; they touch nothing that exists already
	if strings.HasPrefix(f.Name(), "New") {
		return false
	}
	if f.Pkg().Path() == "io" {
		switch f.Name() {
		case "LimitReader", "TeeReader", "MultiReader", "MultiWriter", "NopCloser":
			return false
		}
	}
	if effectPkgs[f.Pkg().Path()] {
		return true
	}
	switch f.Pkg().Path() {
	case "encoding/binary":
		return f.Name() == "Read" || f.Name() == "Write" || f.Name() == "ReadUvarint" || f.Name() == "ReadVarint"
	case pkgVarint:
		return f.Name() == "ReadUvarint"
	case pkgCid:
		return strings.Contains(f.Name(), "FromReader")
	case "fmt":
		return strings.HasPrefix(f.Name(), "Fprint") || strings.HasPrefix(f.Name(), "Print") || strings.HasPrefix(f.Name(), "Fscan")
	case "path/filepath":
		return f.Name() == "EvalSymlinks" || f.Name() == "Abs" || strings.HasPrefix(f.Name(), "Walk") || f.Name() == "Glob"
	}
	return effectNames[f.Name()]
}

func (c *Ctx) orderEvents(g *ssa.Function, root *ssa.Function) []orderEvent {
	var out []orderEvent
	live := liveBlocks(g)
	external := func(addr ssa.Value) bool {
		switch r := addrRoot(addr).(type) {
		case *ssa.Alloc:
			_ = r
			return false // a variable or object of this function
		case *ssa.Parameter, *ssa.FreeVar, *ssa.Global, *ssa.Call, *ssa.Extract, *ssa.UnOp, *ssa.Phi, *ssa.Lookup, *ssa.TypeAssert:
			return true
		}
		return false
	}
	calleeKey := func(cc *ssa.CallCommon) (string, bool) { // key, pure
		if _, isB := cc.Value.(*ssa.Builtin); isB {
			return "", true
		}
		if cc.IsInvoke() {
			if !effectNames[cc.Method.Name()] {
				return "", true
			}
			return "invoke:" + cc.Method.Name(), false
		}
		if f := calleeFunc(cc); f != nil {
			if t := staticTarget(cc); t != nil && t.Pkg != nil && isRepoPkg(t.Pkg.Pkg.Path()) {
				if isPureCallOf(t) {
					return "", true
				}
				return "call:" + funcKey(f), false
			}
			if f.Pkg() != nil && isRepoPkg(f.Pkg().Path()) {
				return "call:" + funcKey(f), false // a repository function without a body here
			}
			if !effectfulDepCallee(f) {
				return "", true
			}
			return "call:" + funcKey(f), false
		}
		if l, ok := cc.Value.(*ssa.UnOp); ok && l.Op == token.MUL {
			if fa, ok := l.X.(*ssa.FieldAddr); ok {
				if fv := fieldVar(fa.X.Type(), fa.Field); fv != nil {
					if n := namedOf(fa.X.Type()); n != nil {
						return "fieldcall:" + pinnedTypeNames(shortPkgOf(n)+"."+n.Obj().Name()) + "." + fv.Name(), false
					}
				}
			}
		}
		if _, isMC := cc.Value.(*ssa.MakeClosure); isMC {
			return "", true // a literal called on the spot: its body is part of this function's closures
		}
		// a package-level function variable that is set once (`var WriteAsCarV1 = carv2.WriteAsCarV1`)
		if init := immutableInit(cc.Value); init != nil {
			var t *ssa.Function
			switch x := init.(type) {
			case *ssa.Function:
				t = x
			case *ssa.MakeClosure:
				t, _ = x.Fn.(*ssa.Function)
			}
			if t != nil && t.Pkg != nil && isRepoPkg(t.Pkg.Pkg.Path()) {
				if isPureCallOf(t) {
					return "", true
				}
				return "call:" + fnKey(t), false
			}
		}
		return "dyncall", false
	}
	callKeyOfValue := func(v ssa.Value) string {
		var call *ssa.Call
		switch x := v.(type) {
		case *ssa.Call:
			call = x
		case *ssa.Extract:
			call, _ = x.Tuple.(*ssa.Call)
		}
		if call == nil {
			return ""
		}
		k, _ := calleeKey(call.Common())
		if k == "" {
			if f := calleeFunc(call.Common()); f != nil {
				k = "call:" + funcKey(f)
			}
		}
		return k
	}
	errT := types.Universe.Lookup("error").Type()
	for _, b := range g.Blocks {
		if !live[b] {
			continue
		}
		for _, in := range b.Instrs {
			switch x := in.(type) {
			case *ssa.Call:
				if k, pure := calleeKey(x.Common()); !pure && k != "" {
					out = append(out, orderEvent{key: k, in: in})
				}
			case *ssa.Store:
				fa, ok := x.Addr.(*ssa.FieldAddr)
				if !ok {
					if gl, isG := x.Addr.(*ssa.Global); isG {
						out = append(out, orderEvent{key: "store:global:" + gl.Name(), in: in})
					}
					continue
				}
				if !external(fa.X) {
					continue
				}
				if fv := fieldVar(fa.X.Type(), fa.Field); fv != nil {
					if n := namedOf(fa.X.Type()); n != nil {
						out = append(out, orderEvent{key: "store:" + pinnedTypeNames(shortPkgOf(n)+"."+n.Obj().Name()) + "." + fv.Name(), in: in})
					}
				}
			case *ssa.MapUpdate:
				if external(x.Map) {
					out = append(out, orderEvent{key: "mapset:" + types.TypeString(x.Map.Type(), func(p *types.Package) string { return p.Name() }), in: in})
				}
			case *ssa.If:
				base, _ := condNorm(x.Cond)
				switch cnd := base.(type) {
				case *ssa.BinOp:
					if cnd.Op == token.EQL || cnd.Op == token.NEQ {
						for _, xy := range [][2]ssa.Value{{cnd.X, cnd.Y}, {cnd.Y, cnd.X}} {
							if isNilConst(xy[1]) && types.Identical(xy[0].Type(), errT) {
								if k := callKeyOfValue(xy[0]); k != "" {
									out = append(out, orderEvent{key: "errtest:" + strings.TrimPrefix(strings.TrimPrefix(k, "call:"), "invoke:"), in: in})
								}
							}
						}
					}
					if e, _, ok := canonicalSplit(c, root, cnd); ok {
						out = append(out, orderEvent{key: "test:" + e, in: in, test: true})
					}
				case *ssa.Extract, *ssa.Call:
					if b, ok := base.Type().Underlying().(*types.Basic); ok && b.Kind() == types.Bool {
						if k := callKeyOfValue(base); k != "" {
							out = append(out, orderEvent{key: "booltest:" + strings.TrimPrefix(strings.TrimPrefix(k, "call:"), "invoke:"), in: in, test: true})
						}
					}
				}
			}
		}
	}
	return out
}

// isStateKey: a store or a map update. Two of them on different fields are independent of each
// other in a sequential function; their mutual order is not tabled.
func isStateKey(k string) bool {
	return strings.HasPrefix(k, "store:") || strings.HasPrefix(k, "mapset:")
}

// forwardReach: for every block of g, the blocks that can be reached from it without taking a back
// edge (an edge into a block that dominates its source): "later in one pass through the function".
func forwardReach(g *ssa.Function) map[*ssa.BasicBlock]map[*ssa.BasicBlock]bool {
	out := map[*ssa.BasicBlock]map[*ssa.BasicBlock]bool{}
	for _, b := range g.Blocks {
		seen := map[*ssa.BasicBlock]bool{}
		work := []*ssa.BasicBlock{b}
		for len(work) > 0 {
			x := work[len(work)-1]
			work = work[:len(work)-1]
			for _, s := range x.Succs {
				if s.Dominates(x) || seen[s] {
					continue
				}
				seen[s] = true
				work = append(work, s)
			}
		}
		out[b] = seen
	}
	// a block behind a loop comes after the loop's body although the only way there leads through
	// the loop's head: reachable at all, and not the other way round
	full := map[*ssa.BasicBlock]map[*ssa.BasicBlock]bool{}
	for _, b := range g.Blocks {
		seen := map[*ssa.BasicBlock]bool{}
		work := []*ssa.BasicBlock{b}
		for len(work) > 0 {
			x := work[len(work)-1]
			work = work[:len(work)-1]
			for _, s := range x.Succs {
				if !seen[s] {
					seen[s] = true
					work = append(work, s)
				}
			}
		}
		full[b] = seen
	}
	for _, a := range g.Blocks {
		for b := range full[a] {
			if a != b && !full[b][a] {
				out[a][b] = true
			}
		}
	}
	return out
}

// orderPairs: unit -> "a\tb" -> number of occurrence pairs with a before b; and unit -> event -> occurrences.
func (c *Ctx) orderPairs() (map[string]map[string]int, map[string]map[string]int) {
	if c.ord != nil {
		return c.ord, c.ordCount
	}
	out, cnt := map[string]map[string]int{}, map[string]map[string]int{}
	for _, root := range c.RepoFuncs() {
		if root.Parent() != nil || !inLib(root) && (root.Pkg == nil || !strings.HasPrefix(root.Pkg.Pkg.Path(), modCmd)) {
			continue
		}
		for _, g := range withAnon(root) {
			evs := c.orderEvents(g, root)
			if len(evs) < 2 {
				continue
			}
			unit := fnKey(g)
			plain := map[string]bool{}
			cnt[unit] = map[string]int{}
			for _, e := range evs {
				if e.test {
					plain[e.key] = true
				}
				cnt[unit][e.key]++
			}
			fr := forwardReach(g)
			for i, a := range evs {
				for j, b := range evs {
					if i == j || a.key == b.key {
						continue
					}
					if plain[a.key] && plain[b.key] || isStateKey(a.key) && isStateKey(b.key) {
						continue
					}
					if a.in.Block() == b.in.Block() && instrBefore(a.in, b.in) || a.in.Block() != b.in.Block() && fr[a.in.Block()][b.in.Block()] {
						if out[unit] == nil {
							out[unit] = map[string]int{}
						}
						out[unit][a.key+"\t"+b.key]++
					}
				}
			}
		}
	}
	c.ord, c.ordCount = out, cnt
	return out, cnt
}

func ruleOrder(c *Ctx, r *Report) {
	reach := c.propReach(r.Property)
	cur, curCount := c.orderPairs()
	newFns := newFuncKeys(c)
	var units []string
	for u := range baselineOrder {
		rootKey := u
		if i := strings.Index(u, "$"); i >= 0 {
			rootKey = u[:i]
		}
		if reach[rootKey] && !newFns[rootKey] {
			units = append(units, u)
		}
	}
	sort.Strings(units)
	spliced := c.splicedFuncs()
	n := 0
	for _, u := range units {
		now := cur[u]
		n++
		if rk, _, _ := strings.Cut(u, "$"); spliced[rk] {
			// a helper was spliced back into this function: the flags and labels of the splice are
			// control flow the source does not have, and the order of tests around them is not judged
			r.Exempt("order@"+u, "-", "a new helper was spliced into this function; its event order is not compared")
			continue
		}
		var bad []string
		for k, nab := range baselineOrder[u] {
			a, b, _ := strings.Cut(k, "\t")
			if a > b {
				continue // each unordered pair once
			}
			nba := baselineOrder[u][b+"\t"+a]
			// the same occurrences, and one of them has changed sides
			if curCount[u][a] != baselineOrderCount[u][a] || curCount[u][b] != baselineOrderCount[u][b] {
				continue
			}
			nowAB, nowBA := now[k], now[b+"\t"+a]
			switch {
			case nowBA > nba && nowAB < nab:
				bad = append(bad, fmt.Sprintf("%s now comes before %s", describeEvent(b), describeEvent(a)))
			case nowAB > nab && nowBA < nba:
				bad = append(bad, fmt.Sprintf("%s now comes before %s", describeEvent(a), describeEvent(b)))
			}
		}
		key := "order@" + u
		if len(bad) == 0 {
			r.Hold(key, "-", "every tabled pair of events stands in the pinned order (or is gone)")
			continue
		}
		sort.Strings(bad)
		if len(bad) > 3 {
			bad = append(bad[:3], fmt.Sprintf("and %d more", len(bad)-3))
		}
		r.Viol(key, "-", fmt.Sprintf("in %s %s; the pinned tree has them the other way round. What is recorded, tested or released before the step it has to follow is wrong exactly when that step fails, is refused, or runs a second time — which the suite, where nothing fails, does not see", u, strings.Join(bad, "; ")))
	}
	// an event that left a function's own body for one of its closures: it no longer happens when
	// the function runs, but when (and if) the closure is called
	roots := map[string]bool{}
	for _, u := range units {
		if !strings.Contains(u, "$") {
			roots[u] = true
		}
	}
	for u := range roots {
		var moved []string
		for k, bn := range baselineOrderCount[u] {
			if strings.HasPrefix(k, "test:") || curCount[u][k] >= bn {
				continue
			}
			for cu, ks := range curCount {
				if _, pinned := baselineOrderCount[cu]; !pinned {
					continue // a closure the pinned tree does not have: code handed to a helper as a callback, not moved
				}
				if strings.HasPrefix(cu, u+"$") && ks[k] > baselineOrderCount[cu][k] {
					moved = append(moved, fmt.Sprintf("%s (now in %s)", describeEvent(k), cu))
				}
			}
		}
		if len(moved) > 0 {
			sort.Strings(moved)
			r.Viol("moved-into-closure@"+u, "-", fmt.Sprintf("%s no longer performs %s itself: the step now runs only when the closure is called — not at all when it is never called (a directory without entries, a walk that visits nothing)", u, strings.Join(moved, "; ")))
		}
	}
	r.Count("functions and closures whose event order was held against the pinned tree", n)
	if n < 3 {
		r.Undec("order@reach", "-", fmt.Sprintf("only %d tabled functions in this property's reach", n))
	}
}

// splicedFuncs: the declared functions into which the normalisation pass spliced a helper.
func (c *Ctx) splicedFuncs() map[string]bool {
	out := map[string]bool{}
	for _, l := range c.InlineLog {
		if !strings.HasPrefix(l, "inlined ") {
			continue
		}
		i := strings.LastIndex(l, " at ")
		if i < 0 {
			continue
		}
		pos := strings.TrimPrefix(l[i+4:], c.Repo+"/")
		if f := strings.Split(pos, ":"); len(f) >= 2 {
			if fn := c.funcAt(f[0] + ":" + f[1]); fn != "" {
				out[fn] = true
			}
		}
	}
	return out
}

func describeEvent(k string) string {
	kind, what, _ := strings.Cut(k, ":")
	switch kind {
	case "call", "invoke", "fieldcall":
		return "the call of " + what
	case "dyncall":
		return "the call of a function value"
	case "store":
		return "the store to " + what
	case "mapset":
		return "the update of a " + what
	case "errtest":
		return "the error test of " + what
	case "booltest":
		return "the test of the result of " + what
	case "test":
		return "the test of " + what
	}
	return k
}

func listOrder(c *Ctx) []string {
	var out []string
	pairs, cnt := c.orderPairs()
	for u, ps := range pairs {
		for k, n := range ps {
			out = append(out, fmt.Sprintf("%s\t%s\t%d", u, k, n))
		}
	}
	for u, es := range cnt {
		if len(pairs[u]) == 0 {
			continue
		}
		for e, n := range es {
			out = append(out, fmt.Sprintf("%s\t#\t%s\t%d", u, e, n))
		}
	}
	sort.Strings(out)
	return out
}
