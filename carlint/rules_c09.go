package main

import (
	"fmt"
	"go/token"
	"go/types"
	"os"
	"sort"
	"strings"

	"golang.org/x/tools/go/ssa"
)

func init() {
	register(PropertyDef{
		ID: "C09",
		Explanation: "Decided statically: (R09a) every allocation (make, bytes.Buffer.Grow) in the library packages whose size derives from a value decoded from the input " +
			"(varint reads, binary.Read targets, LittleEndian.UintNN) is behind the not-greater outcome of a comparison of that value with a configured limit, " +
			"including across the LdReadSize->LdRead summary; (R09b) that comparison is strict (a header/section exactly at the maximum passes) and its failing " +
			"outcome returns the too-large sentinel; (R09c) the configured header/section limit reaches every parser call site in the right slot (both are " +
			"uint64: a swap compiles), from Options where Options exist; (R09d) every explicit panic in library code is discharged by a validated reason; " +
			"(R09e) Header.ReadFrom range-checks before storing; (R09f) the sorted-index bucket is filled by an exact-length read of the very length its " +
			"record count was derived from. NOT decided: termination, implicit runtime panics (index/nil/slice bounds), allocation inside go-cid/refmt/cbor.",
		Assumptions: []string{"dependencies (go-cid, go-varint, refmt) bound their own allocations", "io.CopyN into a bytes.Buffer allocates proportionally to the bytes actually read"},
		Rules: []RuleDef{
			{ID: "R09a", Floor: 12, Doc: "limit before input-sized allocation (taint from decoded lengths to make/Grow, gated by `value <= limit`)", Run: ruleR09a},
			{ID: "R09b", Floor: 2, Doc: "strict `>` against the limit and too-large sentinel on the failing outcome", Run: ruleR09b},
			{ID: "R09c", Floor: 20, Doc: "header limit to header parsers, section limit to section parsers, from Options where available", Run: ruleR09c},
			{ID: "R09d", Floor: 4, Doc: "explicit panics in library packages are discharged (validated guard) or the check fails", Run: ruleR09d},
			{ID: "R09e", Floor: 1, Doc: "Header.ReadFrom: range checks before field stores", Run: ruleR09e},
			{ID: "R09g", Floor: 1, Doc: "the limit is applied once: ReadHeader hands its reader to the framing reader unwrapped (an extra LimitReader of the same limit also counts the prefix and rejects a header exactly at the maximum)", Run: ruleR09g},
			{ID: "R09h", Floor: 1, Doc: "Reader.IndexReader answers (nil, nil) only for `Version == 1 || !Header.HasIndex()`: its callers test HasIndex and then use the reader unchecked, so any further nil outcome is a nil dereference on crafted headers", Run: ruleR09h},
			{ID: "R09i", Floor: 1, Doc: "a length decoded with encoding/binary's uvarint readers (which admit values up to 2^64-1, unlike go-varint) is compared, unsigned, with a bound before it is converted to a signed integer: a negative section length makes seeks go backwards and scans never end", Run: ruleR09i},
			{ID: "R09j", Floor: 1, Doc: "(nil, nil) outcomes: a library function whose first result is a pointer, interface, slice or map returns nil together with a nil error only where that is its documented contract (table); a new such outcome is a nil dereference waiting in callers that test only the error", Run: ruleR09j},
			{ID: "R09k", Floor: 1, Doc: "no division or remainder by a value that can be zero: every integer `/` or `%` in the library whose divisor is not a constant is behind a comparison that excludes zero (a width or count decoded from an index is attacker-chosen)", Run: ruleR09k},
			{ID: "R09l", Floor: 2, Doc: "parser limits are used as configured: ApplyOptions sets MaxAllowedHeaderSize/MaxAllowedSectionSize only as initial defaults, before the caller's options run, and never rewrites them afterwards (a limit of 0 means 'nothing may be buffered', not 'use the default')", Run: ruleR09l},
			{ID: "R09o", Floor: 10, Doc: "no NEW unchecked type assertion: a single-value `x.(T)` in the library panics when the dynamic type is another one (an index of the other codec, a reader without the method); the sites of the pinned tree are tabled (typeAssertBaseline), any other must use the comma-ok form", Run: ruleR09o},
			{ID: "R09p", Floor: 2, Doc: "ReadOnly.AllKeysChan and ReadOnly.Roots decode the payload header in the call that uses it and test the error first: a header taken from a cache another call was meant to fill can be nil", Run: ruleR09p},
			{ID: "R09q", Floor: 1, Doc: "no command of the CLI changes a parser limit for itself: the default bounds are what keeps a crafted length prefix from being allocated (= R19i)", Run: ruleR19i},
			{ID: "R09r", Floor: 1, Doc: "no reader type beside the audited ones: a new type of the library that declares Read/ReadByte/Seek is where a (0, nil) spin or an unbounded read comes from (= R16n)", Run: ruleR16n},
			{ID: "R09s", Floor: 1, Doc: "the read methods of the stores allocate no slice of a computed length themselves: the size store.FindCid reports without reading is unchecked (possibly negative, possibly what a crafted length prefix asks for)", Run: ruleR09s},
			{ID: "R09t", Floor: 1, Doc: "the CLI allocates no slice sized by a length prefix it decoded itself (its own section walks have no size limit because they stream)", Run: ruleR09t},
			{ID: "R09u", Floor: 8, Doc: "sections are decoded by the framing routines of the pinned shapes, whose CID decoder bounds what it allocates (= R01b)", Run: ruleR01b},
			{ID: "R09w", Floor: 1, Doc: "Inspect holds a section's length against MaxAllowedSectionSize before it parses the section's CID: no cid.CidFromReader on a path that has not passed the limit", Run: ruleR09w},
			{ID: "R09x", Floor: 1, Doc: "a single-width bucket refuses an announced length that does not fit int64 — the length itself, not the record count derived from it (io.CopyN with a negative count copies nothing and succeeds)", Run: ruleR09x},
			{ID: "R09f", Floor: 1, Doc: "singleWidthIndex.Unmarshal: bucket bytes come from an exact-length read of dataLen with its error tested", Run: ruleR09f},
			{ID: "R09m", Floor: 2, Doc: "the CARv2 payload is read through a reader bounded by the header-declared size that can never run negative or past the source (= R14a)", Run: ruleR14a},
			{ID: "R09n", Floor: 1, Doc: "a reader that has released its pooled buffer does not touch it again: the field is cleared with the release (polling a drained reader once more must answer io.EOF, not panic in bufio) (= R01m)", Run: ruleR01m},
		},
	})
}

var libPkgs = []string{modRoot, pkgRootUtil, modV2, pkgBS, pkgIndex, pkgV1, pkgV1Util, modV2 + "/internal/errsort", pkgIntIO, pkgLoader, pkgStore, pkgStorage, pkgDeferred}

func inLib(fn *ssa.Function) bool {
	if fn.Pkg == nil {
		return false
	}
	for _, p := range libPkgs {
		if fn.Pkg.Pkg.Path() == p {
			return true
		}
	}
	return false
}

// isLengthSource: v is a value decoded from the input stream.
func isLengthSource(o Origin) bool {
	switch o.Kind {
	case "call":
		f := o.Fn
		if (funcIs(f, pkgVarint, "", "ReadUvarint") || funcIs(f, "encoding/binary", "", "ReadUvarint") || funcIs(f, pkgVarint, "", "FromUvarint") || funcIs(f, "encoding/binary", "", "Uvarint")) && o.Res == 0 {
			return true
		}
		if f != nil && f.Pkg() != nil && f.Pkg().Path() == "encoding/binary" && strings.HasPrefix(f.Name(), "Uint") {
			return true
		}
	case "alloc":
		// a local whose address was handed to binary.Read
		if al, ok := o.Val.(*ssa.Alloc); ok {
			return addrPassedToBinaryRead(al)
		}
	}
	return false
}

func addrPassedToBinaryRead(al *ssa.Alloc) bool {
	if al.Referrers() == nil {
		return false
	}
	for _, r := range *al.Referrers() {
		mi, ok := r.(*ssa.MakeInterface)
		if !ok || mi.Referrers() == nil {
			continue
		}
		for _, rr := range *mi.Referrers() {
			if ci, ok := rr.(*ssa.Call); ok && funcIs(calleeFunc(ci.Common()), "encoding/binary", "", "Read") {
				return true
			}
		}
	}
	return false
}

// boundedResult: result idx of repo function callee is an input-derived length that
// is returned only behind `value <= param[j]`. Returns j.
func boundedResult(callee *ssa.Function, idx int) (int, bool, bool) {
	if callee == nil || callee.Blocks == nil {
		return 0, false, false
	}
	tainted := false
	bound := -1
	for _, ret := range returnsOf(callee) {
		if idx >= len(ret.Results) {
			continue
		}
		v := ret.Results[idx]
		if _, isConst := canon(v).(*ssa.Const); isConst {
			continue
		}
		src := false
		for _, o := range origins(v, originOpts{binops: true}) {
			if isLengthSource(o) {
				src = true
			}
		}
		if !src {
			continue
		}
		tainted = true
		found := false
		for j, p := range callee.Params {
			pp := p
			le := cmpEdges(callee, func(x ssa.Value) bool { return canon(x) == canon(v) }, func(x ssa.Value) bool { return canon(x) == ssa.Value(pp) }, "le")
			if len(le) > 0 && !reach(callee, nil, edgeSet(le))[ret.Block()] {
				if bound == -1 || bound == j {
					bound = j
					found = true
				}
			}
		}
		if !found {
			return 0, true, false
		}
	}
	if !tainted {
		return 0, false, false
	}
	return bound, true, bound >= 0
}

// isConfiguredLimit: v originates from a configured limit.
func isConfiguredLimit(v ssa.Value) bool {
	os := origins(v, originOpts{})
	if len(os) == 0 {
		return false
	}
	for _, o := range os {
		switch o.Kind {
		case "field":
			n := ""
			if o.Field != nil {
				n = o.Field.Name()
			}
			if !strings.HasPrefix(n, "Max") && !strings.HasPrefix(n, "max") {
				return false
			}
		case "global":
			g, _ := o.Val.(*ssa.Global)
			if g == nil || !strings.HasPrefix(g.Name(), "Max") {
				return false
			}
		case "const":
			k, ok := constInt(o.Val)
			if !ok || k < 256 || k > 1<<32 {
				return false // 0/1/small constants are sentinels, not limits
			}
		case "param":
			// checked at the call sites by R09c
		default:
			return false
		}
	}
	return true
}

type allocSink struct {
	fn   *ssa.Function
	at   ssa.Instruction
	size ssa.Value
	what string
}

func allocSinks(c *Ctx) []allocSink {
	var out []allocSink
	for _, fn := range c.RepoFuncs() {
		if !inLib(fn) {
			continue
		}
		eachInstr(fn, func(in ssa.Instruction) {
			switch x := in.(type) {
			case *ssa.MakeSlice:
				if _, ok := constInt(x.Len); !ok {
					out = append(out, allocSink{fn, in, x.Len, "make len"})
				}
				if x.Cap != x.Len {
					if _, ok := constInt(x.Cap); !ok {
						out = append(out, allocSink{fn, in, x.Cap, "make cap"})
					}
				}
			case *ssa.MakeMap:
				if x.Reserve != nil {
					if _, ok := constInt(x.Reserve); !ok {
						out = append(out, allocSink{fn, in, x.Reserve, "make map"})
					}
				}
			case *ssa.MakeChan:
				if _, ok := constInt(x.Size); !ok {
					out = append(out, allocSink{fn, in, x.Size, "make chan"})
				}
			case *ssa.Call:
				f := calleeFunc(x.Common())
				if funcIs(f, "bytes", "Buffer", "Grow") || funcIs(f, "strings", "Builder", "Grow") || funcIs(f, "slices", "", "Grow") {
					out = append(out, allocSink{fn, in, x.Call.Args[len(x.Call.Args)-1], f.Name()})
				}
			}
		})
	}
	return out
}

func ruleR09a(c *Ctx, r *Report) {
	ord := map[string]int{}
	nTainted := 0
	for _, s := range allocSinks(c) {
		base := fmt.Sprintf("%s#%s", fnKey(s.fn), s.what)
		ord[base]++
		key := fmt.Sprintf("alloc@%s#%d", base, ord[base])
		// is the size input-derived?
		var srcs []Origin
		var viaCall []*ssa.Call
		for _, o := range origins(s.size, originOpts{binops: true}) {
			if isLengthSource(o) {
				srcs = append(srcs, o)
			}
			if o.Kind == "call" {
				cl, idx := callOf(o.Val)
				if cl != nil {
					if sc := staticTarget(cl.Common()); sc != nil && sc.Blocks != nil {
						if _, tainted, _ := boundedResult(sc, idx); tainted {
							viaCall = append(viaCall, cl)
						}
					}
				}
			}
		}
		if len(srcs) == 0 && len(viaCall) == 0 {
			r.Hold(key, c.Pos(s.at.Pos()), "size does not derive from a value decoded from the input")
			continue
		}
		nTainted++
		bad := ""
		// sizes coming out of a bounded summary
		for _, cl := range viaCall {
			_, idx := callOf(extractOrSelf(cl, s.size))
			j, _, bounded := boundedResult(staticTarget(cl.Common()), idx)
			if !bounded {
				bad = fmt.Sprintf("the size comes from %s, which returns an input-decoded length without bounding it", funcKey(calleeFunc(cl.Common())))
				continue
			}
			if !isConfiguredLimit(cl.Call.Args[j]) {
				bad = fmt.Sprintf("the size comes from %s bounded by its argument %d, which here is not a configured limit", funcKey(calleeFunc(cl.Common())), j+1)
			}
		}
		// a size that is a difference of input-derived values must be shown non-negative
		for _, sub := range subtractionsFeeding(s.size) {
			if bad != "" {
				break
			}
			inputDerived := false
			for _, o := range origins(sub.X, originOpts{binops: true}) {
				if isLengthSource(o) {
					inputDerived = true
				}
				if o.Kind == "call" {
					if cl, idx := callOf(o.Val); cl != nil {
						if sc := staticTarget(cl.Common()); sc != nil && sc.Blocks != nil {
							if _, tainted, _ := boundedResult(sc, idx); tainted {
								inputDerived = true
							}
						}
					}
				}
			}
			if !inputDerived {
				continue
			}
			ge := cmpEdges(sub.Parent(), func(x ssa.Value) bool { return sameRoot(x, sub.X) }, func(x ssa.Value) bool { return sameRoot(x, sub.Y) }, "ge")
			if len(ge) == 0 || reach(sub.Parent(), nil, edgeSet(ge))[sub.Block()] {
				bad = "the allocation size is a difference of input-derived values (computed at " + c.Pos(sub.Pos()) + ") with no check that it is non-negative: a length prefix smaller than what follows makes it negative and make() panics"
			}
		}
		if len(srcs) > 0 {
			// the comparison must be made on an unsigned value: after int(l) a length >= 2^63 is negative and passes `size > limit`
			signedCmp := false
			eachInstr(s.fn, func(in ssa.Instruction) {
				b, ok := in.(*ssa.BinOp)
				if !ok {
					return
				}
				switch b.Op {
				case token.GTR, token.GEQ, token.LSS, token.LEQ:
				default:
					return
				}
				for _, side := range []ssa.Value{b.X, b.Y} {
					if sameRoot(side, s.size) {
						if bt, ok := side.Type().Underlying().(*types.Basic); ok && bt.Info()&types.IsUnsigned == 0 {
							other := b.X
							if side == b.X {
								other = b.Y
							}
							if isConfiguredLimit(other) {
								signedCmp = true
							}
						}
					}
				}
			})
			if signedCmp {
				bad = "the decoded length is compared with the limit as a signed integer: a prefix >= 2^63 becomes negative, passes the check and make() panics"
			}
			le := cmpEdges(s.fn, func(x ssa.Value) bool { return sameRoot(x, s.size) }, isConfiguredLimit, "le")
			if len(le) == 0 {
				bad = "allocation sized by a length decoded from the input with no comparison against a configured limit: a few crafted bytes make the parser allocate (or panic in makeslice) before reading the data"
			} else if reach(s.fn, nil, edgeSet(le))[s.at.Block()] {
				bad = "allocation reachable without the `length <= limit` outcome"
			}
		}
		r.Check(bad == "", key, c.Pos(s.at.Pos()), "input-derived size, allocation behind length <= configured limit", bad)
	}
	r.Count("allocation sites with non-constant size", len(ord))
	r.Count("input-derived allocation sizes", nTainted)
}

func extractOrSelf(cl *ssa.Call, size ssa.Value) ssa.Value {
	for _, o := range origins(size, originOpts{binops: true}) {
		if c2, _ := callOf(o.Val); c2 == cl {
			return o.Val
		}
	}
	return cl
}

// sameRoot: x and v denote the same decoded value up to integer conversions.
func sameRoot(x, v ssa.Value) bool {
	if canon(x) == canon(v) {
		return true
	}
	ox := origins(x, originOpts{})
	ov := origins(v, originOpts{})
	if len(ox) != 1 || len(ov) != 1 {
		return false
	}
	return ox[0].Val == ov[0].Val && ox[0].Kind != "const"
}

func cmpEdgesExact(fn *ssa.Function, isX, isY func(ssa.Value) bool, want string) []Edge {
	return condEdges(fn, func(base ssa.Value) (bool, bool) {
		b, ok := base.(*ssa.BinOp)
		if !ok {
			return false, false
		}
		rel := b.Op
		switch {
		case isX(b.X) && isY(b.Y):
		case isX(b.Y) && isY(b.X):
			rel = flipRel(rel)
		default:
			return false, false
		}
		ft, ff := relFacts(rel)
		if ft == want {
			return true, true
		}
		if ff == want {
			return true, false
		}
		return false, false
	})
}

func ruleR09b(c *Ctx, r *Report) {
	type site struct {
		fnSpec
		sentinel string // global name in the function's package, "" = any non-nil error
	}
	for _, s := range []site{{fnSpec{pkgV1Util, "", "LdReadSize"}, "ErrSectionTooLarge"}, {fnSpec{pkgRootUtil, "", "LdRead"}, ""}, {fnSpec{modV2, "Reader", "Inspect"}, "ErrSectionTooLarge"}} {
		fn, err := c.Func(s.pkg, s.recv, s.name)
		if err != nil {
			r.InfraFail("%v", err)
			continue
		}
		key := "limit-strictness@" + fnKey(fn)
		if s.name == "Inspect" && len(callsToFunc(fn, pkgVarint, "", "ReadUvarint")) == 0 && len(callsToFunc(fn, pkgV1Util, "", "LdReadSize")) > 0 {
			r.Hold(key, c.Pos(fn.Pos()), "delegates the length read and its bound to util.LdReadSize (checked there)")
			continue
		}
		isLen := func(x ssa.Value) bool {
			for _, o := range origins(x, originOpts{}) {
				if isLengthSource(o) {
					return true
				}
			}
			return false
		}
		le := cmpEdgesExact(fn, isLen, isConfiguredLimit, "le")
		gt := cmpEdgesExact(fn, isLen, isConfiguredLimit, "gt")
		lt := cmpEdgesExact(fn, isLen, isConfiguredLimit, "lt")
		bad := ""
		switch {
		case len(le) == 0 && len(lt) > 0:
			bad = "the length is accepted only when strictly below the limit: a header/section exactly at the configured maximum is rejected"
		case len(le) == 0:
			bad = "no comparison of the decoded length with the configured limit"
		}
		if bad == "" {
			for _, e := range gt {
				rr := reachFromEdge(fn, e, nil)
				for _, ret := range returnsOf(fn) {
					if !rr[ret.Block()] || len(ret.Results) == 0 {
						continue
					}
					ev := canon(ret.Results[len(ret.Results)-1])
					if s.sentinel != "" {
						if !isGlobalLoad(ev, pkgV1Util, s.sentinel) {
							bad = fmt.Sprintf("the over-limit outcome returns something other than util.%s at %s", s.sentinel, c.Pos(ret.Pos()))
						}
					} else if isNilConst(ev) {
						bad = "the over-limit outcome returns a nil error at " + c.Pos(ret.Pos())
					}
				}
			}
		}
		r.Check(bad == "", key, c.Pos(fn.Pos()), "strict `>` rejection with the too-large error; exactly-at-limit accepted", bad)
	}
	// ReadHeader maps the section sentinel to the header sentinel
	fn, err := c.Func(pkgV1, "", "ReadHeader")
	if err != nil {
		r.InfraFail("%v", err)
		return
	}
	mapped := false
	eachInstr(fn, func(in ssa.Instruction) {
		if b, ok := in.(*ssa.BinOp); ok && b.Op == token.EQL {
			if isGlobalLoad(b.X, pkgV1Util, "ErrSectionTooLarge") || isGlobalLoad(b.Y, pkgV1Util, "ErrSectionTooLarge") {
				mapped = true
			}
		}
	})
	retHdr := false
	for _, ret := range returnsOf(fn) {
		for _, o := range origins(ret.Results[len(ret.Results)-1], originOpts{}) {
			if o.Kind == "global" {
				if g, ok := o.Val.(*ssa.Global); ok && g.Name() == "ErrHeaderTooLarge" {
					retHdr = true
				}
			}
		}
	}
	r.Check(mapped && retHdr, "header-sentinel@"+fnKey(fn), c.Pos(fn.Pos()), "ErrSectionTooLarge from LdRead is reported as ErrHeaderTooLarge", "ReadHeader no longer maps the too-large error of the framing reader to ErrHeaderTooLarge")
}

// ---- R09c --------------------------------------------------------------------------------------

type limitSlot struct {
	pkg, recv, name string
	arg             int // index into Call.Args (receiver included for methods)
	kind            string
}

var limitSlots = []limitSlot{
	{pkgV1, "", "ReadHeader", 1, "header"},
	{pkgV1, "", "ReadHeaderAt", 1, "header"},
	{pkgV1, "", "NewCarReaderWithoutDefaults", 2, "header"},
	{pkgV1, "", "NewCarReaderWithoutDefaults", 3, "section"},
	{pkgV1Util, "", "ReadNode", 2, "section"},
	{pkgV1Util, "", "LdReadSize", 2, "section"},
	{pkgV1Util, "", "LdRead", 2, "section"},
	{pkgStore, "", "FindCid", 5, "section"},
	{pkgStore, "", "Resume", 7, "header"},
}

func limitKindOf(c *Ctx, fn *ssa.Function, v ssa.Value, depth int) (string, string) {
	if depth > 3 {
		return "", "provenance deeper than 3 calls"
	}
	kinds := map[string]bool{}
	for _, o := range origins(v, originOpts{}) {
		switch o.Kind {
		case "field":
			switch o.Field.Name() {
			case "MaxAllowedHeaderSize":
				kinds["header"] = true
			case "MaxAllowedSectionSize":
				kinds["section"] = true
			case "maxAllowedSectionSize":
				kinds["section"] = true
			default:
				return "", "field " + o.Field.Name() + " is not a header/section limit"
			}
		case "const":
			k, _ := constInt(o.Val)
			inV1 := fn.Pkg != nil && fn.Pkg.Pkg.Path() == pkgV1
			switch {
			case k == 32<<20 && inV1:
				kinds["header"] = true
			case k == 8<<20 && inV1:
				kinds["section"] = true
			default:
				return "", fmt.Sprintf("constant %d instead of the configured option (defaults are only legitimate inside internal/carv1, which has no Options)", k)
			}
		case "param":
			p := o.Val.(*ssa.Parameter)
			owner := p.Parent()
			idx := -1
			for i, q := range owner.Params {
				if q == p {
					idx = i
				}
			}
			// every repo call site of owner
			n := 0
			for _, g := range c.RepoFuncs() {
				var bad string
				eachInstr(g, func(in ssa.Instruction) {
					ci, ok := in.(ssa.CallInstruction)
					if !ok || staticTarget(ci.Common()) != owner {
						return
					}
					n++
					k, why := limitKindOf(c, g, ci.Common().Args[idx], depth+1)
					if k == "" {
						bad = why
						return
					}
					kinds[k] = true
				})
				if bad != "" {
					return "", bad
				}
			}
			if n == 0 {
				// exported API parameter: the kind is whatever the slot says
				kinds["param:"+p.Name()] = true
			}
		default:
			return "", "limit comes from " + o.Kind
		}
	}
	var ks, concrete []string
	for k := range kinds {
		ks = append(ks, k)
		if !strings.HasPrefix(k, "param:") {
			concrete = append(concrete, k)
		}
	}
	sort.Strings(ks)
	if len(ks) == 1 {
		return ks[0], ""
	}
	if len(concrete) == 1 {
		// the rest are pass-throughs of exported API parameters
		return concrete[0], ""
	}
	return "", "mixed provenance: " + strings.Join(ks, ",")
}

func ruleR09c(c *Ctx, r *Report) {
	n := 0
	for _, fn := range c.RepoFuncs() {
		ord := map[string]int{}
		eachInstr(fn, func(in ssa.Instruction) {
			ci, ok := in.(ssa.CallInstruction)
			if !ok {
				return
			}
			f := calleeFunc(ci.Common())
			for _, sl := range limitSlots {
				if !funcIs(f, sl.pkg, sl.recv, sl.name) {
					continue
				}
				want := sl.kind
				// the framing reader serves both: ReadHeader legitimately hands it the header limit
				if sl.pkg == pkgV1Util && fnKey(fn) == "v2/internal/carv1.ReadHeader" {
					want = "header"
				}
				// inside the util package the limit is passed through parameter to parameter
				if sl.pkg == pkgV1Util && fn.Pkg != nil && fn.Pkg.Pkg.Path() == pkgV1Util {
					continue
				}
				base := fmt.Sprintf("%s#%s#arg%d", fnKey(fn), funcKey(f), sl.arg)
				ord[base]++
				key := fmt.Sprintf("limit-arg@%s#%d", base, ord[base])
				n++
				k, why := limitKindOf(c, fn, ci.Common().Args[sl.arg], 0)
				switch {
				case k == "":
					r.Viol(key, c.Pos(in.Pos()), "the "+want+" limit handed to "+funcKey(f)+" is not the configured one: "+why)
				case strings.HasPrefix(k, "param:"):
					r.Hold(key, c.Pos(in.Pos()), "passes an exported API parameter through")
				case k != want:
					r.Viol(key, c.Pos(in.Pos()), fmt.Sprintf("%s expects the %s limit here but receives the %s limit (both uint64)", funcKey(f), want, k))
				default:
					r.Hold(key, c.Pos(in.Pos()), want+" limit from configuration")
				}
			}
		})
	}
	r.Count("parser call sites checked for their limit argument", n)
	// Inspect's own comparison uses the section limit
	fn, err := c.Func(modV2, "Reader", "Inspect")
	if err != nil {
		r.InfraFail("%v", err)
		return
	}
	isLen := func(x ssa.Value) bool {
		for _, o := range origins(x, originOpts{}) {
			if isLengthSource(o) {
				return true
			}
		}
		return false
	}
	sec := cmpEdges(fn, isLen, func(v ssa.Value) bool { return loadsField(canon(v), modV2, "Options", "MaxAllowedSectionSize") }, "le")
	hdr := cmpEdges(fn, isLen, func(v ssa.Value) bool { return loadsField(canon(v), modV2, "Options", "MaxAllowedHeaderSize") }, "le")
	viaHelper := callsToFunc(fn, pkgV1Util, "", "LdReadSize")
	ok := (len(sec) > 0 && len(hdr) == 0) || len(viaHelper) > 0
	r.Check(ok, "limit-arg@"+fnKey(fn)+"#own-comparison", c.Pos(fn.Pos()), "section length compared with MaxAllowedSectionSize", "Inspect bounds section lengths by something other than Options.MaxAllowedSectionSize")
}

// ---- R09d --------------------------------------------------------------------------------------

type panicDischarge struct {
	reason   string
	validate func(c *Ctx, fn *ssa.Function, p *ssa.Panic) string // "" = valid
}

var panicTable = map[string]panicDischarge{
	"v2.BlockReader.SkipNext": {
		"guarded by err == nil of cid.CidFromBytes on a constant empty slice, which always errors",
		func(c *Ctx, fn *ssa.Function, p *ssa.Panic) string {
			calls := callsToFunc(fn, pkgCid, "", "CidFromBytes")
			for _, ci := range calls {
				// the argument is a zero-length literal
				arg := ci.Common().Args[0]
				if iv := immutableInit(arg); iv != nil {
					arg = iv // a package-level `var empty = []byte{}` that nothing writes
				}
				sl, ok := arg.(*ssa.Slice)
				if !ok {
					continue
				}
				al, ok := sl.X.(*ssa.Alloc)
				if !ok {
					continue
				}
				arr, ok := al.Type().(*types.Pointer).Elem().Underlying().(*types.Array)
				if !ok || arr.Len() != 0 {
					continue
				}
				nilEdges := condEdges(fn, errNilCond(errOfCall(ci), true))
				if len(nilEdges) > 0 && !reach(fn, nil, edgeSet(nilEdges))[p.Block()] {
					return ""
				}
			}
			return "the panic is no longer confined to the err == nil outcome of CidFromBytes([]byte{})"
		},
	},
	"v2/index.newRecordDigest": {
		"panics only when multihash.Decode rejects Record.Cid.Hash(); every cid.Cid built by go-cid holds a well-formed multihash, and InsertionIndex is never constructed from serialized input by index.ReadFrom (index.New, its codec dispatcher, returns no InsertionIndex)",
		func(c *Ctx, fn *ssa.Function, p *ssa.Panic) string {
			if why := validateDecodeHashPanic(c, fn, p); why != "" {
				return why
			}
			nw, err := c.Func(pkgIndex, "", "New")
			if err != nil {
				return err.Error()
			}
			for _, t := range concreteReturns(c, nw, 0, 0) {
				if isNamed(t, pkgIndex, "InsertionIndex") {
					return "index.New, the codec dispatcher of index.ReadFrom, can construct an InsertionIndex: its Unmarshal decodes records from file bytes and hands them to newRecordDigest, which panics on a record whose CID has no decodable multihash"
				}
			}
			return ""
		},
	},
	"v2/index.newRecordFromCid": {
		"panics only when multihash.Decode rejects c.Hash() of a cid.Cid (see newRecordDigest)",
		validateDecodeHashPanic,
	},
	"v2/internal/io.OffsetWriteSeeker.Seek": {
		"guarded by whence == io.SeekEnd; every call site in the repository passes a constant whence of SeekStart/SeekCurrent and the type is never handed out as an io.Seeker",
		func(c *Ctx, fn *ssa.Function, p *ssa.Panic) string {
			for _, g := range c.RepoFuncs() {
				bad := ""
				eachInstr(g, func(in ssa.Instruction) {
					switch x := in.(type) {
					case ssa.CallInstruction:
						if staticTarget(x.Common()) == fn {
							if k, ok := constInt(x.Common().Args[2]); !ok || (k != 0 && k != 1) {
								bad = "call at " + c.Pos(in.Pos()) + " passes a whence that is not the constant SeekStart/SeekCurrent"
							}
						}
					case *ssa.MakeInterface:
						if isNamed(x.X.Type(), pkgIntIO, "OffsetWriteSeeker") && g.Name() != "init" {
							if it, ok := x.Type().Underlying().(*types.Interface); ok {
								for i := 0; i < it.NumMethods(); i++ {
									if it.Method(i).Name() == "Seek" {
										bad = "OffsetWriteSeeker is converted to an interface with Seek at " + c.Pos(in.Pos())
									}
								}
							}
						}
					}
				})
				if bad != "" {
					return bad
				}
			}
			return ""
		},
	},
}

func validateDecodeHashPanic(c *Ctx, fn *ssa.Function, p *ssa.Panic) string {
	calls := callsToFunc(fn, pkgMh, "", "Decode")
	for _, ci := range calls {
		hc, _ := callOf(canon(ci.Common().Args[0]))
		if hc == nil || !funcIs(calleeFunc(hc.Common()), pkgCid, "Cid", "Hash") {
			continue
		}
		nonNil := condEdges(fn, errNilCond(errOfCall(ci), false))
		if len(nonNil) > 0 && !reach(fn, nil, edgeSet(nonNil))[p.Block()] {
			return ""
		}
	}
	return "the panic is no longer confined to the error outcome of multihash.Decode(<cid>.Hash())"
}

func ruleR09d(c *Ctx, r *Report) {
	n := 0
	for _, fn := range c.RepoFuncs() {
		if !inLib(fn) {
			continue
		}
		ord := 0
		eachInstr(fn, func(in ssa.Instruction) {
			p, ok := in.(*ssa.Panic)
			if !ok {
				return
			}
			// compiler-generated panics (e.g. failed single-result type assertion wrappers) have no position
			if !p.Pos().IsValid() {
				return
			}
			n++
			ord++
			key := fmt.Sprintf("panic@%s#%d", fnKey(fn), ord)
			d, ok := panicTable[fnKey(fn)]
			if !ok {
				r.Viol(key, c.Pos(p.Pos()), "explicit panic in library code with no validated discharge: if input or an API argument can reach it, a parser entry point panics instead of returning an error")
				return
			}
			if why := d.validate(c, fn, p); why != "" {
				r.Viol(key, c.Pos(p.Pos()), "discharge no longer valid: "+why)
				return
			}
			r.Hold(key, c.Pos(p.Pos()), "discharged: "+d.reason)
		})
	}
	r.Count("explicit panics in library packages", n)
}

// ---- R09f --------------------------------------------------------------------------------------

func ruleR09f(c *Ctx, r *Report) {
	fn, err := c.Func(pkgIndex, "singleWidthIndex", "Unmarshal")
	if err != nil {
		r.InfraFail("%v", err)
		return
	}
	key := "exact-fill@" + fnKey(fn)
	var st *ssa.Store
	eachInstr(fn, func(in ssa.Instruction) {
		if s, ok := in.(*ssa.Store); ok {
			if fa, ok := s.Addr.(*ssa.FieldAddr); ok && fieldAddrIs(fa, pkgIndex, "singleWidthIndex", "index") {
				st = s
			}
		}
	})
	chk := callsToFunc(fn, pkgIndex, "singleWidthIndex", "checkUnmarshalLengths")
	if st == nil || len(chk) != 1 {
		r.Undec(key, c.Pos(fn.Pos()), "store to s.index or the call to checkUnmarshalLengths not found")
		return
	}
	// the 64-bit arguments, in whatever order the helper takes them: the decoded length, and amounts
	// added to it before the division by the width, which must be zero here
	var dataLen ssa.Value
	extra := false
	for _, a := range chk[0].Common().Args[1:] {
		if b, ok := a.Type().Underlying().(*types.Basic); !ok || b.Kind() != types.Uint64 {
			continue
		}
		if k, isK := constInt(a); isK {
			if k != 0 {
				extra = true
			}
			continue
		}
		if dataLen != nil {
			extra = true
		}
		dataLen = canon(a)
	}
	if dataLen == nil {
		r.Undec(key, c.Pos(chk[0].Pos()), "no decoded length handed to checkUnmarshalLengths")
		return
	}
	if extra {
		r.Viol(key, c.Pos(chk[0].Pos()), "the record count is derived from a length other than the number of bytes read into the bucket (an extra amount is added before dividing by the width): the bucket claims a record beyond its data, which lookups then read from whatever follows")
		return
	}
	sameLen := func(v ssa.Value) bool {
		return sameRoot(v, dataLen) || canon(v) == dataLen
	}
	bad := "s.index is not filled by an exact-length read (io.ReadFull / io.CopyN of dataLen with the error tested): a short index would load and later lookups slice past it"
	for _, o := range origins(st.Val, originOpts{}) {
		switch {
		case o.Kind == "call" && funcIs(o.Fn, "bytes", "Buffer", "Bytes"):
			cl, _ := callOf(o.Val)
			buf := callArgs(cl.Common())[0]
			for _, cp := range callsToFunc(fn, "io", "", "CopyN") {
				dst := cp.Common().Args[0]
				if !sameValue(dst, buf) && !sameValue(stripIface(dst), buf) {
					continue
				}
				if !sameLen(cp.Common().Args[2]) {
					bad = "io.CopyN copies a length other than the dataLen the record count was derived from"
					continue
				}
				ok := condEdges(fn, errNilCond(errOfCall(cp), true))
				if len(ok) > 0 && !reach(fn, nil, edgeSet(ok))[st.Block()] {
					bad = ""
				}
			}
		case o.Kind == "make":
			ms, ok := o.Val.(*ssa.MakeSlice)
			if !ok || !sameLen(ms.Len) {
				continue
			}
			for _, rf := range callsToFunc(fn, "io", "", "ReadFull") {
				ok := condEdges(fn, errNilCond(errOfCall(rf), true))
				if len(ok) > 0 && !reach(fn, nil, edgeSet(ok))[st.Block()] {
					bad = ""
				}
			}
		}
	}
	r.Check(bad == "", key, c.Pos(st.Pos()), "bucket bytes = exact-length read of dataLen, error tested", bad)
}

func stripIface(v ssa.Value) ssa.Value {
	for {
		switch x := v.(type) {
		case *ssa.MakeInterface:
			v = x.X
		case *ssa.ChangeInterface:
			v = x.X
		default:
			return v
		}
	}
}

func ruleR09g(c *Ctx, r *Report) {
	fn, err := c.Func(pkgV1, "", "ReadHeader")
	if err != nil {
		r.InfraFail("%v", err)
		return
	}
	key := "limit-applied-once@" + fnKey(fn)
	lr := callsToFunc(fn, pkgV1Util, "", "LdRead")
	bad := ""
	if len(lr) != 1 {
		bad = "expected one util.LdRead call"
	} else if canon(stripIface(lr[0].Common().Args[0])) != ssa.Value(fn.Params[0]) {
		bad = "ReadHeader wraps its reader before handing it to LdRead (e.g. io.LimitReader(r, max)): the wrapper's budget also has to cover the length prefix, so a header exactly at MaxAllowedHeaderSize is no longer accepted"
	}
	r.Check(bad == "", key, c.Pos(fn.Pos()), "LdRead(r, false, maxReadBytes) on the caller's reader", bad)
}

// subtractionsFeeding: SUB operations whose result flows (through conversions, phis
// and local/captured cells) into v.
func subtractionsFeeding(v ssa.Value) []*ssa.BinOp {
	var out []*ssa.BinOp
	seen := map[ssa.Value]bool{}
	var walk func(v ssa.Value, depth int)
	walk = func(v ssa.Value, depth int) {
		if v == nil || seen[v] || depth > 12 {
			return
		}
		seen[v] = true
		switch x := v.(type) {
		case *ssa.Convert:
			walk(x.X, depth+1)
		case *ssa.ChangeType:
			walk(x.X, depth+1)
		case *ssa.Phi:
			for _, e := range x.Edges {
				walk(e, depth+1)
			}
		case *ssa.BinOp:
			if x.Op == token.SUB {
				out = append(out, x)
			}
		case *ssa.UnOp:
			if x.Op == token.MUL {
				switch a := x.X.(type) {
				case *ssa.Alloc:
					for _, st := range storesTo(a) {
						walk(st.Val, depth+1)
					}
				case *ssa.FreeVar:
					for _, st := range storesTo(a) {
						walk(st.Val, depth+1)
					}
					if b := freeVarBinding(a); b != nil {
						for _, st := range storesTo(b) {
							walk(st.Val, depth+1)
						}
					}
				}
			}
		}
	}
	walk(v, 0)
	return out
}

// concreteReturns lists the concrete types a function can return in result
// position res (following calls to repository constructors).
func concreteReturns(c *Ctx, fn *ssa.Function, res, depth int) []types.Type {
	var out []types.Type
	if depth > 3 {
		return nil
	}
	for _, ret := range returnsOf(fn) {
		if res >= len(ret.Results) {
			continue
		}
		for _, o := range origins(ret.Results[res], originOpts{}) {
			switch o.Kind {
			case "call":
				if o.Fn != nil {
					if callee := c.Prog.FuncValue(o.Fn); callee != nil && len(callee.Blocks) > 0 {
						if _, isIface := callee.Signature.Results().At(o.Res).Type().Underlying().(*types.Interface); isIface {
							out = append(out, concreteReturns(c, callee, o.Res, depth+1)...)
						} else {
							out = append(out, callee.Signature.Results().At(o.Res).Type())
						}
					}
				}
			case "alloc", "make", "field", "other", "param":
				t := o.Val.Type()
				if al, ok := o.Val.(*ssa.Alloc); ok {
					t = al.Type()
				}
				out = append(out, t)
			}
		}
	}
	return out
}

func ruleR09h(c *Ctx, r *Report) {
	fn, err := c.Func(modV2, "Reader", "IndexReader")
	if err != nil {
		r.InfraFail("%v", err)
		return
	}
	key := "nil-reader-outcome@" + fnKey(fn)
	v1 := cmpEdges(fn, func(v ssa.Value) bool { return loadsField(canon(v), modV2, "Reader", "Version") },
		func(v ssa.Value) bool { k, ok := constInt(v); return ok && k == 1 }, "eq")
	noIdx := condEdges(fn, matchCallCond(modV2, "Header", "HasIndex", false, nil))
	rs := reach(fn, nil, edgeSet(v1, noIdx))
	bad := ""
	n := 0
	for _, ret := range returnsOf(fn) {
		if len(ret.Results) != 2 || !isNilConst(ret.Results[0]) || !isNilConst(ret.Results[1]) {
			continue
		}
		n++
		if rs[ret.Block()] {
			bad = fmt.Sprintf("the (nil, nil) return at %s is reachable when the header announces an index on a CARv2: callers that tested HasIndex() hand the nil reader to index.ReadFrom", c.Pos(ret.Pos()))
		}
	}
	r.Check(bad == "", key, c.Pos(fn.Pos()), fmt.Sprintf("%d nil-reader return(s), all behind Version == 1 || !HasIndex()", n), bad)
}

func ruleR09i(c *Ctx, r *Report) {
	n := 0
	for _, fn := range c.RepoFuncs() {
		if !inLib(fn) {
			continue
		}
		ord := 0
		eachInstr(fn, func(in ssa.Instruction) {
			ci, ok := in.(*ssa.Call)
			if !ok {
				return
			}
			f := calleeFunc(ci.Common())
			if !(funcIs(f, "encoding/binary", "", "ReadUvarint") || funcIs(f, "encoding/binary", "", "Uvarint")) {
				return
			}
			n++
			ord++
			key := fmt.Sprintf("uvarint-to-signed@%s#%d", fnKey(fn), ord)
			L := extractOf(ci, 0)
			if L == nil {
				r.Hold(key, c.Pos(ci.Pos()), "value unused")
				return
			}
			isL := func(v ssa.Value) bool { return canon(v) == L || v == L }
			le := cmpEdges(fn, isL, func(v ssa.Value) bool { return !isL(v) }, "le")
			rs := reach(fn, ci.Block(), edgeSet(le))
			bad := ""
			var visit func(v ssa.Value, d int)
			seen := map[ssa.Value]bool{}
			visit = func(v ssa.Value, d int) {
				if seen[v] || d > 6 {
					return
				}
				seen[v] = true
				refs := v.Referrers()
				if refs == nil {
					return
				}
				for _, ref := range *refs {
					switch x := ref.(type) {
					case *ssa.Convert:
						if bt, ok := x.Type().Underlying().(*types.Basic); ok && bt.Info()&types.IsInteger != 0 && bt.Info()&types.IsUnsigned == 0 {
							if rs[x.Block()] {
								bad = fmt.Sprintf("the value is converted to %s at %s without having been bounded: lengths of 2^63 and above become negative", bt.Name(), c.Pos(x.Pos()))
							}
							continue
						}
						visit(x, d+1)
					case *ssa.Phi:
						visit(x, d+1)
					case *ssa.Store:
						if al, ok := x.Addr.(*ssa.Alloc); ok {
							for _, rr := range *al.Referrers() {
								if u, ok := rr.(*ssa.UnOp); ok && u.Op == token.MUL {
									visit(u, d+1)
								}
							}
						}
					}
				}
			}
			visit(L, 0)
			r.Check(bad == "", key, c.Pos(ci.Pos()), "never converted to a signed integer before an unsigned bound check", bad)
		})
	}
	r.Count("encoding/binary uvarint decodes in library packages", n)
}

// nilNilContract: functions that may answer (nil, nil), with the reason.
var nilNilContract = map[string]string{
	"v2.Reader.IndexReader": "no index to read: CARv1 or a header without index (the exact condition is pinned by R09h)",
}

func ruleR09j(c *Ctx, r *Report) {
	n := 0
	for _, fn := range c.RepoFuncs() {
		if !inLib(fn) {
			continue
		}
		for _, g := range withAnon(fn) {
			res := g.Signature.Results()
			if res.Len() < 2 {
				continue
			}
			if !types.Identical(res.At(res.Len()-1).Type(), types.Universe.Lookup("error").Type()) {
				continue
			}
			switch res.At(0).Type().Underlying().(type) {
			case *types.Pointer, *types.Interface, *types.Slice, *types.Map:
			default:
				continue
			}
			for _, ret := range returnsOf(g) {
				if len(ret.Results) != res.Len() {
					continue
				}
				all := true
				for i := range ret.Results {
					if !resultIsNilConst(ret, i) {
						// numeric zero results next to the nil value are fine
						if k, ok := constInt(retResult(ret, i)); ok && k == 0 && i != 0 && i != len(ret.Results)-1 {
							continue
						}
						all = false
					}
				}
				if !all {
					continue
				}
				n++
				key := "nil-nil@" + fnKey(g)
				why, ok := nilNilContract[fnKey(g)]
				if ok {
					r.Hold(key, c.Pos(ret.Pos()), "documented contract: "+why)
				} else {
					r.Viol(key, c.Pos(ret.Pos()), "returns a nil value together with a nil error, which is not this function's contract: callers that check only the error go on to use the nil value")
				}
			}
		}
	}
	r.Count("(nil, nil) returns in library packages", n)
}

func ruleR09k(c *Ctx, r *Report) {
	n := 0
	for _, fn := range c.RepoFuncs() {
		if !inLib(fn) {
			continue
		}
		ord := 0
		eachInstr(fn, func(in ssa.Instruction) {
			b, ok := in.(*ssa.BinOp)
			if !ok || (b.Op != token.QUO && b.Op != token.REM) || !isIntegral(b.Type()) {
				return
			}
			if _, isK := constInt(b.Y); isK {
				return
			}
			n++
			ord++
			key := fmt.Sprintf("divisor-nonzero@%s#%d", fnKey(fn), ord)
			d := canon(b.Y)
			dfv, dbase := fieldOfLoad(d)
			isD := func(v ssa.Value) bool {
				cv := canon(v)
				if cv == d || v == b.Y {
					return true
				}
				// another load of the same field of the same object
				if dfv != nil {
					if fv, base := fieldOfLoad(cv); fv == dfv && (canon(base) == canon(dbase) || structCopyOf(dbase, base, dfv)) {
						return true
					}
				}
				return false
			}
			nonZeroGuards := func(g *ssa.Function, is func(ssa.Value) bool) []Edge {
				var guards []Edge
				guards = append(guards, cmpEdges(g, is, func(v ssa.Value) bool { k, ok := constInt(v); return ok && k >= 0 }, "gt")...)
				guards = append(guards, cmpEdges(g, is, func(v ssa.Value) bool { k, ok := constInt(v); return ok && k >= 1 }, "ge")...)
				guards = append(guards, cmpEdges(g, is, func(v ssa.Value) bool { k, ok := constInt(v); return ok && k == 0 }, "ne")...)
				return guards
			}
			positive := func(v ssa.Value) bool { return positiveValue(v, 0) }
			guards := nonZeroGuards(fn, isD)
			if positive(b.Y) {
				r.Hold(key, c.Pos(b.Pos()), "divisor is a positive constant plus non-negative terms")
				return
			}
			// the divisor is a field whose every store in the repository puts a non-zero value there
			// (not for a struct allocated in this very function: its zero value is what the
			// division sees when none of the stores ran — a scan of zero sections)
			localObj := false
			if dbase != nil {
				_, localObj = canon(dbase).(*ssa.Alloc)
			}
			if dfv != nil && dbase != nil && !localObj && (len(guards) == 0 || reach(fn, nil, edgeSet(guards))[b.Block()]) {
				allGood, nStores := true, 0
				for _, g := range c.RepoFuncs() {
					eachInstr(g, func(in2 ssa.Instruction) {
						st, ok := in2.(*ssa.Store)
						if !ok {
							return
						}
						fa, ok := st.Addr.(*ssa.FieldAddr)
						if !ok || fieldVar(fa.X.Type(), fa.Field) != dfv {
							return
						}
						nStores++
						sv := canon(st.Val)
						if positive(st.Val) {
							return
						}
						// copied from the same field of another object of the type
						if fv2, _ := fieldOfLoad(sv); fv2 == dfv {
							return
						}
						gs := nonZeroGuards(g, func(v ssa.Value) bool { return canon(v) == sv || v == st.Val })
						if (len(gs) == 0 || reach(g, nil, edgeSet(gs))[st.Block()]) && validatedByCallee(g, st, sv, nonZeroGuards) {
							return // checked by a function of the repository that was handed the value and returned no error
						}
						if len(gs) == 0 || reach(g, nil, edgeSet(gs))[st.Block()] {
							allGood = false
							if os.Getenv("CARLINT_DEBUG") != "" {
								fmt.Fprintf(os.Stderr, "R09k: store to %s in %s at %s not shown non-zero (guards=%d)\n", dfv.Name(), fnKey(g), c.Pos(st.Pos()), len(gs))
							}
						}
					})
				}
				if allGood && nStores > 0 {
					r.Hold(key, c.Pos(b.Pos()), fmt.Sprintf("divisor is field %s, which every one of its %d stores sets to a value checked or known to be non-zero (a zero-valued struct is assumed not to be used)", dfv.Name(), nStores))
					return
				}
			}
			if len(guards) == 0 || reach(fn, nil, edgeSet(guards))[b.Block()] {
				r.Viol(key, c.Pos(b.Pos()), "this "+b.Op.String()+" is reachable with a divisor that may be zero: an input that decodes to 0 here panics (integer divide by zero) instead of being rejected")
				return
			}
			r.Hold(key, c.Pos(b.Pos()), "behind a comparison that excludes a zero divisor")
		})
	}
	r.Count("integer divisions/remainders by non-constants in library packages", n)
}

func isLenLike(a Aff) bool {
	for k := range a.T {
		if !strings.HasPrefix(k, "len(") && !strings.HasPrefix(k, "U(") {
			return false
		}
	}
	return true
}

// nonNegValue / positiveValue: simple sign reasoning over SSA integer values.
func nonNegValue(v ssa.Value, d int) bool {
	if d > 8 {
		return false
	}
	if k, ok := constInt(v); ok {
		return k >= 0
	}
	if bt, ok := v.Type().Underlying().(*types.Basic); ok && bt.Info()&types.IsUnsigned != 0 {
		return true
	}
	switch x := v.(type) {
	case *ssa.Convert:
		if bt, ok := x.X.Type().Underlying().(*types.Basic); ok && bt.Info()&types.IsUnsigned != 0 {
			// unsigned -> wider signed keeps the value (uint32 -> int on 64-bit; on 32-bit a value >= 2^31 would
			// wrap, which the callers bound separately)
			return true
		}
		return nonNegValue(x.X, d+1)
	case *ssa.Call:
		if b, ok := x.Call.Value.(*ssa.Builtin); ok && (b.Name() == "len" || b.Name() == "cap") {
			return true
		}
	case *ssa.BinOp:
		if x.Op == token.ADD || x.Op == token.MUL {
			return nonNegValue(x.X, d+1) && nonNegValue(x.Y, d+1)
		}
	case *ssa.UnOp:
		if c := canon(v); c != v {
			return nonNegValue(c, d+1)
		}
	case *ssa.Extract:
		// the key of `for k := range m`: non-negative when every key ever put into m is
		if nx, ok := x.Tuple.(*ssa.Next); ok && x.Index == 1 {
			if rg, ok := nx.Iter.(*ssa.Range); ok {
				m := canon(rg.X)
				n, good := 0, true
				if refs := m.Referrers(); refs != nil {
					for _, ref := range *refs {
						if mu, ok := ref.(*ssa.MapUpdate); ok {
							n++
							if !nonNegValue(mu.Key, d+1) {
								good = false
							}
						}
					}
				}
				return n > 0 && good
			}
		}
	}
	return false
}

func positiveValue(v ssa.Value, d int) bool {
	if d > 8 {
		return false
	}
	if k, ok := constInt(v); ok {
		return k > 0
	}
	switch x := v.(type) {
	case *ssa.Convert:
		return positiveValue(x.X, d+1)
	case *ssa.BinOp:
		if x.Op == token.ADD {
			return positiveValue(x.X, d+1) && nonNegValue(x.Y, d+1) || positiveValue(x.Y, d+1) && nonNegValue(x.X, d+1)
		}
		if x.Op == token.MUL {
			return positiveValue(x.X, d+1) && positiveValue(x.Y, d+1)
		}
	case *ssa.UnOp:
		if c := canon(v); c != v {
			return positiveValue(c, d+1)
		}
	}
	return false
}

func ruleR09l(c *Ctx, r *Report) {
	fn, err := c.Func(modV2, "", "ApplyOptions")
	if err != nil {
		r.InfraFail("%v", err)
		return
	}
	for _, fld := range []string{"MaxAllowedHeaderSize", "MaxAllowedSectionSize"} {
		key := "limit-default@v2.ApplyOptions#" + fld
		n, bad := 0, ""
		eachInstr(fn, func(in ssa.Instruction) {
			st, ok := in.(*ssa.Store)
			if !ok {
				return
			}
			// `opts := initialOptions`: the starting value is a package-level literal that nothing
			// writes; its field is the default
			if ld, isLoad := st.Val.(*ssa.UnOp); isLoad && ld.Op == token.MUL && st.Block() == fn.Blocks[0] {
				if g, isG := ld.X.(*ssa.Global); isG {
					for fv, iv := range globalFieldInit[g] {
						if k, isK := iv.(*ssa.Const); isK && fv.Name() == fld && k.Value != nil && !k.IsNil() {
							if z, isInt := constInt(k); !isInt || z != 0 {
								n++
							}
						}
					}
				}
				return
			}
			fa, ok := st.Addr.(*ssa.FieldAddr)
			if !ok || !fieldAddrIs(fa, modV2, "Options", fld) {
				return
			}
			n++
			if st.Block() != fn.Blocks[0] {
				bad = fmt.Sprintf("Options.%s is assigned at %s after the caller's options were applied: a configured limit (including 0) is replaced", fld, c.Pos(st.Pos()))
			}
		})
		if n == 0 {
			bad = "no default is set for Options." + fld + ": parsers would run without a limit"
		}
		r.Check(bad == "", key, c.Pos(fn.Pos()), "default set once, before the options run", bad)
	}
}

func uncheckedAsserts(c *Ctx) map[string]string {
	out := map[string]string{}
	for _, fn := range c.RepoFuncs() {
		if !inLib(fn) {
			continue
		}
		eachInstr(fn, func(in ssa.Instruction) {
			ta, ok := in.(*ssa.TypeAssert)
			if !ok || ta.CommaOk {
				return
			}
			if !ta.Pos().IsValid() {
				return
			}
			// `x.(T)` with T the static type of x is the nil check go/ssa emits for a method value
			// taken from an interface (`bs.PutMany`), not a narrowing assertion
			if types.Identical(ta.AssertedType, ta.X.Type()) {
				return
			}
			if assertionCannotFail(fn, ta) {
				return
			}
			k := fnKey(rootFuncOf(fn)) + " -> " + pinnedTypeNames(assertedTypeKey(ta.AssertedType))
			out[k] = c.Pos(ta.Pos())
		})
	}
	return out
}

func ruleR09o(c *Ctx, r *Report) {
	got := uncheckedAsserts(c)
	var keys []string
	for k := range got {
		keys = append(keys, k)
	}
	sort.Strings(keys)
	for _, k := range keys {
		key := "unchecked-assert@" + k
		if _, ok := typeAssertBaseline[k]; ok {
			r.Exempt(key, got[k], "site of the pinned tree")
			continue
		}
		if encl, rest, ok := strings.Cut(k, " -> "); ok && newFuncKeys(c)[encl] {
			moved := false
			for bk := range typeAssertBaseline {
				be, br, _ := strings.Cut(bk, " -> ")
				if br == rest && pkgOfKey(be) == pkgOfKey(encl) {
					moved = true
				}
			}
			if moved {
				r.Exempt(key, got[k], "site of the pinned tree, moved into a new function")
				continue
			}
		}
		r.Viol(key, got[k], "single-value type assertion that the pinned tree does not have: if the value can be of another dynamic type (an index of the other format, a writer without the method) this panics instead of returning an error")
	}
	r.Count("unchecked type assertions in library packages", len(keys))
}

// pinnedTypeNames rewrites the printed name of a type that moved to another package (typeMoves) or
// was renamed (typeRenames) back to the name the pinned tree knows it by.
func pinnedTypeNames(s string) string {
	for k, v := range typeMoves {
		pkg, name, _ := strings.Cut(k, "\t")
		s = strings.ReplaceAll(s, shortPkg(v[0])+"."+v[1], shortPkg(pkg)+"."+name)
	}
	for k, v := range typeRenames {
		pkg, name, _ := strings.Cut(k, "\t")
		s = strings.ReplaceAll(s, shortPkg(pkg)+"."+v, shortPkg(pkg)+"."+name)
	}
	return s
}

// assertedTypeKey names the asserted type; an interface is named by its method set (method names and
// nameless signatures), so that giving an anonymous interface a name, or renaming a parameter, changes nothing.
func assertedTypeKey(t types.Type) string {
	q := func(p *types.Package) string { return shortPkg(p.Path()) }
	it, ok := t.Underlying().(*types.Interface)
	if !ok {
		return types.TypeString(t, q)
	}
	strip := func(tu *types.Tuple) *types.Tuple {
		var vs []*types.Var
		for i := 0; i < tu.Len(); i++ {
			vs = append(vs, types.NewParam(token.NoPos, nil, "", tu.At(i).Type()))
		}
		return types.NewTuple(vs...)
	}
	var ms []string
	for i := 0; i < it.NumMethods(); i++ {
		m := it.Method(i)
		sig := m.Type().(*types.Signature)
		ns := types.NewSignatureType(nil, nil, nil, strip(sig.Params()), strip(sig.Results()), sig.Variadic())
		ms = append(ms, m.Name()+strings.TrimPrefix(types.TypeString(ns, q), "func"))
	}
	sort.Strings(ms)
	return "interface{" + strings.Join(ms, "; ") + "}"
}

// structCopyOf: dst is a local struct that is only ever assigned, as a whole, the value of src
// (a by-value receiver or parameter of an inlined helper), and whose field f is never assigned.
func structCopyOf(dst, src ssa.Value, f *types.Var) bool {
	al, ok := dst.(*ssa.Alloc)
	if !ok || al.Referrers() == nil {
		return false
	}
	n := 0
	for _, ref := range *al.Referrers() {
		switch x := ref.(type) {
		case *ssa.Store:
			if x.Addr != ssa.Value(al) {
				return false
			}
			for _, leaf := range phiLeaves(x.Val) {
				l, ok := leaf.(*ssa.UnOp)
				if !ok || l.Op != token.MUL || canon(l.X) != canon(src) && l.X != src {
					return false
				}
			}
			n++
		case *ssa.FieldAddr:
			if fieldVar(x.X.Type(), x.Field) == f && len(storesTo(x)) > 0 {
				return false
			}
		}
	}
	return n > 0
}

// assertionCannotFail: the asserted type is an interface, and every value that can reach the
// assertion on a live path is a concrete value whose type implements it, or an interface value
// whose static type already has all its methods (the result of a successful comma-ok assertion
// to a wider interface, a constructor's result).
func assertionCannotFail(fn *ssa.Function, ta *ssa.TypeAssert) bool {
	want, ok := ta.AssertedType.Underlying().(*types.Interface)
	if !ok {
		return false
	}
	live := reach(fn, nil, nil)
	seen := map[ssa.Value]bool{}
	var okv func(v ssa.Value, depth int) bool
	okv = func(v ssa.Value, depth int) bool {
		if v == nil || depth > 8 {
			return false
		}
		if seen[v] {
			return true
		}
		seen[v] = true
		if it, isI := v.Type().Underlying().(*types.Interface); isI && types.Implements(v.Type(), want) && it.NumMethods() > 0 {
			if k, isK := v.(*ssa.Const); isK && k.IsNil() {
				return false
			}
			return true
		}
		switch x := v.(type) {
		case *ssa.MakeInterface:
			return types.Implements(x.X.Type(), want)
		case *ssa.ChangeInterface:
			return okv(x.X, depth+1)
		case *ssa.Phi:
			n := 0
			onSuccess := map[ssa.Value]bool{}
			for _, l := range phiLive(x) {
				onSuccess[l] = true
			}
			for i, e := range x.Edges {
				if !live[x.Block().Preds[i]] || !onSuccess[e] {
					continue // a dead branch, or a zero that travels with an error
				}
				n++
				if !okv(e, depth+1) {
					return false
				}
			}
			return n > 0
		case *ssa.UnOp:
			if x.Op == token.MUL {
				if al, isAl := x.X.(*ssa.Alloc); isAl {
					sts := storesTo(al)
					n := 0
					for _, st := range sts {
						if !live[st.Block()] {
							continue
						}
						n++
						if !okv(st.Val, depth+1) {
							return false
						}
					}
					return n > 0
				}
			}
		case *ssa.Extract:
			if t2, isTA := x.Tuple.(*ssa.TypeAssert); isTA && x.Index == 0 {
				return types.Implements(t2.AssertedType, want) || types.Identical(t2.AssertedType, ta.AssertedType)
			}
		}
		return false
	}
	return okv(ta.X, 0)
}

// validatedByCallee: the stored value was handed to a repository function h before the store, the
// store is reached only through the "no error" outcome of that call, and h returns no error only
// behind a comparison that excludes zero for that parameter.
func validatedByCallee(g *ssa.Function, st *ssa.Store, sv ssa.Value, guardsOf func(*ssa.Function, func(ssa.Value) bool) []Edge) bool {
	found := false
	eachInstr(g, func(in ssa.Instruction) {
		call, ok := in.(*ssa.Call)
		if !ok || found {
			return
		}
		h := staticTarget(call.Common())
		if h == nil || h.Blocks == nil || h.Pkg == nil || !isRepoPkg(h.Pkg.Pkg.Path()) {
			return
		}
		res := h.Signature.Results()
		if res.Len() == 0 || !types.Identical(res.At(res.Len()-1).Type(), types.Universe.Lookup("error").Type()) {
			return
		}
		for i, a := range call.Common().Args {
			if !(canon(a) == sv || a == st.Val || sameCellLoad(a, st.Val)) || i >= len(h.Params) {
				continue
			}
			// h: every return with a nil error lies behind a guard on the parameter
			p := h.Params[i]
			gs := guardsOf(h, func(v ssa.Value) bool { return canon(v) == ssa.Value(p) || v == ssa.Value(p) })
			if len(gs) == 0 {
				continue
			}
			open := reach(h, nil, edgeSet(gs))
			okH := true
			eachInstr(h, func(in2 ssa.Instruction) {
				ret, isRet := in2.(*ssa.Return)
				if !isRet || len(ret.Results) == 0 {
					return
				}
				if k, isK := ret.Results[len(ret.Results)-1].(*ssa.Const); isK && k.Value == nil && open[ret.Block()] {
					okH = false
				}
			})
			if !okH {
				continue
			}
			// g: the store lies behind the call's "err == nil" outcome
			var e ssa.Value = call
			if res.Len() > 1 {
				e = extractOf(call, res.Len()-1)
			}
			if e == nil || e.Referrers() == nil {
				continue
			}
			for _, ref := range *e.Referrers() {
				cmp, isCmp := ref.(*ssa.BinOp)
				if !isCmp || (cmp.Op != token.NEQ && cmp.Op != token.EQL) || cmp.Referrers() == nil {
					continue
				}
				for _, r2 := range *cmp.Referrers() {
					iff, isIf := r2.(*ssa.If)
					if !isIf {
						continue
					}
					okSucc := iff.Block().Succs[1]
					if cmp.Op == token.EQL {
						okSucc = iff.Block().Succs[0]
					}
					if len(okSucc.Preds) == 1 && (okSucc == st.Block() || okSucc.Dominates(st.Block())) {
						found = true
					}
				}
			}
		}
	})
	return found
}

// sameCellLoad: two loads of one local cell (a variable filled through its address, read twice).
func sameCellLoad(a, b ssa.Value) bool {
	la, ok1 := a.(*ssa.UnOp)
	lb, ok2 := b.(*ssa.UnOp)
	if !ok1 || !ok2 || la.Op != token.MUL || lb.Op != token.MUL {
		return false
	}
	al, ok := la.X.(*ssa.Alloc)
	return ok && la.X == lb.X && !al.Heap || ok && la.X == lb.X
}
