package main

// Renamed functions. An unexported function of the pinned tree that is gone, and a function the
// pinned tree does not have, in the same package, are one function under a new name when
//
//   - their shapes agree: the same receiver type; or a method `(x *T) m(args)` against a function
//     whose first parameter is `T` or `*T` followed by the same number of parameters (a method
//     turned into a function, or the reverse); and
//   - what they call agrees: the callee set recorded for the pinned function (baseline_funcs.txt)
//     and the callee set of the new one have a Jaccard similarity of at least 0.8, the pinned set is
//     not empty, and no other candidate comes within 0.1.
//
// Such a function is not a new helper: it is not spliced into its callers, and every table and rule
// that names functions sees it under its pinned name (declKey, ssaDeclKey, funcKey, funcIs).
// Everything else the pinned tree does not have stays what it was: a new helper, inlined back.

import (
	"fmt"
	"go/ast"
	"go/types"
	"sort"
	"strings"

	"golang.org/x/tools/go/packages"
)

// funcRenames: declKey of the function in the working tree -> declKey of the pinned function.
var funcRenames = map[string]string{}

func pinnedDeclKey(k string) string {
	if o, ok := funcRenames[k]; ok {
		return o
	}
	return k
}

func computeFuncRenames(pkgs []*packages.Package) []string {
	funcRenames = map[string]string{}
	var log []string
	for _, p := range pkgs {
		if !isRepoPkg(p.PkgPath) || p.TypesInfo == nil {
			continue
		}
		declared := map[string]bool{}
		type cand struct {
			key   string
			fd    *ast.FuncDecl
			recv  string
			first string // type name of the first parameter, for a plain function
			np    int
		}
		var news []cand
		for _, f := range p.Syntax {
			if tf := p.Fset.File(f.Pos()); tf != nil && strings.HasSuffix(tf.Name(), "_test.go") {
				continue
			}
			for _, d := range f.Decls {
				fd, ok := d.(*ast.FuncDecl)
				if !ok {
					continue
				}
				k := rawDeclKey(p.PkgPath, fd)
				declared[k] = true
				if fd.Body == nil || baselineFuncs[k] || fd.Name.IsExported() || fd.Name.Name == "init" || fd.Name.Name == "main" {
					continue
				}
				obj, _ := p.TypesInfo.Defs[fd.Name].(*types.Func)
				if obj == nil {
					continue
				}
				sig := obj.Type().(*types.Signature)
				c := cand{key: k, fd: fd, np: sig.Params().Len()}
				_, c.recv = recvTypeName(obj)
				if sig.Recv() == nil && sig.Params().Len() > 0 {
					if n := namedOf(sig.Params().At(0).Type()); n != nil && n.Obj().Pkg() == p.Types {
						c.first = n.Obj().Name()
					}
				}
				news = append(news, c)
			}
		}
		if len(news) == 0 {
			continue
		}
		var gone []string
		for k := range baselineFuncs {
			f := strings.Split(k, "\t")
			if len(f) == 3 && f[0] == p.PkgPath && !declared[k] && !ast.IsExported(f[2]) && len(baselineFingerprint[k]) > 0 {
				gone = append(gone, k)
			}
		}
		sort.Strings(gone)
		taken := map[string]bool{}
		for _, g := range gone {
			f := strings.Split(g, "\t")
			want := baselineFingerprint[g]
			best, bestScore, second := -1, 0.0, 0.0
			for i, c := range news {
				if taken[c.key] {
					continue
				}
				switch {
				case c.recv == f[1]: // same receiver type (or both plain functions)
				case c.recv == "" && f[1] != "" && c.first == f[1]: // method turned into a function
				case c.recv != "" && f[1] == "": // function turned into a method
				case c.recv == "" && f[1] != "" && c.fd.Name.Name == f[2]: // a method that lost its receiver and kept its name
				default:
					continue
				}
				got := astFingerprint(p, c.fd)
				inter := 0
				for k := range want {
					if got[k] {
						inter++
					}
				}
				union := len(want) + len(got) - inter
				if union == 0 {
					continue
				}
				sc := float64(inter) / float64(union)
				if sc > bestScore {
					best, second, bestScore = i, bestScore, sc
				} else if sc > second {
					second = sc
				}
			}
			if best < 0 || bestScore < 0.8 || bestScore-second < 0.1 {
				continue
			}
			taken[news[best].key] = true
			funcRenames[news[best].key] = g
			log = append(log, fmt.Sprintf("%s.%s is %s.%s.%s of the pinned tree under a new name (callee-set similarity %.2f)", shortPkg(p.PkgPath), strings.TrimPrefix(strings.ReplaceAll(strings.TrimPrefix(news[best].key, p.PkgPath), "\t", "."), ".."), shortPkg(f[0]), f[1], f[2], bestScore))
		}
	}
	return log
}

// astFingerprint: the callee set of a declaration, spelled like calleeFingerprint spells it.
func astFingerprint(p *packages.Package, fd *ast.FuncDecl) map[string]bool {
	out := map[string]bool{}
	ast.Inspect(fd.Body, func(n ast.Node) bool {
		call, ok := n.(*ast.CallExpr)
		if !ok {
			return true
		}
		var id *ast.Ident
		switch x := ast.Unparen(call.Fun).(type) {
		case *ast.Ident:
			id = x
		case *ast.SelectorExpr:
			id = x.Sel
		}
		if id == nil {
			return true
		}
		f, ok := p.TypesInfo.Uses[id].(*types.Func)
		if !ok {
			return true
		}
		if sig, ok := f.Type().(*types.Signature); ok && sig.Recv() != nil && types.IsInterface(sig.Recv().Type()) {
			out["invoke:"+f.Name()] = true
			return true
		}
		out[funcKey(f)] = true
		return true
	})
	return out
}

// rawDeclKey is declKey without the rename map.
func rawDeclKey(pkgPath string, fd *ast.FuncDecl) string {
	recv := ""
	if fd.Recv != nil && len(fd.Recv.List) == 1 {
		t := fd.Recv.List[0].Type
		if s, ok := t.(*ast.StarExpr); ok {
			t = s.X
		}
		if ix, ok := t.(*ast.IndexExpr); ok {
			t = ix.X
		}
		if id, ok := t.(*ast.Ident); ok {
			recv = id.Name
		}
	}
	return pkgPath + "\t" + recv + "\t" + fd.Name.Name
}
