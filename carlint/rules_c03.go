package main

import (
	"fmt"
	"go/token"
	"go/types"
	"sort"
	"strings"

	"golang.org/x/tools/go/ssa"
)

func init() {
	register(PropertyDef{
		ID: "C03",
		Explanation: "Decided statically: (R03a) a function that wraps a raw reader in the offset-tracking adapter (internal/io.ToByteReadSeeker) and later " +
			"observes the adapter's position never consumes the raw reader behind the adapter's back; (R03b) every offset that index generation " +
			"(LoadIndex) and resumption (Resume) record for a section is the reader position observed BEFORE that section's length prefix is read, " +
			"taken from the same reader that is being scanned, and in LoadIndex re-based by exactly {0 | Header.DataOffset of the header parsed in this call}; " +
			"(R03c) the record append in LoadIndex is behind `StoreIdentityCIDs || MhType != IDENTITY` and behind the MaxIndexCidSize comparison; " +
			"(R03d) the adapter for non-seekable sources counts every byte it hands out (all its reads go through its own counting Read). " +
			"NOT decided: correctness of the sorted/bucketed lookup structures (GetAll, binary search, LLRB), completeness for duplicates.",
		Assumptions: []string{"io.Seeker.Seek(0, io.SeekCurrent) returns the current position", "go-varint / go-cid consume exactly the bytes they decode"},
		Rules: []RuleDef{
			{ID: "R03a", Floor: 1, Doc: "view coherence: no use of the raw reader after it was wrapped by ToByteReadSeeker when the wrapper's position is later observed", Run: ruleR03a},
			{ID: "R03b", Floor: 2, Doc: "recorded offset = position of the scanned reader before the section's length read, re-based by the parsed header's DataOffset (LoadIndex) / not re-based (Resume)", Run: ruleR03b},
			{ID: "R03c", Floor: 2, Doc: "identity gate and CID-size gate dominate the record append in LoadIndex", Run: ruleR03c},
			{ID: "R03e", Floor: 1, Doc: "end-of-payload test compares the payload-relative position with DataSize", Run: ruleR03e},
			{ID: "R03f", Floor: 2, Doc: "the insertion index never replaces an entry (its ordering is by digest only): Load/InsertNoReplace use llrb.InsertNoReplace", Run: ruleR03f},
			{ID: "R03i", Floor: 3, Doc: "compact bucket layout: every reader slices record i as digest = index[i*w : i*w+w-8], offset = index[i*w+w-8 : i*w+w], the layout the writer produces (digest then 8-byte offset in a slot of w = len(digest)+8); the search predicate compares the key with the record's digest using <= 0 over ascending buckets", Run: ruleR03i},
			{ID: "R03j", Floor: 4, Doc: "cursor discipline of the positioned readers/writers of internal/io: the cursor field is advanced by exactly the byte count the wrapped ReadAt/Read/WriteAt returned, on every path that returns a count that may be non-zero (an io.Reader may return n > 0 together with an error)", Run: ruleR03j},
			{ID: "R03o", Floor: 4, Doc: "the reader adapters of internal/io are the audited ones: ToByteReader, ToByteReadSeeker, ToReadSeeker and ToReaderAt return their argument or one of the adapter types of the pinned tree (whose byte accounting R03d/R03j check); an adapter type added beside them reads bytes that nothing counts or bounds", Run: ruleR03o},
			{ID: "R03p", Floor: 1, Doc: "index generation runs under the options the caller gave: no function overrides StoreIdentityCIDs (or any option) for itself, so which sections get a record is decided by the caller alone (= R04j)", Run: ruleR04j},
			{ID: "R03q", Floor: 1, Doc: "the index rebuilt on resume has a record for every section the rescan passes (= R12c)", Run: ruleR12c},
			{ID: "R03r", Floor: 1, Doc: "the teeing loader of the selective writer writes a block once, so the one-offset-per-CID record map describes every section written (= R15a)", Run: ruleR15a},
			{ID: "R03s", Floor: 2, Doc: "a section that was written is indexed before the put reports success (= R06i)", Run: ruleR12g},
			{ID: "R03t", Floor: 1, Doc: "the insertion index orders and equates records by digest alone: recordDigest.Less is `bytes.Compare(digest, other.digest) < 0` on every return (the tree derives equality from Less, and lookups probe with a digest-only record)", Run: ruleR03t},
			{ID: "R03u", Floor: 1, Doc: "the sequential readers never seek backwards: no Seek(negative constant, io.SeekCurrent) in LoadIndex, Inspect, NewBlockReader, Next, SkipNext — the forward-only adapter for plain streams drops such a seek silently", Run: ruleR03u},
			{ID: "R03x", Floor: 1, Doc: "a compact bucket built in memory is exactly width x len bytes: the buffer of a singleWidthIndex is allocated with the product of the two values stored beside it", Run: ruleR03x},
			{ID: "R03y", Floor: 1, Doc: "the insertion index refuses no record for the length of its digest (= R11z)", Run: ruleR11z},
			{ID: "R03z", Floor: 1, Doc: "ReadOrGenerateIndex generates the index of an index-less CARv2 over Reader.DataReader(), the payload window: offsets stay payload-relative and the walk stays bounded by DataSize", Run: ruleR03z},
			{ID: "R03A", Floor: 1, Doc: "LoadIndex makes the end-of-payload test before every read of a section length (a CARv2 payload may hold no sections: D21)", Run: ruleR03A},
			{ID: "R03B", Floor: 1, Doc: "MultihashIndexSorted.Load gives each hash function's bucket the group of records it took out of its by-code map, not the whole list it was given", Run: ruleR03B},
			{ID: "R03v", Floor: 1, Doc: "the payload view index generation scans is the whole payload window (= R10d)", Run: ruleR10d},
			{ID: "R03w", Floor: 1, Doc: "no reader type beside the audited ones stands between index generation and the bytes (= R16n)", Run: ruleR16n},
			{ID: "R03g", Floor: 1, Doc: "InsertionIndex.GetAll offers every record with the key's digest", Run: ruleR03g},
			{ID: "R03h", Floor: 1, Doc: "records loaded into the index once, after the scan", Run: ruleR03h},
			{ID: "R03d", Floor: 2, Doc: "discardingReadSeekerPlusByte: every byte source (ReadByte, Seek's discard) reads through the counting Read, which adds exactly the returned count", Run: ruleR03d},
			{ID: "R03k", Floor: 1, Doc: "the CARv2 header the offsets are re-based by is parsed exactly (full read, range checks before use) (= R09e)", Run: ruleR09e},
			{ID: "R03l", Floor: 2 + 3, Doc: "index generation is run with the options the caller gave (forwarded to every option-taking callee) (= R07c)", Run: ruleR07c},
			{ID: "R03m", Floor: 5, Doc: "the CLI's own section walk (`car index`) records the offset of every section it copies (= R19d)", Run: ruleR19d},
			{ID: "R03n", Floor: 1, Doc: "the sorted index files records under the whole decoded digest (= R11l)", Run: ruleR11l},
		},
	})
}

// isSeekCall: a call (static or invoke) of a method named Seek with (int64,int).
func isSeekCall(ci *ssa.Call) bool {
	f := calleeFunc(ci.Common())
	return f != nil && f.Name() == "Seek" && len(ci.Call.Args) >= 2 && recvOrIface(ci)
}

func recvOrIface(ci *ssa.Call) bool {
	if ci.Common().IsInvoke() {
		return true
	}
	f := calleeFunc(ci.Common())
	sig, _ := f.Type().(*types.Signature)
	return sig != nil && sig.Recv() != nil
}

// seekReceiver returns the receiver value of a Seek call.
func seekReceiver(ci *ssa.Call) ssa.Value {
	if ci.Common().IsInvoke() {
		return ci.Common().Value
	}
	return ci.Call.Args[0]
}

// seekOffsetWhence returns the (offset, whence) argument values of a Seek call.
func seekArgs(ci *ssa.Call) (ssa.Value, ssa.Value) {
	if ci.Common().IsInvoke() {
		return ci.Call.Args[0], ci.Call.Args[1]
	}
	return ci.Call.Args[1], ci.Call.Args[2]
}

func extractOf(call *ssa.Call, idx int) ssa.Value {
	refs := call.Referrers()
	if refs == nil {
		return nil
	}
	for _, r := range *refs {
		if ex, ok := r.(*ssa.Extract); ok && ex.Index == idx {
			return ex
		}
	}
	return nil
}

func ruleR03a(c *Ctx, r *Report) {
	n := 0
	for _, fn := range c.RepoFuncs() {
		if !hasOffsetSink(fn) {
			// positions observed elsewhere (index Unmarshal) only feed an overflow
			// guard, never a recorded section offset: outside C03.
			continue
		}
		for _, w := range callsToFunc(fn, pkgIntIO, "", "ToByteReadSeeker") {
			wc := w.Value()
			if wc == nil {
				continue
			}
			raw := wc.Call.Args[0]
			// observations of the wrapper's position
			var obs []ssa.Instruction
			eachInstr(fn, func(in ssa.Instruction) {
				ci, ok := in.(*ssa.Call)
				if !ok || !isSeekCall(ci) || !sameValue(seekReceiver(ci), wc) {
					return
				}
				if ex := extractOf(ci, 0); ex != nil && ex.Referrers() != nil && len(*ex.Referrers()) > 0 {
					obs = append(obs, ci)
				}
			})
			if len(obs) == 0 {
				continue
			}
			n++
			key := "wrapped-reader@" + fnKey(fn)
			bad := ""
			// any other use of raw as an argument / receiver of a call, from which an observation is reachable
			refs := raw.Referrers()
			if refs != nil {
				for _, ref := range *refs {
					if ref == ssa.Instruction(wc) {
						continue
					}
					// also through interface conversions
					uses := []ssa.Instruction{ref}
					if v, ok := ref.(ssa.Value); ok {
						switch ref.(type) {
						case *ssa.ChangeInterface, *ssa.MakeInterface, *ssa.TypeAssert:
							if v.Referrers() != nil {
								uses = append(uses, *v.Referrers()...)
							}
						}
					}
					for _, u := range uses {
						ci, ok := u.(ssa.CallInstruction)
						if !ok {
							continue
						}
						if u == ssa.Instruction(wc) {
							continue
						}
						for _, o := range obs {
							if instrReaches(u, o) {
								bad = fmt.Sprintf("raw reader is passed to %s at %s after being wrapped by ToByteReadSeeker, and the wrapper's position is observed afterwards at %s: bytes consumed through the raw reader are not counted", funcKey(calleeFunc(ci.Common())), c.Pos(u.Pos()), c.Pos(o.Pos()))
							}
						}
					}
				}
			}
			r.Check(bad == "", key, c.Pos(wc.Pos()), fmt.Sprintf("%d position observation(s); the raw reader is used only to build the wrapper", len(obs)), bad)
		}
	}
	r.Count("functions wrapping a reader and observing its position", n)
}

// hasOffsetSink: the function records section offsets (index.Record.Offset or
// InsertionIndex.InsertNoReplace).
func hasOffsetSink(fn *ssa.Function) bool {
	found := false
	eachInstr(fn, func(in ssa.Instruction) {
		switch x := in.(type) {
		case *ssa.Store:
			if fa, ok := x.Addr.(*ssa.FieldAddr); ok && fieldAddrIs(fa, pkgIndex, "Record", "Offset") {
				found = true
			}
		case *ssa.Call:
			if funcIs(calleeFunc(x.Common()), pkgIndex, "InsertionIndex", "InsertNoReplace") {
				found = true
			}
		}
	})
	return found
}

// instrReaches: can control flow from a reach b (a executes first)?
func instrReaches(a, b ssa.Instruction) bool {
	if a.Block() == b.Block() {
		if instrIndex(a) < instrIndex(b) {
			return true
		}
		// via a cycle
	}
	fn := a.Parent()
	for i := range a.Block().Succs {
		if reachFromEdge(fn, Edge{From: a.Block(), Succ: i}, nil)[b.Block()] {
			return true
		}
	}
	return false
}

// precedes: a is evaluated before b on every path to b (a's definition dominates b).
func precedes(a ssa.Value, b ssa.Instruction) bool {
	ai, ok := a.(ssa.Instruction)
	if !ok {
		return true // parameters, constants
	}
	if ai.Block() == b.Block() {
		if _, isPhi := a.(*ssa.Phi); isPhi {
			return true
		}
		return instrIndex(ai) < instrIndex(b)
	}
	return ai.Block().Dominates(b.Block())
}

func phiLeaves(v ssa.Value) []ssa.Value {
	var out []ssa.Value
	seen := map[ssa.Value]bool{}
	var walk func(ssa.Value)
	walk = func(v ssa.Value) {
		v = canon(v)
		if seen[v] {
			return
		}
		seen[v] = true
		if p, ok := v.(*ssa.Phi); ok {
			for _, e := range p.Edges {
				walk(e)
			}
			return
		}
		out = append(out, v)
	}
	walk(v)
	return out
}

type offsetSite struct {
	pkg, recv, name string
	rebase          bool // offsets must be re-based by Header.DataOffset
}

func ruleR03b(c *Ctx, r *Report) {
	for _, s := range []offsetSite{{modV2, "", "LoadIndex", true}, {pkgStore, "", "Resume", false}} {
		fn, err := c.Func(s.pkg, s.recv, s.name)
		if err != nil {
			r.InfraFail("%v", err)
			continue
		}
		checkRecordedOffsets(c, r, fn, s.rebase)
	}
}

func checkRecordedOffsets(c *Ctx, r *Report, fn *ssa.Function, rebase bool) {
	key := "section-offset@" + fnKey(fn)
	pos := c.Pos(fn.Pos())
	// the scan's length read: varint.ReadUvarint(reader) inside a loop
	lenReads := callsToFunc(fn, pkgVarint, "", "ReadUvarint")
	if len(lenReads) != 1 {
		r.Undec(key, pos, fmt.Sprintf("expected one varint.ReadUvarint (the section length read), found %d", len(lenReads)))
		return
	}
	lr := lenReads[0].Value()
	reader := canon(lr.Call.Args[0])
	// recorded offsets: stores to index.Record.Offset, and offset args of InsertNoReplace
	var recorded []struct {
		v  ssa.Value
		at ssa.Instruction
	}
	eachInstr(fn, func(in ssa.Instruction) {
		switch x := in.(type) {
		case *ssa.Store:
			if fa, ok := x.Addr.(*ssa.FieldAddr); ok && fieldAddrIs(fa, pkgIndex, "Record", "Offset") {
				recorded = append(recorded, struct {
					v  ssa.Value
					at ssa.Instruction
				}{x.Val, in})
			}
		case *ssa.Call:
			if funcIs(calleeFunc(x.Common()), pkgIndex, "InsertionIndex", "InsertNoReplace") {
				recorded = append(recorded, struct {
					v  ssa.Value
					at ssa.Instruction
				}{x.Call.Args[2], in})
			}
		}
	})
	if len(recorded) == 0 {
		r.Undec(key, pos, "no recorded offset (Record.Offset store / InsertNoReplace) found")
		return
	}
	for _, rec := range recorded {
		v := canon(rec.v)
		if !precedes(v, lr) {
			r.Viol(key, c.Pos(rec.at.Pos()), "the recorded offset is computed after this section's length prefix was read: it is not the position where the section starts")
			return
		}
		if phi, isPhi := v.(*ssa.Phi); isPhi && phiCarriesItself(phi) {
			r.Viol(key, c.Pos(rec.at.Pos()), "the section offset can be carried into the next iteration unchanged (some path of the loop skips the position update, e.g. when the remaining length is 0): the next section is recorded at a stale offset")
			return
		}
		nSeek := 0
		for _, leaf := range phiLeaves(v) {
			base := leaf
			if rebase {
				b, ok := leaf.(*ssa.BinOp)
				if !ok || b.Op != token.SUB {
					r.Viol(key, c.Pos(rec.at.Pos()), "a recorded offset is not re-based by the payload's DataOffset (position - dataOffset expected): offsets would be file-relative for CARv2")
					return
				}
				base = canon(b.X)
				// right operand: {0, int64(Header.DataOffset)} of a header parsed here
				sawField := false
				for _, o := range origins(b.Y, originOpts{}) {
					switch {
					case o.Kind == "const":
						if k, ok := constInt(o.Val); !ok || k != 0 {
							r.Viol(key, c.Pos(rec.at.Pos()), "offset re-based by a constant other than 0")
							return
						}
					case o.Kind == "field" && o.Field != nil && o.Field.Name() == "DataOffset" && isNamed(o.Base.Type(), modV2, "Header"):
						// the header must have been filled by ReadFrom in this function
						if !headerReadHere(fn, o.Base) {
							r.Viol(key, c.Pos(rec.at.Pos()), "offset re-based by a Header.DataOffset that was not parsed from this reader in this call")
							return
						}
						sawField = true
					default:
						r.Viol(key, c.Pos(rec.at.Pos()), "offset re-based by a value that is neither 0 nor the parsed Header.DataOffset")
						return
					}
				}
				if !sawField {
					r.Viol(key, c.Pos(rec.at.Pos()), "offset is never re-based by the parsed Header.DataOffset")
					return
				}
			}
			sc, idx := callOf(base)
			if sc == nil || idx != 0 || !isSeekCall(sc) {
				r.Viol(key, c.Pos(rec.at.Pos()), "a recorded offset does not come from the position (Seek result) of the reader being scanned")
				return
			}
			if !sameValue(seekReceiver(sc), reader) {
				r.Viol(key, c.Pos(sc.Pos()), "the position used as section offset is taken from a different reader than the one the sections are read from")
				return
			}
			nSeek++
		}
		if nSeek == 0 {
			r.Viol(key, c.Pos(rec.at.Pos()), "recorded offset has no position source")
			return
		}
	}
	r.Hold(key, pos, fmt.Sprintf("%d recorded offset(s): each is the scanned reader's position before the length read%s", len(recorded), map[bool]string{true: ", re-based by {0|Header.DataOffset}", false: ""}[rebase]))
}

func isNamed(t types.Type, pkg, name string) bool {
	return typeIs(namedOf(t), pkg, name)
}

// typeIs: n is the pinned type pkg.name — under that name, under the name it was renamed to, or in
// the package it moved to.
func typeIs(n *types.Named, pkg, name string) bool {
	if n == nil || n.Obj().Pkg() == nil {
		return false
	}
	if n.Obj().Pkg().Path() == pkg && (n.Obj().Name() == name || n.Obj().Name() == curTypeName(pkg, name)) {
		return true
	}
	if mv, ok := typeMoves[pkg+"\t"+name]; ok && n.Obj().Pkg().Path() == mv[0] && n.Obj().Name() == mv[1] {
		return true
	}
	return false
}

func headerReadHere(fn *ssa.Function, base ssa.Value) bool {
	roots := structRoots(base)
	if len(roots) == 0 {
		return false
	}
	for _, root := range roots {
		ok := false
		for _, ci := range callsToFunc(fn, modV2, "Header", "ReadFrom") {
			if sameValue(ci.Common().Args[0], root) || ci.Common().Args[0] == root {
				ok = true
			}
		}
		if !ok {
			return false
		}
	}
	return true
}

// structRoots follows whole-struct copies (x := y, a struct returned by an inlined
// helper and merged by a phi) back to the local variables the struct was built in.
func structRoots(base ssa.Value) []ssa.Value {
	var out []ssa.Value
	seen := map[ssa.Value]bool{}
	var walk func(v ssa.Value, d int)
	walk = func(v ssa.Value, d int) {
		if v == nil || seen[v] || d > 8 {
			return
		}
		seen[v] = true
		switch x := v.(type) {
		case *ssa.Alloc:
			copied := false
			for _, st := range storesTo(x) {
				if _, isStruct := st.Val.Type().Underlying().(*types.Struct); isStruct {
					if _, isConst := st.Val.(*ssa.Const); isConst {
						continue
					}
					copied = true
					walk(st.Val, d+1)
				}
			}
			if !copied {
				out = append(out, x)
			}
		case *ssa.Phi:
			for _, e := range x.Edges {
				if _, isConst := e.(*ssa.Const); isConst {
					continue
				}
				walk(e, d+1)
			}
		case *ssa.UnOp:
			if x.Op == token.MUL {
				walk(x.X, d+1)
				return
			}
			out = append(out, v)
		default:
			out = append(out, v)
		}
	}
	walk(base, 0)
	return out
}

func ruleR03c(c *Ctx, r *Report) {
	fn, err := c.Func(modV2, "", "LoadIndex")
	if err != nil {
		r.InfraFail("%v", err)
		return
	}
	pos := c.Pos(fn.Pos())
	// the record construction: store to Record.Offset
	var sites []ssa.Instruction
	eachInstr(fn, func(in ssa.Instruction) {
		if st, ok := in.(*ssa.Store); ok {
			if fa, ok := st.Addr.(*ssa.FieldAddr); ok && fieldAddrIs(fa, pkgIndex, "Record", "Cid") {
				sites = append(sites, in)
			}
		}
	})
	if len(sites) == 0 {
		r.Undec("identity-gate@v2.LoadIndex", pos, "no index.Record construction found")
		return
	}
	optOn := condEdges(fn, matchFieldCond(modV2, "Options", "StoreIdentityCIDs", true))
	notIdentity := cmpEdges(fn,
		func(v ssa.Value) bool { return loadsField(canon(v), pkgCid, "Prefix", "MhType") },
		func(v ssa.Value) bool { k, ok := constInt(v); return ok && k == 0 }, "ne")
	// identity-only edge: MhType == IDENTITY
	isIdentity := cmpEdges(fn,
		func(v ssa.Value) bool { return loadsField(canon(v), pkgCid, "Prefix", "MhType") },
		func(v ssa.Value) bool { k, ok := constInt(v); return ok && k == 0 }, "eq")
	if len(optOn) == 0 || len(notIdentity) == 0 {
		r.Viol("identity-gate@v2.LoadIndex", pos, "LoadIndex has no branch on StoreIdentityCIDs and/or on Prefix().MhType != IDENTITY")
	} else {
		reachable := reach(fn, nil, edgeSet(optOn, notIdentity))
		bad := false
		for _, s := range sites {
			if reachable[s.Block()] {
				bad = true
			}
		}
		// and conversely: with the option on, identity CIDs are indexed (the append is
		// reachable through the optOn edge even when the isIdentity edges are the only way)
		conv := true
		if !bad {
			for _, e := range optOn {
				rr := reachFromEdge(fn, e, edgeSet(notIdentity))
				ok := false
				for _, s := range sites {
					if rr[s.Block()] {
						ok = true
					}
				}
				if !ok {
					conv = false
				}
			}
		}
		_ = isIdentity
		switch {
		case bad:
			r.Viol("identity-gate@v2.LoadIndex", c.Pos(sites[0].Pos()), "an index record is appended on a path where StoreIdentityCIDs is off and the CID is an identity CID")
		case !conv:
			r.Viol("identity-gate@v2.LoadIndex", c.Pos(sites[0].Pos()), "with StoreIdentityCIDs on, the append is not reachable for identity CIDs")
		default:
			r.Hold("identity-gate@v2.LoadIndex", pos, "append only behind StoreIdentityCIDs || MhType != IDENTITY, and reachable from the option alone")
		}
	}
	// CID size gate
	sizeOK := cmpEdges(fn,
		func(v ssa.Value) bool {
			cl, idx := callOf(canon(v))
			return cl != nil && idx == 0 && funcIs(calleeFunc(cl.Common()), pkgCid, "", "CidFromReader")
		},
		func(v ssa.Value) bool { return loadsField(canon(v), modV2, "Options", "MaxIndexCidSize") }, "le")
	if len(sizeOK) == 0 {
		r.Viol("cidsize-gate@v2.LoadIndex", pos, "no comparison of the CID length with Options.MaxIndexCidSize")
		return
	}
	reachable := reach(fn, nil, edgeSet(sizeOK))
	for _, s := range sites {
		if reachable[s.Block()] {
			r.Viol("cidsize-gate@v2.LoadIndex", c.Pos(s.Pos()), "record appended without the CID length <= MaxIndexCidSize outcome")
			return
		}
	}
	// the limit concerns index records only: a section that is not going to be indexed (an identity
	// CID with StoreIdentityCIDs off) is never refused for its CID size
	if len(optOn) > 0 && len(notIdentity) > 0 {
		tooLarge := opposite(sizeOK[0])
		_ = tooLarge
		gateCut := edgeSet(optOn, notIdentity)
		rs := reach(fn, nil, gateCut)
		for _, e := range sizeOK {
			if rs[e.From] {
				r.Viol("cidsize-gate@v2.LoadIndex", c.Pos(fn.Pos()), "the CID-size limit is tested for sections that will not be indexed: a valid archive holding a large inline (identity) block cannot be indexed or wrapped under default options, although no record would be written for that block")
				return
			}
		}
	}
	r.Hold("cidsize-gate@v2.LoadIndex", pos, "append behind cidLen <= MaxIndexCidSize; the limit is only applied to sections that are indexed")
}

// ruleR03d: the non-seekable adapter must count all bytes.
func ruleR03d(c *Ctx, r *Report) {
	read, err := c.Func(pkgIntIO, "discardingReadSeekerPlusByte", "Read")
	if err != nil {
		r.InfraFail("%v", err)
		return
	}
	// Read: offset += int64(n) where n is result 0 of the embedded Reader.Read
	{
		key := "counting-read@" + fnKey(read)
		ok := false
		detail := "Read does not add the byte count returned by the underlying Read to offset"
		eachInstr(read, func(in ssa.Instruction) {
			st, isSt := in.(*ssa.Store)
			if !isSt {
				return
			}
			fa, isFa := st.Addr.(*ssa.FieldAddr)
			if !isFa || !fieldAddrIs(fa, pkgIntIO, "discardingReadSeekerPlusByte", "offset") {
				return
			}
			env := &AffEnv{name: func(v ssa.Value) string {
				if loadsField(v, pkgIntIO, "discardingReadSeekerPlusByte", "offset") {
					return "offset"
				}
				if cl, idx := callOf(v); cl != nil && idx == 0 {
					if f := calleeFunc(cl.Common()); f != nil && f.Name() == "Read" && f.Pkg() != nil && f.Pkg().Path() == "io" {
						return "n"
					}
				}
				return ""
			}}
			a := env.of(st.Val)
			want := affAtom("offset").add(affAtom("n"), 1)
			if a.equal(want) {
				ok = true
			} else {
				detail = "offset is updated to " + a.String() + ", expected offset + n"
			}
		})
		r.Check(ok, key, c.Pos(read.Pos()), "offset += n (n = bytes returned by the wrapped Read)", detail)
	}
	// ReadByte and Seek: every read goes through the receiver itself (so it is counted)
	for _, name := range []string{"ReadByte", "Seek"} {
		fn, err := c.Func(pkgIntIO, "discardingReadSeekerPlusByte", name)
		if err != nil {
			r.InfraFail("%v", err)
			continue
		}
		key := "counted-source@" + fnKey(fn)
		recv := fn.Params[0]
		bad := ""
		n := 0
		eachInstr(fn, func(in ssa.Instruction) {
			ci, ok := in.(*ssa.Call)
			if !ok {
				return
			}
			f := calleeFunc(ci.Common())
			ra, _, isRead := bodyReadSpec(f)
			if isRead {
				n++
				arg := canon(ci.Call.Args[ra])
				if arg != ssa.Value(recv) {
					bad = fmt.Sprintf("%s at %s reads from something other than the counting receiver: these bytes are not added to offset", funcKey(f), c.Pos(ci.Pos()))
				}
				return
			}
			// direct Read on the embedded reader
			if f != nil && f.Name() == "Read" && ci.Common().IsInvoke() {
				n++
				bad = fmt.Sprintf("direct Read on the wrapped reader at %s bypasses the offset counter", c.Pos(ci.Pos()))
			}
		})
		if n == 0 {
			r.Undec(key, c.Pos(fn.Pos()), "no read found in "+name)
			continue
		}
		r.Check(bad == "", key, c.Pos(fn.Pos()), fmt.Sprintf("%d read(s), all through the counting receiver", n), bad)
	}
	// Seek: the number of bytes dropped is visibly the seek distance — one library call
	// that consumes exactly its length argument, not a hand-written loop whose total
	// would have to be computed.
	if fn, err := c.Func(pkgIntIO, "discardingReadSeekerPlusByte", "Seek"); err == nil && len(fn.Params) >= 2 {
		key := "skip-distance@" + fnKey(fn)
		env := &AffEnv{name: func(v ssa.Value) string {
			if loadsField(v, pkgIntIO, "discardingReadSeekerPlusByte", "offset") {
				return "cur"
			}
			if v == ssa.Value(fn.Params[1]) {
				return "target"
			}
			return ""
		}}
		bad, undec := "", ""
		n := 0
		eachInstr(fn, func(in ssa.Instruction) {
			ci, ok := in.(*ssa.Call)
			if !ok {
				return
			}
			f := calleeFunc(ci.Common())
			_, _, isRead := bodyReadSpec(f)
			if !isRead {
				return
			}
			n++
			for _, sc := range in.Block().Succs {
				if reach(fn, sc, nil)[in.Block()] {
					undec = fmt.Sprintf("the bytes of a forward seek are dropped by a loop (read at %s): that the loop consumes exactly the seek distance, for every distance, is not decided structurally — use one io.CopyN(io.Discard, r, distance)", c.Pos(in.Pos()))
				}
			}
			if !funcIs(f, "io", "", "CopyN") {
				if undec == "" {
					undec = fmt.Sprintf("forward seek implemented with %s at %s: the amount consumed is not a visible argument", f.Name(), c.Pos(in.Pos()))
				}
				return
			}
			a := env.of(ci.Call.Args[2])
			if !(a.equal(affAtom("target")) || a.equal(affAtom("target").add(affAtom("cur"), -1))) {
				// one CopyN behind the whence cases: the distance is a merge, and each input is the
				// distance of the case it comes from (io.SeekStart: target - current, io.SeekCurrent: target)
				if ph, isPhi := canon(ci.Call.Args[2]).(*ssa.Phi); isPhi && len(fn.Params) >= 3 && seekDistanceMerge(fn, ph, env) {
					return
				}
				bad = fmt.Sprintf("io.CopyN at %s drops %s bytes; a forward seek must drop exactly the distance (target, or target - current offset)", c.Pos(in.Pos()), a.String())
			}
		})
		switch {
		case bad != "":
			r.Viol(key, c.Pos(fn.Pos()), bad)
		case undec != "":
			r.Undec(key, c.Pos(fn.Pos()), undec)
		case n == 0:
			r.Undec(key, c.Pos(fn.Pos()), "no read found")
		default:
			r.Hold(key, c.Pos(fn.Pos()), fmt.Sprintf("%d io.CopyN call(s), each of exactly the seek distance", n))
		}
	}
}

// seekDistanceMerge: every input of the merged distance comes from under one `whence == k` outcome
// and is that case's distance.
func seekDistanceMerge(fn *ssa.Function, ph *ssa.Phi, env *AffEnv) bool {
	whence := fn.Params[2]
	under := map[int64]*ssa.BasicBlock{}         // k -> the block entered when whence == k
	notUnder := map[int64][][2]*ssa.BasicBlock{} // k -> (test block, block entered when whence != k)
	for _, b := range fn.Blocks {
		if len(b.Instrs) == 0 {
			continue
		}
		iff, ok := b.Instrs[len(b.Instrs)-1].(*ssa.If)
		if !ok {
			continue
		}
		base, neg := condNorm(iff.Cond)
		cmp, ok := base.(*ssa.BinOp)
		if !ok || cmp.Op != token.EQL && cmp.Op != token.NEQ {
			continue
		}
		var k int64
		var isK bool
		switch {
		case canon(cmp.X) == ssa.Value(whence):
			k, isK = constInt(cmp.Y)
		case canon(cmp.Y) == ssa.Value(whence):
			k, isK = constInt(cmp.X)
		}
		if !isK {
			continue
		}
		eq := cmp.Op == token.EQL
		if neg {
			eq = !eq
		}
		if eq {
			under[k] = b.Succs[0]
			notUnder[k] = append(notUnder[k], [2]*ssa.BasicBlock{b, b.Succs[1]})
		} else {
			under[k] = b.Succs[1]
			notUnder[k] = append(notUnder[k], [2]*ssa.BasicBlock{b, b.Succs[0]})
		}
	}
	if len(under) == 0 {
		return false
	}
	for i, e := range ph.Edges {
		p := ph.Block().Preds[i]
		var want *Aff
		var best *ssa.BasicBlock
		for k, sb := range under {
			if sb == p || sb.Dominates(p) {
				if best != nil && !best.Dominates(sb) {
					continue // keep the innermost case
				}
				w := affAtom("target")
				if k == 0 { // io.SeekStart
					w = affAtom("target").add(affAtom("cur"), -1)
				} else if k != 1 { // io.SeekCurrent
					return false
				}
				want, best = &w, sb
			}
		}
		if want == nil {
			// the "not io.SeekStart" side of the test, behind a guard that has refused everything but
			// io.SeekStart and io.SeekCurrent: io.SeekCurrent
			for _, nb := range notUnder[0] {
				if (nb[0] == p && ph.Block() == nb[1]) || nb[1] == p || nb[1].Dominates(p) && nb[1] != ph.Block() {
					w := affAtom("target")
					want = &w
				}
			}
		}
		if want == nil || !env.of(e).equal(*want) {
			return false
		}
	}
	return true
}

// ruleR03e: DataSize is payload-relative, so whatever is compared with it must be re-based too.
func ruleR03e(c *Ctx, r *Report) {
	fn, err := c.Func(modV2, "", "LoadIndex")
	if err != nil {
		r.InfraFail("%v", err)
		return
	}
	key := "payload-end-test@" + fnKey(fn)
	isSize := func(v ssa.Value) bool {
		hasField := false
		for _, o := range origins(v, originOpts{}) {
			switch {
			case o.Kind == "field" && o.Field != nil && o.Field.Name() == "DataSize":
				hasField = true
			case o.Kind == "const":
			default:
				return false
			}
		}
		return hasField
	}
	n := 0
	bad := ""
	eachInstr(fn, func(in ssa.Instruction) {
		b, ok := in.(*ssa.BinOp)
		if !ok {
			return
		}
		switch b.Op {
		case token.GEQ, token.GTR, token.LSS, token.LEQ:
		default:
			return
		}
		var other ssa.Value
		switch {
		case isSize(b.Y) && !isSize(b.X):
			other = b.X
		case isSize(b.X) && !isSize(b.Y):
			other = b.Y
		default:
			return
		}
		if _, isConst := constInt(other); isConst {
			return // sanity checks of the header fields themselves
		}
		n++
		for _, leaf := range phiLeaves(other) {
			sub, ok := leaf.(*ssa.BinOp)
			rebased := false
			if ok && sub.Op == token.SUB {
				for _, o := range origins(sub.Y, originOpts{}) {
					if o.Kind == "field" && o.Field != nil && o.Field.Name() == "DataOffset" {
						rebased = true
					}
				}
			}
			if !rebased {
				bad = fmt.Sprintf("at %s a file-relative position is compared with the payload size (DataSize): the scan stops DataOffset bytes early and the last sections of a CARv2 are not indexed", c.Pos(b.Pos()))
			}
		}
	})
	if n == 0 {
		bad = "no end-of-payload test against DataSize found: the scan of a CARv2 would run into the index"
	}
	r.Check(bad == "", key, c.Pos(fn.Pos()), "position - DataOffset compared with DataSize", bad)
}

func ruleR03f(c *Ctx, r *Report) {
	const llrbPkg = "github.com/petar/GoLLRB/llrb"
	nIns := 0
	for _, fn := range c.RepoFuncs() {
		if fn.Pkg == nil || fn.Pkg.Pkg.Path() != pkgIndex {
			continue
		}
		ord := 0
		eachInstr(fn, func(in ssa.Instruction) {
			ci, ok := in.(*ssa.Call)
			if !ok {
				return
			}
			f := calleeFunc(ci.Common())
			if f == nil || f.Pkg() == nil || f.Pkg().Path() != llrbPkg {
				return
			}
			switch f.Name() {
			case "InsertNoReplace", "InsertNoReplaceBulk":
				nIns++
				ord++
				r.Hold(fmt.Sprintf("llrb-insert@%s#%d", fnKey(fn), ord), c.Pos(in.Pos()), "keeps entries with equal digests side by side")
			case "ReplaceOrInsert", "ReplaceOrInsertBulk", "Delete", "DeleteMin", "DeleteMax":
				ord++
				r.Viol(fmt.Sprintf("llrb-insert@%s#%d", fnKey(fn), ord), c.Pos(in.Pos()), "llrb."+f.Name()+" on the insertion index: its Less compares bare digests, so records with equal digests (duplicate sections, the same digest under another hash code or codec, identity vs hashed) evict each other and present CIDs are reported not-found")
			}
		})
	}
	r.Count("llrb insertions in package index", nIns)
}

// phiCarriesItself: some input of the loop phi is (through other phis) the phi itself.
func phiCarriesItself(loop *ssa.Phi) bool {
	seen := map[ssa.Value]bool{}
	var walk func(v ssa.Value, top bool) bool
	walk = func(v ssa.Value, top bool) bool {
		v = canon(v)
		if !top && v == ssa.Value(loop) {
			return true
		}
		if seen[v] {
			return false
		}
		seen[v] = true
		if p, ok := v.(*ssa.Phi); ok {
			for _, e := range p.Edges {
				if walk(e, false) {
					return true
				}
			}
		}
		return false
	}
	return walk(loop, true)
}

// ruleR03g: InsertionIndex.GetAll enumerates every record with the key's digest:
// its ascend callback stops (returns false) only on a digest mismatch or when the
// consumer's callback says so.
func ruleR03g(c *Ctx, r *Report) {
	fn, err := c.Func(pkgIndex, "InsertionIndex", "GetAll")
	if err != nil {
		r.InfraFail("%v", err)
		return
	}
	key := "getall-enumerates@" + fnKey(fn)
	var it *ssa.Function
	if len(closuresOf(fn)) == 1 {
		it = closuresOf(fn)[0]
	} else {
		// the iterator handed to the tree walk as a method value or a named function
		eachInstr(fn, func(in ssa.Instruction) {
			ci, ok := in.(*ssa.Call)
			if !ok {
				return
			}
			if f := calleeFunc(ci.Common()); f == nil || !strings.HasPrefix(f.Name(), "Ascend") {
				return
			}
			for _, a := range ci.Common().Args {
				if t := funcValueTarget(a); t != nil && t.Blocks != nil && t.Pkg != nil && t.Pkg.Pkg.Path() == pkgIndex {
					it = t
				}
			}
		})
	}
	if it == nil {
		r.Undec(key, c.Pos(fn.Pos()), "iterator closure not found")
		return
	}
	isDigest := func(v ssa.Value) bool {
		fv, _ := fieldOfLoad(canon(v))
		// a record's digest, or the decoded multihash's (the search entry is built from it)
		return fv != nil && (fv.Name() == "digest" || fv.Name() == "Digest" && fv.Pkg() != nil && fv.Pkg().Path() == pkgMh)
	}
	isRecordDigest := func(v ssa.Value) bool {
		fv, _ := fieldOfLoad(canon(v))
		return fv != nil && fv.Name() == "digest"
	}
	mismatch := condEdges(it, matchCallCond("bytes", "", "Equal", false, func(cl *ssa.Call) bool {
		return isDigest(cl.Call.Args[0]) && isDigest(cl.Call.Args[1]) && (isRecordDigest(cl.Call.Args[0]) || isRecordDigest(cl.Call.Args[1]))
	}))
	bad := ""
	if len(mismatch) == 0 {
		bad = "the iterator has no digest comparison"
	}
	reachable := reach(it, nil, edgeSet(mismatch))
	for _, ret := range returnsOf(it) {
		v := canon(ret.Results[0])
		if b, ok := constBool(v); ok {
			if !b && reachable[ret.Block()] {
				bad = fmt.Sprintf("the iterator stops at %s for a record that HAS the key's digest: later records with that digest (duplicates, the same digest under another hash code) are never offered to the caller", c.Pos(ret.Pos()))
			}
			continue
		}
		// the consumer callback's verdict
		if cl, _ := callOf(v); cl == nil || staticTarget(cl.Common()) != nil || cl.Common().IsInvoke() {
			bad = "the iterator returns something other than a constant or the consumer's verdict"
		}
	}
	r.Check(bad == "", key, c.Pos(it.Pos()), "stops only on digest mismatch or when the consumer stops", bad)
}

// ruleR03h: LoadIndex hands the collected records to idx.Load once, after the scan:
// Load of the sorted index types replaces what was loaded before.
func ruleR03h(c *Ctx, r *Report) {
	fn, err := c.Func(modV2, "", "LoadIndex")
	if err != nil {
		r.InfraFail("%v", err)
		return
	}
	key := "load-once@" + fnKey(fn)
	var loads []ssa.Instruction
	eachInstr(fn, func(in ssa.Instruction) {
		if ci, ok := in.(*ssa.Call); ok && ci.Common().IsInvoke() && ci.Common().Method.Name() == "Load" {
			loads = append(loads, in)
		}
	})
	bad := ""
	if len(loads) != 1 {
		bad = fmt.Sprintf("expected exactly one idx.Load call, found %d", len(loads))
	} else if instrReaches(loads[0], loads[0]) {
		bad = "idx.Load is called inside the scan loop: the sorted index types rebuild their buckets on every Load, so all but the last batch are lost"
	}
	r.Check(bad == "", key, c.Pos(fn.Pos()), "one idx.Load(records) after the scan", bad)
}

func ruleR03i(c *Ctx, r *Report) {
	for _, name := range []string{"Less", "getAll", "forEachDigest"} {
		fn, err := c.Func(pkgIndex, "singleWidthIndex", name)
		if err != nil {
			r.InfraFail("%v", err)
			continue
		}
		key := "record-layout@" + fnKey(fn)
		env := &AffEnv{name: func(v ssa.Value) string {
			if loadsField(strip(v), pkgIndex, "singleWidthIndex", "width") {
				return "W"
			}
			return ""
		}}
		type sl struct{ lo, hi Aff }
		var digests, offsets []sl
		bad := ""
		eachInstr(fn, func(in ssa.Instruction) {
			x, ok := in.(*ssa.Slice)
			if !ok || !loadsField(canon(x.X), pkgIndex, "singleWidthIndex", "index") {
				return
			}
			if x.Low == nil || x.High == nil {
				bad = "a record is sliced with an open bound"
				return
			}
			lo, hi := env.of(x.Low), env.of(x.High)
			d := hi.add(lo, -1)
			switch {
			case d.equal(affAtom("W").add(Aff{K: 8}, -1)):
				digests = append(digests, sl{lo, hi})
				for k := range lo.T {
					if !strings.Contains(k, "*W)") && !strings.Contains(k, "(W*") {
						bad = "a digest slice does not start at a multiple of the record width: " + lo.String()
					}
				}
				if lo.K != 0 {
					bad = "a digest slice does not start at a multiple of the record width: " + lo.String()
				}
			case d.equal(Aff{K: 8}):
				offsets = append(offsets, sl{lo, hi})
			default:
				bad = "a slice of the compact bucket has length " + d.String() + ": records are digest (w-8 bytes) followed by an 8-byte offset"
			}
		})
		if bad == "" && len(digests) == 0 {
			bad = "no digest slice found"
		}
		if bad == "" {
			for _, o := range offsets {
				ok := false
				for _, d := range digests {
					if d.hi.equal(o.lo) {
						ok = true
					}
				}
				if !ok {
					bad = "the offset is not read from the 8 bytes that directly follow the digest of the same record"
				}
			}
		}
		r.Check(bad == "", key, c.Pos(fn.Pos()), fmt.Sprintf("%d digest slice(s) [i*w, i*w+w-8), %d offset slice(s) directly behind", len(digests), len(offsets)), bad)
	}
	// writer
	if fn, err := c.Func(pkgIndex, "digestRecord", "write"); err != nil {
		r.InfraFail("%v", err)
	} else {
		key := "record-layout@" + fnKey(fn)
		bad := "write does not place the digest at the start of the slot and the offset directly behind it"
		var n ssa.Value
		eachInstr(fn, func(in ssa.Instruction) {
			ci, ok := in.(*ssa.Call)
			if !ok {
				return
			}
			if b, isB := ci.Call.Value.(*ssa.Builtin); isB && b.Name() == "copy" {
				dst, isSl := ci.Call.Args[0].(*ssa.Slice)
				fv, _ := fieldOfLoad(canon(ci.Call.Args[1]))
				if isSl && dst.Low == nil && canon(dst.X) == ssa.Value(fn.Params[1]) && fv != nil && fv.Name() == "digest" {
					n = ci
				}
			}
			if f := calleeFunc(ci.Common()); f != nil && f.Name() == "PutUint64" && n != nil {
				dst, isSl := ci.Call.Args[1].(*ssa.Slice)
				fv, _ := fieldOfLoad(canon(ci.Call.Args[2]))
				if isSl && dst.Low != nil && canon(dst.Low) == n && canon(dst.X) == ssa.Value(fn.Params[1]) && fv != nil && fv.Name() == "index" {
					bad = ""
				}
			}
		})
		r.Check(bad == "", key, c.Pos(fn.Pos()), "slot = digest || LE64(offset)", bad)
	}
	// search predicate
	if fn, err := c.Func(pkgIndex, "singleWidthIndex", "Less"); err == nil {
		key := "search-predicate@" + fnKey(fn)
		bad := "Less is not bytes.Compare(key, record digest) <= 0"
		for _, ret := range returnsOf(fn) {
			b, ok := canon(ret.Results[0]).(*ssa.BinOp)
			if !ok {
				continue
			}
			cc, _ := callOf(b.X)
			k, isK := constInt(b.Y)
			if cc == nil || !funcIs(calleeFunc(cc.Common()), "bytes", "", "Compare") || !isK || k != 0 {
				bad = fmt.Sprintf("the search predicate returns at %s something other than bytes.Compare(key, record digest) <= 0: a comparison of a prefix, or of anything but the whole digest, lands the bisection on the wrong record for keys that share that prefix", c.Pos(ret.Pos()))
				break
			}
			keyFirst := false
			if sl, isSl := cc.Call.Args[0].(*ssa.Slice); isSl && canon(sl.X) == ssa.Value(fn.Params[2]) {
				keyFirst = true
			} else if canon(cc.Call.Args[0]) == ssa.Value(fn.Params[2]) {
				keyFirst = true
			}
			switch {
			case keyFirst && b.Op == token.LEQ:
				bad = ""
			case !keyFirst && b.Op == token.GEQ:
				bad = ""
			default:
				bad = "the binary-search predicate is `" + b.Op.String() + " 0`: sort.Search must find the FIRST record whose digest is >= the key (Compare(key, record) <= 0) or duplicates and equal keys are skipped"
			}
		}
		r.Check(bad == "", key, c.Pos(fn.Pos()), "sort.Search predicate: key <= record digest", bad)
	}
}

// ruleR03j: offsets recorded by index generation are positions of these cursors.
func ruleR03j(c *Ctx, r *Report) {
	for _, t := range []struct{ typ, method, field, under string }{
		{"readerAtSeeker", "Read", "position", "ReadAt"},
		{"offsetReadSeeker", "Read", "off", "ReadAt"},
		{"OffsetWriteSeeker", "Write", "offset", "WriteAt"},
		{"discardingReadSeekerPlusByte", "Read", "offset", "Read"},
	} {
		fn, err := c.Func(pkgIntIO, t.typ, t.method)
		if err != nil {
			r.InfraFail("%v", err)
			continue
		}
		key := "cursor@" + fnKey(fn)
		var call *ssa.Call
		eachInstr(fn, func(in ssa.Instruction) {
			ci, ok := in.(*ssa.Call)
			if !ok {
				return
			}
			if f := calleeFunc(ci.Common()); f != nil && f.Name() == t.under && ci.Common().IsInvoke() {
				call = ci
			}
		})
		if call == nil {
			r.Undec(key, c.Pos(fn.Pos()), "no call of the wrapped "+t.under+" found")
			continue
		}
		env := &AffEnv{name: func(v ssa.Value) string {
			if loadsField(v, pkgIntIO, t.typ, t.field) {
				return "cursor"
			}
			if cl, idx := callOf(v); cl == call && idx == 0 {
				return "n"
			}
			// named result spilled to a cell because of a defer
			if cl, idx := callOf(canon(v)); cl == call && idx == 0 {
				return "n"
			}
			return ""
		}}
		want := affAtom("cursor").add(affAtom("n"), 1)
		var store *ssa.Store
		got := ""
		eachInstr(fn, func(in ssa.Instruction) {
			st, ok := in.(*ssa.Store)
			if !ok {
				return
			}
			fa, ok := st.Addr.(*ssa.FieldAddr)
			if !ok || !fieldAddrIs(fa, pkgIntIO, t.typ, t.field) {
				return
			}
			a := env.of(st.Val)
			if a.equal(want) {
				store = st
			} else {
				got = a.String()
			}
		})
		if store == nil {
			r.Viol(key, c.Pos(fn.Pos()), "the cursor "+t.field+" is not advanced by the returned byte count (stored: "+got+")")
			continue
		}
		bad := ""
		if store.Block() != call.Block() || instrIndex(store) < instrIndex(call) {
			cut := EdgeSet{}
			for _, b := range fn.Blocks {
				for i, sc := range b.Succs {
					if sc == store.Block() {
						cut[Edge{From: b, Succ: i}] = true
					}
				}
			}
			rs := reach(fn, call.Block(), cut)
			for _, ret := range returnsOf(fn) {
				if !rs[ret.Block()] || len(ret.Results) == 0 {
					continue
				}
				if k, ok := constInt(ret.Results[0]); ok && k == 0 {
					continue
				}
				bad = fmt.Sprintf("the return at %s can hand out a non-zero byte count without advancing %s: the bytes were delivered but the next read/write starts at the old position (offsets recorded from this cursor are then wrong)", c.Pos(ret.Pos()), t.field)
			}
		}
		r.Check(bad == "", key, c.Pos(fn.Pos()), t.field+" += n on every path that returns n", bad)
	}
}

func ruleR03o(c *Ctx, r *Report) {
	want := map[string]map[string]bool{
		"ToByteReader":     {"readerPlusByte": true},
		"ToByteReadSeeker": {"readSeekerPlusByte": true, "discardingReadSeekerPlusByte": true},
		"ToReadSeeker":     {"readerAtSeeker": true},
		"ToReaderAt":       {"readSeekerAt": true},
	}
	for _, name := range []string{"ToByteReader", "ToByteReadSeeker", "ToReadSeeker", "ToReaderAt"} {
		fn, err := c.Func(pkgIntIO, "", name)
		if err != nil {
			r.InfraFail("%v", err)
			continue
		}
		key := "adapter-set@" + fnKey(fn)
		var bad []string
		n := 0
		for _, t := range concreteReturns(c, fn, 0, 0) {
			nt := namedOf(t)
			if nt == nil {
				continue // the argument itself, asserted to the wanted interface
			}
			if nt.Obj().Pkg() == nil || nt.Obj().Pkg().Path() != pkgIntIO {
				continue
			}
			if _, isIface := nt.Underlying().(*types.Interface); isIface {
				continue
			}
			n++
			if !want[name][nt.Obj().Name()] {
				bad = append(bad, nt.Obj().Name())
			}
		}
		sort.Strings(bad)
		r.Check(len(bad) == 0, key, c.Pos(fn.Pos()), fmt.Sprintf("%d adapter type(s), all known", n),
			"returns the adapter type(s) "+strings.Join(bad, ", ")+", which the pinned tree does not have: its reads are outside the byte accounting (position of a non-seekable source) and the payload bound that the existing adapters are checked for")
	}
}
