package main

import (
	"fmt"
	"go/constant"
	"go/token"
	"go/types"
	"sort"
	"strings"

	"golang.org/x/tools/go/ssa"
)

func init() {
	register(PropertyDef{
		ID: "C17",
		Explanation: "Decided statically, over every function reachable (repository call graph) from the extraction entry points: (R17a) each filesystem-mutating call " +
			"(os.Create/OpenFile/Mkdir/MkdirAll/Symlink/WriteFile/Remove*/Rename/Truncate/Link/Chmod/Chown/Chtimes) receives a path that originates only from the " +
			"sanitiser resolvePath, on its success outcome, or — for creating the output directory itself — from EvalSymlinks of the user's directory; parameters are " +
			"followed to their call sites; (R17b) the sanitiser returns a path only behind `EvalSymlinks(Dir(joined)) == Clean(Dir(joined))`, the returned value is " +
			"Join(root, Rel(\"/\", virtual)), the root handed in is the resolved output directory and every virtual path is \"/\", a constant under \"/\", or " +
			"path.Join(<virtual path of the enclosing directory>, <entry name>); (R17c) a sink that follows a symlink in the final component is fed only by a sanitiser " +
			"that refuses a final component that is a symlink (os.Lstat + ModeSymlink), and is not applied to a path at which this run has just created a symlink. " +
			"NOT decided: TOCTOU races against a concurrent local attacker, platform semantics of path/filepath, behaviour of go-unixfsnode.",
		Assumptions: []string{"path.Join cleans its result, so Join(\"/\"-rooted virtual path, name) cannot climb above \"/\"", "filepath.EvalSymlinks resolves every symlink in the path"},
		Rules: []RuleDef{
			{ID: "R17a", Floor: 4, Doc: "sink provenance: every FS mutation gets a path from resolvePath (success outcome) or the resolved output directory", Run: ruleR17a},
			{ID: "R17b", Floor: 1 + 3, Doc: "sanitiser integrity and well-formed arguments at its call sites", Run: ruleR17b},
			{ID: "R17d", Floor: 1, Doc: "extraction is sequential: no goroutine is started in the extraction scope, so nothing the extractor itself creates can appear between a path's resolvePath check and its use", Run: ruleR17d},
			{ID: "R17c", Floor: 1, Doc: "symlink-following sinks need a final-component guard (Lstat) in the sanitiser and no symlink just created at that path", Run: ruleR17c},
			{ID: "R17e", Floor: 1, Doc: "the extractor never removes or replaces an existing path (= R18f)", Run: ruleR18f},
			{ID: "R17f", Floor: 3, Doc: "a refused path is not handed out and the refusal is what gets tested: every error return of resolvePath carries the empty path, and every caller tests (or returns) the error of resolvePath itself before anything else is assigned to that variable", Run: ruleR17f},
			{ID: "R17h", Floor: 1, Doc: "the output directory is resolved as the user spelled it: filepath.EvalSymlinks is given the parameter itself, not a lexically cleaned form of it", Run: ruleR17h},
			{ID: "R17i", Floor: 2, Doc: "the test for standard-output mode (\"-\") in ExtractToDir and extractFile is made on the name the caller passed, never on a path derived from it", Run: ruleR17i},
		},
	})
}

// fsSink describes an os function that mutates the filesystem; path arg indexes; follows = it follows a symlink in the last component.
type fsSink struct {
	args    []int
	follows bool
}

var fsSinks = map[string]fsSink{
	"Create": {[]int{0}, true}, "OpenFile": {[]int{0}, true}, "WriteFile": {[]int{0}, true}, "Truncate": {[]int{0}, true},
	"Chmod": {[]int{0}, true}, "Chown": {[]int{0}, true}, "Chtimes": {[]int{0}, true},
	"Mkdir": {[]int{0}, false}, "MkdirAll": {[]int{0}, false}, "Symlink": {[]int{1}, false}, "Link": {[]int{0, 1}, false},
	"Remove": {[]int{0}, false}, "RemoveAll": {[]int{0}, false}, "Rename": {[]int{0, 1}, false}, "Lchown": {[]int{0}, false},
	"MkdirTemp": {[]int{0}, false}, "CreateTemp": {[]int{0}, false},
}

func extractionScope(c *Ctx) ([]*ssa.Function, error) {
	var roots []*ssa.Function
	for _, s := range []fnSpec{{pkgCmdLib, "", "ExtractToDir"}, {pkgCmdLib, "", "ExtractFromFile"}, {pkgCmdCar, "", "ExtractCar"}} {
		fn, err := c.Func(s.pkg, s.recv, s.name)
		if err != nil {
			return nil, err
		}
		roots = append(roots, fn)
	}
	seen := map[*ssa.Function]bool{}
	var out []*ssa.Function
	var visit func(fn *ssa.Function)
	visit = func(fn *ssa.Function) {
		if fn == nil || seen[fn] || fn.Blocks == nil || fn.Pkg == nil {
			return
		}
		p := fn.Pkg.Pkg.Path()
		if p != pkgCmdLib && p != pkgCmdCar {
			return
		}
		seen[fn] = true
		out = append(out, fn)
		for _, a := range fn.AnonFuncs {
			visit(a)
		}
		eachInstr(fn, func(in ssa.Instruction) {
			if ci, ok := in.(ssa.CallInstruction); ok {
				if sc := staticTarget(ci.Common()); sc != nil {
					visit(sc)
				}
				for _, callee := range c.Callees(ci) {
					visit(callee)
				}
			}
		})
	}
	for _, r := range roots {
		visit(r)
	}
	return out, nil
}

type pathLeaf struct {
	o     Origin
	fn    *ssa.Function     // function the leaf lives in
	chain []ssa.Instruction // call sites walked through (innermost first)
}

// pathLeaves expands a path value to its origins, following parameters of scope
// functions to the arguments at their call sites and free variables to bindings.
func pathLeaves(c *Ctx, scope []*ssa.Function, fn *ssa.Function, v ssa.Value, depth int, chain []ssa.Instruction) []pathLeaf {
	return pathLeavesV(c, scope, fn, v, depth, chain, map[*ssa.Parameter]bool{})
}

func pathLeavesV(c *Ctx, scope []*ssa.Function, fn *ssa.Function, v ssa.Value, depth int, chain []ssa.Instruction, visiting map[*ssa.Parameter]bool) []pathLeaf {
	var out []pathLeaf
	for _, o := range origins(v, originOpts{through: func(call *ssa.Call, f *types.Func) []ssa.Value {
		return nil
	}}) {
		if o.Kind == "param" && depth < 6 {
			p := o.Val.(*ssa.Parameter)
			if visiting[p] {
				continue // recursion: contributes nothing beyond the outer call sites
			}
			visiting[p] = true
			defer delete(visiting, p)
			owner := p.Parent()
			idx := -1
			for i, q := range owner.Params {
				if q == p {
					idx = i
				}
			}
			n := 0
			for _, g := range scope {
				eachInstr(g, func(in ssa.Instruction) {
					ci, ok := in.(ssa.CallInstruction)
					if !ok {
						return
					}
					hit := staticTarget(ci.Common()) == owner
					if !hit {
						// calls through a local closure variable
						if mc, ok := canon(ci.Common().Value).(*ssa.MakeClosure); ok && mc.Fn == ssa.Value(owner) {
							hit = true
						}
					}
					if !hit {
						return
					}
					n++
					out = append(out, pathLeavesV(c, scope, g, ci.Common().Args[idx], depth+1, append(append([]ssa.Instruction{}, chain...), in), visiting)...)
				})
			}
			if n > 0 {
				continue
			}
		}
		out = append(out, pathLeaf{o, fn, chain})
	}
	return out
}

func isResolvePathCall(o Origin) bool {
	return o.Kind == "call" && funcIs(o.Fn, pkgCmdLib, "", "resolvePath") && o.Res == 0
}

func ruleR17a(c *Ctx, r *Report) {
	scope, err := extractionScope(c)
	if err != nil {
		r.InfraFail("%v", err)
		return
	}
	r.Count("functions reachable from the extraction entry points (cmd/car, cmd/car/lib)", len(scope))
	ord := map[string]int{}
	for _, fn := range scope {
		eachInstr(fn, func(in ssa.Instruction) {
			ci, ok := in.(*ssa.Call)
			if !ok {
				return
			}
			f := calleeFunc(ci.Common())
			if f == nil || f.Pkg() == nil || (f.Pkg().Path() != "os" && f.Pkg().Path() != "io/ioutil") {
				return
			}
			sk, ok := fsSinks[f.Name()]
			if !ok {
				return
			}
			base := fnKey(fn) + "#os." + f.Name()
			ord[base]++
			key := fmt.Sprintf("fs-sink@%s#%d", base, ord[base])
			bad := ""
			nres := 0
			for _, ai := range sk.args {
				for _, lf := range pathLeaves(c, scope, fn, ci.Call.Args[ai], 0, nil) {
					switch {
					case isResolvePathCall(lf.o):
						nres++
						// on the success outcome of that resolvePath
						rc, _ := callOf(lf.o.Val)
						okEdges := condEdges(lf.fn, errNilCond(errOfCall(rc), true))
						var at ssa.Instruction = in
						if len(lf.chain) > 0 {
							at = lf.chain[len(lf.chain)-1]
						}
						if len(okEdges) == 0 || reach(lf.fn, rc.Block(), edgeSet(okEdges))[at.Block()] {
							bad = fmt.Sprintf("the path comes from resolvePath at %s but is used without its error having been found nil", c.Pos(rc.Pos()))
						}
					case lf.o.Kind == "call" && funcIs(lf.o.Fn, "path/filepath", "", "EvalSymlinks") && f.Name() == "Mkdir":
						// creating the output directory itself
					case lf.o.Kind == "const":
						if k, ok := lf.o.Val.(*ssa.Const); ok && k.Value != nil && k.Value.Kind() == constant.String && constant.StringVal(k.Value) == "" {
							// "" = stdout mode, never reaches the sink (guarded by outputName == "")
							continue
						}
						bad = "constant path handed to os." + f.Name()
					default:
						what := lf.o.Kind
						if lf.o.Kind == "call" {
							what = "result of " + funcKey(lf.o.Fn)
						}
						bad = fmt.Sprintf("os.%s receives a path that does not come out of resolvePath (origin: %s, in %s): entry names from the archive reach the filesystem unsanitised", f.Name(), what, fnKey(lf.fn))
					}
				}
			}
			r.Check(bad == "", key, c.Pos(in.Pos()), fmt.Sprintf("path(s) from resolvePath on its success outcome (%d origin(s))", nres), bad)
		})
	}
}

func ruleR17b(c *Ctx, r *Report) {
	fn, err := c.Func(pkgCmdLib, "", "resolvePath")
	if err != nil {
		r.InfraFail("%v", err)
		return
	}
	key := "sanitiser@" + fnKey(fn)
	pos := c.Pos(fn.Pos())
	if len(fn.Params) != 2 {
		r.Undec(key, pos, "signature changed")
		return
	}
	rootP, pthP := fn.Params[0], fn.Params[1]
	var okRets []*ssa.Return
	for _, ret := range returnsOf(fn) {
		if isNilConst(ret.Results[1]) {
			okRets = append(okRets, ret)
		}
	}
	if len(okRets) == 0 {
		r.Undec(key, pos, "no success return")
		return
	}
	bad := ""
	// returned value = Join(root, Rel("/", pth))
	var joined ssa.Value
	for _, ret := range okRets {
		jc, _ := callOf(canon(ret.Results[0]))
		if jc == nil || !(funcIs(calleeFunc(jc.Common()), "path", "", "Join") || funcIs(calleeFunc(jc.Common()), "path/filepath", "", "Join")) {
			bad = "the sanitiser returns something other than Join(root, rel)"
			break
		}
		elems := sliceLiteralElems(jc.Call.Args[0])
		if len(elems) != 2 || canon(elems[0]) != ssa.Value(rootP) {
			bad = "the returned path is not rooted at the output directory parameter"
			break
		}
		rc, ri := callOf(canon(elems[1]))
		if rc == nil || ri != 0 || !funcIs(calleeFunc(rc.Common()), "path/filepath", "", "Rel") {
			bad = "the relative part is not filepath.Rel(\"/\", virtual path)"
			break
		}
		if k, ok := rc.Call.Args[0].(*ssa.Const); !ok || constant.StringVal(k.Value) != "/" || canon(rc.Call.Args[1]) != ssa.Value(pthP) {
			bad = "the relative part is not filepath.Rel(\"/\", virtual path)"
			break
		}
		joined = canon(ret.Results[0])
	}
	if bad == "" {
		// EvalSymlinks(Dir(joined)) == Clean(Dir(joined))
		isDirJoined := func(v ssa.Value) bool {
			dc, _ := callOf(canon(v))
			return dc != nil && (funcIs(calleeFunc(dc.Common()), "path", "", "Dir") || funcIs(calleeFunc(dc.Common()), "path/filepath", "", "Dir")) && canon(dc.Call.Args[0]) == joined
		}
		eq := cmpEdges(fn,
			func(v ssa.Value) bool {
				ec, ei := callOf(canon(v))
				return ec != nil && ei == 0 && funcIs(calleeFunc(ec.Common()), "path/filepath", "", "EvalSymlinks") && isDirJoined(ec.Call.Args[0])
			},
			func(v ssa.Value) bool {
				cc, _ := callOf(canon(v))
				return cc != nil && (funcIs(calleeFunc(cc.Common()), "path", "", "Clean") || funcIs(calleeFunc(cc.Common()), "path/filepath", "", "Clean")) && isDirJoined(cc.Call.Args[0])
			}, "eq")
		if len(eq) == 0 {
			bad = "the sanitiser no longer requires EvalSymlinks(Dir(joined)) == Clean(Dir(joined)): a parent component that is a symlink (created by an earlier entry) redirects the write"
		} else {
			reachable := reach(fn, nil, edgeSet(eq))
			for _, ret := range okRets {
				if reachable[ret.Block()] {
					bad = "a success return of the sanitiser is reachable without the parent-directory symlink comparison"
				}
			}
		}
	}
	r.Check(bad == "", key, pos, "returns Join(root, Rel(\"/\", p)) only behind EvalSymlinks(Dir) == Clean(Dir)", bad)

	// call sites
	scope, err := extractionScope(c)
	if err != nil {
		r.InfraFail("%v", err)
		return
	}
	ord := map[string]int{}
	for _, g := range c.RepoFuncs() {
		eachInstr(g, func(in ssa.Instruction) {
			ci, ok := in.(*ssa.Call)
			if !ok || staticTarget(ci.Common()) != fn {
				return
			}
			ord[fnKey(g)]++
			k := fmt.Sprintf("sanitiser-args@%s#%d", fnKey(g), ord[fnKey(g)])
			b := ""
			// root argument: EvalSymlinks result, through parameters
			for _, lf := range pathLeaves(c, scope, g, ci.Call.Args[0], 0, nil) {
				if !(lf.o.Kind == "call" && funcIs(lf.o.Fn, "path/filepath", "", "EvalSymlinks")) && !(lf.o.Kind == "const") {
					b = "the root handed to resolvePath is not the symlink-resolved output directory (origin " + lf.o.Kind + " in " + fnKey(lf.fn) + ")"
				}
			}
			// virtual path: "/", "/const", Join(virtual-path parameter, name)
			if b == "" && !virtualPathOK(ci.Call.Args[1], 0) {
				b = "the virtual path handed to resolvePath is not \"/\", a constant below \"/\", or path.Join(<directory's virtual path>, <name>)"
			}
			r.Check(b == "", k, c.Pos(in.Pos()), "root = resolved output dir; virtual path rooted at \"/\"", b)
		})
	}
}

func virtualPathOK(v ssa.Value, depth int) bool {
	if depth > 4 {
		return false
	}
	for _, o := range origins(v, originOpts{}) {
		switch o.Kind {
		case "const":
			k, ok := o.Val.(*ssa.Const)
			if !ok || k.Value == nil || k.Value.Kind() != constant.String {
				return false
			}
			s := constant.StringVal(k.Value)
			if !strings.HasPrefix(s, "/") || strings.Contains(s, "..") {
				return false
			}
		case "call":
			if !(funcIs(o.Fn, "path", "", "Join")) {
				return false
			}
			cl, _ := callOf(o.Val)
			elems := sliceLiteralElems(cl.Call.Args[0])
			if len(elems) < 1 || !virtualPathOK(elems[0], depth+1) {
				return false
			}
		case "param":
			// the virtual path of the enclosing directory: checked at the call sites of that function
			p := o.Val.(*ssa.Parameter)
			if !isStringType(p.Type()) {
				return false
			}
			owner := p.Parent()
			idx := -1
			for i, q := range owner.Params {
				if q == p {
					idx = i
				}
			}
			ok := true
			n := 0
			if owner.Pkg != nil {
				for _, m := range owner.Pkg.Members {
					g, isFn := m.(*ssa.Function)
					if !isFn {
						continue
					}
					for _, gg := range withAnon(g) {
						eachInstr(gg, func(in ssa.Instruction) {
							if ci, isCall := in.(ssa.CallInstruction); isCall && staticTarget(ci.Common()) == owner {
								n++
								if depth < 3 && !virtualPathOK(ci.Common().Args[idx], depth+1) {
									ok = false
								}
							}
						})
					}
				}
			}
			if !ok || n == 0 {
				return false
			}
		default:
			return false
		}
	}
	return true
}

func isStringType(t types.Type) bool {
	b, ok := t.Underlying().(*types.Basic)
	return ok && b.Kind() == types.String
}

// sanitiserRefusesFinalSymlink: every success return of resolvePath is behind
// Lstat(joined) failing (nothing there) or Mode()&ModeSymlink == 0.
func sanitiserRefusesFinalSymlink(c *Ctx) (bool, string) {
	fn, err := c.Func(pkgCmdLib, "", "resolvePath")
	if err != nil {
		return false, err.Error()
	}
	ls := callsToFunc(fn, "os", "", "Lstat")
	if len(ls) == 0 {
		return false, "resolvePath performs no os.Lstat on the resulting path (os.Stat follows the link and cannot see it)"
	}
	var okRets []*ssa.Return
	for _, ret := range returnsOf(fn) {
		if isNilConst(ret.Results[1]) {
			okRets = append(okRets, ret)
		}
	}
	for _, l := range ls {
		// must be applied to the returned path
		onReturned := false
		for _, ret := range okRets {
			if canon(ret.Results[0]) == canon(l.Common().Args[0]) {
				onReturned = true
			}
		}
		if !onReturned {
			continue
		}
		absent := condEdges(fn, errNilCond(errOfCall(l), false))
		notLink := condEdges(fn, func(base ssa.Value) (bool, bool) {
			b, ok := base.(*ssa.BinOp)
			if !ok || (b.Op != token.EQL && b.Op != token.NEQ) {
				return false, false
			}
			var other ssa.Value
			if k, ok := constInt(b.Y); ok && k == 0 {
				other = b.X
			} else if k, ok := constInt(b.X); ok && k == 0 {
				other = b.Y
			} else {
				return false, false
			}
			and, ok := strip(other).(*ssa.BinOp)
			if !ok || and.Op != token.AND {
				return false, false
			}
			isSym := func(v ssa.Value) bool { k, ok := constInt(v); return ok && k == int64(1<<27) } // os.ModeSymlink
			if !isSym(and.X) && !isSym(and.Y) {
				return false, false
			}
			return true, b.Op == token.EQL
		})
		if len(notLink) == 0 {
			continue
		}
		reachable := reach(fn, nil, edgeSet(absent, notLink))
		ok := true
		for _, ret := range okRets {
			if reachable[ret.Block()] {
				ok = false
			}
		}
		if ok {
			return true, ""
		}
	}
	return false, "resolvePath can return a path whose final component is an existing symlink (no Lstat + ModeSymlink guard on all success paths)"
}

func ruleR17c(c *Ctx, r *Report) {
	scope, err := extractionScope(c)
	if err != nil {
		r.InfraFail("%v", err)
		return
	}
	guardOK, guardWhy := sanitiserRefusesFinalSymlink(c)
	ord := map[string]int{}
	for _, fn := range scope {
		eachInstr(fn, func(in ssa.Instruction) {
			ci, ok := in.(*ssa.Call)
			if !ok {
				return
			}
			f := calleeFunc(ci.Common())
			if f == nil || f.Pkg() == nil || f.Pkg().Path() != "os" {
				return
			}
			sk, ok := fsSinks[f.Name()]
			if !ok || !sk.follows {
				return
			}
			if f.Name() == "OpenFile" {
				if fl, isK := constInt(ci.Call.Args[1]); isK && (fl&0x80 != 0 || fl&0x20000 != 0) { // O_EXCL | O_NOFOLLOW
					return
				}
			}
			base := fnKey(fn) + "#os." + f.Name()
			ord[base]++
			key := fmt.Sprintf("following-sink@%s#%d", base, ord[base])
			bad := ""
			for _, lf := range pathLeaves(c, scope, fn, ci.Call.Args[sk.args[0]], 0, nil) {
				if !isResolvePathCall(lf.o) {
					continue // R17a reports foreign origins
				}
				if !guardOK {
					bad = "os." + f.Name() + " follows a symlink in the final path component, and " + guardWhy
				}
				// a symlink created at the same path value earlier in this run
				var at ssa.Instruction = in
				if len(lf.chain) > 0 {
					at = lf.chain[len(lf.chain)-1]
				}
				eachInstr(lf.fn, func(sin ssa.Instruction) {
					sc, ok := sin.(*ssa.Call)
					if !ok || !funcIs(calleeFunc(sc.Common()), "os", "", "Symlink") {
						return
					}
					for _, o := range origins(sc.Call.Args[1], originOpts{}) {
						if o.Val == lf.o.Val && instrReaches(sin, at) {
							bad = fmt.Sprintf("os.%s is applied to a path at which os.Symlink (at %s) has just created a link with an archive-chosen target: it acts on the target, outside the output directory", f.Name(), c.Pos(sin.Pos()))
						}
					}
				})
			}
			r.Check(bad == "", key, c.Pos(in.Pos()), "path from a sanitiser that refuses a symlink as final component; no link created at it before", bad)
		})
	}
}

// ruleR17d: resolvePath is a check-then-use scheme; it is only sound when entries are handled one after another.
func ruleR17d(c *Ctx, r *Report) {
	scope, err := extractionScope(c)
	if err != nil {
		r.InfraFail("%v", err)
		return
	}
	var bad []string
	for _, fn := range scope {
		eachInstr(fn, func(in ssa.Instruction) {
			g, ok := in.(*ssa.Go)
			if !ok {
				return
			}
			// only goroutines that can reach the sanitiser or a file-system sink matter
			var tgt []*ssa.Function
			if mc, isMC := g.Call.Value.(*ssa.MakeClosure); isMC {
				tgt = append(tgt, mc.Fn.(*ssa.Function))
			} else if sc := staticTarget(&g.Call); sc != nil {
				tgt = append(tgt, sc)
			} else {
				tgt = append(tgt, c.Callees(g)...)
			}
			seen := map[*ssa.Function]bool{}
			touches := false
			var visit func(f *ssa.Function)
			visit = func(f *ssa.Function) {
				if f == nil || seen[f] || f.Blocks == nil {
					return
				}
				seen[f] = true
				for _, a := range f.AnonFuncs {
					visit(a)
				}
				eachInstr(f, func(in ssa.Instruction) {
					ci, ok := in.(ssa.CallInstruction)
					if !ok {
						return
					}
					cf := calleeFunc(ci.Common())
					if funcIs(cf, pkgCmdLib, "", "resolvePath") {
						touches = true
					}
					if cf != nil && cf.Pkg() != nil && cf.Pkg().Path() == "os" {
						if _, isSink := fsSinks[cf.Name()]; isSink {
							touches = true
						}
					}
					if sc := staticTarget(ci.Common()); sc != nil {
						visit(sc)
					}
					for _, callee := range c.Callees(ci) {
						visit(callee)
					}
				})
			}
			for _, t := range tgt {
				visit(t)
			}
			if touches {
				bad = append(bad, fmt.Sprintf("%s starts a goroutine at %s that reaches resolvePath or a file-system mutation", fnKey(fn), c.Pos(g.Pos())))
			}
		})
	}
	sort.Strings(bad)
	r.Check(len(bad) == 0, "sequential-extraction@cmd/car/lib", "-", fmt.Sprintf("%d functions in the extraction scope, none starts a goroutine that reaches resolvePath or a file-system mutation", len(scope)),
		strings.Join(bad, "; ")+": two entries that map to the same path can interleave between the leaf check of resolvePath and the create/symlink that follows it (a symlink planted by one entry is followed by the other)")
}
