package main

// Comparison thresholds (rule R<nn>G, round 11). Every integer comparison that decides a branch is
// brought into a canonical form: the affine expression E over stable atoms (parameters by position,
// fields by type and name, calls by callee, len(...), sign-changing conversions kept opaque) and the
// point t at which it splits the integers into `E < t` and `E >= t`. `a > b`, `b < a`, `!(a <= b)`,
// `a >= b+1` and `a-b > 0` all give the same (E, t); `a >= b` gives t one lower. Today's tree is the
// reference (baseline_guards.txt, `-genbaselineguards`): a function that compares the same E at a
// point the pinned tree does not have, while a point the pinned tree has for that E is gone, has
// had a bound moved — `<` for `<=`, an off-by-one, an inclusive limit made exclusive. A comparison
// of an E the function did not compare before, one of whose outcomes returns a freshly made error,
// is a new rejection. Reported, like the pitfall family, under every property whose anchor files
// reach the function.

import (
	_ "embed"
	"fmt"
	"go/token"
	"go/types"
	"regexp"
	"sort"
	"strings"

	"golang.org/x/tools/go/ssa"
)

//go:embed baseline_guards.txt
var baselineGuardsTxt string

// baselineGuards: fn -> E -> set of t
var baselineGuards = func() map[string]map[string]map[string]bool {
	m := map[string]map[string]map[string]bool{}
	for _, l := range strings.Split(baselineGuardsTxt, "\n") {
		if l == "" || strings.HasPrefix(l, "#") {
			continue
		}
		f := strings.Split(l, "\t")
		if len(f) != 3 {
			continue
		}
		if m[f[0]] == nil {
			m[f[0]] = map[string]map[string]bool{}
		}
		if m[f[0]][f[1]] == nil {
			m[f[0]][f[1]] = map[string]bool{}
		}
		m[f[0]][f[1]][f[2]] = true
	}
	return m
}()

// rejectingReturns is the pseudo-quantity under which the number of returns of a function that
// hand back an error made on the spot is recorded beside its comparisons.
const rejectingReturns = "#rejecting-returns"

type guard struct {
	fn      string
	e       string // canonical variable part
	t       string // split point ("=k" for equality tests)
	pos     string
	rejects bool // one outcome returns an error made on the spot
}

func (c *Ctx) guards() []guard {
	if c.grd != nil {
		return c.grd
	}
	out := []guard{}
	for _, root := range c.RepoFuncs() {
		if root.Parent() != nil || !inLib(root) && (root.Pkg == nil || !strings.HasPrefix(root.Pkg.Pkg.Path(), modCmd)) {
			continue
		}
		key := fnKey(root)
		nrej := 0
		for _, g := range withAnon(root) {
			live := liveBlocks(g)
			for _, b := range g.Blocks {
				if len(b.Instrs) == 0 || !live[b] {
					continue
				}
				if blockRejects(b) {
					nrej++
				}
				iff, ok := b.Instrs[len(b.Instrs)-1].(*ssa.If)
				if !ok {
					continue
				}
				base, _ := condNorm(iff.Cond)
				cmp, ok := base.(*ssa.BinOp)
				if !ok || !cmp.Pos().IsValid() {
					continue
				}
				e, t, ok := canonicalSplit(c, root, cmp)
				if !ok {
					continue
				}
				rej := false
				for _, s := range b.Succs {
					if blockRejects(s) {
						rej = true
					}
				}
				out = append(out, guard{key, e, t, c.Pos(cmp.Pos()), rej})
			}
		}
		if nrej > 0 {
			out = append(out, guard{key, rejectingReturns, fmt.Sprint(nrej), "-", false})
		}
	}
	sort.Slice(out, func(i, j int) bool {
		if out[i].fn != out[j].fn {
			return out[i].fn < out[j].fn
		}
		if out[i].e != out[j].e {
			return out[i].e < out[j].e
		}
		return out[i].t < out[j].t
	})
	c.grd = out
	return out
}

// blockRejects: the block returns an error it makes itself (fmt.Errorf, errors.New, a composite
// error value) or a package-level sentinel.
func blockRejects(b *ssa.BasicBlock) bool {
	if len(b.Instrs) == 0 {
		return false
	}
	ret, ok := b.Instrs[len(b.Instrs)-1].(*ssa.Return)
	if !ok || len(ret.Results) == 0 {
		return false
	}
	errT := types.Universe.Lookup("error").Type()
	last := ret.Results[len(ret.Results)-1]
	if !types.Identical(last.Type(), errT) {
		return false
	}
	v := retResult(ret, len(ret.Results)-1)
	switch x := v.(type) {
	case *ssa.Call:
		f := calleeFunc(x.Common())
		return funcIs(f, "fmt", "", "Errorf") || funcIs(f, "errors", "", "New")
	case *ssa.MakeInterface:
		return true
	case *ssa.UnOp:
		_, isG := x.X.(*ssa.Global)
		return isG
	}
	return false
}

// canonicalSplit: (E, t) of an integer comparison, or ok=false when an operand has no stable name.
func canonicalSplit(cx *Ctx, root *ssa.Function, cmp *ssa.BinOp) (string, string, bool) {
	if !isIntegral(cmp.X.Type()) || !isIntegral(cmp.Y.Type()) {
		return "", "", false
	}
	switch cmp.Op {
	case token.LSS, token.LEQ, token.GTR, token.GEQ, token.EQL, token.NEQ:
	default:
		return "", "", false
	}
	stable := true
	atomVal := map[string]ssa.Value{}
	env := &AffEnv{aff: inductionAff, name: func(v ssa.Value) string {
		d, ok := guardAtom(root, v, 0)
		if !ok {
			return ""
		}
		if _, dup := atomVal[d]; !dup {
			atomVal[d] = v
		}
		return d
	}}
	d := env.of(cmp.X).add(env.of(cmp.Y), -1)
	for a := range d.T {
		if strings.Contains(a, "@0x") || strings.Contains(a, "deep") || strings.Contains(a, "?") {
			stable = false
		}
	}
	if !stable || len(d.T) == 0 {
		return "", "", false
	}
	// split point of D = E + c
	c := d.K
	var t int64
	eq := false
	switch cmp.Op {
	case token.LSS, token.GEQ:
		t = -c
	case token.LEQ, token.GTR:
		t = -c + 1
	default:
		eq = true
		t = -c
	}
	e := Aff{T: d.T}
	// sign normalisation: the first atom in order gets a positive coefficient
	var atoms []string
	for a, k := range e.T {
		if k != 0 {
			atoms = append(atoms, a)
		}
	}
	if len(atoms) == 0 {
		return "", "", false
	}
	sort.Strings(atoms)
	if e.T[atoms[0]] < 0 {
		e = e.scale(-1)
		if eq {
			t = -t
		} else {
			t = -t + 1
		}
	}
	var parts []string
	for _, a := range atoms {
		parts = append(parts, fmt.Sprintf("%+d*%s", e.T[a], a))
	}
	ts := fmt.Sprintf("%d", t)
	if eq {
		ts = "=" + ts
	}
	// A quantity that cannot be negative (an unsigned value, a length, the result of a function
	// that returns one) is zero exactly when it is below one: `n == 0`, `n < 1`, `n <= 0` and
	// `!(n > 0)` are one test.
	if eq && t == 0 && len(atoms) == 1 && e.T[atoms[0]] == 1 && guardNonNeg(cx, atomVal[atoms[0]], 0) {
		ts = "1"
	}
	return strings.Join(parts, " "), ts, true
}

// nonNegValue: the value is never negative, for a reason visible in its type or its definition.
func guardNonNeg(c *Ctx, v ssa.Value, depth int) bool {
	if v == nil || depth > 3 {
		return false
	}
	if b, ok := v.Type().Underlying().(*types.Basic); ok && b.Info()&types.IsUnsigned != 0 {
		return true
	}
	switch x := v.(type) {
	case *ssa.Const:
		return x.Value != nil && isIntegral(x.Type()) && x.Int64() >= 0
	case *ssa.Convert:
		from, _ := x.X.Type().Underlying().(*types.Basic)
		to, _ := x.Type().Underlying().(*types.Basic)
		if from != nil && to != nil && from.Info()&types.IsInteger != 0 && sizeOfBasic(to) >= sizeOfBasic(from) && from.Info()&types.IsUnsigned == 0 {
			return guardNonNeg(c, x.X, depth+1)
		}
		return false
	case *ssa.Call:
		if b, ok := x.Call.Value.(*ssa.Builtin); ok {
			return b.Name() == "len" || b.Name() == "cap"
		}
		// By the convention of sort.Interface, bytes.Buffer and cli.Args, a method named Len without
		// parameters that returns an int is a length.
		if sig := x.Call.Signature(); sig != nil && sig.Recv() != nil && sig.Params().Len() == 0 && sig.Results().Len() == 1 {
			name := ""
			if x.Call.IsInvoke() {
				name = x.Call.Method.Name()
			} else if f := x.Call.StaticCallee(); f != nil {
				name = f.Name()
			}
			if b, ok := sig.Results().At(0).Type().Underlying().(*types.Basic); ok && b.Kind() == types.Int && name == "Len" {
				return true
			}
		}
		var fs []*ssa.Function
		if f := x.Call.StaticCallee(); f != nil {
			fs = []*ssa.Function{f}
		} else {
			fs = c.Callees(x)
			if len(fs) == 0 && x.Call.IsInvoke() {
				fs = implementersOf(c, x.Call.Value.Type(), x.Call.Method)
			}
		}
		if len(fs) == 0 {
			return false
		}
		for _, f := range fs {
			if !guardNonNegFunc(c, f, depth+1) {
				return false
			}
		}
		return true
	case *ssa.Phi:
		for _, e := range x.Edges {
			if e == ssa.Value(x) {
				continue
			}
			if !guardNonNeg(c, e, depth+1) {
				return false
			}
		}
		return true
	}
	return false
}

func guardNonNegFunc(c *Ctx, f *ssa.Function, depth int) bool {
	if f == nil || len(f.Blocks) == 0 || f.Signature.Results().Len() != 1 {
		return false
	}
	n := 0
	for _, b := range f.Blocks {
		for _, in := range b.Instrs {
			if ret, ok := in.(*ssa.Return); ok {
				n++
				if len(ret.Results) != 1 || !guardNonNeg(c, ret.Results[0], depth) {
					return false
				}
			}
		}
	}
	return n > 0
}

// implementersOf: the methods named m of every type in the program that implements iface (used
// for interfaces of dependencies, which the repository-only call graph does not resolve).
func implementersOf(c *Ctx, iface types.Type, m *types.Func) []*ssa.Function {
	it, ok := iface.Underlying().(*types.Interface)
	if !ok || m == nil {
		return nil
	}
	var out []*ssa.Function
	for _, t := range c.Prog.RuntimeTypes() {
		if types.IsInterface(t) || !types.Implements(t, it) {
			continue
		}
		sel := c.Prog.MethodSets.MethodSet(t).Lookup(m.Pkg(), m.Name())
		if sel == nil {
			continue
		}
		if f := c.Prog.MethodValue(sel); f != nil {
			out = append(out, f)
		}
	}
	return out
}

// guardAtom names a leaf value in a way that does not depend on positions or local names.
func guardAtom(root *ssa.Function, v ssa.Value, depth int) (string, bool) {
	if depth > 4 {
		return "", false
	}
	switch x := v.(type) {
	case *ssa.Const, *ssa.BinOp:
		return "", false // evaluated by the affine form
	case *ssa.Parameter:
		for i, p := range x.Parent().Params {
			if p == x {
				return fmt.Sprintf("param%d<%s>", i, shortType(x.Type())), true
			}
		}
	case *ssa.Convert:
		if isIntegral(x.Type()) && isIntegral(x.X.Type()) {
			from, _ := x.X.Type().Underlying().(*types.Basic)
			to, _ := x.Type().Underlying().(*types.Basic)
			signChange := from != nil && to != nil && (from.Info()&types.IsUnsigned != 0) != (to.Info()&types.IsUnsigned != 0)
			narrow := from != nil && to != nil && sizeOfBasic(to) < sizeOfBasic(from)
			if signChange && to.Info()&types.IsUnsigned == 0 || narrow {
				if inner, ok := guardExpr(root, x.X, depth+1); ok {
					return "conv<" + to.Name() + ">(" + inner + ")", true
				}
				return "?", true
			}
		}
		return "", false
	case *ssa.UnOp:
		if x.Op == token.MUL {
			if src := setOnceSource(x); src != nil {
				return guardAtom(root, src, depth+1)
			}
			if fa, ok := x.X.(*ssa.FieldAddr); ok {
				if fv := fieldVar(fa.X.Type(), fa.Field); fv != nil {
					if n := namedOf(fa.X.Type()); n != nil {
						return "field:" + pinnedTypeNames(shortPkgOf(n)+"."+n.Obj().Name()) + "." + fv.Name(), true
					}
				}
			}
			// a local assigned once reads as what was assigned — with its conversions, which canon drops
			if al, isAl := x.X.(*ssa.Alloc); isAl {
				var st []*ssa.Store
				for _, s := range storesTo(al) {
					if l, ok := s.Val.(*ssa.UnOp); ok && l.Op == token.MUL && l.X == ssa.Value(al) {
						continue
					}
					st = append(st, s)
				}
				if len(st) == 1 {
					if d, ok := guardAtom(root, st[0].Val, depth+1); ok && d != "" {
						return d, true
					}
				}
			}
			if c2 := canon(x); c2 != ssa.Value(x) {
				return guardAtom(root, c2, depth+1)
			}
			if _, isG := x.X.(*ssa.Global); isG {
				return "global:" + x.X.Name(), true
			}
			if al, isAl := x.X.(*ssa.Alloc); isAl && al.Comment != "" && !strings.ContainsAny(al.Comment, " .(") {
				return "var:" + al.Comment, true // a local whose address is taken (filled in by a decoder), by its name
			}
		}
	case *ssa.Field:
		if fv := fieldVar(x.X.Type(), x.Field); fv != nil {
			if n := namedOf(x.X.Type()); n != nil {
				return "field:" + pinnedTypeNames(shortPkgOf(n)+"."+n.Obj().Name()) + "." + fv.Name(), true
			}
		}
	case *ssa.Extract:
		if inner, ok := guardAtom(root, x.Tuple, depth+1); ok {
			return fmt.Sprintf("%s#%d", inner, x.Index), true
		}
	case *ssa.Call:
		if b, ok := x.Call.Value.(*ssa.Builtin); ok {
			if (b.Name() == "len" || b.Name() == "cap") && len(x.Call.Args) == 1 {
				if inner, ok := guardExpr(root, x.Call.Args[0], depth+1); ok {
					if b.Name() == "len" && inner == "call:go-cid.Cid.Bytes" {
						return "call:go-cid.Cid.ByteLen", true // ByteLen's definition
					}
					return b.Name() + "(" + inner + ")", true
				}
			}
			return "?", true
		}
		name := ""
		if x.Call.IsInvoke() {
			name = "invoke:" + x.Call.Method.Name()
		} else if f := calleeFunc(x.Common()); f != nil {
			name = "call:" + funcKey(f)
		} else {
			return "?", true
		}
		return name, true
	case *ssa.Phi:
		if _, ok := inductionInit(x); ok {
			return "iv", true // see guardAff: only reached when the affine hook is not in use
		}
		if l := phiLive(x); len(l) == 1 {
			if d, ok := guardAtom(root, l[0], depth+1); ok && d != "" {
				return d, true
			}
		}
		if c2 := canon(x); c2 != ssa.Value(x) {
			return guardAtom(root, c2, depth+1)
		}
		if x.Comment != "" {
			return "var:" + x.Comment, true // a loop-carried local, by its source name
		}
		return "?", true
	}
	return "?", true
}

// inductionInit: phi is a loop counter — two inputs, a constant from outside the loop and itself plus
// one from inside — and the constant it starts from. `for i := 0; …; i++` gives 0, the hidden index
// of `for i := range s` gives -1 (it is incremented before it is used).
func inductionInit(phi *ssa.Phi) (int64, bool) {
	if len(phi.Edges) != 2 || !isIntegral(phi.Type()) {
		return 0, false
	}
	for i := 0; i < 2; i++ {
		k, isK := constInt(phi.Edges[i])
		if !isK {
			continue
		}
		step, ok := phi.Edges[1-i].(*ssa.BinOp)
		if !ok || step.Op != token.ADD {
			continue
		}
		one, isOne := constInt(step.Y)
		if step.X == ssa.Value(phi) && isOne && one == 1 {
			return k, true
		}
	}
	return 0, false
}

// inductionAff: a loop counter is "iterations so far" plus its start, whatever the loop is spelled like.
func inductionAff(v ssa.Value) (Aff, bool) {
	phi, ok := v.(*ssa.Phi)
	if !ok {
		return Aff{}, false
	}
	k, ok := inductionInit(phi)
	if !ok {
		return Aff{}, false
	}
	return affAtom("iv").add(Aff{K: k}, 1), true
}

// guardExpr names a non-integer operand (the argument of len, the source of a conversion).
func guardExpr(root *ssa.Function, v ssa.Value, depth int) (string, bool) {
	v = canon(v)
	if d, ok := guardAtom(root, v, depth); ok && d != "" {
		return d, d != "?"
	}
	if isIntegral(v.Type()) {
		env := &AffEnv{name: func(w ssa.Value) string {
			d, ok := guardAtom(root, w, depth+1)
			if !ok {
				return ""
			}
			return d
		}}
		a := env.of(v)
		s := a.String()
		return s, !strings.Contains(s, "@0x") && !strings.Contains(s, "?")
	}
	return "?", false
}

func shortType(t types.Type) string {
	return types.TypeString(t, func(p *types.Package) string { return p.Name() })
}

func shortPkgOf(n *types.Named) string {
	if n.Obj().Pkg() == nil {
		return ""
	}
	return shortPkg(n.Obj().Pkg().Path())
}

func sizeOfBasic(b *types.Basic) int {
	switch b.Kind() {
	case types.Int8, types.Uint8:
		return 1
	case types.Int16, types.Uint16:
		return 2
	case types.Int32, types.Uint32:
		return 4
	}
	return 8
}

func ruleGuards(c *Ctx, r *Report) {
	reach := c.propReach(r.Property)
	have := map[string]map[string]map[string]string{} // fn -> E -> t -> pos
	rejects := map[string]bool{}
	for _, g := range c.guards() {
		if have[g.fn] == nil {
			have[g.fn] = map[string]map[string]string{}
		}
		if have[g.fn][g.e] == nil {
			have[g.fn][g.e] = map[string]string{}
		}
		have[g.fn][g.e][g.t] = g.pos
		if g.rejects {
			rejects[g.fn+"\t"+g.e+"\t"+g.t] = true
		}
	}
	newFns := newFuncKeys(c)
	var fns []string
	for fn := range have {
		if reach[fn] {
			fns = append(fns, fn)
		}
	}
	sort.Strings(fns)
	n := 0
	for _, fn := range fns {
		base := baselineGuards[fn]
		if base == nil && !newFns[fn] {
			base = map[string]map[string]bool{}
		}
		if base == nil {
			continue // a function the pinned tree does not have (and that was not inlined back)
		}
		var es []string
		for e := range have[fn] {
			es = append(es, e)
		}
		sort.Strings(es)
		moreRejects := soleInt(have[fn][rejectingReturns]) > soleIntB(base[rejectingReturns])
		for _, e := range es {
			if e == rejectingReturns {
				continue
			}
			n++
			bt := base[e]
			var added, gone []string
			for t := range have[fn][e] {
				if !bt[t] {
					added = append(added, t)
				}
			}
			for t := range bt {
				if _, ok := have[fn][e][t]; !ok {
					gone = append(gone, t)
				}
			}
			sort.Strings(added)
			sort.Strings(gone)
			key := "threshold@" + fn + "#" + e
			switch {
			case len(added) == 0:
				r.Hold(key, "-", "split points as in the pinned tree")
			case len(bt) > 0 && len(gone) > 0:
				pos := have[fn][e][added[0]]
				r.Viol(key, pos, fmt.Sprintf("%s is compared at %s with the split point %s (that is: `E < %s` against `E >= %s`) where the pinned tree splits at %s: a bound moved by one or changed between inclusive and exclusive — inputs exactly on the boundary (a section of exactly the maximum size, an empty block, a file that ends exactly where the payload ends) now go the other way", e, pos, strings.Join(added, ","), added[0], added[0], strings.Join(gone, ",")))
			case len(bt) == 0:
				rej := false
				for _, t := range added {
					if rejects[fn+"\t"+e+"\t"+t] {
						rej = true
					}
				}
				if rej && moreRejects && len(baselineGuards[fn]) > 0 && !movedGuard(have, fn, e) {
					pos := have[fn][e][added[0]]
					r.Viol("new-rejection@"+fn+"#"+e, pos, fmt.Sprintf("%s tests %s against %s at %s and returns an error of its own on one side; the pinned tree has no test of this quantity in this function: inputs the library accepted (and its writers produce) are now refused by this reader, or a check that looks protective sits one off the real boundary", fn, e, strings.Join(added, ","), pos))
				} else {
					r.Hold(key, "-", "a comparison the pinned tree does not have; neither outcome rejects, or the function has no more rejecting returns than it had")
				}
			default:
				r.Hold(key, "-", "an additional split point beside the pinned ones")
			}
		}
	}
	r.Count("(function, compared quantity) pairs examined", n)
	if n < 3 {
		r.Undec("threshold@reach", "-", fmt.Sprintf("only %d compared quantities found in the functions this property reaches", n))
	}
}

var paramIndexRe = regexp.MustCompile(`param[0-9]+<`)

// movedGuard: the comparison came along with code that moved — another function of the reference
// compares the same quantity (parameter positions aside) and no longer does.
func movedGuard(have map[string]map[string]map[string]string, fn, e string) bool {
	want := paramIndexRe.ReplaceAllString(e, "param<")
	for fn2, es := range baselineGuards {
		if fn2 == fn {
			continue
		}
		for e2 := range es {
			if paramIndexRe.ReplaceAllString(e2, "param<") != want {
				continue
			}
			if _, still := have[fn2][e2]; !still {
				return true
			}
		}
	}
	return false
}

func soleInt(m map[string]string) int {
	n := 0
	for k := range m {
		fmt.Sscan(k, &n)
	}
	return n
}

func soleIntB(m map[string]bool) int {
	n := 0
	for k := range m {
		fmt.Sscan(k, &n)
	}
	return n
}

func listGuards(c *Ctx) []string {
	seen := map[string]bool{}
	var out []string
	for _, g := range c.guards() {
		l := g.fn + "\t" + g.e + "\t" + g.t
		if !seen[l] {
			seen[l] = true
			out = append(out, l)
		}
	}
	sort.Strings(out)
	return out
}
