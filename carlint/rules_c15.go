package main

import (
	"fmt"
	"go/token"
	"go/types"
	"sort"
	"strings"

	"golang.org/x/tools/go/ssa"
)

func init() {
	register(PropertyDef{
		ID: "C15",
		Explanation: "Decided statically: (R15a) first-visit gates — the root-module selective traverser reports a block to its callback only behind the not-yet-seen outcome of its " +
			"own CID set (Has false / Visit true) and records it on that path, whatever options are set; WriteCarWithWalker walks all roots with the Visit method of one set " +
			"created outside the roots loop; the v2 teeing loader hands out a writing reader only for CIDs not yet recorded, and the writing reader records the CID on every " +
			"path on which it wrote and disarms itself; (R15b) sibling size agreement — the counting loader and the teeing loader account the same per-block total " +
			"U(n + len(cid)) + len(cid) + n; the root-module traverser and Dump advance their offset by LdSize(cid bytes, data) and report Offset = the offset before the " +
			"advance and Size = that size; Dump and Write emit WriteHeader(header) then LdWrite(w, cid bytes, data); (R15c) ErrSizeMismatch is returned exactly on " +
			"size != 0 && size != bytes written. NOT decided: that the emitted set is exactly what the traversal loaded (depends on ipld-prime's walker), and that a decoder " +
			"reads every byte it is handed.",
		Assumptions: []string{"cid.Set.Visit(c) returns true exactly the first time c is seen", "merkledag.Walk consults the visit function before descending"},
		Rules: []RuleDef{
			{ID: "R15a", Floor: 4, Doc: "first-visit gates in the selective traverser, WriteCarWithWalker and the teeing loader", Run: ruleR15a},
			{ID: "R15b", Floor: 5, Doc: "size formulas of counting/teeing loaders agree; offset advance and callback metadata; Dump/Write emission", Run: ruleR15b},
			{ID: "R15d", Floor: 4, Doc: "every CARv2 header written by the traversal writers follows the pragma / sits at the pragma offset (= R19a)", Run: func(c *Ctx, r *Report) { headerWritesFollowPragma(c, r, map[string]bool{modV2: true, pkgStore: true}) }},
			{ID: "R15e", Floor: 1, Doc: "TraverseToFile fixes the header up with the same routine that wrote it (options applied identically)", Run: ruleR15e},
			{ID: "R15f", Floor: 2, Doc: "zero padding is emitted in exactly the announced amount: one Write of a buffer allocated with the padding length, or — when chunked in a loop — every chunk cut to the remaining count", Run: ruleR15f},
			{ID: "R15g", Floor: 2, Doc: "one CID per section: in the root module's selective traverser and Dump, the CID whose bytes are sized (LdSize) is the CID that is reported in Block.BlockCID and written (LdWrite) — sizing the stored block's own CID while emitting the requested link's CID shifts every later offset when a store answers a CIDv1 request with a CIDv0 block", Run: ruleR15g},
			{ID: "R15h", Floor: 1, Doc: "traversalCar.WriteTo reports what reached the writer: every return after the payload pass (successful or not) includes the byte count of that pass", Run: ruleR15h},
			{ID: "R15k", Floor: 1, Doc: "every traversal pass has its own link budget: the traversal.Budget a Progress is given is allocated in the function that starts the walk (the sizing pass and the writing pass of one writer must not draw on one counter)", Run: ruleR15k},
			{ID: "R15l", Floor: 2, Doc: "an error of the underlying link system reaches the traversal unchanged from the loaders (traversal.SkipMe is recognised by type assertion: wrapped, it aborts the walk in one pass and not in the other)", Run: ruleR15l},
			{ID: "R15m", Floor: 3, Doc: "every dag the caller listed is in the header and is walked: NewSelectiveCar keeps its dags parameter itself, and traverseHeader / traverseBlocks range over that field itself (no filtered or de-duplicated list: two dags may share a root and differ in selector, and the header lists roots as given)", Run: ruleR15m},
			{ID: "R15n", Floor: 1, Doc: "the block callback of SelectiveCar.Write writes every block it is handed: no nil return without LdWrite (the traversal has counted the block and advanced the offset already)", Run: ruleR15n},
			{ID: "R15o", Floor: 1, Doc: "every traversal of the root-module selective writer has its own visited set: the cid.Set the traverser gets is allocated by cid.NewSet() in SelectiveCar.traverse (Prepare, Write and Dump each walk the DAG)", Run: ruleR15o},
			{ID: "R15p", Floor: 1, Doc: "the teeing opener answers a CID it has already written with the underlying opener's answer, not with an error or traversal.SkipMe: the walk still reads the block to follow its links", Run: ruleR15p},
			{ID: "R15q", Floor: 1, Doc: "TraverseToFile creates its destination truncating (os.Create, or OpenFile with O_TRUNC): the file is the CAR of this traversal and nothing more", Run: ruleR15q},
			{ID: "R15r", Floor: 1, Doc: "without an index the header announces none: in traversalCar.WriteV2Header no With*Padding / WithDataSize is applied after IndexOffset was set to zero", Run: ruleR15r},
			{ID: "R15t", Floor: 1, Doc: "the announced size counts a block once, as the writing pass writes it once: the counting link system adds a section's size only when the block is loaded for the first time", Run: ruleR15t},
			{ID: "R15u", Floor: 1, Doc: "the payload pass starts its offsets at the size of the CARv1 header just written: the initial offset of the teeing link system in WriteV1 includes no padding and no data offset", Run: ruleR15u},
			{ID: "R15v", Floor: 3, Doc: "traversalCar.WriteTo returns the number of bytes it handed to the writer: the count of every counting write (header, payload pass, index padding, index) is part of every return that follows it", Run: ruleR15v},
			{ID: "R15w", Floor: 1, Doc: "traversalCar.WriteV2Header pads up to DataOffset: the zero bytes behind the header number DataOffset minus the pragma and the header just written", Run: ruleR15w},
			{ID: "R15x", Floor: 1, Doc: "no new mutable package-level state: the link system a traversal runs on is the traversal's own — one kept in a package-level variable and given this traversal's loader is shared by every traversal in the process (= R13k)", Run: ruleR13k},
			{ID: "R15y", Floor: 1, Doc: "every DAG the selective car was given is walked: in selectiveCarTraverser.traverseBlocks no path through the body of the loop over the DAGs reaches the next round without passing the traversal (Progress.WalkAdv) — a DAG skipped because its root is already in the car loses what its own selector reaches below that root", Run: ruleR15y},
			{ID: "R15z", Floor: 1, Doc: "the two passes of a selective car run under the same options: nothing assigns a field of the options (v2 Options, the root module's options) outside ApplyOptions/applyOptions and the option constructors — a measuring pass that visits links once while the writing pass does not announces another size than is written (= R04j)", Run: ruleR04j},
			{ID: "R15c", Floor: 1, Doc: "size-mismatch guard", Run: ruleR15c},
			{ID: "R15i", Floor: 8, Doc: "the announced section size and the written framing come from the same length formula (= R01b)", Run: ruleR01b},
		},
	})
}

func ruleR15a(c *Ctx, r *Report) {
	// ---- root selective traverser
	if fn, err := c.Func(modRoot, "selectiveCarTraverser", "loader"); err != nil {
		r.InfraFail("%v", err)
	} else {
		key := "first-visit@" + fnKey(fn)
		// the callback invocation: dynamic call of the loaded field onNewCarBlock
		var cb *ssa.Call
		eachInstr(fn, func(in ssa.Instruction) {
			if ci, ok := in.(*ssa.Call); ok && !ci.Common().IsInvoke() && staticTarget(ci.Common()) == nil {
				if loadsField(canon(ci.Common().Value), modRoot, "selectiveCarTraverser", "onNewCarBlock") {
					cb = ci
				}
			}
		})
		isSet := func(v ssa.Value) bool { return loadsField(canon(v), modRoot, "selectiveCarTraverser", "cidSet") }
		unseen := condEdges(fn, func(base ssa.Value) (bool, bool) {
			cl, _ := callOf(base)
			if cl == nil {
				return false, false
			}
			f := calleeFunc(cl.Common())
			if funcIs(f, pkgCid, "Set", "Has") && isSet(callArgs(cl.Common())[0]) {
				return true, false
			}
			if funcIs(f, pkgCid, "Set", "Visit") && isSet(callArgs(cl.Common())[0]) {
				return true, true
			}
			return false, false
		})
		bad := ""
		switch {
		case cb == nil:
			bad = "the block callback invocation was not found"
		case len(unseen) == 0:
			bad = "the traverser does not consult its CID set before reporting a block"
		case reach(fn, nil, edgeSet(unseen))[cb.Block()]:
			bad = "the block callback is reachable without the not-yet-seen outcome of the traverser's own CID set (e.g. short-circuited by an option): a block shared between DAGs is emitted once per DAG"
		default:
			// recorded on that path: Add dominates or Visit was used
			usedVisit := false
			eachInstr(fn, func(in ssa.Instruction) {
				if ci, ok := in.(*ssa.Call); ok && funcIs(calleeFunc(ci.Common()), pkgCid, "Set", "Visit") {
					usedVisit = true
				}
			})
			if !usedVisit {
				adds := callsToFunc(fn, pkgCid, "Set", "Add")
				okAdd := false
				for _, a := range adds {
					if !reach(fn, nil, edgeSet(unseen))[a.Block()] {
						okAdd = true
					}
				}
				if !okAdd {
					bad = "the CID is not added to the set on the path that reports it"
				}
			}
		}
		r.Check(bad == "", key, c.Pos(fn.Pos()), "callback only behind !cidSet.Has(c) (and the CID is recorded there)", bad)
	}
	// ---- WriteCarWithWalker
	if fn, err := c.Func(modRoot, "", "WriteCarWithWalker"); err != nil {
		r.InfraFail("%v", err)
	} else {
		key := "one-visit-set@" + fnKey(fn)
		bad := "merkledag.Walk is not given the Visit method of a cid.Set"
		eachInstr(fn, func(in ssa.Instruction) {
			ci, ok := in.(*ssa.Call)
			if !ok {
				return
			}
			f := calleeFunc(ci.Common())
			if f == nil || f.Name() != "Walk" {
				return
			}
			mc, ok := ci.Call.Args[3].(*ssa.MakeClosure)
			if !ok {
				return
			}
			bound := mc.Fn.(*ssa.Function)
			if bound.Object() == nil || bound.Object().Name() != "Visit" || len(mc.Bindings) != 1 {
				bad = "the visit function handed to Walk is not (*cid.Set).Visit"
				return
			}
			nc, _ := callOf(canon(mc.Bindings[0]))
			if nc == nil || !funcIs(calleeFunc(nc.Common()), pkgCid, "", "NewSet") {
				bad = "the visit set is not a fresh cid.NewSet()"
				return
			}
			// created outside the loop: the NewSet call cannot reach itself
			if instrReaches(nc, nc) {
				bad = "a new visit set is created per root: blocks shared between roots are written once per root"
				return
			}
			bad = ""
		})
		r.Check(bad == "", key, c.Pos(fn.Pos()), "one cid.NewSet() outside the roots loop; Walk(..., seen.Visit)", bad)
	}
	// ---- teeing loader
	if fn, err := c.Func(pkgLoader, "", "TeeingLinkSystem"); err != nil {
		r.InfraFail("%v", err)
	} else if readOpenerOf(fn) == nil {
		r.Undec("tee-once@"+fnKey(fn), c.Pos(fn.Pos()), "opener closure not found")
	} else {
		op := readOpenerOf(fn)
		key := "tee-once@" + fnKey(op)
		// returns of a *writingReader only on the not-recorded outcome of the rcrds lookup
		absent := condEdges(op, func(base ssa.Value) (bool, bool) {
			if ex, ok := base.(*ssa.Extract); ok && ex.Index == 1 {
				if lk, ok := ex.Tuple.(*ssa.Lookup); ok && lk.CommaOk {
					if fv, _ := fieldOfLoad(canon(lk.X)); fv != nil && fv.Name() == "rcrds" {
						return true, false
					}
				}
			}
			return false, false
		})
		bad := ""
		if len(absent) == 0 {
			bad = "the opener does not consult the record map before teeing"
		} else {
			reachable := reach(op, nil, edgeSet(absent))
			eachInstr(op, func(in ssa.Instruction) {
				if al, ok := in.(*ssa.Alloc); ok && isNamed(al.Type(), pkgLoader, "writingReader") && reachable[al.Block()] {
					bad = "a writing reader is handed out for a CID that is already recorded: the block is written again"
				}
			})
		}
		r.Check(bad == "", key, c.Pos(op.Pos()), "writing reader only for CIDs not yet in rcrds", bad)
	}
	if fn, err := c.Func(pkgLoader, "writingReader", "Read"); err != nil {
		r.InfraFail("%v", err)
	} else {
		key := "tee-records@" + fnKey(fn)
		var firstWrite ssa.Instruction
		var mu *ssa.MapUpdate
		var disarm *ssa.Store
		eachInstr(fn, func(in ssa.Instruction) {
			switch x := in.(type) {
			case *ssa.Call:
				if x.Common().IsInvoke() && x.Common().Method.Name() == "Write" && firstWrite == nil {
					firstWrite = in
				}
			case *ssa.MapUpdate:
				if fv, _ := fieldOfLoad(canon(x.Map)); fv != nil && fv.Name() == "rcrds" {
					mu = x
				}
			case *ssa.Store:
				if fa, ok := x.Addr.(*ssa.FieldAddr); ok && fieldAddrIs(fa, pkgLoader, "writingReader", "wo") && isNilConst(x.Val) {
					disarm = x
				}
			}
		})
		bad := ""
		switch {
		case firstWrite == nil || mu == nil || disarm == nil:
			bad = "write / record / disarm steps not all found"
		default:
			armed := cmpNilEdges(fn, func(v ssa.Value) bool { return loadsField(canon(v), pkgLoader, "writingReader", "wo") }, false)
			if len(armed) == 0 || reach(fn, nil, edgeSet(armed))[firstWrite.Block()] {
				bad = "the section is written although the reader is already disarmed (w.wo == nil)"
			}
			// every path from the write to the disarm passes the record
			if bad == "" && mu.Block() != disarm.Block() {
				cut := EdgeSet{}
				for i := range mu.Block().Succs {
					cut[Edge{From: mu.Block(), Succ: i}] = true
				}
				if reach(fn, firstWrite.Block(), cut)[disarm.Block()] {
					bad = "the reader can write a section and disarm without recording the CID in rcrds (e.g. only when an index is wanted): rcrds is also the 'already written' set, so the block is written again the next time it is loaded"
				}
			}
		}
		r.Check(bad == "", key, c.Pos(fn.Pos()), "armed -> write -> record in rcrds -> disarm, on every path", bad)
	}
}

// filledBufferLen: v is `buf.Len()` of a bytes.Buffer that starts empty (a fresh local) and is
// written by exactly one call, a ReadFrom that comes before: the number of bytes that ReadFrom read.
// Returns that ReadFrom call.
func filledBufferLen(v ssa.Value) *ssa.Call {
	lc, ok := v.(*ssa.Call)
	if !ok || !funcIs(calleeFunc(lc.Common()), "bytes", "Buffer", "Len") || len(lc.Call.Args) != 1 {
		return nil
	}
	// the buffer: a local bytes.Buffer, new(bytes.Buffer), or bytes.NewBuffer(nil)
	var al ssa.Value
	switch b := lc.Call.Args[0].(type) {
	case *ssa.Alloc:
		al = b
	case *ssa.Call:
		if funcIs(calleeFunc(b.Common()), "bytes", "", "NewBuffer") && len(b.Call.Args) == 1 && isNilConst(b.Call.Args[0]) {
			al = b
		}
	}
	if al == nil || al.Referrers() == nil {
		return nil
	}
	var rf *ssa.Call
	for _, ref := range *al.Referrers() {
		switch x := ref.(type) {
		case *ssa.Call:
			f := calleeFunc(x.Common())
			switch {
			case funcIs(f, "bytes", "Buffer", "ReadFrom"):
				if rf != nil {
					return nil
				}
				rf = x
			case f != nil && (f.Name() == "Len" || f.Name() == "Bytes" || f.Name() == "Cap" || f.Name() == "String"):
			default:
				return nil // any other method may write (Write, Reset, Truncate, Read, Next, Grow)
			}
		case *ssa.DebugRef:
		case *ssa.MakeInterface:
			// handed on as a reader: reading drains it, and then Len is no longer what was read —
			// harmless only where the hand-over cannot come before the Len
			if x.Block() == lc.Block() && instrBefore(x, lc) || x.Block() != lc.Block() && blockReaches(x.Block(), lc.Block()) {
				return nil
			}
		case *ssa.Store:
			return nil
		default:
			return nil
		}
	}
	if rf == nil || !(rf.Block() == lc.Block() && instrBefore(rf, lc) || rf.Block() != lc.Block() && rf.Block().Dominates(lc.Block())) {
		return nil
	}
	return rf
}

func blockReaches(a, b *ssa.BasicBlock) bool {
	seen := map[*ssa.BasicBlock]bool{a: true}
	for work := []*ssa.BasicBlock{a}; len(work) > 0; {
		x := work[len(work)-1]
		work = work[:len(work)-1]
		for _, s := range x.Succs {
			if s == b {
				return true
			}
			if !seen[s] {
				seen[s] = true
				work = append(work, s)
			}
		}
	}
	return false
}

func instrBefore(a, b ssa.Instruction) bool {
	for _, in := range a.Block().Instrs {
		if in == a {
			return true
		}
		if in == b {
			return false
		}
	}
	return false
}

func ruleR15b(c *Ctx, r *Report) {
	// ---- counting loader
	if fn, err := c.Func(pkgLoader, "", "CountingLinkSystem"); err != nil {
		r.InfraFail("%v", err)
	} else if readOpenerOf(fn) == nil {
		r.Undec("size-formula@"+fnKey(fn), c.Pos(fn.Pos()), "opener closure not found")
	} else {
		op := readOpenerOf(fn)
		key := "size-formula@" + fnKey(op)
		bad := "no update of the running total found"
		var n ssa.Value
		for _, ci := range callsIn(op, func(f *types.Func, _ *ssa.CallCommon) bool { return funcIs(f, "bytes", "Buffer", "ReadFrom") }) {
			n = extractOf(ci.Value(), 0)
		}
		env := &AffEnv{name: func(v ssa.Value) string {
			if n != nil && canon(v) == n {
				return "n"
			}
			if filledBufferLen(canon(v)) != nil {
				return "n" // buf.Len() of the buffer that ReadFrom has just filled from empty
			}
			if fv, _ := fieldOfLoad(canon(v)); fv != nil && fv.Name() == "totalRead" {
				return "T"
			}
			if lc, _ := callOf(v); lc != nil {
				if b, ok := lc.Call.Value.(*ssa.Builtin); ok && b.Name() == "len" {
					if bc, _ := callOf(canon(lc.Call.Args[0])); bc != nil && bc.Common().IsInvoke() && bc.Common().Method.Name() == "Binary" {
						return "C"
					}
				}
			}
			return ""
		}}
		eachInstr(op, func(in ssa.Instruction) {
			st, ok := in.(*ssa.Store)
			if !ok {
				return
			}
			fa, ok := st.Addr.(*ssa.FieldAddr)
			if !ok || fieldVar(fa.X.Type(), fa.Field).Name() != "totalRead" {
				return
			}
			a := env.of(st.Val)
			want := affAtom("T").add(affAtom("C"), 1).add(affAtom("U(0 +1*C +1*n)"), 1)
			if a.equal(want) {
				bad = ""
			} else {
				bad = "the counting loader accounts " + a.String() + " per block besides the data bytes; a section costs U(n + len(cid)) + len(cid) (+ n read through the counting reader): " + want.String()
			}
		})
		r.Check(bad == "", key, c.Pos(op.Pos()), "total += U(n + len(cid)) + len(cid); data bytes counted by countingReader.Read", bad)
	}
	if fn, err := c.Func(pkgLoader, "countingReader", "Read"); err != nil {
		r.InfraFail("%v", err)
	} else {
		key := "size-formula@" + fnKey(fn)
		bad := "countingReader.Read does not add the bytes it returned"
		env := &AffEnv{name: func(v ssa.Value) string {
			if fv, _ := fieldOfLoad(canon(v)); fv != nil && fv.Name() == "totalRead" {
				return "T"
			}
			if cl, idx := callOf(v); cl != nil && idx == 0 && cl.Common().IsInvoke() && cl.Common().Method.Name() == "Read" {
				return "n"
			}
			return ""
		}}
		eachInstr(fn, func(in ssa.Instruction) {
			if st, ok := in.(*ssa.Store); ok {
				if fa, ok := st.Addr.(*ssa.FieldAddr); ok && fieldVar(fa.X.Type(), fa.Field).Name() == "totalRead" {
					if env.of(st.Val).equal(affAtom("T").add(affAtom("n"), 1)) {
						bad = ""
					}
				}
			}
		})
		r.Check(bad == "", key, c.Pos(fn.Pos()), "total += n", bad)
	}
	// ---- teeing loader
	if fn, err := c.Func(pkgLoader, "writingReader", "Read"); err != nil {
		r.InfraFail("%v", err)
	} else {
		key := "size-formula@" + fnKey(fn)
		bad := "no update of the running size found"
		env := &AffEnv{name: func(v ssa.Value) string {
			if fv, _ := fieldOfLoad(canon(v)); fv != nil {
				switch fv.Name() {
				case "size":
					return "T"
				case "len":
					return "n"
				}
			}
			if lc, _ := callOf(v); lc != nil {
				if b, ok := lc.Call.Value.(*ssa.Builtin); ok && b.Name() == "len" {
					if fv, _ := fieldOfLoad(canon(lc.Call.Args[0])); fv != nil && fv.Name() == "cid" {
						return "C"
					}
				}
			}
			return ""
		}}
		var sizeStore *ssa.Store
		var recOff ssa.Value
		eachInstr(fn, func(in ssa.Instruction) {
			st, ok := in.(*ssa.Store)
			if !ok {
				return
			}
			fa, ok := st.Addr.(*ssa.FieldAddr)
			if !ok {
				return
			}
			switch {
			case fieldAddrIs(fa, pkgLoader, "writerOutput", "size"):
				sizeStore = st
			case fieldAddrIs(fa, pkgIndex, "Record", "Offset"):
				recOff = st.Val
			}
		})
		if sizeStore != nil {
			a := env.of(sizeStore.Val)
			want := affAtom("T").add(affAtom("n"), 1).add(affAtom("C"), 1).add(affAtom("U(0 +1*C +1*n)"), 1)
			if a.equal(want) {
				bad = ""
			} else {
				bad = "the teeing loader advances its size by " + a.String() + "; expected " + want.String()
			}
			if bad == "" {
				// the length prefix written is the varint of n + len(cid)
				okPrefix := false
				for _, x := range uvarintEncoded(fn, false) {
					if env.of(x).equal(affAtom("n").add(affAtom("C"), 1)) {
						okPrefix = true
					}
				}
				if !okPrefix {
					bad = "the length prefix written is not uvarint(len(data) + len(cid))"
				}
			}
			if bad == "" {
				// recorded offset = size before the advance
				if recOff == nil || !loadsField(canon(recOff), pkgLoader, "writerOutput", "size") || instrReaches(sizeStore, canon(recOff).(ssa.Instruction)) {
					bad = "the offset recorded for the section is not the running size before the advance"
				}
			}
		}
		r.Check(bad == "", key, c.Pos(fn.Pos()), "size += n + U(n + len(cid)) + len(cid); prefix = uvarint(n + len(cid)); record offset = size before", bad)
	}
	// ---- root traverser and Dump: offset advance and callback metadata
	for _, s := range []struct {
		spec   fnSpec
		offFld string
	}{{fnSpec{modRoot, "selectiveCarTraverser", "loader"}, "offset"}, {fnSpec{modRoot, "SelectiveCarPrepared", "Dump"}, ""}} {
		fn, err := c.Func(s.spec.pkg, s.spec.recv, s.spec.name)
		if err != nil {
			r.InfraFail("%v", err)
			continue
		}
		key := "offset-advance@" + fnKey(fn)
		sizes := callsIn(fn, func(f *types.Func, _ *ssa.CallCommon) bool { return isLdSize(f) })
		bad := ""
		if len(sizes) != 1 {
			bad = "expected one util.LdSize(cid bytes, data)"
		} else {
			size := ssa.Value(sizes[0].Value())
			elems := sliceLiteralElems(sizes[0].Common().Args[0])
			if _, ok := isCidBytes(elems[0]); !ok || len(elems) != 2 {
				bad = "the section size is not LdSize(c.Bytes(), data)"
			}
			// Block literal fields
			var offV, sizeV ssa.Value
			eachInstr(fn, func(in ssa.Instruction) {
				if st, ok := in.(*ssa.Store); ok {
					if fa, ok := st.Addr.(*ssa.FieldAddr); ok && isNamed(fa.X.Type(), modRoot, "Block") {
						switch fieldVar(fa.X.Type(), fa.Field).Name() {
						case "Offset":
							offV = st.Val
						case "Size":
							sizeV = st.Val
						}
					}
				}
			})
			if bad == "" && (sizeV == nil || canon(sizeV) != size) {
				bad = "Block.Size reported to the callback is not the LdSize of this section"
			}
			if bad == "" {
				// the advance: offset_new = offset_old + size; reported Offset = offset_old
				okAdv := false
				check := func(newV ssa.Value, isOld func(ssa.Value) bool) {
					b, ok := canon(newV).(*ssa.BinOp)
					if ok && b.Op == token.ADD && ((isOld(b.X) && canonF(b.Y) == size) || (isOld(b.Y) && canonF(b.X) == size)) {
						okAdv = true
					}
				}
				if s.offFld != "" {
					eachInstr(fn, func(in ssa.Instruction) {
						if st, ok := in.(*ssa.Store); ok {
							if fa, ok := st.Addr.(*ssa.FieldAddr); ok && fieldAddrIs(fa, s.spec.pkg, s.spec.recv, s.offFld) {
								check(st.Val, func(v ssa.Value) bool { return loadsField(canon(v), s.spec.pkg, s.spec.recv, s.offFld) })
								if offV != nil {
									if ld, ok := canon(offV).(ssa.Instruction); ok && instrReaches(st, ld) && st.Block() == ld.Block() {
										bad = "the offset reported to the callback is read after the advance"
									}
								}
							}
						}
					})
					if bad == "" && (offV == nil || !loadsField(canon(offV), s.spec.pkg, s.spec.recv, s.offFld)) {
						bad = "Block.Offset is not the traverser's running offset"
					}
				} else {
					// Dump: local loop-carried offset
					phi, ok := canon(offV).(*ssa.Phi)
					if !ok {
						bad = "Block.Offset is not the loop-carried offset (value before the advance)"
					} else {
						for _, e := range phi.Edges {
							check(e, func(v ssa.Value) bool { return canon(v) == ssa.Value(phi) })
						}
						initOK := false
						for _, o := range origins(phi, originOpts{binops: true}) {
							if o.Kind == "call" && o.Fn != nil && o.Fn.Name() == "HeaderSize" {
								initOK = true
							}
						}
						if !initOK {
							bad = "the first section's offset is not HeaderSize(header)"
						}
					}
				}
				if bad == "" && !okAdv {
					bad = "the offset is not advanced by exactly the section size"
				}
			}
		}
		r.Check(bad == "", key, c.Pos(fn.Pos()), "callback gets (offset before, LdSize); offset += LdSize", bad)
	}
	// ---- Dump and Write emit header then sections
	for _, s := range []fnSpec{{modRoot, "SelectiveCarPrepared", "Dump"}, {modRoot, "SelectiveCar", "Write"}} {
		fn, err := c.Func(s.pkg, s.recv, s.name)
		if err != nil {
			r.InfraFail("%v", err)
			continue
		}
		key := "emission@" + fnKey(fn)
		nh, nw := 0, 0
		for _, g := range withAnon(fn) {
			nh += len(callsToFunc(g, modRoot, "", "WriteHeader"))
			nw += len(callsToFunc(g, pkgRootUtil, "", "LdWrite"))
		}
		r.Check(nh == 1 && nw == 1, key, c.Pos(fn.Pos()), "one WriteHeader and one LdWrite(w, cid bytes, data) site (argument order: R01a)", fmt.Sprintf("expected exactly one WriteHeader and one LdWrite emission site, found %d/%d: Dump and Write no longer emit the same framing", nh, nw))
	}
}

func ruleR15c(c *Ctx, r *Report) {
	fn, err := c.Func(modV2, "traversalCar", "WriteV1")
	if err != nil {
		r.InfraFail("%v", err)
		return
	}
	key := "size-mismatch-guard@" + fnKey(fn)
	var mis []*ssa.Return
	for _, ret := range returnsOf(fn) {
		if isGlobalLoad(canon(ret.Results[2]), modV2, "ErrSizeMismatch") {
			mis = append(mis, ret)
		}
	}
	isSize := func(v ssa.Value) bool { return loadsField(canon(v), modV2, "traversalCar", "size") }
	isWritten := func(v ssa.Value) bool {
		cl, _ := callOf(canon(v))
		return cl != nil && cl.Common().IsInvoke() && cl.Common().Method.Name() == "Size"
	}
	nz := cmpEdges(fn, isSize, func(v ssa.Value) bool { k, ok := constInt(v); return ok && k == 0 }, "ne")
	ne := cmpEdges(fn, isSize, isWritten, "ne")
	bad := ""
	switch {
	case len(mis) != 1:
		bad = "ErrSizeMismatch return not found"
	case len(nz) == 0 || len(ne) == 0:
		bad = "the guard is not `tc.size != 0 && tc.size != <bytes written>`"
	case reach(fn, nil, edgeSet(nz))[mis[0].Block()] || reach(fn, nil, edgeSet(ne))[mis[0].Block()]:
		bad = "ErrSizeMismatch is reachable without both tc.size != 0 and tc.size != written"
	default:
		// and conversely: on size != 0 && size != written nothing but the mismatch return is reachable
		for _, e := range ne {
			rr := reachFromEdge(fn, e, nil)
			for _, ret := range returnsOf(fn) {
				if rr[ret.Block()] && ret != mis[0] {
					bad = "a mismatch between the announced and the written size does not always end in ErrSizeMismatch"
				}
			}
		}
	}
	if bad == "" {
		// success only through `size == 0` or `size == written`
		eqE := cmpEdges(fn, isSize, isWritten, "eq")
		zeroE := cmpEdges(fn, isSize, func(v ssa.Value) bool { k, ok := constInt(v); return ok && k == 0 }, "eq")
		rs := reach(fn, nil, edgeSet(eqE, zeroE))
		for _, ret := range returnsOf(fn) {
			if rs[ret.Block()] && resultIsNilConst(ret, 2) {
				bad = fmt.Sprintf("the success return at %s is reachable without the announced size having been found equal to the bytes written (or unset): a header announcing another DataSize has already been written by then", c.Pos(ret.Pos()))
			}
		}
	}
	r.Check(bad == "", key, c.Pos(fn.Pos()), "ErrSizeMismatch exactly on size != 0 && size != written; success only on size == 0 || size == written", bad)
}

// ruleR15f: zero padding is emitted in exactly the announced amount.
func ruleR15f(c *Ctx, r *Report) {
	n := 0
	for _, fn := range c.RepoFuncs() {
		if fn.Pkg == nil || fn.Pkg.Pkg.Path() != modV2 {
			continue
		}
		ord := 0
		eachInstr(fn, func(in ssa.Instruction) {
			ci, ok := in.(*ssa.Call)
			if !ok {
				return
			}
			cm := ci.Common()
			name := ""
			if cm.IsInvoke() {
				name = cm.Method.Name()
			} else if f := calleeFunc(cm); f != nil {
				name = f.Name()
			}
			if name != "Write" || len(cm.Args) == 0 {
				return
			}
			buf := cm.Args[len(cm.Args)-1]
			// a pure zero buffer: every origin is a make([]byte, N) that nothing is stored into
			var makes []*ssa.MakeSlice
			pure := true
			for _, o := range origins(buf, originOpts{}) {
				ms, isMake := o.Val.(*ssa.MakeSlice)
				if !isMake {
					pure = false
					continue
				}
				makes = append(makes, ms)
				for _, ref := range *ms.Referrers() {
					switch x := ref.(type) {
					case *ssa.IndexAddr:
						pure = false
					case *ssa.Call:
						if x != ci {
							pure = false // handed to something that may fill it
						}
					}
				}
			}
			if !pure || len(makes) == 0 {
				return
			}
			ord++
			n++
			key := fmt.Sprintf("padding-write@%s#%d", fnKey(fn), ord)
			inLoop := false
			for _, sc := range in.Block().Succs {
				if reach(fn, sc, nil)[in.Block()] {
					inLoop = true
				}
			}
			if !inLoop {
				r.Hold(key, c.Pos(in.Pos()), "one Write of a zero buffer allocated with the padding length")
				return
			}
			// chunked: the slice handed to Write must be cut to the remaining amount
			sl, isSl := buf.(*ssa.Slice)
			okTrim := false
			if isSl && sl.High != nil {
				for _, o := range origins(sl.High, originOpts{binops: true}) {
					_ = o
				}
				okTrim = len(subtractionsFeeding(sl.High)) > 0 || isMinCall(sl.High)
			}
			r.Check(okTrim, key, c.Pos(in.Pos()), "chunked padding, each chunk cut to the remaining count",
				"zero padding is written in a loop with the whole scratch buffer each time: the last chunk is not cut to the remaining count, so more zero bytes are emitted than the header's DataOffset/IndexOffset announce and payload or index sit later than announced")
		})
	}
	r.Count("zero-buffer writes in package v2", n)
}

func isMinCall(v ssa.Value) bool {
	for i := 0; i < 4; i++ {
		switch x := v.(type) {
		case *ssa.Convert:
			v = x.X
			continue
		case *ssa.Call:
			if b, ok := x.Call.Value.(*ssa.Builtin); ok && b.Name() == "min" {
				return true
			}
		}
		break
	}
	return false
}

func ruleR15e(c *Ctx, r *Report) {
	fn, err := c.Func(modV2, "", "TraverseToFile")
	if err != nil {
		r.InfraFail("%v", err)
		return
	}
	key := "header-fixup@" + fnKey(fn)
	wt := callsToFunc(fn, modV2, "traversalCar", "WriteTo")
	wh := callsToFunc(fn, modV2, "traversalCar", "WriteV2Header")
	bad := ""
	switch {
	case len(wt) != 1 || len(wh) != 1:
		bad = "TraverseToFile does not re-run WriteV2Header after WriteTo: a header rebuilt by hand loses the data/index padding and no-index handling that the first pass applied"
	case !wt[0].Block().Dominates(wh[0].Block()):
		bad = "the header fix-up does not follow the write pass"
	case len(headerWriteCalls(fn)) > 0:
		bad = "TraverseToFile writes a header itself instead of through WriteV2Header"
	}
	if bad == "" {
		rew := false
		eachInstr(fn, func(in ssa.Instruction) {
			if ci, ok := in.(*ssa.Call); ok && funcIs(calleeFunc(ci.Common()), "os", "File", "Seek") {
				o, _ := constInt(ci.Call.Args[1])
				w, _ := constInt(ci.Call.Args[2])
				if o == 0 && w == 0 && instrReaches(wt[0], in) && instrReaches(in, wh[0]) {
					rew = true
				}
			}
		})
		if !rew {
			bad = "the file is not rewound to offset 0 between the write pass and the header fix-up"
		}
	}
	r.Check(bad == "", key, c.Pos(fn.Pos()), "WriteTo; Seek(0,0); WriteV2Header", bad)
}

func ruleR15g(c *Ctx, r *Report) {
	cidOfBytes := func(v ssa.Value) ssa.Value {
		cl, _ := callOf(canon(v))
		if cl == nil || !funcIs(calleeFunc(cl.Common()), pkgCid, "Cid", "Bytes") {
			return nil
		}
		return canonF(callArgs(cl.Common())[0])
	}
	for _, sp := range []fnSpec{{modRoot, "selectiveCarTraverser", "loader"}, {modRoot, "SelectiveCarPrepared", "Dump"}} {
		fn, err := c.Func(sp.pkg, sp.recv, sp.name)
		if err != nil {
			r.InfraFail("%v", err)
			continue
		}
		key := "one-cid-per-section@" + fnKey(fn)
		var sized, emitted []ssa.Value
		for _, ci := range callsToFunc(fn, pkgRootUtil, "", "LdSize") {
			if el := varargElems(ci.Common().Args[0]); len(el) > 0 {
				if v := cidOfBytes(el[0]); v != nil {
					sized = append(sized, v)
				}
			}
		}
		for _, ci := range callsToFunc(fn, pkgRootUtil, "", "LdWrite") {
			if el := varargElems(ci.Common().Args[1]); len(el) > 0 {
				if v := cidOfBytes(el[0]); v != nil {
					emitted = append(emitted, v)
				}
			}
		}
		// Block{BlockCID: c}
		eachInstr(fn, func(in ssa.Instruction) {
			if st, ok := in.(*ssa.Store); ok {
				if fa, ok := st.Addr.(*ssa.FieldAddr); ok {
					if fv := fieldVar(fa.X.Type(), fa.Field); fv != nil && fv.Name() == "BlockCID" {
						emitted = append(emitted, canonF(st.Val))
					}
				}
			}
		})
		if len(sized) == 0 || len(emitted) == 0 {
			r.Undec(key, c.Pos(fn.Pos()), fmt.Sprintf("LdSize over a CID's bytes (%d) or the emission of a CID (%d) not found", len(sized), len(emitted)))
			continue
		}
		bad := ""
		for _, s := range sized {
			for _, e := range emitted {
				if s != e {
					bad = "the section is sized with the bytes of one CID value and reported/written with another: when the store hands back the block under a different CID than the link asked for (CIDv0 vs CIDv1), Size, every later Offset and the prepared total are off"
				}
			}
		}
		r.Check(bad == "", key, c.Pos(fn.Pos()), "sized and emitted with the same CID value", bad)
	}
}

// varargElems: the values stored into the backing array of a variadic argument slice.
func varargElems(v ssa.Value) []ssa.Value {
	sl, ok := v.(*ssa.Slice)
	if !ok {
		return nil
	}
	al, ok := sl.X.(*ssa.Alloc)
	if !ok {
		return nil
	}
	type el struct {
		idx int64
		v   ssa.Value
	}
	var els []el
	for _, ref := range *al.Referrers() {
		if ia, ok := ref.(*ssa.IndexAddr); ok {
			k, _ := constInt(ia.Index)
			for _, st := range storesTo(ia) {
				els = append(els, el{k, st.Val})
			}
		}
	}
	sort.Slice(els, func(i, j int) bool { return els[i].idx < els[j].idx })
	var out []ssa.Value
	for _, e := range els {
		out = append(out, e.v)
	}
	return out
}

func ruleR15h(c *Ctx, r *Report) {
	fn, err := c.Func(modV2, "traversalCar", "WriteTo")
	if err != nil {
		r.InfraFail("%v", err)
		return
	}
	key := "count-includes-payload@" + fnKey(fn)
	calls := callsToFunc(fn, modV2, "traversalCar", "WriteV1")
	if len(calls) != 1 {
		r.Undec(key, c.Pos(fn.Pos()), "expected one WriteV1 call")
		return
	}
	cv := calls[0].Value()
	after := reach(fn, calls[0].Block(), nil)
	bad := ""
	n := 0
	for _, ret := range returnsOf(fn) {
		if !after[ret.Block()] || len(ret.Results) == 0 {
			continue
		}
		if ret.Block() == calls[0].Block() && instrIndex(ret) < instrIndex(calls[0].(ssa.Instruction)) {
			continue
		}
		n++
		has := false
		for _, o := range origins(retResult(ret, 0), originOpts{binops: true}) {
			if o.Kind == "call" {
				if cl, _ := callOf(o.Val); cl == cv {
					has = true
				}
			}
		}
		if !has {
			bad = fmt.Sprintf("the count returned at %s leaves out the bytes the payload pass wrote: after a failure in that pass the caller is told fewer bytes reached the destination than did", c.Pos(ret.Pos()))
		}
	}
	r.Check(bad == "", key, c.Pos(calls[0].Pos()), fmt.Sprintf("%d return(s) after the payload pass, each including its byte count", n), bad)
}

func ruleR15k(c *Ctx, r *Report) {
	n := 0
	for _, fn := range c.RepoFuncs() {
		if !inLib(fn) {
			continue
		}
		ord := 0
		eachInstr(fn, func(in ssa.Instruction) {
			st, ok := in.(*ssa.Store)
			if !ok {
				return
			}
			fa, ok := st.Addr.(*ssa.FieldAddr)
			if !ok {
				return
			}
			fv := fieldVar(fa.X.Type(), fa.Field)
			if fv == nil || fv.Name() != "Budget" || fv.Pkg() == nil || !strings.HasSuffix(fv.Pkg().Path(), "go-ipld-prime/traversal") {
				return
			}
			n++
			ord++
			key := fmt.Sprintf("fresh-budget@%s#%d", fnKey(fn), ord)
			bad := ""
			for _, o := range origins(st.Val, originOpts{}) {
				if o.Kind == "alloc" {
					if al, ok := o.Val.(*ssa.Alloc); ok && al.Parent() == fn {
						continue
					}
				}
				if o.Kind == "const" {
					continue
				}
				if o.Kind == "call" && o.Fn != nil && returnsFreshOrNil(c, o.Fn) {
					continue // a constructor of the repository: every call hands out a new one
				}
				bad = fmt.Sprintf("the budget comes from %s, not from an allocation made for this walk: a second pass starts with what the first one left", o.Kind)
			}
			r.Check(bad == "", key, c.Pos(st.Pos()), "allocated for this walk", bad)
		})
	}
	r.Count("traversal.Progress budgets set in library packages", n)
}

func ruleR15l(c *Ctx, r *Report) {
	for _, name := range []string{"TeeingLinkSystem", "CountingLinkSystem"} {
		fn, err := c.Func(pkgLoader, "", name)
		if err != nil {
			r.InfraFail("%v", err)
			continue
		}
		key := "loader-errors-unwrapped@" + fnKey(fn)
		bad := ""
		n := 0
		for _, g := range withAnon(fn) {
			if g == fn {
				continue
			}
			res := g.Signature.Results()
			if res.Len() != 2 {
				continue
			}
			for _, ret := range returnsOf(g) {
				ev := retResult(ret, 1)
				if isNilConst(ev) {
					continue
				}
				n++
				for _, o := range origins(ev, originOpts{}) {
					if o.Kind == "call" && o.Fn != nil && o.Fn.Pkg() != nil && (o.Fn.Pkg().Path() == "fmt" || o.Fn.Pkg().Path() == "errors") {
						bad = fmt.Sprintf("the opener returns at %s an error built by %s: an error value of the wrapped link system (traversal.SkipMe) is no longer recognisable by the traversal", c.Pos(ret.Pos()), funcKey(o.Fn))
					}
				}
			}
		}
		r.Check(bad == "", key, c.Pos(fn.Pos()), fmt.Sprintf("%d error return(s) of the opener pass errors on as they are", n), bad)
	}
}

// readOpenerOf: the function a link-system constructor installs as StorageReadOpener — its one
// closure, or the method (value) or named function it stores into that field.
func readOpenerOf(fn *ssa.Function) *ssa.Function {
	if len(closuresOf(fn)) == 1 {
		return closuresOf(fn)[0]
	}
	var out *ssa.Function
	n := 0
	eachInstr(fn, func(in ssa.Instruction) {
		st, ok := in.(*ssa.Store)
		if !ok {
			return
		}
		fa, ok := st.Addr.(*ssa.FieldAddr)
		if !ok {
			return
		}
		if fv := fieldVar(fa.X.Type(), fa.Field); fv == nil || fv.Name() != "StorageReadOpener" {
			return
		}
		if t := funcValueTarget(st.Val); t != nil && t.Blocks != nil {
			out = t
			n++
		}
	})
	if n == 1 {
		return out
	}
	return nil
}

// ---- R15y: every DAG of a selective car is walked -------------------------------------------------

func ruleR15y(c *Ctx, r *Report) {
	fn, err := c.Func(modRoot, "selectiveCarTraverser", "traverseBlocks")
	if err != nil {
		r.InfraFail("%v", err)
		return
	}
	key := "every-dag-walked@" + fnKey(fn)
	var walk ssa.Instruction
	nWalk := 0
	isWalk := func(cc *ssa.CallCommon) bool {
		f := calleeFunc(cc)
		return f != nil && f.Name() == "WalkAdv" && f.Pkg() != nil && strings.HasSuffix(f.Pkg().Path(), "go-ipld-prime/traversal")
	}
	// the traversal itself, or the call of a repository function that performs it (the body of the
	// loop moved into a method)
	var walks func(f *ssa.Function, depth int) bool
	walks = func(f *ssa.Function, depth int) bool {
		found := false
		eachInstr(f, func(in ssa.Instruction) {
			if ci, ok := in.(ssa.CallInstruction); ok && !found {
				if isWalk(ci.Common()) {
					found = true
				} else if t := staticTarget(ci.Common()); t != nil && depth > 0 && t.Pkg != nil && isRepoPkg(t.Pkg.Pkg.Path()) && t.Blocks != nil {
					found = walks(t, depth-1)
				}
			}
		})
		return found
	}
	eachInstr(fn, func(in ssa.Instruction) {
		if ci, ok := in.(ssa.CallInstruction); ok {
			if isWalk(ci.Common()) {
				walk = in
				nWalk++
			} else if t := staticTarget(ci.Common()); t != nil && t.Pkg != nil && isRepoPkg(t.Pkg.Pkg.Path()) && t.Blocks != nil && walks(t, 2) {
				walk = in
				nWalk++
			}
		}
	})
	if nWalk != 1 {
		r.Undec(key, c.Pos(fn.Pos()), fmt.Sprintf("expected one Progress.WalkAdv call in traverseBlocks, found %d", nWalk))
		return
	}
	head, again, nBlocks := roundWithout(walk)
	if head == nil {
		r.Undec(key, c.Pos(walk.Pos()), "the traversal does not stand in a loop: how the DAGs are enumerated is not recognised")
		return
	}
	r.Count("blocks of the loop over the DAGs", nBlocks)
	r.Check(!again, key, c.Pos(walk.Pos()), "every round of the loop over the DAGs passes the traversal or leaves the function", "a round of the loop over the DAGs can reach the next round without the traversal (a `continue` in front of Progress.WalkAdv): a DAG is skipped — what its selector reaches is not in the car although the DAG was asked for")
}

// roundWithout: the innermost loop the instruction stands in (head: the nearest dominator of its
// block that is the target of a back edge and that its block reaches again), and whether a round of
// that loop can reach the next round without passing the instruction's block.
func roundWithout(at ssa.Instruction) (head *ssa.BasicBlock, skips bool, loopBlocks int) {
	wb := at.Block()
	fwd := func(from *ssa.BasicBlock, without *ssa.BasicBlock) map[*ssa.BasicBlock]bool {
		seen := map[*ssa.BasicBlock]bool{}
		st := append([]*ssa.BasicBlock(nil), from.Succs...)
		for len(st) > 0 {
			b := st[len(st)-1]
			st = st[:len(st)-1]
			if seen[b] || b == without {
				continue
			}
			seen[b] = true
			st = append(st, b.Succs...)
		}
		return seen
	}
	after := fwd(wb, nil)
	for d := wb.Idom(); d != nil; d = d.Idom() {
		back := false
		for _, p := range d.Preds {
			if d == p || d.Dominates(p) {
				back = true
			}
		}
		if after[d] && back {
			head = d
			break
		}
	}
	if head == nil {
		return nil, false, 0
	}
	return head, fwd(head, wb)[head], len(after)
}

// returnsFreshOrNil: a repository function whose every return hands out an object allocated in
// that very call, or nil.
func returnsFreshOrNil(c *Ctx, f *types.Func) bool {
	if f.Pkg() == nil || !isRepoPkg(f.Pkg().Path()) {
		return false
	}
	fn := c.Prog.FuncValue(f)
	if fn == nil || fn.Blocks == nil {
		return false
	}
	n := 0
	ok := true
	eachInstr(fn, func(in ssa.Instruction) {
		ret, isRet := in.(*ssa.Return)
		if !isRet || len(ret.Results) == 0 {
			return
		}
		n++
		for _, o := range origins(ret.Results[0], originOpts{}) {
			switch o.Kind {
			case "const":
			case "alloc":
				if al, isAl := o.Val.(*ssa.Alloc); !isAl || al.Parent() != fn {
					ok = false
				}
			default:
				ok = false
			}
		}
	})
	return ok && n > 0
}
