package main

import (
	"fmt"
	"go/token"
	"go/types"
	"sort"
	"strings"

	"golang.org/x/tools/go/ssa"
)

// ---- comparisons as facts -----------------------------------------------------------------------

// cmpEdges returns, for every If in fn that compares a value satisfying isX with
// one satisfying isY, the outcome edge on which the fact `X want Y` is
// established, want being one of "lt","le","gt","ge","eq","ne".
func cmpEdges(fn *ssa.Function, isX, isY func(ssa.Value) bool, want string) []Edge {
	return condEdges(fn, func(base ssa.Value) (bool, bool) {
		b, ok := base.(*ssa.BinOp)
		if !ok {
			return false, false
		}
		rel := b.Op
		switch {
		case isX(b.X) && isY(b.Y):
		case isX(b.Y) && isY(b.X):
			rel = flipRel(rel)
		default:
			return false, false
		}
		factTrue, factFalse := relFacts(rel)
		if factTrue == "" {
			return false, false
		}
		if implies(factTrue, want) {
			return true, true
		}
		if implies(factFalse, want) {
			return true, false
		}
		return false, false
	})
}

func flipRel(t token.Token) token.Token {
	switch t {
	case token.LSS:
		return token.GTR
	case token.GTR:
		return token.LSS
	case token.LEQ:
		return token.GEQ
	case token.GEQ:
		return token.LEQ
	}
	return t
}

func relFacts(t token.Token) (whenTrue, whenFalse string) {
	switch t {
	case token.GTR:
		return "gt", "le"
	case token.GEQ:
		return "ge", "lt"
	case token.LSS:
		return "lt", "ge"
	case token.LEQ:
		return "le", "gt"
	case token.EQL:
		return "eq", "ne"
	case token.NEQ:
		return "ne", "eq"
	}
	return "", ""
}

func implies(fact, want string) bool {
	if fact == want {
		return true
	}
	switch fact {
	case "gt":
		return want == "ge" || want == "ne"
	case "lt":
		return want == "le" || want == "ne"
	case "eq":
		return want == "le" || want == "ge"
	}
	return false
}

// ---- affine normal form with opaque atoms ---------------------------------------------------------

// Aff is k + Σ c_i·atom_i. Atoms are strings; values that cannot be decomposed
// are atoms by identity.
type Aff struct {
	K int64
	T map[string]int64
}

func (a Aff) String() string {
	var ks []string
	for k, c := range a.T {
		if c != 0 {
			ks = append(ks, k)
		}
	}
	sort.Strings(ks)
	var sb strings.Builder
	fmt.Fprintf(&sb, "%d", a.K)
	for _, k := range ks {
		fmt.Fprintf(&sb, " %+d*%s", a.T[k], k)
	}
	return sb.String()
}

func (a Aff) add(b Aff, sign int64) Aff {
	out := Aff{K: a.K + sign*b.K, T: map[string]int64{}}
	for k, c := range a.T {
		out.T[k] += c
	}
	for k, c := range b.T {
		out.T[k] += sign * c
	}
	for k, c := range out.T {
		if c == 0 {
			delete(out.T, k)
		}
	}
	return out
}

func (a Aff) scale(m int64) Aff {
	out := Aff{K: a.K * m, T: map[string]int64{}}
	for k, c := range a.T {
		if c*m != 0 {
			out.T[k] = c * m
		}
	}
	return out
}

func (a Aff) isConst() bool { return len(a.T) == 0 }

func (a Aff) equal(b Aff) bool { return a.add(b, -1).isConst() && a.K == b.K }

func affAtom(s string) Aff { return Aff{T: map[string]int64{s: 1}} }

// AffEnv customises atom naming.
type AffEnv struct {
	// name gives a stable name to a leaf value (e.g. "cidLen" for an Extract of a
	// given call); return "" to fall back to identity.
	name func(v ssa.Value) string
	// aff, when set, gives a leaf value as an affine form of its own (a loop counter as
	// iterations + start); it is asked before name.
	aff func(v ssa.Value) (Aff, bool)
}

func (e *AffEnv) of(v ssa.Value) Aff { return e.ofd(v, 0) }

func (e *AffEnv) ofd(v ssa.Value, depth int) Aff {
	if depth > 40 {
		return affAtom(fmt.Sprintf("deep%p", v))
	}
	if e.aff != nil {
		if a, ok := e.aff(v); ok {
			return a
		}
	}
	if e.name != nil {
		if n := e.name(v); n != "" {
			return affAtom(n)
		}
	}
	if k, ok := immutableInit(v).(*ssa.Const); ok {
		v = k // an immutable package-level variable initialised with a constant
	}
	switch x := v.(type) {
	case *ssa.Const:
		if i, ok := constInt(x); ok {
			return Aff{K: i}
		}
	case *ssa.Phi:
		// result merge of an inlined helper with one live input (the others travel with an error)
		if isResultMerge(x) {
			if c := canon(x); c != ssa.Value(x) {
				return e.ofd(c, depth+1)
			}
		}
	case *ssa.Convert:
		if isIntegral(x.Type()) && isIntegral(x.X.Type()) {
			return e.ofd(x.X, depth+1)
		}
	case *ssa.ChangeType:
		return e.ofd(x.X, depth+1)
	case *ssa.BinOp:
		switch x.Op {
		case token.ADD:
			return e.ofd(x.X, depth+1).add(e.ofd(x.Y, depth+1), 1)
		case token.SUB:
			return e.ofd(x.X, depth+1).add(e.ofd(x.Y, depth+1), -1)
		case token.MUL:
			a, b := e.ofd(x.X, depth+1), e.ofd(x.Y, depth+1)
			if a.isConst() {
				return b.scale(a.K)
			}
			if b.isConst() {
				return a.scale(b.K)
			}
			// (k + Σ c_j a_j) * w  for a single atom w: distribute, products become atoms
			single := func(x Aff) (string, bool) {
				if x.K != 0 || len(x.T) != 1 {
					return "", false
				}
				for k, c := range x.T {
					if c == 1 {
						return k, true
					}
				}
				return "", false
			}
			dist := func(w string, x Aff) Aff {
				out := Aff{T: map[string]int64{}}
				if x.K != 0 {
					out.T[w] = x.K
				}
				for k, c := range x.T {
					p := []string{k, w}
					sort.Strings(p)
					out.T["("+p[0]+"*"+p[1]+")"] += c
				}
				return out
			}
			if w, ok := single(b); ok {
				return dist(w, a)
			}
			if w, ok := single(a); ok {
				return dist(w, b)
			}
		}
	case *ssa.UnOp:
		if x.Op == token.MUL {
			// load: single-store local cell -> stored value; field -> atom by field and base
			if al, ok := x.X.(*ssa.Alloc); ok {
				if sts := storesTo(al); len(sts) == 1 {
					return e.ofd(sts[0].Val, depth+1)
				}
			}
			if fa, ok := x.X.(*ssa.FieldAddr); ok {
				if fv := fieldVar(fa.X.Type(), fa.Field); fv != nil {
					return affAtom("field:" + fv.Name() + "(" + baseName(fa.X) + ")")
				}
			}
		}
	case *ssa.Field:
		if fv := fieldVar(x.X.Type(), x.Field); fv != nil {
			return affAtom("field:" + fv.Name() + "(" + baseName(x.X) + ")")
		}
	case *ssa.Parameter:
		return affAtom("param:" + x.Name())
	case *ssa.Call:
		if f := calleeFunc(x.Common()); funcIs(f, pkgV1Util, "", "LdSize") || funcIs(f, pkgRootUtil, "", "LdSize") {
			// LdSize(d...) = S + U(S), S = sum of len(d_i)   (checked by rule R01b)
			sum := Aff{}
			for _, el := range sliceLiteralElems(x.Call.Args[0]) {
				sum = sum.add(e.lenOf(el), 1)
			}
			return sum.add(affAtom("U("+sum.String()+")"), 1)
		}
		// len(b[lo:hi]) == hi - lo
		if b, ok := x.Call.Value.(*ssa.Builtin); ok && b.Name() == "len" {
			if sl, ok := canon(x.Call.Args[0]).(*ssa.Slice); ok && sl.High != nil {
				out := e.ofd(sl.High, depth+1)
				if sl.Low != nil {
					out = out.add(e.ofd(sl.Low, depth+1), -1)
				}
				return out
			}
			// len(make([]T, n)) == n
			if mk, ok := canon(x.Call.Args[0]).(*ssa.MakeSlice); ok {
				return e.ofd(mk.Len, depth+1)
			}
		}
		if s := e.pureCall(x, depth); s != "" {
			return affAtom(s)
		}
	case *ssa.Extract:
		// fallthrough to identity
	}
	return affAtom(fmt.Sprintf("%s@%p", v.Name(), v))
}

func baseName(v ssa.Value) string {
	switch x := v.(type) {
	case *ssa.Parameter:
		return x.Name()
	case *ssa.Alloc:
		return fmt.Sprintf("local%p", x)
	case *ssa.UnOp:
		if x.Op == token.MUL {
			if fa, ok := x.X.(*ssa.FieldAddr); ok {
				if fv := fieldVar(fa.X.Type(), fa.Field); fv != nil {
					return baseName(fa.X) + "." + fv.Name()
				}
			}
			if al, ok := x.X.(*ssa.Alloc); ok {
				if sts := storesTo(al); len(sts) == 1 {
					return baseName(sts[0].Val)
				}
			}
		}
	case *ssa.FieldAddr:
		if fv := fieldVar(x.X.Type(), x.Field); fv != nil {
			return baseName(x.X) + "." + fv.Name()
		}
	}
	return fmt.Sprintf("%s@%p", v.Name(), v)
}

// pureCall names applications of known pure functions to normalised arguments.
func (e *AffEnv) pureCall(c *ssa.Call, depth int) string {
	if b, ok := c.Call.Value.(*ssa.Builtin); ok && b.Name() == "len" {
		arg := c.Call.Args[0]
		// len(varint.ToUvarint(x)) == UvarintSize(x)
		if ic, _ := callOf(arg); ic != nil {
			f := calleeFunc(ic.Common())
			if funcIs(f, pkgVarint, "", "ToUvarint") {
				return "U(" + e.ofd(ic.Call.Args[0], depth+1).String() + ")"
			}
			if funcIs(f, pkgCid, "Cid", "Bytes") {
				return "cidlen(" + e.valName(callArgs(ic.Common())[0]) + ")"
			}
		}
		return "len(" + e.valName(arg) + ")"
	}
	f := calleeFunc(c.Common())
	switch {
	case funcIs(f, pkgVarint, "", "UvarintSize"):
		return "U(" + e.ofd(c.Call.Args[0], depth+1).String() + ")"
	case funcIs(f, pkgVarint, "", "PutUvarint"), funcIs(f, "encoding/binary", "", "PutUvarint"):
		// returns the number of bytes of the encoding
		return "U(" + e.ofd(c.Call.Args[1], depth+1).String() + ")"
	case funcIs(f, pkgCid, "Cid", "ByteLen"):
		return "cidlen(" + e.valName(callArgs(c.Common())[0]) + ")"
	}
	return ""
}

// lenOf is the affine form of len(v) for a byte slice value.
func (e *AffEnv) lenOf(v ssa.Value) Aff {
	if ic, _ := callOf(canon(v)); ic != nil {
		if f := calleeFunc(ic.Common()); funcIs(f, pkgCid, "Cid", "Bytes") {
			return affAtom("cidlen(" + e.valName(callArgs(ic.Common())[0]) + ")")
		}
	}
	return affAtom("len(" + e.valName(v) + ")")
}

func (e *AffEnv) valName(v ssa.Value) string {
	v = canon(v)
	if e.name != nil {
		if n := e.name(v); n != "" {
			return n
		}
	}
	switch x := v.(type) {
	case *ssa.Parameter:
		return "param:" + x.Name()
	}
	return fmt.Sprintf("%s@%p", v.Name(), v)
}

var _ = types.Typ
