package main

// The wrong one of two like things (rule R<nn>W, round 12). A field read or a call is replaced by
// its sibling: `header.IndexOffset` for `header.DataOffset`, `opts.BlockstoreUseWholeCIDs` for
// `opts.BlockstoreAllowDuplicatePuts`, `MaxAllowedSectionSize` for `MaxAllowedHeaderSize`,
// `b.ronly.closeWithoutMutex()` for `b.closeWithoutMutex()`, `Characteristics.IsFullyIndexed()` for
// `Header.HasIndex()`, `DefaultWalkFunc(nd)` for the stored `cw.walk(nd)`. The compiler is silent
// because the two have one type, the suite because they coincide by default.
//
// What a static check can hold on to is the *exchange*: per declared function (after the
// normalisation pass, closures included) the multiset of struct fields it reads and of functions it
// calls is tabled for the pinned tree (baseline_siblings.txt, `-genbaselinesiblings`). A function
// is reported when, against the table,
//
//   - it reads a field it did not read (or reads it more often) while it reads a sibling — another
//     field of the same struct type with the same field type — less often, and one side of the
//     exchange is complete (the new one was not read at all before, or the old one is not read at
//     all now); or
//   - it calls a function it did not call, while it calls less often a function with the same
//     parameter and result types that the pinned tree does have (a function the pinned tree does
//     not declare is a renamed or new helper, not a sibling).
//
// Reads that only move (a hoisted local, a struct passed whole, a helper extracted or merged)
// change counts on one side only and are not exchanges. Reported, like the other baseline
// families, under every property whose anchor files reach the function.

import (
	_ "embed"
	"fmt"
	"go/token"
	"go/types"
	"sort"
	"strings"

	"golang.org/x/tools/go/ssa"
)

//go:embed baseline_siblings.txt
var baselineSiblingsTxt string

// baselineSiblings: fn -> "read\tS.f" / "call\tcallee" -> count
var baselineSiblings = func() map[string]map[string]int {
	m := map[string]map[string]int{}
	for _, l := range strings.Split(baselineSiblingsTxt, "\n") {
		if l == "" || strings.HasPrefix(l, "#") {
			continue
		}
		f := strings.Split(l, "\t")
		if len(f) != 5 {
			continue
		}
		if m[f[0]] == nil {
			m[f[0]] = map[string]int{}
		}
		n := 0
		fmt.Sscan(f[3], &n)
		m[f[0]][f[1]+"\t"+f[2]] = n
		baselineSiblingClass[f[1]+"\t"+f[2]] = f[4]
	}
	return m
}()

// baselineSiblingClass: "kind\twhat" -> class (struct type and field type, or signature) in the pinned tree
var baselineSiblingClass = map[string]string{}

type sibUse struct {
	fn    string
	kind  string // "read" or "call"
	what  string // S.f or the callee
	class string // what makes two uses siblings: struct type + field type, or the signature
	pos   string
	known bool // call: the callee is a function the pinned tree has (or a dependency's)
}

func (c *Ctx) siblingUses() []sibUse {
	if c.sib != nil {
		return c.sib
	}
	q := func(p *types.Package) string { return p.Name() }
	out := []sibUse{}
	for _, root := range c.RepoFuncs() {
		if root.Parent() != nil || !inLib(root) && (root.Pkg == nil || !strings.HasPrefix(root.Pkg.Pkg.Path(), modCmd)) {
			continue
		}
		key := fnKey(root)
		for _, g := range withAnon(root) {
			live := liveBlocks(g)
			for _, b := range g.Blocks {
				if !live[b] {
					continue
				}
				for _, in := range b.Instrs {
					switch x := in.(type) {
					case *ssa.UnOp:
						fa, ok := x.X.(*ssa.FieldAddr)
						if !ok || x.Op != token.MUL {
							continue
						}
						if u, ok := fieldUse(key, fa.X.Type(), fa.Field, c.Pos(x.Pos()), q); ok {
							out = append(out, u)
						}
					case *ssa.Field:
						if u, ok := fieldUse(key, x.X.Type(), x.Field, c.Pos(x.Pos()), q); ok {
							out = append(out, u)
						}
					case ssa.CallInstruction:
						cc := x.Common()
						if _, isB := cc.Value.(*ssa.Builtin); isB {
							continue
						}
						sig := cc.Signature()
						if sig == nil {
							continue
						}
						class := sigClass(sig, q)
						what, known := "", true
						switch {
						case cc.IsInvoke():
							continue // the same method of the same interface, whatever the receiver
						default:
							if f := calleeFunc(cc); f != nil {
								what = funcKey(f)
								if fnv := c.Prog.FuncValue(f); fnv != nil && f.Pkg() != nil && isRepoPkg(f.Pkg().Path()) {
									known = baselineFuncs[ssaDeclKey(fnv)]
								}
							} else if l, ok := cc.Value.(*ssa.UnOp); ok && l.Op == token.MUL {
								// a function value kept in a field
								if fa, ok := l.X.(*ssa.FieldAddr); ok {
									if fv := fieldVar(fa.X.Type(), fa.Field); fv != nil {
										if n := namedOf(fa.X.Type()); n != nil {
											what = "field:" + pinnedTypeNames(shortPkgOf(n)+"."+n.Obj().Name()) + "." + fv.Name()
										}
									}
								}
							}
						}
						if what == "" {
							continue
						}
						out = append(out, sibUse{key, "call", what, class, c.Pos(in.Pos()), known})
					}
				}
			}
		}
	}
	c.sib = out
	return out
}

// sigClass: parameter and result types of a signature, without receiver and without names.
func sigClass(sig *types.Signature, q types.Qualifier) string {
	tuple := func(t *types.Tuple) string {
		var ts []string
		for i := 0; i < t.Len(); i++ {
			ts = append(ts, types.TypeString(t.At(i).Type(), q))
		}
		return strings.Join(ts, ", ")
	}
	v := ""
	if sig.Variadic() {
		v = " variadic"
	}
	return "func(" + tuple(sig.Params()) + ") (" + tuple(sig.Results()) + ")" + v
}

func fieldUse(fn string, t types.Type, idx int, pos string, q types.Qualifier) (sibUse, bool) {
	fv := fieldVar(t, idx)
	n := namedOf(t)
	if fv == nil || n == nil || fv.Embedded() {
		return sibUse{}, false
	}
	s := pinnedTypeNames(shortPkgOf(n) + "." + n.Obj().Name())
	return sibUse{fn, "read", s + "." + fv.Name(), s + " " + types.TypeString(fv.Type(), q), pos, true}, true
}

func ruleSiblings(c *Ctx, r *Report) {
	reach := c.propReach(r.Property)
	type cell struct {
		n     int
		class string
		pos   string
		known bool
	}
	have := map[string]map[string]*cell{}
	for _, u := range c.siblingUses() {
		if have[u.fn] == nil {
			have[u.fn] = map[string]*cell{}
		}
		k := u.kind + "\t" + u.what
		if have[u.fn][k] == nil {
			have[u.fn][k] = &cell{class: u.class, pos: u.pos, known: u.known}
		}
		have[u.fn][k].n++
	}
	newFns := newFuncKeys(c)
	var fns []string
	for fn := range reach {
		if have[fn] != nil || baselineSiblings[fn] != nil {
			fns = append(fns, fn)
		}
	}
	sort.Strings(fns)
	n := 0
	for _, fn := range fns {
		base := baselineSiblings[fn]
		if base == nil || newFns[fn] || have[fn] == nil {
			continue // a function the pinned tree does not have, or one that is gone
		}
		n++
		var gained, lost []string
		for k, cl := range have[fn] {
			if cl.n > base[k] {
				gained = append(gained, k)
			}
		}
		for k, bn := range base {
			now := 0
			if cl := have[fn][k]; cl != nil {
				now = cl.n
			}
			if now < bn {
				lost = append(lost, k)
			}
		}
		sort.Strings(gained)
		sort.Strings(lost)
		bad := ""
		badPos := "-"
		for _, g := range gained {
			cg := have[fn][g]
			for _, l := range lost {
				if strings.HasPrefix(g, "read\t") != strings.HasPrefix(l, "read\t") || bad != "" {
					continue
				}
				lclass := baselineSiblingClass[l]
				if lclass != cg.class {
					continue
				}
				nowL := 0
				if cl := have[fn][l]; cl != nil {
					nowL = cl.n
				}
				_, gw, _ := strings.Cut(g, "\t")
				_, lw, _ := strings.Cut(l, "\t")
				if strings.HasPrefix(g, "read\t") {
					if base[g] != 0 && nowL != 0 {
						continue // neither side of the exchange is complete: reads that moved
					}
					if _, pinned := baselineSiblingClass[g]; !pinned {
						continue // a field the pinned tree does not have (new, renamed, exported): not a sibling of its fields
					}
					bad = fmt.Sprintf("%s reads %s at %s where the pinned tree reads %s (%d -> %d reads of the one, %d -> %d of the other; both are %s): the two coincide by default — same value unless a padding, a limit or an option is set — so the suite cannot tell them apart, and with the option set the function works on the wrong quantity", fn, gw, cg.pos, lw, base[l], nowL, base[g], cg.n, strings.TrimSpace(cg.class[strings.Index(cg.class, " "):]))
				} else {
					if base[g] != 0 || !cg.known || equivalentCallees(gw, lw) {
						continue
					}
					bad = fmt.Sprintf("%s calls %s at %s where the pinned tree calls %s (%d -> %d calls; both are %s): a sibling with the same signature does something else — skips the state check of the wrapper, tests another bit, ignores the stored callback", fn, gw, cg.pos, lw, base[l], nowL, cg.class)
				}
				badPos = cg.pos
			}
		}
		key := "sibling-exchange@" + fn
		if bad != "" {
			r.Viol(key, badPos, bad)
		} else {
			r.Hold(key, "-", "no field read or call exchanged for a like-typed sibling")
		}
	}
	r.Count("functions whose field reads and calls were held against the pinned tree", n)
	if n < 3 {
		r.Undec("sibling-exchange@reach", "-", fmt.Sprintf("only %d functions of the pinned tree found in this property's reach", n))
	}
}

// equivalentCallees: the two are one operation. (a) The same method name on two types of the
// standard library or a dependency: a local helper object changed its type (strings.Builder for
// bytes.Buffer), and every call on it changed with it. (b) Pairs the library documents as one:
// "Ints sorts a slice of ints in increasing order. As of Go 1.22, this function simply calls
// slices.Sort."
func equivalentCallees(a, b string) bool {
	method := func(k string) (typ, name string, dep bool) {
		if strings.HasPrefix(k, "field:") {
			return "", "", false
		}
		i := strings.LastIndex(k, ".")
		if i < 0 {
			return "", "", false
		}
		typ, name = k[:i], k[i+1:]
		dep = !strings.HasPrefix(k, "car.") && !strings.HasPrefix(k, "car/") && !strings.HasPrefix(k, "v2.") && !strings.HasPrefix(k, "v2/") && !strings.HasPrefix(k, "cmd/")
		return typ, name, dep && strings.Contains(typ, ".") // pkg.Type.Method
	}
	ta, na, da := method(a)
	tb, nb, db := method(b)
	if da && db && na == nb && ta != tb {
		return true
	}
	sorts := map[string]bool{"sort.Ints": true, "sort.Strings": true, "sort.Float64s": true, "slices.Sort": true}
	return sorts[a] && sorts[b]
}

func listSiblings(c *Ctx) []string {
	counts := map[string]int{}
	class := map[string]string{}
	for _, u := range c.siblingUses() {
		k := u.fn + "\t" + u.kind + "\t" + u.what
		counts[k]++
		class[k] = u.class
	}
	var out []string
	for k, n := range counts {
		out = append(out, fmt.Sprintf("%s\t%d\t%s", k, n, class[k]))
	}
	sort.Strings(out)
	return out
}
