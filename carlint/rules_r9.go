package main

// Rules written after round 9 of unseen seeded changes (Go-language-level pitfalls). The generic part
// is pitfalls.go; these are the structural necessary conditions that a language-level pattern does not
// express.

import (
	"fmt"
	"go/token"
	"go/types"
	"strings"

	"golang.org/x/tools/go/ssa"
)

// ---- R03x: a compact bucket is exactly width x len bytes -------------------------------------------

func ruleR03x(c *Ctx, r *Report) {
	n := 0
	for _, fn := range c.RepoFuncs() {
		if fn.Pkg == nil || fn.Pkg.Pkg.Path() != pkgIndex {
			continue
		}
		for _, g := range withAnon(fn) {
			for _, al := range allocsOf(g) {
				if !isNamed(derefType(al.Type()), pkgIndex, curTypeName(pkgIndex, "singleWidthIndex")) {
					continue
				}
				var width, length, index ssa.Value
				for _, rf := range *al.Referrers() {
					fa, ok := rf.(*ssa.FieldAddr)
					if !ok {
						continue
					}
					fv := fieldVar(fa.X.Type(), fa.Field)
					for _, st := range storesTo(fa) {
						switch fv.Name() {
						case "width":
							width = st.Val
						case "len":
							length = st.Val
						case "index":
							index = st.Val
						}
					}
				}
				if index == nil {
					continue
				}
				mk, ok := canon(index).(*ssa.MakeSlice)
				if !ok {
					continue // read from a stream, sized by what was read (R09*, R11h)
				}
				n++
				key := "bucket-size@" + fnKey(rootFuncOf(g))
				if width == nil || length == nil {
					r.Undec(key, c.Pos(al.Pos()), "a singleWidthIndex is built around a fresh buffer without setting width and len")
					continue
				}
				mul, ok := stripConv(canon(mk.Len)).(*ssa.BinOp)
				if !ok || mul.Op != token.MUL {
					r.Viol(key, c.Pos(mk.Pos()), "the bucket buffer is not allocated as record width x number of records")
					continue
				}
				w, l := stripConv(canon(width)), stripConv(canon(length))
				a, b := stripConv(canon(mul.X)), stripConv(canon(mul.Y))
				same := func(p, q ssa.Value) bool { return p == q || sameLenCall(p, q) }
				ok = same(a, w) && same(b, l) || same(a, l) && same(b, w)
				r.Check(ok, key, c.Pos(mk.Pos()), "buffer length = width x len, the very values stored in the bucket", "the bucket's buffer is allocated with a length other than its width x its len: readers address record i at i*width and stop at len, so surplus bytes are serialised as all-zero records that break the sort order the lookup bisects on (or records are cut off)")
			}
		}
	}
	r.Count("singleWidthIndex values built around a fresh buffer", n)
	if n == 0 {
		r.Undec("bucket-size@v2/index", "-", "no singleWidthIndex built around make([]byte, ...) found")
	}
}

func allocsOf(g *ssa.Function) []*ssa.Alloc {
	var out []*ssa.Alloc
	eachInstr(g, func(in ssa.Instruction) {
		if al, ok := in.(*ssa.Alloc); ok {
			out = append(out, al)
		}
	})
	return out
}

func stripConv(v ssa.Value) ssa.Value {
	for i := 0; i < 6; i++ {
		switch x := v.(type) {
		case *ssa.Convert:
			v = canon(x.X)
		case *ssa.ChangeType:
			v = canon(x.X)
		default:
			return v
		}
	}
	return v
}

// sameLenCall: both are len(x) of the same x.
func sameLenCall(p, q ssa.Value) bool {
	lp, lq := lenArg(p), lenArg(q)
	return lp != nil && lq != nil && canon(lp) == canon(lq)
}

func lenArg(v ssa.Value) ssa.Value {
	ci, ok := v.(*ssa.Call)
	if !ok {
		return nil
	}
	if b, ok := ci.Call.Value.(*ssa.Builtin); ok && b.Name() == "len" && len(ci.Call.Args) == 1 {
		return ci.Call.Args[0]
	}
	return nil
}

// ---- R11z: the insertion index refuses no digest for its length -------------------------------------

func ruleR11z(c *Ctx, r *Report) {
	fn, err := c.Func(pkgIndex, "InsertionIndex", "Load")
	if err != nil {
		r.InfraFail("%v", err)
		return
	}
	key := "no-length-test@" + fnKey(fn)
	bad := ""
	eachInstr(fn, func(in ssa.Instruction) {
		ci, ok := in.(*ssa.Call)
		if !ok || lenArg(ci) == nil {
			return
		}
		arg := canon(lenArg(ci))
		fv, _ := fieldOfLoad(arg)
		isDigest := fv != nil && fv.Name() == "digest"
		if f, ok := arg.(*ssa.Field); ok {
			if st, ok := f.X.Type().Underlying().(*types.Struct); ok && st.Field(f.Field).Name() == "digest" {
				isDigest = true
			}
		}
		if !isDigest {
			return
		}
		for _, rf := range *ci.Referrers() {
			if b, ok := rf.(*ssa.BinOp); ok {
				switch b.Op {
				case token.EQL, token.NEQ, token.LSS, token.LEQ, token.GTR, token.GEQ:
					bad = fmt.Sprintf("the length of a record's digest is tested at %s", c.Pos(b.Pos()))
				}
			}
		}
	})
	r.Check(bad == "", key, c.Pos(fn.Pos()), "Load refuses a record only when its multihash does not decode (nil digest)", bad+": a digest of width 0 (the empty identity CID) is a valid entry that the on-disk codecs, InsertNoReplace and Flatten accept; an index regenerated from a payload that holds it fails while the session's own index answered it")
}

// ---- R05x: the roots handed to a writer are a list, never the nil slice -----------------------------

func ruleR05x(c *Ctx, r *Report) {
	n := 0
	var bad []string
	for _, fn := range c.RepoFuncs() {
		for _, g := range withAnon(fn) {
			eachInstr(g, func(in ssa.Instruction) {
				ci, ok := in.(ssa.CallInstruction)
				if !ok {
					return
				}
				f := calleeFunc(ci.Common())
				if f == nil || f.Pkg() == nil || !(f.Pkg().Path() == pkgBS && (f.Name() == "OpenReadWrite" || f.Name() == "OpenReadWriteFile") || f.Pkg().Path() == pkgStorage && (f.Name() == "NewWritable" || f.Name() == "NewReadableWritable")) {
					return
				}
				for _, a := range ci.Common().Args {
					sl, ok := a.Type().Underlying().(*types.Slice)
					if !ok || !strings.HasSuffix(sl.Elem().String(), "go-cid.Cid") {
						continue
					}
					n++
					if nilSliceLeaf(a, map[ssa.Value]bool{}, 0) {
						bad = append(bad, fmt.Sprintf("%s passes roots to %s at %s that are the nil slice when nothing was appended", fnKey(rootFuncOf(g)), f.Name(), c.Pos(ci.Pos())))
					}
				}
			})
		}
	}
	r.Count("root lists handed to a writer constructor", n)
	if n < 3 {
		r.Undec("roots-are-a-list@writers", "-", fmt.Sprintf("only %d root arguments found", n))
		return
	}
	r.Check(len(bad) == 0, "roots-are-a-list@writers", "-", "every root list built locally starts from make(...) or a literal", strings.Join(bad, "; ")+": the CARv1 header encoder writes a nil slice as CBOR null and an empty one as []; the format requires a list, and an archive whose roots are all filtered away no longer starts with the header for the given (empty) roots")
}

// nilSliceLeaf: following append chains and merges from v, a leaf is the nil slice constant.
func nilSliceLeaf(v ssa.Value, seen map[ssa.Value]bool, depth int) bool {
	if v == nil || seen[v] || depth > 12 {
		return false
	}
	seen[v] = true
	switch x := v.(type) {
	case *ssa.Const:
		return x.IsNil()
	case *ssa.Phi:
		// a nil that travels with an error (`return nil, err` of an inlined helper) is not a value
		// the success path sees
		for _, e := range phiLive(x) {
			if nilSliceLeaf(e, seen, depth+1) {
				return true
			}
		}
	case *ssa.Call:
		if b, ok := x.Call.Value.(*ssa.Builtin); ok && b.Name() == "append" && len(x.Call.Args) > 0 {
			return nilSliceLeaf(x.Call.Args[0], seen, depth+1)
		}
	case *ssa.UnOp:
		if x.Op == token.MUL {
			if al, ok := x.X.(*ssa.Alloc); ok {
				sts := storesTo(al)
				if len(sts) == 0 {
					return true // `var roots []cid.Cid`, never assigned before this read
				}
				for _, st := range sts {
					if nilSliceLeaf(st.Val, seen, depth+1) {
						return true
					}
				}
			}
		}
	case *ssa.Slice:
		return nilSliceLeaf(x.X, seen, depth+1)
	}
	return false
}

// ---- R08u: a key listing's goroutine closes its channel on every way out ----------------------------

func ruleR08u(c *Ctx, r *Report) {
	n := 0
	for _, fn := range c.RepoFuncs() {
		if fn.Parent() != nil || fn.Name() != "AllKeysChan" || !inLib(fn) {
			continue
		}
		for _, g := range withAnon(fn) {
			eachInstr(g, func(in ssa.Instruction) {
				gi, ok := in.(*ssa.Go)
				if !ok {
					return
				}
				body := funcValueTarget(gi.Call.Value)
				if body == nil {
					body = staticTarget(gi.Common())
				}
				if body == nil || body.Blocks == nil {
					return
				}
				// does the goroutine send on a channel at all?
				sends := false
				for _, h := range withAnon(body) {
					eachInstr(h, func(i2 ssa.Instruction) {
						switch y := i2.(type) {
						case *ssa.Send:
							sends = true
						case *ssa.Select:
							for _, st := range y.States {
								if st.Dir == types.SendOnly {
									sends = true
								}
							}
						}
					})
				}
				if !sends {
					return
				}
				n++
				key := "close-on-every-exit@" + fnKey(body)
				// a send outside a select cannot be interrupted by the listing's context
				bare := ""
				for _, h := range withAnon(body) {
					eachInstr(h, func(i2 ssa.Instruction) {
						if sd, ok := i2.(*ssa.Send); ok {
							bare = c.Pos(sd.Pos())
						}
					})
				}
				if bare != "" {
					r.Viol("send-under-select@"+fnKey(body), bare, "a key is sent with a plain blocking send: a consumer that cancels the listing and stops receiving leaves the goroutine, its snapshot and the open channel behind for ever (the pinned tree sends in a select with ctx.Done())")
				} else {
					r.Hold("send-under-select@"+fnKey(body), c.Pos(body.Pos()), "every send is a select case beside ctx.Done()")
				}
				deferred := false
				closeBlocks := map[*ssa.BasicBlock]bool{}
				eachInstr(body, func(i2 ssa.Instruction) {
					switch y := i2.(type) {
					case *ssa.Defer:
						if b, ok := y.Call.Value.(*ssa.Builtin); ok && b.Name() == "close" {
							deferred = true
						}
					case *ssa.Call:
						if b, ok := y.Call.Value.(*ssa.Builtin); ok && b.Name() == "close" {
							closeBlocks[y.Block()] = true
						}
					}
				})
				if deferred {
					r.Hold(key, c.Pos(body.Pos()), "the channel is closed by a defer")
					return
				}
				cut := EdgeSet{}
				for _, b := range body.Blocks {
					for i, s := range b.Succs {
						if closeBlocks[s] {
							cut[Edge{From: b, Succ: i}] = true
						}
					}
				}
				bad := ""
				if !closeBlocks[body.Blocks[0]] {
					rs := reach(body, nil, cut)
					for _, ret := range returnsOf(body) {
						if rs[ret.Block()] && !closeBlocks[ret.Block()] {
							bad = fmt.Sprintf("the goroutine can return at %s without closing the channel it sends keys on", c.Pos(ret.Pos()))
						}
					}
				}
				r.Check(bad == "", key, c.Pos(body.Pos()), "every return of the goroutine is behind close(ch)", bad+": a consumer that cancels the listing and then drains the channel (`for range ch`) blocks forever")
			})
		}
	}
	r.Count("sending goroutines of the AllKeysChan methods", n)
	if n < 2 {
		r.Undec("close-on-every-exit@AllKeysChan", "-", fmt.Sprintf("only %d sending goroutines found in the AllKeysChan methods", n))
	}
}

// ---- R18x: the stdin storage keeps each block's own bytes --------------------------------------------

func ruleR18x(c *Ctx, r *Report) {
	fn, err := c.Func(pkgCmdCar, "", "NewStdinReadStorage")
	if err != nil {
		r.InfraFail("%v", err)
		return
	}
	key := "own-bytes@" + fnKey(fn)
	n, bad := 0, ""
	for _, g := range withNewCallees(fn) {
		eachInstr(g, func(in ssa.Instruction) {
			mu, ok := in.(*ssa.MapUpdate)
			if !ok {
				return
			}
			if sl, ok := mu.Value.Type().Underlying().(*types.Slice); !ok || sl.Elem().String() != "byte" {
				return
			}
			n++
			v := canon(mu.Value)
			switch x := v.(type) {
			case *ssa.Call:
				if x.Call.IsInvoke() && x.Call.Method.Name() == "RawData" {
					return
				}
				if b, ok := x.Call.Value.(*ssa.Builtin); ok && b.Name() == "append" {
					if _, fresh := canon(x.Call.Args[0]).(*ssa.Const); fresh {
						return // a copy: append([]byte(nil), data...)
					}
				}
				if f := calleeFunc(x.Common()); f != nil && (f.Pkg().Path() == "bytes" && f.Name() == "Clone" || f.Pkg().Path() == "slices" && f.Name() == "Clone") {
					return
				}
			case *ssa.MakeSlice:
				return
			}
			bad = fmt.Sprintf("the bytes kept for a block at %s are a view into something other than the block's own data or a fresh copy", c.Pos(mu.Pos()))
		})
	}
	if n == 0 {
		r.Undec(key, c.Pos(fn.Pos()), "no map of block bytes is filled in NewStdinReadStorage")
		return
	}
	r.Check(bad == "", key, c.Pos(fn.Pos()), "each entry is the block's RawData() (or a fresh copy)", bad+": every block is kept until the walk is over, so a view into a buffer that is reset and refilled is overwritten by later blocks, and files are extracted with other files' contents")
}

// ---- R20p: the callback that is called is the one read before the list was spliced -----------------

func ruleR20p(c *Ctx, r *Report) {
	fn, err := c.Func(pkgDeferred, "DeferredCarWriter", "Put")
	if err != nil {
		r.InfraFail("%v", err)
		return
	}
	key := "callback-read-before-splice@" + fnKey(fn)
	isPutCb := func(v ssa.Value) bool {
		for i := 0; i < 8; i++ {
			switch x := v.(type) {
			case *ssa.FieldAddr:
				if fv := fieldVar(x.X.Type(), x.Field); fv != nil && fv.Name() == "putCb" {
					return true
				}
				v = x.X
			case *ssa.IndexAddr:
				v = x.X
			case *ssa.UnOp:
				if x.Op != token.MUL {
					return false
				}
				v = x.X
			case *ssa.Field:
				v = x.X
			case *ssa.Slice:
				v = x.X
			default:
				return false
			}
		}
		return false
	}
	var stores []*ssa.Store
	eachInstr(fn, func(in ssa.Instruction) {
		if st, ok := in.(*ssa.Store); ok {
			if fa, ok := st.Addr.(*ssa.FieldAddr); ok {
				if fv := fieldVar(fa.X.Type(), fa.Field); fv != nil && fv.Name() == "putCb" {
					stores = append(stores, st)
				}
			}
		}
	})
	n, bad := 0, ""
	eachInstr(fn, func(in ssa.Instruction) {
		ci, ok := in.(*ssa.Call)
		if !ok || ci.Call.IsInvoke() || staticTarget(ci.Common()) != nil {
			return
		}
		if _, isB := ci.Call.Value.(*ssa.Builtin); isB {
			return
		}
		// the load that produced the called function value: the copy of the list entry that the
		// call's function field is read from, or a read through the list itself
		var load ssa.Instruction
		if u, ok := ci.Call.Value.(*ssa.UnOp); ok && u.Op == token.MUL {
			if fa, ok := u.X.(*ssa.FieldAddr); ok {
				if al, isLocal := fa.X.(*ssa.Alloc); isLocal {
					for _, st := range storesTo(al) {
						if l, ok := st.Val.(*ssa.UnOp); ok && l.Op == token.MUL && isPutCb(l.X) {
							load = l
						}
					}
				} else if isPutCb(fa) {
					load = u
				}
			}
		}
		if f, ok := ci.Call.Value.(*ssa.Field); ok {
			if l, ok := f.X.(*ssa.UnOp); ok && l.Op == token.MUL && isPutCb(l.X) {
				load = l
			}
		}
		if load == nil {
			return
		}
		n++
		for _, st := range stores {
			before := load.Block() == st.Block() && instrIndex(load) < instrIndex(st) || load.Block() != st.Block() && load.Block().Dominates(st.Block())
			if !before {
				bad = fmt.Sprintf("the callback called at %s is read from the list at %s, which the splice at %s may already have shifted", c.Pos(ci.Pos()), c.Pos(load.Pos()), c.Pos(st.Pos()))
			}
		}
	})
	if n == 0 {
		r.Undec(key, c.Pos(fn.Pos()), "no call of a function read from putCb found in Put")
		return
	}
	r.Check(bad == "", key, c.Pos(fn.Pos()), "the entry is read (by value) before the once-only removal", bad+": removing entry i moves its successor into slot i, so a pointer or a late read calls the successor instead — a once-only callback is skipped and the next one runs twice")
}

// ---- round 10: the wrong sibling at a call into a dependency ------------------------------------------

// R09w: Inspect applies the section limit before it lets go-cid allocate for the section's CID.
func ruleR09w(c *Ctx, r *Report) {
	fn, err := c.Func(modV2, "Reader", "Inspect")
	if err != nil {
		r.InfraFail("%v", err)
		return
	}
	key := "limit-before-cid@" + fnKey(fn)
	cids := callsToFunc(fn, pkgCid, "", "CidFromReader")
	if len(cids) == 0 {
		r.Undec(key, c.Pos(fn.Pos()), "no cid.CidFromReader call found in Inspect")
		return
	}
	// the outcome "length <= limit" of a comparison of a value with the MaxAllowedSectionSize option
	ok := condEdges(fn, func(base ssa.Value) (bool, bool) {
		b, isB := base.(*ssa.BinOp)
		if !isB {
			return false, false
		}
		isLim := func(v ssa.Value) bool {
			return loadsField(canon(v), modV2, "Options", "MaxAllowedSectionSize")
		}
		switch {
		case isLim(b.Y) && b.Op == token.GTR, isLim(b.X) && b.Op == token.LSS:
			return true, false
		case isLim(b.Y) && b.Op == token.LEQ, isLim(b.X) && b.Op == token.GEQ:
			return true, true
		}
		return false, false
	})
	if len(ok) == 0 {
		r.Viol(key, c.Pos(fn.Pos()), "Inspect does not compare the section length with MaxAllowedSectionSize")
		return
	}
	bad := ""
	rs := reach(fn, nil, edgeSet(ok))
	for _, ci := range cids {
		if rs[ci.Block()] {
			bad = fmt.Sprintf("cid.CidFromReader at %s runs before the section length has been held against MaxAllowedSectionSize", c.Pos(ci.Pos()))
		}
	}
	r.Check(bad == "", key, c.Pos(fn.Pos()), "the CID of a section is parsed only after its length passed the limit", bad+": an over-limit section whose next bytes are a hostile or cut-off CID makes go-cid allocate for the digest (up to its own 32 MiB cap) and fail with its own error, instead of ErrSectionTooLarge before anything is allocated")
}

// R12u: the version of the file being resumed is read from the file itself.
func ruleR12u(c *Ctx, r *Report) {
	n, bad := 0, ""
	for _, fn := range c.RepoFuncs() {
		for _, ci := range callsToFunc(fn, pkgStore, "", "ResumableVersion") {
			n++
			for _, o := range origins(ci.Common().Args[0], originOpts{}) {
				if o.Kind == "call" && (funcIs(o.Fn, "io", "", "NewSectionReader") || funcIs(o.Fn, "io", "", "LimitReader")) {
					bad = fmt.Sprintf("%s sniffs the version at %s through a bounded window (%s) instead of the file handed in", fnKey(rootFuncOf(fn)), c.Pos(ci.Pos()), o.Fn.Name())
				}
			}
		}
	}
	if n == 0 {
		r.Undec("version-sniff-source@stores", "-", "no call of store.ResumableVersion found")
		return
	}
	r.Check(bad == "", "version-sniff-source@stores", "-", "ResumableVersion reads the file (or backing) the store was opened on", bad+": a window sized by the CARv2 data offset cuts a CARv1 header with roots short, and every reopen of a CARv1 the store itself wrote is refused")
}

// R13s: the report lists the roots in their own text form.
func ruleR13s(c *Ctx, r *Report) {
	fn, err := c.Func(pkgCmdLib, "", "InspectCar")
	if err != nil {
		r.InfraFail("%v", err)
		return
	}
	key := "roots-as-they-print@" + fnKey(fn)
	n, bad := 0, ""
	for _, g := range withNewCallees(fn) {
		eachInstr(g, func(in ssa.Instruction) {
			ci, ok := in.(*ssa.Call)
			if !ok {
				return
			}
			f := calleeFunc(ci.Common())
			if f == nil || f.Pkg() == nil || f.Pkg().Path() != pkgCid {
				return
			}
			if _, rn := recvTypeName(f); rn != "Cid" {
				return
			}
			switch f.Name() {
			case "String":
				n++
			case "StringOfBase", "Encode":
				bad = fmt.Sprintf("a CID is rendered with %s at %s", f.Name(), c.Pos(ci.Pos()))
			}
		})
	}
	if n == 0 && bad == "" {
		r.Undec(key, c.Pos(fn.Pos()), "InspectCar renders no CID with String()")
		return
	}
	r.Check(bad == "", key, c.Pos(fn.Pos()), "roots are rendered with Cid.String()", bad+": a fixed multibase cannot encode a CIDv0, so inspection of an archive with a Qm… root fails after the library's inspection succeeded")
}

// R17h: the output directory is resolved as the user spelled it.
func ruleR17h(c *Ctx, r *Report) {
	fn, err := c.Func(pkgCmdLib, "", "ExtractToDir")
	if err != nil {
		r.InfraFail("%v", err)
		return
	}
	key := "output-dir-as-given@" + fnKey(fn)
	var outDir *ssa.Parameter
	for _, p := range fn.Params {
		if b, ok := p.Type().Underlying().(*types.Basic); ok && b.Kind() == types.String {
			outDir = p
		}
	}
	n, bad := 0, ""
	for _, ci := range callsToFunc(fn, "path/filepath", "", "EvalSymlinks") {
		n++
		if outDir == nil || canon(ci.Common().Args[0]) != ssa.Value(outDir) {
			bad = fmt.Sprintf("filepath.EvalSymlinks at %s is given something other than the output directory parameter itself", c.Pos(ci.Pos()))
		}
	}
	if n == 0 {
		r.Undec(key, c.Pos(fn.Pos()), "ExtractToDir does not resolve the output directory with filepath.EvalSymlinks")
		return
	}
	r.Check(bad == "", key, c.Pos(fn.Pos()), "EvalSymlinks(outputDir) on the parameter", bad+": a lexical clean-up first (filepath.Abs, Clean, Join) cancels `link/..` before the link is resolved, so the directory written to is not the one the operating system would reach by that name")
}

// R12w: two root lists match only when they hold the same roots the same number of times.
// CarHeader.Matches compares lists of equal length in any order; containment alone (every root of
// one occurs in the other) takes [A A] for [A B]. Whatever the implementation — marking matched
// entries, counting in a map, sorting both sides — it keeps state per root while it compares.
func ruleR12w(c *Ctx, r *Report) {
	fn, err := c.Func(pkgV1, "CarHeader", "Matches")
	if err != nil {
		r.InfraFail("%v", err)
		return
	}
	key := "roots-as-multiset@" + fnKey(fn)
	fns := withNewCallees(fn)
	// helpers of the pinned tree that Matches calls in its own package
	seen := map[*ssa.Function]bool{}
	for _, g := range fns {
		seen[g] = true
	}
	for _, g := range append([]*ssa.Function{}, fns...) {
		eachInstr(g, func(in ssa.Instruction) {
			if ci, ok := in.(ssa.CallInstruction); ok {
				if t := staticTarget(ci.Common()); t != nil && t.Blocks != nil && t.Pkg != nil && t.Pkg.Pkg.Path() == pkgV1 && !seen[t] {
					seen[t] = true
					fns = append(fns, t)
				}
			}
		})
	}
	nEq, state := 0, false
	for _, g := range fns {
		eachInstr(g, func(in ssa.Instruction) {
			switch x := in.(type) {
			case *ssa.Call:
				f := calleeFunc(x.Common())
				if funcIs(f, pkgCid, "Cid", "Equals") {
					nEq++
				}
				if f != nil && f.Pkg() != nil && (f.Pkg().Path() == "sort" || f.Pkg().Path() == "slices") && strings.HasPrefix(f.Name(), "Sort") || funcIs(f, "sort", "", "Slice") || funcIs(f, "sort", "", "SliceStable") {
					state = true
				}
			case *ssa.MapUpdate:
				state = true
			case *ssa.Store:
				if _, isElem := x.Addr.(*ssa.IndexAddr); isElem {
					state = true
				}
			}
		})
	}
	r.Count("functions examined for the root comparison", len(fns))
	if nEq == 0 && !state {
		r.Undec(key, c.Pos(fn.Pos()), "neither Cid.Equals nor any per-root bookkeeping found in CarHeader.Matches")
		return
	}
	r.Check(state, key, c.Pos(fn.Pos()), "the comparison marks, counts or sorts: each root is matched at most once", "CarHeader.Matches decides by containment alone (no entry is marked, counted or sorted): a file with roots [A A] matches a request for [A B], so a session with different roots is resumed on it — its index is cut off and its header zeroed — instead of being refused with the file untouched")
}

// R15t: the counting pass and the writing pass agree on a block that is loaded again. The teeing link
// system writes a block once per session (its record map is the "already written" set); the counting
// link system, whose total becomes the announced size, must count it once too: the additions to the
// running total sit behind a not-seen-before test.
func ruleR15t(c *Ctx, r *Report) {
	fn, err := c.Func(pkgLoader, "", "CountingLinkSystem")
	if err != nil {
		r.InfraFail("%v", err)
		return
	}
	op := readOpenerOf(fn)
	if op == nil {
		r.Undec("count-once@"+fnKey(fn), c.Pos(fn.Pos()), "opener closure not found")
		return
	}
	key := "count-once@" + fnKey(op)
	// additions to the counter's total in the opener (and the helpers spliced into it)
	var adds []*ssa.Store
	eachInstr(op, func(in ssa.Instruction) {
		st, ok := in.(*ssa.Store)
		if !ok {
			return
		}
		fa, ok := st.Addr.(*ssa.FieldAddr)
		if !ok || !fieldAddrIs(fa, pkgLoader, "counter", "totalRead") {
			return
		}
		adds = append(adds, st)
	})
	if len(adds) == 0 {
		r.Undec(key, c.Pos(op.Pos()), "the opener does not add to counter.totalRead")
		return
	}
	// the "seen before" outcome of a comma-ok map lookup
	seen := condEdges(op, func(base ssa.Value) (bool, bool) {
		if ex, ok := base.(*ssa.Extract); ok && ex.Index == 1 {
			if lk, ok := ex.Tuple.(*ssa.Lookup); ok && lk.CommaOk {
				return true, true
			}
		}
		return false, false
	})
	bad := ""
	if len(seen) == 0 {
		bad = "the counting opener has no already-counted test"
	} else {
		for _, e := range seen {
			rs := reachFromEdge(op, e, nil)
			for _, st := range adds {
				if rs[st.Block()] {
					bad = fmt.Sprintf("the size of a block that was counted before is added again at %s", c.Pos(st.Pos()))
				}
			}
			// nor are its data bytes: the reader handed back is not the counting one
			for _, ret := range returnsOf(op) {
				if !rs[ret.Block()] || len(ret.Results) == 0 {
					continue
				}
				if mi, ok := ret.Results[0].(*ssa.MakeInterface); ok && isNamed(mi.X.Type(), pkgLoader, "countingReader") && ret.Block() == e.From.Succs[e.Succ] {
					bad = fmt.Sprintf("for a block that was counted before the opener returns a counting reader at %s: its data bytes are counted again", c.Pos(ret.Pos()))
				}
			}
		}
	}
	r.Check(bad == "", key, c.Pos(op.Pos()), "a block's section size is added only when the block is counted for the first time", bad+": the teeing link system writes a block once however often the traversal loads it, so with a repeated link and link-visit-once off the announced size exceeds the bytes written and the writer fails with ErrSizeMismatch after the fact")
}
