package main

// Rules written after round 9 of unseen seeded changes (Go-language-level pitfalls). The generic part
// is pitfalls.go; these are the structural necessary conditions that a language-level pattern does not
// express.

import (
	"fmt"
	"go/constant"
	"go/token"
	"go/types"
	"strings"

	"golang.org/x/tools/go/ssa"
)

// ---- R03x: a compact bucket is exactly width x len bytes -------------------------------------------

func ruleR03x(c *Ctx, r *Report) {
	n := 0
	for _, fn := range c.RepoFuncs() {
		if fn.Pkg == nil || fn.Pkg.Pkg.Path() != pkgIndex {
			continue
		}
		for _, g := range withAnon(fn) {
			for _, al := range allocsOf(g) {
				if !isNamed(derefType(al.Type()), pkgIndex, curTypeName(pkgIndex, "singleWidthIndex")) {
					continue
				}
				var width, length, index ssa.Value
				for _, rf := range *al.Referrers() {
					fa, ok := rf.(*ssa.FieldAddr)
					if !ok {
						continue
					}
					fv := fieldVar(fa.X.Type(), fa.Field)
					for _, st := range storesTo(fa) {
						switch fv.Name() {
						case "width":
							width = st.Val
						case "len":
							length = st.Val
						case "index":
							index = st.Val
						}
					}
				}
				if index == nil {
					continue
				}
				mk, ok := canon(index).(*ssa.MakeSlice)
				if !ok {
					continue // read from a stream, sized by what was read (R09*, R11h)
				}
				n++
				key := "bucket-size@" + fnKey(rootFuncOf(g))
				if width == nil || length == nil {
					r.Undec(key, c.Pos(al.Pos()), "a singleWidthIndex is built around a fresh buffer without setting width and len")
					continue
				}
				mul, ok := stripConv(canon(mk.Len)).(*ssa.BinOp)
				if !ok || mul.Op != token.MUL {
					r.Viol(key, c.Pos(mk.Pos()), "the bucket buffer is not allocated as record width x number of records")
					continue
				}
				w, l := stripConv(canon(width)), stripConv(canon(length))
				a, b := stripConv(canon(mul.X)), stripConv(canon(mul.Y))
				same := func(p, q ssa.Value) bool { return p == q || sameLenCall(p, q) }
				ok = same(a, w) && same(b, l) || same(a, l) && same(b, w)
				r.Check(ok, key, c.Pos(mk.Pos()), "buffer length = width x len, the very values stored in the bucket", "the bucket's buffer is allocated with a length other than its width x its len: readers address record i at i*width and stop at len, so surplus bytes are serialised as all-zero records that break the sort order the lookup bisects on (or records are cut off)")
			}
		}
	}
	r.Count("singleWidthIndex values built around a fresh buffer", n)
	if n == 0 {
		r.Undec("bucket-size@v2/index", "-", "no singleWidthIndex built around make([]byte, ...) found")
	}
}

func allocsOf(g *ssa.Function) []*ssa.Alloc {
	var out []*ssa.Alloc
	eachInstr(g, func(in ssa.Instruction) {
		if al, ok := in.(*ssa.Alloc); ok {
			out = append(out, al)
		}
	})
	return out
}

func stripConv(v ssa.Value) ssa.Value {
	for i := 0; i < 6; i++ {
		switch x := v.(type) {
		case *ssa.Convert:
			v = canon(x.X)
		case *ssa.ChangeType:
			v = canon(x.X)
		default:
			return v
		}
	}
	return v
}

// sameLenCall: both are len(x) of the same x.
func sameLenCall(p, q ssa.Value) bool {
	lp, lq := lenArg(p), lenArg(q)
	return lp != nil && lq != nil && canon(lp) == canon(lq)
}

func lenArg(v ssa.Value) ssa.Value {
	ci, ok := v.(*ssa.Call)
	if !ok {
		return nil
	}
	if b, ok := ci.Call.Value.(*ssa.Builtin); ok && b.Name() == "len" && len(ci.Call.Args) == 1 {
		return ci.Call.Args[0]
	}
	return nil
}

// ---- R11z: the insertion index refuses no digest for its length -------------------------------------

func ruleR11z(c *Ctx, r *Report) {
	fn, err := c.Func(pkgIndex, "InsertionIndex", "Load")
	if err != nil {
		r.InfraFail("%v", err)
		return
	}
	key := "no-length-test@" + fnKey(fn)
	bad := ""
	eachInstr(fn, func(in ssa.Instruction) {
		ci, ok := in.(*ssa.Call)
		if !ok || lenArg(ci) == nil {
			return
		}
		arg := canon(lenArg(ci))
		fv, _ := fieldOfLoad(arg)
		isDigest := fv != nil && fv.Name() == "digest"
		if f, ok := arg.(*ssa.Field); ok {
			if st, ok := f.X.Type().Underlying().(*types.Struct); ok && st.Field(f.Field).Name() == "digest" {
				isDigest = true
			}
		}
		if !isDigest {
			return
		}
		for _, rf := range *ci.Referrers() {
			if b, ok := rf.(*ssa.BinOp); ok {
				switch b.Op {
				case token.EQL, token.NEQ, token.LSS, token.LEQ, token.GTR, token.GEQ:
					bad = fmt.Sprintf("the length of a record's digest is tested at %s", c.Pos(b.Pos()))
				}
			}
		}
	})
	r.Check(bad == "", key, c.Pos(fn.Pos()), "Load refuses a record only when its multihash does not decode (nil digest)", bad+": a digest of width 0 (the empty identity CID) is a valid entry that the on-disk codecs, InsertNoReplace and Flatten accept; an index regenerated from a payload that holds it fails while the session's own index answered it")
}

// ---- R05x: the roots handed to a writer are a list, never the nil slice -----------------------------

func ruleR05x(c *Ctx, r *Report) {
	n := 0
	var bad []string
	for _, fn := range c.RepoFuncs() {
		for _, g := range withAnon(fn) {
			eachInstr(g, func(in ssa.Instruction) {
				ci, ok := in.(ssa.CallInstruction)
				if !ok {
					return
				}
				f := calleeFunc(ci.Common())
				if f == nil || f.Pkg() == nil || !(f.Pkg().Path() == pkgBS && (f.Name() == "OpenReadWrite" || f.Name() == "OpenReadWriteFile") || f.Pkg().Path() == pkgStorage && (f.Name() == "NewWritable" || f.Name() == "NewReadableWritable")) {
					return
				}
				for _, a := range ci.Common().Args {
					sl, ok := a.Type().Underlying().(*types.Slice)
					if !ok || !strings.HasSuffix(sl.Elem().String(), "go-cid.Cid") {
						continue
					}
					n++
					if nilSliceLeaf(a, map[ssa.Value]bool{}, 0) {
						bad = append(bad, fmt.Sprintf("%s passes roots to %s at %s that are the nil slice when nothing was appended", fnKey(rootFuncOf(g)), f.Name(), c.Pos(ci.Pos())))
					}
				}
			})
		}
	}
	r.Count("root lists handed to a writer constructor", n)
	if n < 3 {
		r.Undec("roots-are-a-list@writers", "-", fmt.Sprintf("only %d root arguments found", n))
		return
	}
	r.Check(len(bad) == 0, "roots-are-a-list@writers", "-", "every root list built locally starts from make(...) or a literal", strings.Join(bad, "; ")+": the CARv1 header encoder writes a nil slice as CBOR null and an empty one as []; the format requires a list, and an archive whose roots are all filtered away no longer starts with the header for the given (empty) roots")
}

// nilSliceLeaf: following append chains and merges from v, a leaf is the nil slice constant.
func nilSliceLeaf(v ssa.Value, seen map[ssa.Value]bool, depth int) bool {
	if v == nil || seen[v] || depth > 12 {
		return false
	}
	seen[v] = true
	switch x := v.(type) {
	case *ssa.Const:
		return x.IsNil()
	case *ssa.Phi:
		// a nil that travels with an error (`return nil, err` of an inlined helper) is not a value
		// the success path sees
		for _, e := range phiLive(x) {
			if nilSliceLeaf(e, seen, depth+1) {
				return true
			}
		}
	case *ssa.Call:
		if b, ok := x.Call.Value.(*ssa.Builtin); ok && b.Name() == "append" && len(x.Call.Args) > 0 {
			return nilSliceLeaf(x.Call.Args[0], seen, depth+1)
		}
	case *ssa.UnOp:
		if x.Op == token.MUL {
			if al, ok := x.X.(*ssa.Alloc); ok {
				sts := storesTo(al)
				if len(sts) == 0 {
					return true // `var roots []cid.Cid`, never assigned before this read
				}
				for _, st := range sts {
					if nilSliceLeaf(st.Val, seen, depth+1) {
						return true
					}
				}
			}
		}
	case *ssa.Slice:
		return nilSliceLeaf(x.X, seen, depth+1)
	}
	return false
}

// ---- R08u: a key listing's goroutine closes its channel on every way out ----------------------------

func ruleR08u(c *Ctx, r *Report) {
	n := 0
	for _, fn := range c.RepoFuncs() {
		if fn.Parent() != nil || fn.Name() != "AllKeysChan" || !inLib(fn) {
			continue
		}
		for _, g := range withAnon(fn) {
			eachInstr(g, func(in ssa.Instruction) {
				gi, ok := in.(*ssa.Go)
				if !ok {
					return
				}
				body := funcValueTarget(gi.Call.Value)
				if body == nil {
					body = staticTarget(gi.Common())
				}
				if body == nil || body.Blocks == nil {
					return
				}
				// does the goroutine send on a channel at all?
				sends := false
				for _, h := range withAnon(body) {
					eachInstr(h, func(i2 ssa.Instruction) {
						switch y := i2.(type) {
						case *ssa.Send:
							sends = true
						case *ssa.Select:
							for _, st := range y.States {
								if st.Dir == types.SendOnly {
									sends = true
								}
							}
						}
					})
				}
				if !sends {
					return
				}
				n++
				key := "close-on-every-exit@" + fnKey(body)
				// a send outside a select cannot be interrupted by the listing's context
				bare := ""
				for _, h := range withAnon(body) {
					eachInstr(h, func(i2 ssa.Instruction) {
						if sd, ok := i2.(*ssa.Send); ok {
							bare = c.Pos(sd.Pos())
						}
					})
				}
				if bare != "" {
					r.Viol("send-under-select@"+fnKey(body), bare, "a key is sent with a plain blocking send: a consumer that cancels the listing and stops receiving leaves the goroutine, its snapshot and the open channel behind for ever (the pinned tree sends in a select with ctx.Done())")
				} else {
					r.Hold("send-under-select@"+fnKey(body), c.Pos(body.Pos()), "every send is a select case beside ctx.Done()")
				}
				deferred := false
				closeBlocks := map[*ssa.BasicBlock]bool{}
				eachInstr(body, func(i2 ssa.Instruction) {
					switch y := i2.(type) {
					case *ssa.Defer:
						if b, ok := y.Call.Value.(*ssa.Builtin); ok && b.Name() == "close" {
							deferred = true
						}
					case *ssa.Call:
						if b, ok := y.Call.Value.(*ssa.Builtin); ok && b.Name() == "close" {
							closeBlocks[y.Block()] = true
						}
					}
				})
				if deferred {
					r.Hold(key, c.Pos(body.Pos()), "the channel is closed by a defer")
					return
				}
				cut := EdgeSet{}
				for _, b := range body.Blocks {
					for i, s := range b.Succs {
						if closeBlocks[s] {
							cut[Edge{From: b, Succ: i}] = true
						}
					}
				}
				bad := ""
				if !closeBlocks[body.Blocks[0]] {
					rs := reach(body, nil, cut)
					for _, ret := range returnsOf(body) {
						if rs[ret.Block()] && !closeBlocks[ret.Block()] {
							bad = fmt.Sprintf("the goroutine can return at %s without closing the channel it sends keys on", c.Pos(ret.Pos()))
						}
					}
				}
				r.Check(bad == "", key, c.Pos(body.Pos()), "every return of the goroutine is behind close(ch)", bad+": a consumer that cancels the listing and then drains the channel (`for range ch`) blocks forever")
			})
		}
	}
	r.Count("sending goroutines of the AllKeysChan methods", n)
	if n < 2 {
		r.Undec("close-on-every-exit@AllKeysChan", "-", fmt.Sprintf("only %d sending goroutines found in the AllKeysChan methods", n))
	}
}

// ---- R18x: the stdin storage keeps each block's own bytes --------------------------------------------

func ruleR18x(c *Ctx, r *Report) {
	fn, err := c.Func(pkgCmdCar, "", "NewStdinReadStorage")
	if err != nil {
		r.InfraFail("%v", err)
		return
	}
	key := "own-bytes@" + fnKey(fn)
	n, bad := 0, ""
	for _, g := range withNewCallees(fn) {
		eachInstr(g, func(in ssa.Instruction) {
			mu, ok := in.(*ssa.MapUpdate)
			if !ok {
				return
			}
			if sl, ok := mu.Value.Type().Underlying().(*types.Slice); !ok || sl.Elem().String() != "byte" {
				return
			}
			n++
			v := canon(mu.Value)
			switch x := v.(type) {
			case *ssa.Call:
				if x.Call.IsInvoke() && x.Call.Method.Name() == "RawData" {
					return
				}
				if b, ok := x.Call.Value.(*ssa.Builtin); ok && b.Name() == "append" {
					if _, fresh := canon(x.Call.Args[0]).(*ssa.Const); fresh {
						return // a copy: append([]byte(nil), data...)
					}
				}
				if f := calleeFunc(x.Common()); f != nil && (f.Pkg().Path() == "bytes" && f.Name() == "Clone" || f.Pkg().Path() == "slices" && f.Name() == "Clone") {
					return
				}
			case *ssa.MakeSlice:
				return
			}
			bad = fmt.Sprintf("the bytes kept for a block at %s are a view into something other than the block's own data or a fresh copy", c.Pos(mu.Pos()))
		})
	}
	if n == 0 {
		r.Undec(key, c.Pos(fn.Pos()), "no map of block bytes is filled in NewStdinReadStorage")
		return
	}
	r.Check(bad == "", key, c.Pos(fn.Pos()), "each entry is the block's RawData() (or a fresh copy)", bad+": every block is kept until the walk is over, so a view into a buffer that is reset and refilled is overwritten by later blocks, and files are extracted with other files' contents")
}

// ---- R20p: the callback that is called is the one read before the list was spliced -----------------

func ruleR20p(c *Ctx, r *Report) {
	fn, err := c.Func(pkgDeferred, "DeferredCarWriter", "Put")
	if err != nil {
		r.InfraFail("%v", err)
		return
	}
	key := "callback-read-before-splice@" + fnKey(fn)
	isPutCb := func(v ssa.Value) bool {
		for i := 0; i < 8; i++ {
			switch x := v.(type) {
			case *ssa.FieldAddr:
				if fv := fieldVar(x.X.Type(), x.Field); fv != nil && fv.Name() == "putCb" {
					return true
				}
				v = x.X
			case *ssa.IndexAddr:
				v = x.X
			case *ssa.UnOp:
				if x.Op != token.MUL {
					return false
				}
				v = x.X
			case *ssa.Field:
				v = x.X
			case *ssa.Slice:
				v = x.X
			default:
				return false
			}
		}
		return false
	}
	var stores []*ssa.Store
	eachInstr(fn, func(in ssa.Instruction) {
		if st, ok := in.(*ssa.Store); ok {
			if fa, ok := st.Addr.(*ssa.FieldAddr); ok {
				if fv := fieldVar(fa.X.Type(), fa.Field); fv != nil && fv.Name() == "putCb" {
					stores = append(stores, st)
				}
			}
		}
	})
	n, bad := 0, ""
	eachInstr(fn, func(in ssa.Instruction) {
		ci, ok := in.(*ssa.Call)
		if !ok || ci.Call.IsInvoke() || staticTarget(ci.Common()) != nil {
			return
		}
		if _, isB := ci.Call.Value.(*ssa.Builtin); isB {
			return
		}
		// the load that produced the called function value: the copy of the list entry that the
		// call's function field is read from, or a read through the list itself
		var load ssa.Instruction
		if u, ok := ci.Call.Value.(*ssa.UnOp); ok && u.Op == token.MUL {
			if fa, ok := u.X.(*ssa.FieldAddr); ok {
				if al, isLocal := fa.X.(*ssa.Alloc); isLocal {
					for _, st := range storesTo(al) {
						if l, ok := st.Val.(*ssa.UnOp); ok && l.Op == token.MUL && isPutCb(l.X) {
							load = l
						}
					}
				} else if isPutCb(fa) {
					load = u
				}
			}
		}
		if f, ok := ci.Call.Value.(*ssa.Field); ok {
			if l, ok := f.X.(*ssa.UnOp); ok && l.Op == token.MUL && isPutCb(l.X) {
				load = l
			}
		}
		if load == nil {
			return
		}
		n++
		for _, st := range stores {
			before := load.Block() == st.Block() && instrIndex(load) < instrIndex(st) || load.Block() != st.Block() && load.Block().Dominates(st.Block())
			if !before {
				bad = fmt.Sprintf("the callback called at %s is read from the list at %s, which the splice at %s may already have shifted", c.Pos(ci.Pos()), c.Pos(load.Pos()), c.Pos(st.Pos()))
			}
		}
	})
	if n == 0 {
		r.Undec(key, c.Pos(fn.Pos()), "no call of a function read from putCb found in Put")
		return
	}
	r.Check(bad == "", key, c.Pos(fn.Pos()), "the entry is read (by value) before the once-only removal", bad+": removing entry i moves its successor into slot i, so a pointer or a late read calls the successor instead — a once-only callback is skipped and the next one runs twice")
}

// ---- round 10: the wrong sibling at a call into a dependency ------------------------------------------

// R09w: Inspect applies the section limit before it lets go-cid allocate for the section's CID.
func ruleR09w(c *Ctx, r *Report) {
	fn, err := c.Func(modV2, "Reader", "Inspect")
	if err != nil {
		r.InfraFail("%v", err)
		return
	}
	key := "limit-before-cid@" + fnKey(fn)
	cids := callsToFunc(fn, pkgCid, "", "CidFromReader")
	if len(cids) == 0 {
		r.Undec(key, c.Pos(fn.Pos()), "no cid.CidFromReader call found in Inspect")
		return
	}
	// the outcome "length <= limit" of a comparison of a value with the MaxAllowedSectionSize option
	ok := condEdges(fn, func(base ssa.Value) (bool, bool) {
		b, isB := base.(*ssa.BinOp)
		if !isB {
			return false, false
		}
		isLim := func(v ssa.Value) bool {
			return loadsField(canon(v), modV2, "Options", "MaxAllowedSectionSize")
		}
		switch {
		case isLim(b.Y) && b.Op == token.GTR, isLim(b.X) && b.Op == token.LSS:
			return true, false
		case isLim(b.Y) && b.Op == token.LEQ, isLim(b.X) && b.Op == token.GEQ:
			return true, true
		}
		return false, false
	})
	if len(ok) == 0 {
		r.Viol(key, c.Pos(fn.Pos()), "Inspect does not compare the section length with MaxAllowedSectionSize")
		return
	}
	bad := ""
	rs := reach(fn, nil, edgeSet(ok))
	for _, ci := range cids {
		if rs[ci.Block()] {
			bad = fmt.Sprintf("cid.CidFromReader at %s runs before the section length has been held against MaxAllowedSectionSize", c.Pos(ci.Pos()))
		}
	}
	r.Check(bad == "", key, c.Pos(fn.Pos()), "the CID of a section is parsed only after its length passed the limit", bad+": an over-limit section whose next bytes are a hostile or cut-off CID makes go-cid allocate for the digest (up to its own 32 MiB cap) and fail with its own error, instead of ErrSectionTooLarge before anything is allocated")
}

// R12u: the version of the file being resumed is read from the file itself.
func ruleR12u(c *Ctx, r *Report) {
	n, bad := 0, ""
	for _, fn := range c.RepoFuncs() {
		for _, ci := range callsToFunc(fn, pkgStore, "", "ResumableVersion") {
			n++
			for _, o := range origins(ci.Common().Args[0], originOpts{}) {
				if o.Kind == "call" && (funcIs(o.Fn, "io", "", "NewSectionReader") || funcIs(o.Fn, "io", "", "LimitReader")) {
					bad = fmt.Sprintf("%s sniffs the version at %s through a bounded window (%s) instead of the file handed in", fnKey(rootFuncOf(fn)), c.Pos(ci.Pos()), o.Fn.Name())
				}
			}
		}
	}
	if n == 0 {
		r.Undec("version-sniff-source@stores", "-", "no call of store.ResumableVersion found")
		return
	}
	r.Check(bad == "", "version-sniff-source@stores", "-", "ResumableVersion reads the file (or backing) the store was opened on", bad+": a window sized by the CARv2 data offset cuts a CARv1 header with roots short, and every reopen of a CARv1 the store itself wrote is refused")
}

// R13s: the report lists the roots in their own text form.
func ruleR13s(c *Ctx, r *Report) {
	fn, err := c.Func(pkgCmdLib, "", "InspectCar")
	if err != nil {
		r.InfraFail("%v", err)
		return
	}
	key := "roots-as-they-print@" + fnKey(fn)
	n, bad := 0, ""
	for _, g := range withNewCallees(fn) {
		eachInstr(g, func(in ssa.Instruction) {
			ci, ok := in.(*ssa.Call)
			if !ok {
				return
			}
			f := calleeFunc(ci.Common())
			if f == nil || f.Pkg() == nil || f.Pkg().Path() != pkgCid {
				return
			}
			if _, rn := recvTypeName(f); rn != "Cid" {
				return
			}
			switch f.Name() {
			case "String":
				n++
			case "StringOfBase", "Encode":
				bad = fmt.Sprintf("a CID is rendered with %s at %s", f.Name(), c.Pos(ci.Pos()))
			}
		})
	}
	if n == 0 && bad == "" {
		r.Undec(key, c.Pos(fn.Pos()), "InspectCar renders no CID with String()")
		return
	}
	r.Check(bad == "", key, c.Pos(fn.Pos()), "roots are rendered with Cid.String()", bad+": a fixed multibase cannot encode a CIDv0, so inspection of an archive with a Qm… root fails after the library's inspection succeeded")
}

// R17h: the output directory is resolved as the user spelled it.
func ruleR17h(c *Ctx, r *Report) {
	fn, err := c.Func(pkgCmdLib, "", "ExtractToDir")
	if err != nil {
		r.InfraFail("%v", err)
		return
	}
	key := "output-dir-as-given@" + fnKey(fn)
	var outDir *ssa.Parameter
	for _, p := range fn.Params {
		if b, ok := p.Type().Underlying().(*types.Basic); ok && b.Kind() == types.String {
			outDir = p
		}
	}
	n, bad := 0, ""
	for _, ci := range callsToFunc(fn, "path/filepath", "", "EvalSymlinks") {
		n++
		if outDir == nil || canon(ci.Common().Args[0]) != ssa.Value(outDir) {
			bad = fmt.Sprintf("filepath.EvalSymlinks at %s is given something other than the output directory parameter itself", c.Pos(ci.Pos()))
		}
	}
	if n == 0 {
		r.Undec(key, c.Pos(fn.Pos()), "ExtractToDir does not resolve the output directory with filepath.EvalSymlinks")
		return
	}
	r.Check(bad == "", key, c.Pos(fn.Pos()), "EvalSymlinks(outputDir) on the parameter", bad+": a lexical clean-up first (filepath.Abs, Clean, Join) cancels `link/..` before the link is resolved, so the directory written to is not the one the operating system would reach by that name")
}

// R12w: two root lists match only when they hold the same roots the same number of times.
// CarHeader.Matches compares lists of equal length in any order; containment alone (every root of
// one occurs in the other) takes [A A] for [A B]. Whatever the implementation — marking matched
// entries, counting in a map, sorting both sides — it keeps state per root while it compares.
func ruleR12w(c *Ctx, r *Report) {
	fn, err := c.Func(pkgV1, "CarHeader", "Matches")
	if err != nil {
		r.InfraFail("%v", err)
		return
	}
	key := "roots-as-multiset@" + fnKey(fn)
	fns := withNewCallees(fn)
	// helpers of the pinned tree that Matches calls in its own package
	seen := map[*ssa.Function]bool{}
	for _, g := range fns {
		seen[g] = true
	}
	for _, g := range append([]*ssa.Function{}, fns...) {
		eachInstr(g, func(in ssa.Instruction) {
			if ci, ok := in.(ssa.CallInstruction); ok {
				if t := staticTarget(ci.Common()); t != nil && t.Blocks != nil && t.Pkg != nil && t.Pkg.Pkg.Path() == pkgV1 && !seen[t] {
					seen[t] = true
					fns = append(fns, t)
				}
			}
		})
	}
	nEq, state := 0, false
	for _, g := range fns {
		eachInstr(g, func(in ssa.Instruction) {
			switch x := in.(type) {
			case *ssa.Call:
				f := calleeFunc(x.Common())
				if funcIs(f, pkgCid, "Cid", "Equals") {
					nEq++
				}
				if f != nil && f.Pkg() != nil && (f.Pkg().Path() == "sort" || f.Pkg().Path() == "slices") && strings.HasPrefix(f.Name(), "Sort") || funcIs(f, "sort", "", "Slice") || funcIs(f, "sort", "", "SliceStable") {
					state = true
				}
				// a matched root is taken out of a working copy of the other list
				if funcIs(f, "slices", "", "Delete") || funcIs(f, "slices", "", "DeleteFunc") {
					state = true
				}
				if b, isB := x.Common().Value.(*ssa.Builtin); isB && b.Name() == "append" && len(x.Common().Args) == 2 {
					// append(s[:i], s[i+1:]...)
					a0, ok0 := x.Common().Args[0].(*ssa.Slice)
					a1, ok1 := x.Common().Args[1].(*ssa.Slice)
					if ok0 && ok1 && a0.High != nil && a1.Low != nil && canon(a0.X) == canon(a1.X) {
						state = true
					}
				}
			case *ssa.MapUpdate:
				state = true
			case *ssa.Store:
				if _, isElem := x.Addr.(*ssa.IndexAddr); isElem {
					state = true
				}
			}
		})
	}
	r.Count("functions examined for the root comparison", len(fns))
	if nEq == 0 && !state {
		r.Undec(key, c.Pos(fn.Pos()), "neither Cid.Equals nor any per-root bookkeeping found in CarHeader.Matches")
		return
	}
	// the two sides of the comparison are the two headers: a root of the one is never held against
	// the list it was taken from
	if side := sameSideComparison(fn); side != "" {
		r.Viol("roots-of-both-headers@"+fnKey(fn), side, "CarHeader.Matches holds a root of one header against the roots of that same header at "+side+" (the receiver where the argument belongs): every list matches itself, so any two headers with the same number of roots match and a session with other roots is resumed on the file")
	} else {
		r.Hold("roots-of-both-headers@"+fnKey(fn), c.Pos(fn.Pos()), "no root is compared with the list it came from")
	}
	r.Check(state, key, c.Pos(fn.Pos()), "the comparison marks, counts, sorts or removes: each root is matched at most once", "CarHeader.Matches decides by containment alone (no entry is marked, counted or sorted): a file with roots [A A] matches a request for [A B], so a session with different roots is resumed on it — its index is cut off and its header zeroed — instead of being refused with the file untouched")
}

// paramBehind: the parameter of its function a value is read out of — through field reads,
// element reads, the spill cell of a by-value parameter and merges that agree.
func paramBehind(v ssa.Value, depth int) *ssa.Parameter {
	if v == nil || depth > 10 {
		return nil
	}
	switch x := v.(type) {
	case *ssa.Parameter:
		return x
	case *ssa.UnOp:
		if x.Op == token.MUL {
			return paramBehind(x.X, depth+1)
		}
	case *ssa.FieldAddr:
		return paramBehind(x.X, depth+1)
	case *ssa.Field:
		return paramBehind(x.X, depth+1)
	case *ssa.IndexAddr:
		return paramBehind(x.X, depth+1)
	case *ssa.Index:
		return paramBehind(x.X, depth+1)
	case *ssa.Slice:
		return paramBehind(x.X, depth+1)
	case *ssa.Extract:
		if nx, ok := x.Tuple.(*ssa.Next); ok {
			return paramBehind(nx.Iter, depth+1)
		}
	case *ssa.Range:
		return paramBehind(x.X, depth+1)
	case *ssa.Alloc:
		var p *ssa.Parameter
		for _, st := range storesTo(x) {
			q := paramBehind(st.Val, depth+1)
			if q == nil || p != nil && p != q {
				return nil
			}
			p = q
		}
		return p
	case *ssa.Phi:
		var p *ssa.Parameter
		for _, e := range x.Edges {
			if e == ssa.Value(x) {
				continue
			}
			q := paramBehind(e, depth+1)
			if q == nil || p != nil && p != q {
				return nil
			}
			p = q
		}
		return p
	}
	return nil
}

// sameSideComparison: in fn, a Cid.Equals whose two operands are read out of the same parameter, or
// a call of a helper on a header with a root read out of that same header; the position, or "".
func sameSideComparison(fn *ssa.Function) string {
	pos := ""
	for _, g := range withNewCallees(fn) {
		eachInstr(g, func(in ssa.Instruction) {
			ci, ok := in.(*ssa.Call)
			if !ok || ci.Common().IsInvoke() || len(ci.Common().Args) < 2 {
				return
			}
			args := ci.Common().Args
			p0 := paramBehind(args[0], 0)
			if p0 == nil || p0.Parent() != fn {
				return
			}
			f := calleeFunc(ci.Common())
			switch {
			case funcIs(f, pkgCid, "Cid", "Equals"):
				if paramBehind(args[1], 0) == p0 {
					pos = fn.Prog.Fset.Position(ci.Pos()).String()
				}
			case f != nil && f.Pkg() != nil && f.Pkg().Path() == pkgV1 && namedOf(args[0].Type()) != nil && namedOf(args[0].Type()).Obj().Name() == "CarHeader":
				for _, a := range args[1:] {
					if isNamed(a.Type(), pkgCid, "Cid") && paramBehind(a, 0) == p0 {
						pos = fn.Prog.Fset.Position(ci.Pos()).String()
					}
				}
			}
		})
	}
	if i := strings.Index(pos, "/v2/"); i >= 0 {
		pos = pos[i+1:]
	}
	if f := strings.Split(pos, ":"); len(f) == 3 {
		pos = f[0] + ":" + f[1]
	}
	return pos
}

// R03B: MultihashIndexSorted.Load gives each hash function's bucket the records of that hash
// function: what it hands to the bucket's Load is the group it has just taken out of its
// by-code map (the value of the range, or a lookup in that map) — not the list it was given, which
// holds the records of every hash function.
func ruleR03B(c *Ctx, r *Report) {
	fn, err := c.Func(pkgIndex, "MultihashIndexSorted", "Load")
	if err != nil {
		r.InfraFail("%v", err)
		return
	}
	key := "bucket-gets-its-group@" + fnKey(fn)
	n, bad := 0, ""
	eachInstr(fn, func(in ssa.Instruction) {
		ci, ok := in.(*ssa.Call)
		if !ok {
			return
		}
		f := calleeFunc(ci.Common())
		if !funcIs(f, pkgIndex, "multiWidthIndex", "Load") && !funcIs(f, pkgIndex, "multiWidthCodedIndex", "Load") {
			return
		}
		n++
		args := ci.Common().Args
		arg := canon(args[len(args)-1])
		fromMap := false
		switch x := arg.(type) {
		case *ssa.Extract:
			if nx, ok := x.Tuple.(*ssa.Next); ok && !nx.IsString && x.Index == 2 {
				fromMap = true
			}
		case *ssa.Lookup:
			_, fromMap = x.X.Type().Underlying().(*types.Map)
		}
		if p := paramBehind(arg, 0); p != nil && p.Parent() == fn {
			bad = fmt.Sprintf("at %s the bucket of one hash function is loaded with the whole list Load was given: every bucket then holds every record, a digest is found under a hash function it was never stored under, and ForEach lists each section once per hash function", c.Pos(ci.Pos()))
		} else if !fromMap && bad == "" {
			bad = fmt.Sprintf("what the bucket is loaded with at %s is not a group taken from the by-code map", c.Pos(ci.Pos()))
		}
	})
	if n == 0 {
		r.Undec(key, c.Pos(fn.Pos()), "no bucket Load found in MultihashIndexSorted.Load")
		return
	}
	r.Check(bad == "", key, c.Pos(fn.Pos()), "each bucket is loaded with its own group of the by-code map", bad)
}

// R15t: the counting pass and the writing pass agree on a block that is loaded again. The teeing link
// system writes a block once per session (its record map is the "already written" set); the counting
// link system, whose total becomes the announced size, must count it once too: the additions to the
// running total sit behind a not-seen-before test.
func ruleR15t(c *Ctx, r *Report) {
	fn, err := c.Func(pkgLoader, "", "CountingLinkSystem")
	if err != nil {
		r.InfraFail("%v", err)
		return
	}
	op := readOpenerOf(fn)
	if op == nil {
		r.Undec("count-once@"+fnKey(fn), c.Pos(fn.Pos()), "opener closure not found")
		return
	}
	key := "count-once@" + fnKey(op)
	// additions to the counter's total in the opener (and the helpers spliced into it)
	var adds []*ssa.Store
	eachInstr(op, func(in ssa.Instruction) {
		st, ok := in.(*ssa.Store)
		if !ok {
			return
		}
		fa, ok := st.Addr.(*ssa.FieldAddr)
		if !ok || !fieldAddrIs(fa, pkgLoader, "counter", "totalRead") {
			return
		}
		adds = append(adds, st)
	})
	if len(adds) == 0 {
		r.Undec(key, c.Pos(op.Pos()), "the opener does not add to counter.totalRead")
		return
	}
	// the "seen before" outcome of a comma-ok map lookup
	seen := condEdges(op, func(base ssa.Value) (bool, bool) {
		if ex, ok := base.(*ssa.Extract); ok && ex.Index == 1 {
			if lk, ok := ex.Tuple.(*ssa.Lookup); ok && lk.CommaOk {
				return true, true
			}
		}
		// a set kept as map[K]bool: the value looked up is the membership
		if lk, ok := base.(*ssa.Lookup); ok && !lk.CommaOk {
			if mt, ok := lk.X.Type().Underlying().(*types.Map); ok {
				if b, ok := mt.Elem().Underlying().(*types.Basic); ok && b.Kind() == types.Bool {
					return true, true
				}
			}
		}
		return false, false
	})
	bad := ""
	if len(seen) == 0 {
		bad = "the counting opener has no already-counted test"
	} else {
		for _, e := range seen {
			rs := reachFromEdge(op, e, nil)
			for _, st := range adds {
				if rs[st.Block()] {
					bad = fmt.Sprintf("the size of a block that was counted before is added again at %s", c.Pos(st.Pos()))
				}
			}
			// nor are its data bytes: the reader handed back is not the counting one
			for _, ret := range returnsOf(op) {
				if !rs[ret.Block()] || len(ret.Results) == 0 {
					continue
				}
				if mi, ok := ret.Results[0].(*ssa.MakeInterface); ok && isNamed(mi.X.Type(), pkgLoader, "countingReader") && ret.Block() == e.From.Succs[e.Succ] {
					bad = fmt.Sprintf("for a block that was counted before the opener returns a counting reader at %s: its data bytes are counted again", c.Pos(ret.Pos()))
				}
			}
		}
	}
	// and a block that was NOT counted before is counted, whatever it holds: the only way past the
	// additions to a success return is the seen-before outcome
	if bad == "" {
		cut := edgeSet(seen)
		addBlocks := map[*ssa.BasicBlock]bool{}
		for _, st := range adds {
			addBlocks[st.Block()] = true
		}
		for _, b := range op.Blocks {
			for i, sc := range b.Succs {
				if addBlocks[sc] {
					cut[Edge{From: b, Succ: i}] = true
				}
			}
		}
		rs := reach(op, nil, cut)
		for _, ret := range returnsOf(op) {
			if !rs[ret.Block()] || addBlocks[ret.Block()] || len(ret.Results) < 2 {
				continue
			}
			rv := retResult(ret, len(ret.Results)-1)
			if isNilConst(rv) || nilness(rv, ret.Block()) == 1 {
				bad = fmt.Sprintf("the opener can return a reader at %s for a block it has not counted before without adding its section size", c.Pos(ret.Pos()))
			}
		}
	}
	r.Check(bad == "", key, c.Pos(op.Pos()), "a block's section size is added only when the block is counted for the first time", bad+": the teeing link system writes a block once however often the traversal loads it, so with a repeated link and link-visit-once off the announced size exceeds the bytes written and the writer fails with ErrSizeMismatch after the fact")
}

// ---- round 11: arithmetic and boundaries -----------------------------------------------------------

// R15v: traversalCar.WriteTo reports every byte it handed to the writer. Each call that writes and
// returns a count (the header, the payload pass, the index padding, the index) is part of the count
// returned on every return that follows it.
func ruleR15v(c *Ctx, r *Report) {
	fn, err := c.Func(modV2, "traversalCar", "WriteTo")
	if err != nil {
		r.InfraFail("%v", err)
		return
	}
	n := 0
	eachInstr(fn, func(in ssa.Instruction) {
		ci, ok := in.(*ssa.Call)
		if !ok {
			return
		}
		name := ""
		if ci.Call.IsInvoke() {
			name = ci.Call.Method.Name()
		} else if f := calleeFunc(ci.Common()); f != nil {
			name = f.Name()
		}
		switch name {
		case "Write", "WriteTo", "WriteV1", "WriteV2Header":
		default:
			return
		}
		sig := ci.Common().Signature()
		if sig == nil || sig.Results().Len() < 2 || !isIntegral(sig.Results().At(0).Type()) {
			return
		}
		n++
		key := fmt.Sprintf("count-includes-write@%s#%s%d", fnKey(fn), name, n)
		cnt := extractOf(ci, 0)
		bad := ""
		for _, ret := range returnsOf(fn) {
			if !instrReaches(in, ret) || len(ret.Results) == 0 {
				continue
			}
			has := false
			if cnt != nil {
				for _, o := range origins(retResult(ret, 0), originOpts{binops: true}) {
					if o.Kind == "call" {
						if cl, _ := callOf(o.Val); cl == ci {
							has = true
						}
					}
				}
			}
			if !has {
				bad = fmt.Sprintf("the count returned at %s leaves out what %s at %s wrote", c.Pos(ret.Pos()), name, c.Pos(ci.Pos()))
			}
		}
		r.Check(bad == "", key, c.Pos(ci.Pos()), "its count is part of every later return", bad+": io.WriterTo callers use the returned count as the number of bytes now in the destination (to position what follows, to check against the announced size)")
	})
	if n < 3 {
		r.Undec("count-includes-write@"+fnKey(fn), c.Pos(fn.Pos()), fmt.Sprintf("only %d counting writes found in traversalCar.WriteTo", n))
	}
}

// R15u: the payload pass of the selective writer starts its offsets at the size of the CARv1 header
// it has just written: offsets in the index are payload-relative, paddings are the header's business.
func ruleR15u(c *Ctx, r *Report) {
	fn, err := c.Func(modV2, "traversalCar", "WriteV1")
	if err != nil {
		r.InfraFail("%v", err)
		return
	}
	key := "tee-starts-after-header@" + fnKey(fn)
	calls := callsToFunc(fn, pkgLoader, "", "TeeingLinkSystem")
	if len(calls) != 1 {
		r.Undec(key, c.Pos(fn.Pos()), "expected one TeeingLinkSystem call in WriteV1")
		return
	}
	bad := ""
	for v := range flowSources(calls[0].Common().Args[2]) {
		if fv, _ := fieldOfLoad(canon(v)); fv != nil && (fv.Name() == "DataPadding" || fv.Name() == "IndexPadding" || fv.Name() == "DataOffset") {
			bad = fmt.Sprintf("the initial offset handed to the teeing link system includes %s", fv.Name())
		}
	}
	r.Check(bad == "", key, c.Pos(calls[0].Pos()), "initial offset = size of the CARv1 header written", bad+": the tee's running size is what WriteV1 returns as the payload size and what the index offsets are relative to; a padding added here inflates the announced data size and shifts every index entry")
}

// R12x: Resume leaves the writer where the next section goes, whatever it found.
func ruleR12x(c *Ctx, r *Report) {
	fn, err := c.Func(pkgStore, "", "Resume")
	if err != nil {
		r.InfraFail("%v", err)
		return
	}
	key := "writer-positioned@" + fnKey(fn)
	var seeks []*ssa.Call
	eachInstr(fn, func(in ssa.Instruction) {
		ci, ok := in.(*ssa.Call)
		if !ok {
			return
		}
		name := ""
		if ci.Call.IsInvoke() {
			name = ci.Call.Method.Name()
		} else if f := calleeFunc(ci.Common()); f != nil {
			name = f.Name()
		}
		if name != "Seek" {
			return
		}
		recv := callArgs(ci.Common())[0]
		if p, ok := canon(recv).(*ssa.Parameter); ok && strings.Contains(strings.ToLower(p.Name()), "writer") {
			seeks = append(seeks, ci)
		}
	})
	if len(seeks) == 0 {
		r.Undec(key, c.Pos(fn.Pos()), "Resume does not Seek its data writer parameter")
		return
	}
	cut := EdgeSet{}
	seekBlock := map[*ssa.BasicBlock]bool{}
	for _, s := range seeks {
		seekBlock[s.Block()] = true
	}
	for _, b := range fn.Blocks {
		for i, s := range b.Succs {
			if seekBlock[s] {
				cut[Edge{From: b, Succ: i}] = true
			}
		}
	}
	bad := ""
	rs := reach(fn, nil, cut)
	for _, ret := range returnsOf(fn) {
		if !rs[ret.Block()] || seekBlock[ret.Block()] || len(ret.Results) == 0 {
			continue
		}
		rv := retResult(ret, len(ret.Results)-1)
		if nilness(rv, ret.Block()) != 2 {
			bad = fmt.Sprintf("Resume can return at %s without having positioned the data writer (and not with an error known to be non-nil)", c.Pos(ret.Pos()))
		}
	}
	r.Check(bad == "", key, c.Pos(seeks[0].Pos()), "every return that may report success is behind dataWriter.Seek", bad+": a writer left at the start of the payload overwrites the CARv1 header with the next section (a file reopened before its first block)")
}

// R20q: after a once-only callback was spliced out of the list, the loop looks at the same slot again.
func ruleR20q(c *Ctx, r *Report) {
	fn, err := c.Func(pkgDeferred, "DeferredCarWriter", "Put")
	if err != nil {
		r.InfraFail("%v", err)
		return
	}
	key := "slot-revisited-after-splice@" + fnKey(fn)
	// the splice: a store to the putCb field of an append result
	var splice *ssa.Store
	eachInstr(fn, func(in ssa.Instruction) {
		st, ok := in.(*ssa.Store)
		if !ok {
			return
		}
		fa, ok := st.Addr.(*ssa.FieldAddr)
		if !ok {
			return
		}
		if fv := fieldVar(fa.X.Type(), fa.Field); fv == nil || fv.Name() != "putCb" {
			return
		}
		if cl, _ := callOf(canon(st.Val)); cl != nil {
			if b, ok := cl.Call.Value.(*ssa.Builtin); ok && b.Name() == "append" {
				splice = st
			}
		}
	})
	if splice == nil {
		r.Undec(key, c.Pos(fn.Pos()), "no splice of putCb (append of two sub-slices) found in Put")
		return
	}
	// the loop index: the integer phi that indexes putCb
	var idx *ssa.Phi
	eachInstr(fn, func(in ssa.Instruction) {
		ia, ok := in.(*ssa.IndexAddr)
		if !ok {
			return
		}
		if ph, ok := ia.Index.(*ssa.Phi); ok && len(ph.Edges) >= 2 && isIntegral(ph.Type()) {
			idx = ph
		}
	})
	if idx == nil {
		r.Undec(key, c.Pos(fn.Pos()), "loop index over putCb not found")
		return
	}
	// blocks on a way from the splice to the loop header
	after := map[*ssa.BasicBlock]bool{splice.Block(): true}
	for work := []*ssa.BasicBlock{splice.Block()}; len(work) > 0; {
		b := work[len(work)-1]
		work = work[:len(work)-1]
		for _, s := range b.Succs {
			if s != idx.Block() && !after[s] {
				after[s] = true
				work = append(work, s)
			}
		}
	}
	// the value the index takes for the next iteration on the path through the splice
	var eval func(v ssa.Value, depth int) (int64, bool) // v == idx + k on that path
	eval = func(v ssa.Value, depth int) (int64, bool) {
		if depth > 8 {
			return 0, false
		}
		if v == ssa.Value(idx) {
			return 0, true
		}
		switch x := v.(type) {
		case *ssa.BinOp:
			if k, ok := constInt(x.Y); ok && (x.Op == token.ADD || x.Op == token.SUB) {
				if b, ok2 := eval(x.X, depth+1); ok2 {
					if x.Op == token.ADD {
						return b + k, true
					}
					return b - k, true
				}
			}
		case *ssa.Phi:
			for i, e := range x.Edges {
				p := x.Block().Preds[i]
				if p == splice.Block() || splice.Block().Dominates(p) {
					return eval(e, depth+1)
				}
			}
		}
		return 0, false
	}
	_ = after
	bad := ""
	found := false
	for i, e := range idx.Edges {
		if idx.Block().Preds[i].Dominates(idx.Block()) && !idx.Block().Dominates(idx.Block().Preds[i]) {
			continue // the entry edge
		}
		if !after[idx.Block().Preds[i]] {
			continue // a way round the loop that does not pass the splice
		}
		k, ok := eval(e, 0)
		if !ok {
			continue
		}
		found = true
		if k != 0 {
			bad = fmt.Sprintf("after the splice the loop goes on with index i%+d", k)
		}
	}
	if !found {
		r.Undec(key, c.Pos(splice.Pos()), "the index carried to the next iteration after the splice could not be expressed as i + k")
		return
	}
	r.Check(bad == "", key, c.Pos(splice.Pos()), "next index after a splice = i", bad+": the splice moved the following entry into slot i, so going on with i+1 skips it — the callback registered right after a once-only one is not called for that Put")
}

// R03z: ReadOrGenerateIndex generates the index of a CARv2 over its payload window. The offsets an
// index holds are payload-relative; a walk over the whole file from DataOffset on records absolute
// positions (and is not bounded by DataSize).
func ruleR03z(c *Ctx, r *Report) {
	fn, err := c.Func(modV2, "", "ReadOrGenerateIndex")
	if err != nil {
		r.InfraFail("%v", err)
		return
	}
	key := "generated-over-payload@" + fnKey(fn)
	gens := callsToFunc(fn, modV2, "", "GenerateIndex")
	if len(gens) == 0 {
		r.Undec(key, c.Pos(fn.Pos()), "ReadOrGenerateIndex does not call GenerateIndex")
		return
	}
	// the version-2 outcome of the version switch
	isV2 := condEdges(fn, func(base ssa.Value) (bool, bool) {
		b, ok := base.(*ssa.BinOp)
		if !ok || b.Op != token.EQL {
			return false, false
		}
		if k, ok := constInt(b.Y); ok && k == 2 {
			return true, true
		}
		if k, ok := constInt(b.X); ok && k == 2 {
			return true, true
		}
		return false, false
	})
	bad := ""
	n := 0
	for _, e := range isV2 {
		rs := reachFromEdge(fn, e, nil)
		for _, g := range gens {
			if !rs[g.Block()] {
				continue
			}
			n++
			ok := false
			for _, o := range origins(g.Common().Args[0], originOpts{}) {
				if o.Kind == "call" && funcIs(o.Fn, modV2, "Reader", "DataReader") {
					ok = true
				} else {
					ok = false
					break
				}
			}
			if !ok {
				bad = fmt.Sprintf("for a CARv2 the index is generated at %s over something other than Reader.DataReader()", c.Pos(g.Pos()))
			}
		}
	}
	if n == 0 {
		r.Undec(key, c.Pos(fn.Pos()), "no GenerateIndex call found on the version-2 branch")
		return
	}
	r.Check(bad == "", key, c.Pos(fn.Pos()), "CARv2 without index: GenerateIndex(v2r.DataReader())", bad+": index offsets are payload-relative; generated over the file from DataOffset on they are all too large by DataOffset, every lookup resolves but lands in another section")
}

// R03A: LoadIndex tests the end of the payload before it reads a section length, not only after it
// has stepped over a section. A CARv2 whose payload holds no section at all (a finalized store
// nothing was put into) ends right behind the inner header: a scan that reads first decodes the
// padding or the index as a section (D21).
func ruleR03A(c *Ctx, r *Report) {
	fn, err := c.Func(modV2, "", "LoadIndex")
	if err != nil {
		r.InfraFail("%v", err)
		return
	}
	key := "payload-end-test-before-read@" + fnKey(fn)
	isSize := func(v ssa.Value) bool {
		hasField := false
		for _, o := range origins(v, originOpts{}) {
			switch {
			case o.Kind == "field" && o.Field != nil && o.Field.Name() == "DataSize":
				hasField = true
			case o.Kind == "const":
			default:
				return false
			}
		}
		return hasField
	}
	tests := map[*ssa.BasicBlock]bool{}
	for _, b := range fn.Blocks {
		// the comparison may be the branch condition itself or feed it through the result of an
		// inlined predicate helper: the block that computes it counts
		for _, in := range b.Instrs {
			cmp, ok := in.(*ssa.BinOp)
			if !ok {
				continue
			}
			switch cmp.Op {
			case token.GEQ, token.GTR, token.LSS, token.LEQ:
			default:
				continue
			}
			var other ssa.Value
			switch {
			case isSize(cmp.Y) && !isSize(cmp.X):
				other = cmp.X
			case isSize(cmp.X) && !isSize(cmp.Y):
				other = cmp.Y
			default:
				continue
			}
			if _, isConst := constInt(other); isConst {
				continue
			}
			tests[b] = true
		}
	}
	// the `dataSize != 0 &&` in front of the test: a block that branches on DataSize against zero
	// and has the test as a successor
	gate := map[*ssa.BasicBlock]bool{}
	for _, b := range fn.Blocks {
		if len(b.Instrs) == 0 {
			continue
		}
		iff, ok := b.Instrs[len(b.Instrs)-1].(*ssa.If)
		if !ok {
			continue
		}
		base, _ := condNorm(iff.Cond)
		cmp, ok := base.(*ssa.BinOp)
		if !ok || cmp.Op != token.EQL && cmp.Op != token.NEQ && cmp.Op != token.GTR && cmp.Op != token.LEQ {
			continue
		}
		zero := func(v ssa.Value) bool { k, ok := constInt(v); return ok && k == 0 }
		if !(isSize(cmp.X) && zero(cmp.Y) || isSize(cmp.Y) && zero(cmp.X)) {
			continue
		}
		for _, s := range b.Succs {
			if tests[s] {
				gate[b] = true
			}
		}
	}
	var reads []*ssa.Call
	eachInstr(fn, func(in ssa.Instruction) {
		if ci, ok := in.(*ssa.Call); ok && ci.Parent() == fn {
			if f := calleeFunc(ci.Common()); funcIs(f, pkgVarint, "", "ReadUvarint") {
				reads = append(reads, ci)
			}
		}
	})
	switch {
	case len(tests) == 0:
		r.Undec(key, c.Pos(fn.Pos()), "no end-of-payload test against DataSize found")
		return
	case len(reads) == 0:
		r.Undec(key, c.Pos(fn.Pos()), "no section-length read (varint.ReadUvarint) found")
		return
	}
	seen := map[*ssa.BasicBlock]bool{fn.Blocks[0]: true}
	work := []*ssa.BasicBlock{fn.Blocks[0]}
	for len(work) > 0 {
		b := work[len(work)-1]
		work = work[:len(work)-1]
		if tests[b] || gate[b] {
			continue
		}
		for _, s := range b.Succs {
			if !seen[s] {
				seen[s] = true
				work = append(work, s)
			}
		}
	}
	bad := ""
	for _, rd := range reads {
		if seen[rd.Block()] && !tests[rd.Block()] && !gate[rd.Block()] {
			bad = fmt.Sprintf("the section length read at %s is reached without the end-of-payload test (position against DataSize) having been made: the test only follows a section, so a CARv2 whose payload holds no sections is read past its payload — the padding or the index is decoded as a section and GenerateIndex fails on a valid file", c.Pos(rd.Pos()))
		}
	}
	r.Check(bad == "", key, c.Pos(fn.Pos()), fmt.Sprintf("%d section-length read(s), each behind the end-of-payload test on every path", len(reads)), bad)
}

// R09x: the length a single-width bucket announces is refused when it does not fit an int64 — the
// announced length itself (plus what is being added to it), not a quantity derived from it. The
// value is handed to io.CopyN as int64(dataLen): a negative count copies nothing and reports
// success, which leaves a bucket that claims records it does not hold (lookups index out of range).
func ruleR09x(c *Ctx, r *Report) {
	fn, err := c.Func(pkgIndex, "singleWidthIndex", "checkUnmarshalLengths")
	if err != nil {
		r.InfraFail("%v", err)
		return
	}
	key := "length-fits-int64@" + fnKey(fn)
	if len(fn.Params) < 3 {
		r.Undec(key, c.Pos(fn.Pos()), "checkUnmarshalLengths has no length parameter")
		return
	}
	// the length parameter: the first uint64 parameter after the receiver
	var lenP *ssa.Parameter
	for _, p := range fn.Params[1:] {
		if b, ok := p.Type().Underlying().(*types.Basic); ok && b.Kind() == types.Uint64 {
			lenP = p
			break
		}
	}
	if lenP == nil {
		r.Undec(key, c.Pos(fn.Pos()), "no uint64 length parameter found")
		return
	}
	env := &AffEnv{name: func(v ssa.Value) string {
		if p, ok := v.(*ssa.Parameter); ok {
			if p == lenP {
				return "LEN"
			}
			return "param:" + p.Name()
		}
		return ""
	}}
	found, bad := false, ""
	for _, b := range fn.Blocks {
		if len(b.Instrs) == 0 {
			continue
		}
		iff, ok := b.Instrs[len(b.Instrs)-1].(*ssa.If)
		if !ok {
			continue
		}
		base, neg := condNorm(iff.Cond)
		cmp, ok := base.(*ssa.BinOp)
		if !ok {
			continue
		}
		// int64(x) < 0 or int64(x) >= 0
		var conv *ssa.Convert
		switch {
		case cmp.Op == token.LSS || cmp.Op == token.GEQ:
			if k, isK := constInt(cmp.Y); isK && k == 0 {
				conv, _ = cmp.X.(*ssa.Convert)
			}
		case cmp.Op == token.GTR || cmp.Op == token.LEQ:
			if k, isK := constInt(cmp.X); isK && k == 0 {
				conv, _ = cmp.Y.(*ssa.Convert)
			}
		}
		_ = neg
		if conv == nil {
			continue
		}
		to, _ := conv.Type().Underlying().(*types.Basic)
		from, _ := conv.X.Type().Underlying().(*types.Basic)
		if to == nil || from == nil || to.Kind() != types.Int64 || from.Info()&types.IsUnsigned == 0 {
			continue
		}
		rejects := false
		for _, s := range b.Succs {
			if blockRejects(s) {
				rejects = true
			}
		}
		if !rejects {
			continue
		}
		found = true
		a := env.of(conv.X)
		okForm := a.T["LEN"] == 1
		for atom := range a.T {
			if atom != "LEN" && !strings.HasPrefix(atom, "param:") {
				okForm = false
			}
		}
		if !okForm {
			bad = fmt.Sprintf("the int64 overflow test at %s is made on %s, not on the announced length: a length of 2^63 or more with a width above one divides down into range and passes, and int64(dataLen) handed to io.CopyN is then negative — nothing is copied, success is reported, and the bucket claims records it does not hold", c.Pos(cmp.Pos()), a.String())
		}
	}
	if !found {
		bad = "no test refuses a length whose conversion to int64 is negative"
	}
	r.Check(bad == "", key, c.Pos(fn.Pos()), "int64(dataLen [+ extra]) < 0 is refused", bad)
}

// R15w: in traversalCar.WriteV2Header the zero bytes written behind the CARv2 header bring the
// stream to DataOffset: their number is DataOffset minus everything written so far — the pragma
// AND the header. (With only one of the two subtracted the payload starts 40 or 11 bytes behind
// the offset the header announces, whenever data padding is set.)
func ruleR15w(c *Ctx, r *Report) {
	fn, err := c.Func(modV2, "traversalCar", "WriteV2Header")
	if err != nil {
		r.InfraFail("%v", err)
		return
	}
	key := "padding-reaches-data-offset@" + fnKey(fn)
	var pragmaW, headerW *ssa.Call
	eachInstr(fn, func(in ssa.Instruction) {
		ci, ok := in.(*ssa.Call)
		if !ok {
			return
		}
		if f := calleeFunc(ci.Common()); funcIs(f, modV2, "Header", "WriteTo") {
			headerW = ci
			return
		}
		if ci.Common().IsInvoke() && ci.Common().Method.Name() == "Write" && len(ci.Common().Args) == 1 && isGlobalLoad(canon(ci.Common().Args[0]), modV2, "Pragma") {
			pragmaW = ci
		}
	})
	var pads []*ssa.MakeSlice
	eachInstr(fn, func(in ssa.Instruction) {
		if ms, ok := in.(*ssa.MakeSlice); ok {
			pads = append(pads, ms)
		}
	})
	if pragmaW == nil || headerW == nil || len(pads) == 0 {
		r.Undec(key, c.Pos(fn.Pos()), "the pragma write, the header write or the padding buffer was not found")
		return
	}
	env := &AffEnv{name: func(v ssa.Value) string {
		if ex, ok := canon(v).(*ssa.Extract); ok && ex.Index == 0 {
			switch ex.Tuple {
			case ssa.Value(pragmaW):
				return "P"
			case ssa.Value(headerW):
				return "H"
			}
		}
		if fv, _ := fieldOfLoad(canon(v)); fv != nil && fv.Name() == "DataOffset" {
			return "DO"
		}
		return ""
	}}
	want := affAtom("DO").add(affAtom("P"), -1).add(affAtom("H"), -1)
	bad := ""
	for _, ms := range pads {
		if got := env.of(ms.Len); !got.equal(want) {
			bad = fmt.Sprintf("the padding written at %s is %s bytes long (DO = DataOffset, P = bytes of the pragma, H = bytes of the header); it has to be %s for the payload to start at DataOffset", c.Pos(ms.Pos()), got.String(), want.String())
		}
	}
	r.Check(bad == "", key, c.Pos(fn.Pos()), "padding = DataOffset - pragma - header", bad)
}

// R17i: "write to standard output" is what the caller said — the name it passed, compared with "-" —
// and never a path the function derived from it (the resolved directory is "" in that mode, not "-":
// tested in its place the bare-file root is created under a name resolved against an empty
// directory, in the working directory).
func ruleR17i(c *Ctx, r *Report) {
	n := 0
	for _, name := range []string{"ExtractToDir", "extractFile"} {
		fn, err := c.Func(pkgCmdLib, "", name)
		if err != nil {
			r.InfraFail("%v", err)
			continue
		}
		key := "stdout-test-on-the-argument@" + fnKey(fn)
		bad := ""
		for _, g := range withAnon(fn) {
			eachInstr(g, func(in ssa.Instruction) {
				b, ok := in.(*ssa.BinOp)
				if !ok || b.Op != token.EQL && b.Op != token.NEQ {
					return
				}
				for _, xy := range [][2]ssa.Value{{b.X, b.Y}, {b.Y, b.X}} {
					k, ok := xy[1].(*ssa.Const)
					if !ok || k.Value == nil || k.Value.Kind() != constant.String || constant.StringVal(k.Value) != "-" {
						continue
					}
					n++
					v := canon(xy[0])
					if fvb, isFV := v.(*ssa.FreeVar); isFV {
						if bnd := freeVarBinding(fvb); bnd != nil {
							v = canon(bnd)
						}
					}
					if l, isLoad := v.(*ssa.UnOp); isLoad && l.Op == token.MUL {
						if al, isAl := l.X.(*ssa.Alloc); isAl {
							if sts := storesTo(al); len(sts) == 1 {
								v = canon(sts[0].Val)
							}
						}
					}
					if _, isParam := v.(*ssa.Parameter); !isParam {
						bad = fmt.Sprintf("the test for \"-\" at %s is made on a value the function computed, not on the name the caller passed: in standard-output mode that value is not \"-\", so the branch meant for a directory runs without one", c.Pos(b.Pos()))
					}
				}
			})
		}
		r.Check(bad == "", key, c.Pos(fn.Pos()), "every comparison with \"-\" is on a parameter", bad)
	}
	if n == 0 {
		r.Undec("stdout-test-on-the-argument@cmd/car/lib", "-", "no comparison with \"-\" found in ExtractToDir / extractFile")
	}
}
