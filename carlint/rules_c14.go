package main

import (
	"fmt"
	"go/token"
	"go/types"

	"golang.org/x/tools/go/ssa"
)

func init() {
	register(PropertyDef{
		ID: "C14",
		Explanation: "Decided statically: (R14a) on the CARv2 path of NewBlockReader the payload reader stored in br.r is io.LimitReader(source, int64(DataSize)) of the header " +
			"parsed there, after a relative skip of DataOffset - PragmaSize - HeaderSize, and Next/SkipNext read only through br.r; (R14b) both Next and SkipNext advance " +
			"br.offset by U(X)+X for the section length X (Next: X = c.ByteLen()+len(data); SkipNext: X = the decoded section size, written as lenSize + cidSize + " +
			"(sectionSize - cidSize)), and every successful return of either method has passed that advance; initial offsets are HeaderSize(header) (+ DataOffset for v2); " +
			"(R14c) SkipNext's metadata is {Offset: o - v1offset, SourceOffset: o, Size: sectionSize - cidSize} with o the offset loaded before the advance. " +
			"NOT decided: that the visited CID sequence is identical for every Next/SkipNext choice string; seek-vs-slurp equivalence on real sources.",
		Assumptions: []string{"varint.UvarintSize(x) is the encoded length of x", "cid.Cid.ByteLen() is the encoded CID length"},
		Rules: []RuleDef{
			{ID: "R14a", Floor: 2, Doc: "bounded payload reader for CARv2; reads only through br.r", Run: ruleR14a},
			{ID: "R14b", Floor: 4, Doc: "advance invariant U(X)+X in Next and SkipNext; every success return passes the advance; initial offsets", Run: ruleR14b},
			{ID: "R14d", Floor: 2, Doc: "no bare Read in Next/SkipNext (a Read may be short): bodies are consumed with ReadFull/CopyN/ReadNode; SkipNext returns freshly allocated metadata", Run: ruleR14d},
			{ID: "R14c", Floor: 1, Doc: "SkipNext metadata from the pre-advance offset", Run: ruleR14c},
			{ID: "R14e", Floor: 7, Doc: "the CARv1 header size that seeds the offsets is measured by encoding, like its sibling writers (= R01c)", Run: ruleR01c},
			{ID: "R14f", Floor: 2, Doc: "skipping on non-seekable sources counts every byte (= R03d)", Run: ruleR03d},
			{ID: "R14g", Floor: 1, Doc: "section length reads distinguish clean EOF from truncation the same way for every source type (= R02c)", Run: ruleR02c},
			{ID: "R14h", Floor: 5, Doc: "seeks over block bodies stay within what the reader has (no skip past the bounded payload) (= R02b)", Run: ruleR02b},
			{ID: "R14i", Floor: 8, Doc: "a section is read into a buffer sized by its own decoded length (= R01b)", Run: ruleR01b},
			{ID: "R14j", Floor: 4, Doc: "every byte the block reader consumes goes through the audited adapters, which keep the CARv2 payload bound (= R03o)", Run: ruleR03o},
			{ID: "R14k", Floor: 1, Doc: "SkipNext decodes the section's CID under the bound Next reads it under — the section length: the LimitReader handed to CidFromReader is limited by exactly the decoded section size, not by an unrelated option", Run: ruleR14k},
			{ID: "R14l", Floor: 1, Doc: "no state update is made on a by-value copy: a library function that copies *p (its receiver or a pointer parameter) into a local, assigns fields of the copy and drops it has updated nothing (a position advanced on a copy of the reader)", Run: ruleR14l},
			{ID: "R14m", Floor: 1, Doc: "Next and SkipNext hand Options.ZeroLengthSectionAsEOF to the framing routines as it is (not combined with the version or anything else): both end a null-padded payload with io.EOF, CARv1 or CARv2", Run: ruleR14m},
			{ID: "R14n", Floor: 3, Doc: "Next and SkipNext are bound by the same section-size limit (= R09c)", Run: ruleR09c},
			{ID: "R14o", Floor: 3, Doc: "the block reader works over pipes and sockets as over files: no buffer filled by a single Read (= R02q)", Run: ruleR02q},
			{ID: "R14p", Floor: 9, Doc: "Next accepts every block SkipNext steps over: the hash check recomputes the digest at the CID's own length (= R02a, R02h)", Run: func(c *Ctx, r *Report) { ruleR02a(c, r); ruleR02h(c, r) }},
			{ID: "R14q", Floor: 2, Doc: "the offsets index generation records are payload-relative like the ones BlockReader reports (= R03b)", Run: ruleR03b},
		},
	})
}

func ruleR14a(c *Ctx, r *Report) {
	fn, err := c.Func(modV2, "", "NewBlockReader")
	if err != nil {
		r.InfraFail("%v", err)
		return
	}
	key := "v2-limit-reader@" + fnKey(fn)
	// stores to br.r
	var stores []*ssa.Store
	eachInstr(fn, func(in ssa.Instruction) {
		if st, ok := in.(*ssa.Store); ok {
			if fa, ok := st.Addr.(*ssa.FieldAddr); ok && fieldAddrIs(fa, modV2, "BlockReader", "r") {
				stores = append(stores, st)
			}
		}
	})
	hdrReads := callsToFunc(fn, modV2, "Header", "ReadFrom")
	bad := ""
	if len(stores) != 2 || len(hdrReads) != 1 {
		bad = fmt.Sprintf("expected two assignments of br.r (v1, v2) and one Header.ReadFrom, found %d/%d", len(stores), len(hdrReads))
	} else {
		hdr := hdrReads[0].Common().Args[0]
		src := fn.Params[0]
		nLimited := 0
		for _, st := range stores {
			cl, _ := callOf(canon(st.Val))
			if cl != nil && funcIs(calleeFunc(cl.Common()), "io", "", "LimitReader") {
				nLimited++
				if canon(stripIface(cl.Call.Args[0])) != ssa.Value(src) {
					bad = "the limited reader does not wrap the source reader"
				}
				fv, base := fieldOfLoad(canon(cl.Call.Args[1]))
				if fv == nil || fv.Name() != "DataSize" || !sameValue(base, hdr) {
					bad = "the payload reader is not limited to exactly int64(Header.DataSize) of the header parsed here: reading past the payload consumes the index"
				}
				// behind the relative skip
				okSkip := false
				eachInstr(fn, func(in ssa.Instruction) {
					ci, ok := in.(*ssa.Call)
					if !ok || !isSeekCall(ci) {
						return
					}
					o, w := seekArgs(ci)
					if k, ok := constInt(w); !ok || k != 1 {
						return
					}
					env := &AffEnv{name: func(v ssa.Value) string {
						if fv, b := fieldOfLoad(canon(v)); fv != nil && fv.Name() == "DataOffset" && sameValue(b, hdr) {
							return "DO"
						}
						return ""
					}}
					if env.of(o).equal(affAtom("DO").add(Aff{K: 51}, -1)) && ci.Block().Dominates(st.Block()) {
						okSkip = true
					}
				})
				if bad == "" && !okSkip {
					bad = "no relative skip of DataOffset - 51 before the payload reader is installed"
				}
			} else if canon(stripIface(st.Val)) != ssa.Value(src) {
				bad = "br.r is assigned something other than the source (v1) or its LimitReader (v2)"
			}
		}
		if bad == "" && nLimited != 1 {
			bad = "the CARv2 path does not install an io.LimitReader"
		}
	}
	r.Check(bad == "", key, c.Pos(fn.Pos()), "v2: br.r = io.LimitReader(r, int64(v2h.DataSize)) after skipping DataOffset-51", bad)

	// Next and SkipNext read only through br.r
	for _, name := range []string{"Next", "SkipNext"} {
		m, err := c.Func(modV2, "BlockReader", name)
		if err != nil {
			r.InfraFail("%v", err)
			continue
		}
		key := "reads-through-br.r@" + fnKey(m)
		bad := ""
		n := 0
		eachInstr(m, func(in ssa.Instruction) {
			ci, ok := in.(*ssa.Call)
			if !ok {
				return
			}
			f := calleeFunc(ci.Common())
			var rd ssa.Value
			switch {
			case funcIs(f, pkgV1Util, "", "ReadNode"), funcIs(f, pkgV1Util, "", "LdReadSize"), funcIs(f, pkgV1Util, "", "LdRead"):
				rd = ci.Call.Args[0]
			case funcIs(f, "io", "", "CopyN"):
				rd = ci.Call.Args[1]
			case funcIs(f, pkgCid, "", "CidFromReader"), funcIs(f, "io", "", "LimitReader"), funcIs(f, "io", "", "ReadFull"):
				rd = ci.Call.Args[0]
			default:
				return
			}
			if funcIs(f, "io", "", "LimitReader") {
				return // inspected at its consumer
			}
			n++
			for _, o := range origins(rd, originOpts{through: func(call *ssa.Call, f *types.Func) []ssa.Value {
				if funcIs(f, "io", "", "LimitReader") {
					return call.Call.Args[:1]
				}
				return nil
			}}) {
				if !(o.Kind == "field" && o.Field != nil && o.Field.Name() == "r" && isNamed(o.Base.Type(), modV2, "BlockReader")) {
					bad = fmt.Sprintf("%s at %s reads from something other than br.r", funcKey(f), c.Pos(in.Pos()))
				}
			}
		})
		if n == 0 {
			r.Undec(key, c.Pos(m.Pos()), "no read found")
			continue
		}
		r.Check(bad == "", key, c.Pos(m.Pos()), fmt.Sprintf("%d read(s), all through br.r", n), bad)
	}
}

func offsetStores(fn *ssa.Function) []*ssa.Store {
	var out []*ssa.Store
	eachInstr(fn, func(in ssa.Instruction) {
		if st, ok := in.(*ssa.Store); ok {
			if fa, ok := st.Addr.(*ssa.FieldAddr); ok && fieldAddrIs(fa, modV2, "BlockReader", "offset") {
				// the reader's own field, not that of a by-value copy of the reader
				if al, isAlloc := fa.X.(*ssa.Alloc); isAlloc && !al.Heap {
					return
				}
				out = append(out, st)
			}
		}
	})
	return out
}

func ruleR14b(c *Ctx, r *Report) {
	// ---- Next
	next, err := c.Func(modV2, "BlockReader", "Next")
	if err != nil {
		r.InfraFail("%v", err)
		return
	}
	{
		key := "advance@" + fnKey(next)
		sts := offsetStores(next)
		rn := callsToFunc(next, pkgV1Util, "", "ReadNode")
		bad := ""
		if len(sts) != 1 || len(rn) != 1 {
			bad = "expected one br.offset update and one ReadNode"
		} else {
			cv := extractOf(rn[0].Value(), 0)
			dv := extractOf(rn[0].Value(), 1)
			env := &AffEnv{name: func(v ssa.Value) string {
				if loadsField(v, modV2, "BlockReader", "offset") {
					return "OFF"
				}
				switch canon(v) {
				case cv:
					return "c"
				case dv:
					return "data"
				}
				return ""
			}}
			a := env.of(sts[0].Val)
			X := affAtom("cidlen(c)").add(affAtom("len(data)"), 1)
			want := affAtom("OFF").add(X, 1).add(affAtom("U("+X.String()+")"), 1)
			if !a.equal(want) {
				bad = "br.offset becomes " + a.String() + "; the section occupies U(X)+X bytes with X = c.ByteLen()+len(data): " + want.String()
			}
		}
		r.Check(bad == "", key, c.Pos(next.Pos()), "offset += U(X) + X, X = c.ByteLen() + len(data)", bad)
		passKey := "advance-on-all-success@" + fnKey(next)
		r.Check(len(sts) == 1 && allSuccessPass(next, sts[0]), passKey, c.Pos(next.Pos()), "every block-yielding return passes the offset update", "a block can be returned by Next without br.offset having been advanced (e.g. an early return on the TrustedCAR path): later SkipNext metadata is off by whole sections")
	}
	// ---- SkipNext
	skip, err := c.Func(modV2, "BlockReader", "SkipNext")
	if err != nil {
		r.InfraFail("%v", err)
		return
	}
	{
		key := "advance@" + fnKey(skip)
		sts := offsetStores(skip)
		ls := callsToFunc(skip, pkgV1Util, "", "LdReadSize")
		bad := ""
		if len(sts) != 1 || len(ls) != 1 {
			bad = "expected one br.offset update and one LdReadSize"
		} else {
			sz := extractOf(ls[0].Value(), 0)
			env := &AffEnv{name: func(v ssa.Value) string {
				if loadsField(v, modV2, "BlockReader", "offset") {
					return "OFF"
				}
				if canon(v) == sz {
					return "X"
				}
				return ""
			}}
			a := env.of(sts[0].Val)
			want := affAtom("OFF").add(affAtom("X"), 1).add(affAtom("U(0 +1*X)"), 1)
			if !a.equal(want) {
				bad = "br.offset becomes " + a.String() + "; expected " + want.String() + " (length prefix + section)"
			}
		}
		r.Check(bad == "", key, c.Pos(skip.Pos()), "offset += U(X) + X, X = decoded section size", bad)
		passKey := "advance-on-all-success@" + fnKey(skip)
		r.Check(len(sts) == 1 && allSuccessPass(skip, sts[0]), passKey, c.Pos(skip.Pos()), "every metadata-yielding return passes the offset update", "SkipNext can return metadata without having advanced br.offset (e.g. a shortcut for empty blocks): the next block's offsets point into this section")
	}
	// ---- initial offsets
	nbr, err := c.Func(modV2, "", "NewBlockReader")
	if err != nil {
		r.InfraFail("%v", err)
		return
	}
	{
		key := "initial-offset@" + fnKey(nbr)
		bad := ""
		nHS := 0
		for _, st := range offsetStores(nbr) {
			for _, o := range origins(st.Val, originOpts{binops: true}) {
				switch {
				case o.Kind == "call" && funcIs(o.Fn, pkgV1, "", "HeaderSize"):
					nHS++
				case o.Kind == "field" && o.Field != nil && (o.Field.Name() == "DataOffset" || o.Field.Name() == "offset" || o.Field.Name() == "v1offset"):
				default:
					bad = "initial br.offset derives from something other than HeaderSize(header) and Header.DataOffset"
				}
			}
		}
		if bad == "" && nHS < 2 {
			bad = "initial offset does not include carv1.HeaderSize(header) on both version paths"
		}
		r.Check(bad == "", key, c.Pos(nbr.Pos()), "v1: HeaderSize(header); v2: DataOffset + HeaderSize(inner header)", bad)
	}
}

// allSuccessPass: every return whose first result is not nil is unreachable once the
// block of st is removed from the CFG (or st is in the return's block, before it).
func allSuccessPass(fn *ssa.Function, st ssa.Instruction) bool {
	cut := EdgeSet{}
	for i := range st.Block().Succs {
		cut[Edge{From: st.Block(), Succ: i}] = true
	}
	reachable := reach(fn, nil, cut)
	for _, ret := range returnsOf(fn) {
		if len(ret.Results) == 0 || isNilConst(ret.Results[0]) {
			continue
		}
		if ret.Block() == st.Block() {
			if instrIndex(st) < instrIndex(ret) {
				continue
			}
			return false
		}
		if reachable[ret.Block()] {
			return false
		}
	}
	return true
}

func ruleR14c(c *Ctx, r *Report) {
	fn, err := c.Func(modV2, "BlockReader", "SkipNext")
	if err != nil {
		r.InfraFail("%v", err)
		return
	}
	key := "metadata@" + fnKey(fn)
	sts := offsetStores(fn)
	ls := callsToFunc(fn, pkgV1Util, "", "LdReadSize")
	cf := callsToFunc(fn, pkgCid, "", "CidFromReader")
	if len(sts) != 1 || len(ls) != 1 || len(cf) != 1 {
		r.Undec(key, c.Pos(fn.Pos()), "shape not recognised")
		return
	}
	sz := extractOf(ls[0].Value(), 0)
	cl := extractOf(cf[0].Value(), 0)
	// loads of br.offset that precede the store
	pre := map[ssa.Value]bool{}
	eachInstr(fn, func(in ssa.Instruction) {
		if u, ok := in.(*ssa.UnOp); ok && u.Op == token.MUL && loadsField(u, modV2, "BlockReader", "offset") {
			if !instrReaches(sts[0], u) {
				pre[u] = true
			}
		}
	})
	env := &AffEnv{name: func(v ssa.Value) string {
		if pre[v] {
			return "O"
		}
		if loadsField(v, modV2, "BlockReader", "offset") {
			return "O_after"
		}
		if loadsField(v, modV2, "BlockReader", "v1offset") {
			return "V1"
		}
		switch canon(v) {
		case sz:
			return "X"
		case cl:
			return "n"
		}
		return ""
	}}
	want := map[string]Aff{
		"Offset":       affAtom("O").add(affAtom("V1"), -1),
		"SourceOffset": affAtom("O"),
		"Size":         affAtom("X").add(affAtom("n"), -1),
	}
	got := map[string]Aff{}
	eachInstr(fn, func(in ssa.Instruction) {
		if st, ok := in.(*ssa.Store); ok {
			if fa, ok := st.Addr.(*ssa.FieldAddr); ok && isNamed(fa.X.Type(), modV2, "BlockMetadata") {
				got[fieldVar(fa.X.Type(), fa.Field).Name()] = env.of(st.Val)
			}
		}
	})
	bad := ""
	for f, w := range want {
		g, ok := got[f]
		if !ok {
			bad = "BlockMetadata." + f + " is not set"
		} else if !g.equal(w) {
			bad = fmt.Sprintf("BlockMetadata.%s = %s; expected %s (O = br.offset before the advance)", f, g.String(), w.String())
		}
	}
	r.Check(bad == "", key, c.Pos(fn.Pos()), "Offset = O - v1offset, SourceOffset = O, Size = sectionSize - cidSize (O read before the advance)", bad)
}

func ruleR14d(c *Ctx, r *Report) {
	for _, name := range []string{"Next", "SkipNext"} {
		fn, err := c.Func(modV2, "BlockReader", name)
		if err != nil {
			r.InfraFail("%v", err)
			continue
		}
		key := "no-bare-read@" + fnKey(fn)
		bad := ""
		eachInstr(fn, func(in ssa.Instruction) {
			if ci, ok := in.(*ssa.Call); ok {
				if f := calleeFunc(ci.Common()); f != nil && f.Name() == "Read" && (ci.Common().IsInvoke() || recvOrIface(ci)) {
					bad = "a bare Read at " + c.Pos(in.Pos()) + " is used to consume section bytes: a reader may return fewer bytes than asked (pipes, sockets, HTTP bodies), the position bookkeeping then assumes the full length"
				}
			}
		})
		r.Check(bad == "", key, c.Pos(fn.Pos()), "no single Read call", bad)
	}
	fn, err := c.Func(modV2, "BlockReader", "SkipNext")
	if err != nil {
		r.InfraFail("%v", err)
		return
	}
	key := "fresh-metadata@" + fnKey(fn)
	bad := ""
	for _, ret := range returnsOf(fn) {
		if isNilConst(ret.Results[0]) {
			continue
		}
		if al, ok := canon(ret.Results[0]).(*ssa.Alloc); !ok || !al.Heap {
			bad = "SkipNext returns a pointer that is not a fresh allocation (e.g. into the reader's own state): metadata kept by the caller is overwritten by the next call"
		}
	}
	r.Check(bad == "", key, c.Pos(fn.Pos()), "returns &BlockMetadata{...} allocated per call", bad)
}

func ruleR14k(c *Ctx, r *Report) {
	fn, err := c.Func(modV2, "BlockReader", "SkipNext")
	if err != nil {
		r.InfraFail("%v", err)
		return
	}
	key := "cid-bound@" + fnKey(fn)
	sizes := callsToFunc(fn, pkgV1Util, "", "LdReadSize")
	lims := callsToFunc(fn, "io", "", "LimitReader")
	if len(sizes) != 1 || len(lims) == 0 {
		r.Undec(key, c.Pos(fn.Pos()), "LdReadSize / io.LimitReader not found")
		return
	}
	S := extractOf(sizes[0].Value(), 0)
	bad := ""
	for _, l := range lims {
		if canon(l.Common().Args[1]) != S {
			bad = fmt.Sprintf("the reader the CID is decoded from at %s is limited by something other than the section length: a valid section whose CID is longer than that limit reads with Next and fails with SkipNext", c.Pos(l.Pos()))
		}
	}
	r.Check(bad == "", key, c.Pos(lims[0].Pos()), "LimitReader(r, sectionSize)", bad)
}
